import Model.Untyped
import Drv.Common
/-!
Driver of the C04 correspondence: parses the op lines of `harness/c04.go`
(`u|d|c|b`, postfix expression whose literals are in Go syntax) and runs the MODEL
(`Untyped.binaryExprUntyped`, `convert`, `toMathBig`, ...) on them.

Scope devices shared with the harness (same rules on both sides, see harness/c04.go):
* `big`: some float/complex value met during evaluation has a numerator or denominator of
  >= 1000 bits; go/constant then (from 4096 bits) computes with a 512-bit big.Float, which the
  exact model does not describe.
* `huge-shift`: a valid shift count above 100000 (the op is not executed, resource guard).
-/
open Untyped GoSpec.Const Drv

namespace C04

def digitVal (c : Char) : Option Nat :=
  if c.isDigit then some (c.toNat - 48)
  else if 'a' ≤ c ∧ c ≤ 'f' then some (c.toNat - 87)
  else if 'A' ≤ c ∧ c ≤ 'F' then some (c.toNat - 55)
  else none

def digits (base : Nat) (cs : List Char) : Option Nat :=
  if cs.isEmpty then none
  else cs.foldlM (fun acc c => do
    let d ← digitVal c
    if d < base then some (acc * base + d) else none) 0

def powR (b : Nat) (e : Int) : Rat :=
  if 0 ≤ e then ((b ^ e.toNat : Nat) : Rat) else 1 / ((b ^ (-e).toNat : Nat) : Rat)

def parseExp (cs : List Char) : Option Int :=
  match cs with
  | '+' :: r => (digits 10 r).map Int.ofNat
  | '-' :: r => (digits 10 r).map fun n => -(Int.ofNat n)
  | r => (digits 10 r).map Int.ofNat

def splitAt1 (p : Char → Bool) (cs : List Char) : List Char × Option (List Char) :=
  match cs.span (fun c => !p c) with
  | (a, []) => (a, none)
  | (a, _ :: b) => (a, some b)

/-- mantissa `ddd.ddd` in `base` times `ebase ^ exp` (hex mantissa digits count 4 bits each) -/
def mantExp (mant : List Char) (exp : Option (List Char)) (base : Nat) : Option Rat := do
  let (ip, fpo) := splitAt1 (· == '.') mant
  let fp := fpo.getD []
  if ip.isEmpty ∧ fp.isEmpty then none
  let n ← digits base (ip ++ fp)
  let e : Int ← match exp with
    | none => some 0
    | some cs => parseExp cs
  if base = 16 then
    some ((n : Rat) * powR 2 (e - 4 * fp.length))
  else
    some ((n : Rat) * powR 10 (-(fp.length : Int)) * powR 10 e)

def lower (cs : List Char) : List Char := cs.map Char.toLower

/-- Go number literal -> untyped.Lit (constant.MakeFromLiteral + BasicLit) -/
def parseNumber (tok : String) : Option Lit := do
  let cs0 := tok.toList
  let imag := cs0.getLast? == some 'i'
  let cs1 := if imag then cs0.dropLast else cs0
  let cs := lower (cs1.filter (· != '_'))
  if cs.isEmpty then none
  let (v, isFloat) ← (match cs with
    | '0' :: 'x' :: body =>
      (match splitAt1 (· == 'p') body with
       | (m, some e) => (mantExp m (some e) 16).map fun r => (r, true)
       | (m, none) => (digits 16 m).map fun n => ((n : Rat), false))
    | '0' :: 'b' :: body => (digits 2 body).map fun n => ((n : Rat), false)
    | '0' :: 'o' :: body => (digits 8 body).map fun n => ((n : Rat), false)
    | _ =>
      if cs.any (fun c => c == '.' || c == 'e') then
        (match splitAt1 (· == 'e') cs with
         | (m, e) => (mantExp m e 10).map fun r => (r, true))
      else
        let base := if !imag && cs.length > 1 && cs.head? == some '0' then 8 else 10
        (digits base cs).map fun n => ((n : Rat), false) : Option (Rat × Bool))
  if imag then some ⟨.complex, .cplx 0 v⟩
  else if isFloat then some ⟨.float, .flt v⟩
  else some ⟨.int, .int v.num⟩

def parseRune (tok : String) : Option Lit := do
  let cs := tok.toList
  if cs.length < 3 then none
  let body := (cs.drop 1).dropLast
  let code : Nat ← (match body with
    | [c] => if c == '\\' then none else some c.toNat
    | '\\' :: 'n' :: [] => some 10
    | '\\' :: 't' :: [] => some 9
    | '\\' :: 'r' :: [] => some 13
    | '\\' :: 'a' :: [] => some 7
    | '\\' :: 'b' :: [] => some 8
    | '\\' :: 'f' :: [] => some 12
    | '\\' :: 'v' :: [] => some 11
    | '\\' :: '\\' :: [] => some 92
    | '\\' :: '\'' :: [] => some 39
    | '\\' :: 'x' :: h => if h.length = 2 then digits 16 h else none
    | '\\' :: 'u' :: h => if h.length = 4 then digits 16 h else none
    | '\\' :: 'U' :: h => if h.length = 8 then digits 16 h else none
    | '\\' :: o => if o.length = 3 then digits 8 o else none
    | _ => none : Option Nat)
  some ⟨.rune, .int code⟩

def parseLit (tok : String) : Option Lit :=
  if tok == "true" then some ⟨.bool, .bool true⟩
  else if tok == "false" then some ⟨.bool, .bool false⟩
  else match tok.toList with
    | '"' :: r => if r.getLast? == some '"' then some ⟨.string, .str (String.ofList r.dropLast)⟩ else none
    | '\'' :: _ => parseRune tok
    | _ => parseNumber tok

def binopOf : String → Option BinOp
  | "+" => some .add | "-" => some .sub | "*" => some .mul | "/" => some .quo | "%" => some .rem
  | "&" => some .and | "|" => some .or | "^" => some .xor | "&^" => some .andNot
  | "<<" => some .shl | ">>" => some .shr
  | "==" => some .eql | "!=" => some .neq | "<" => some .lss | "<=" => some .leq | ">" => some .gtr | ">=" => some .geq
  | "&&" => some .land | "||" => some .lor
  | _ => none

def intTypeOf : String → Option IntT
  | "int" => some ⟨true, 64⟩ | "int8" => some ⟨true, 8⟩ | "int16" => some ⟨true, 16⟩
  | "int32" => some ⟨true, 32⟩ | "int64" => some ⟨true, 64⟩
  | "uint" => some ⟨false, 64⟩ | "uint8" => some ⟨false, 8⟩ | "uint16" => some ⟨false, 16⟩
  | "uint32" => some ⟨false, 32⟩ | "uint64" => some ⟨false, 64⟩ | "uintptr" => some ⟨false, 64⟩
  | _ => none

/-- `<<uint8` / `>>int16k`: shift by a typed constant count (`k`: declared constant; same model) -/
def typedShiftOf (t : String) : Option (BinOp × IntT) :=
  let ty (r : List Char) : Option IntT :=
    let r := if r.getLast? == some 'k' then r.dropLast else r
    intTypeOf (String.ofList r)
  match t.toList with
  | '<' :: '<' :: r => (ty r).map fun it => (BinOp.shl, it)
  | '>' :: '>' :: r => (ty r).map fun it => (BinOp.shr, it)
  | _ => none

def unopOf : String → Option UnOp
  | "neg" => some .neg | "pos" => some .pos | "cpl" => some .cpl | "not" => some .not
  | _ => none

def bitLen (n : Nat) : Nat := if n = 0 then 0 else n.log2 + 1
def ratBits (q : Rat) : Nat := max (bitLen q.num.natAbs) (bitLen q.den)
def limitBits : Nat := 1000
def maxShift : Int := 100000

def isBig (l : Lit) : Bool :=
  match l.kind, l.val with
  | .float, .flt q => ratBits q ≥ limitBits
  | .complex, .cplx a b => ratBits a ≥ limitBits || ratBits b ≥ limitBits
  | .float, .cplx a b => ratBits a ≥ limitBits || ratBits b ≥ limitBits
  | .complex, .flt q => ratBits q ≥ limitBits
  | _, _ => false

inductive Outcome where
  | ok (l : Lit)
  | error
  | huge
  deriving Inhabited

structure St where
  stack : List Lit := []
  big : Bool := false

inductive StepRes where
  | push (v : Lit) (rest : List Lit)
  | err
  | huge

def hugeCount (op : BinOp) (x y : Lit) : Bool :=
  (op == .shl || op == .shr) &&
  (match cToInt x.val, cToInt y.val with
   | some _, some n => decide (0 ≤ n) && decide (n < 2 ^ 64) && decide (n > maxShift)
   | _, _ => false)

def ofOpt (r : Option Lit) (rest : List Lit) : StepRes :=
  match r with
  | some v => .push v rest
  | none => .err

def hugeTypedCount (x y : Lit) (it : IntT) : Bool :=
  match convert y (.int it), cToInt x.val with
  | some (.int n), some _ => decide (0 ≤ n) && decide (n > maxShift)
  | _, _ => false

def stepTok (stack : List Lit) (t : String) : StepRes :=
  match binopOf t with
  | some op =>
    (match stack with
     | y :: x :: rest => if hugeCount op x y then .huge else ofOpt (binaryExprUntyped op x y) rest
     | _ => .err)
  | none =>
    match typedShiftOf t with
    | some (op, it) =>
      (match stack with
       | y :: x :: rest => if hugeTypedCount x y it then .huge else ofOpt (shiftTypedCount op x y it) rest
       | _ => .err)
    | none =>
    match unopOf t with
    | some op => (match stack with | x :: rest => ofOpt (unaryExprUntyped op x) rest | _ => .err)
    | none =>
      if t == "real" || t == "imag" then
        (match stack with | x :: rest => ofOpt (realImagUntyped (t == "real") x) rest | _ => .err)
      else if t == "cmplx" then
        (match stack with | y :: x :: rest => ofOpt (complexUntyped x y) rest | _ => .err)
      else ofOpt (parseLit t) stack

/-- the postfix machine: stops at the first error -/
def runRpn (toks : List String) : Outcome × Bool := Id.run do
  let mut st : St := {}
  for t in toks do
    match stepTok st.stack t with
    | .err => return (.error, st.big)
    | .huge => return (.huge, st.big)
    | .push v rest => st := { stack := v :: rest, big := st.big || isBig v }
  match st.stack with
  | [v] => return (.ok v, st.big)
  | _ => return (.error, st.big)

def showRat (q : Rat) : String := toString q.num ++ "/" ++ toString q.den

def quoteStr (s : String) : String := "\"" ++ s ++ "\""

def showLit (l : Lit) : String :=
  match l.kind, l.val with
  | .bool, .bool b => "bool " ++ toString b
  | .string, .str s => "string " ++ quoteStr s
  | .int, .int n => "int " ++ toString n
  | .rune, .int n => "rune " ++ toString n
  | .float, .flt q => "float " ++ showRat q
  | .complex, .cplx a b => "complex " ++ showRat a ++ " " ++ showRat b
  | _, _ => "ill-formed"

def hexByte (n : Nat) : String :=
  let d := "0123456789abcdef".toList
  String.ofList [d.getD (n / 16) '?', d.getD (n % 16) '?']

def targetOf : String → Option Target
  | "bool" => some .bool | "string" => some .string
  | "int" => some (.int ⟨true, 64⟩) | "int8" => some (.int ⟨true, 8⟩) | "int16" => some (.int ⟨true, 16⟩)
  | "int32" => some (.int ⟨true, 32⟩) | "int64" => some (.int ⟨true, 64⟩)
  | "uint" => some (.int ⟨false, 64⟩) | "uint8" => some (.int ⟨false, 8⟩) | "uint16" => some (.int ⟨false, 16⟩)
  | "uint32" => some (.int ⟨false, 32⟩) | "uint64" => some (.int ⟨false, 64⟩) | "uintptr" => some (.int ⟨false, 64⟩)
  | "float32" => some (.float 32) | "float64" => some (.float 64)
  | "complex64" => some (.complex 64) | "complex128" => some (.complex 128)
  | _ => none

def showFloat (bits : Nat) (q : Rat) : String :=
  if (if bits = 32 then isFloat32 q else isFloat64 q) then "=" ++ showRat q else "~"

def showTVal (t : Target) : TVal → String
  | .bool b => "ok " ++ toString b
  | .str bs => "ok s:" ++ String.join (bs.map hexByte)
  | .int n => "ok " ++ toString n
  | .float q => "ok " ++ (match t with | .float bits => showFloat bits q | _ => "?")
  | .complex a b => "ok " ++ (match t with | .complex bits => showFloat (bits / 2) a ++ " " ++ showFloat (bits / 2) b | _ => "?")

def showBig0 : BigRes → String
  | .int n => toString n
  | .rat q => showRat q
  | .floatExact q => "=" ++ showRat q
  | .floatRounded => "~"

def showBig (r : BigRes) : String := "ok " ++ showBig0 r

/-- the in-place modification the harness performs: `x.Add(x, x)` -/
def doubleBig : BigRes → BigRes
  | .int n => .int (n + n)
  | .rat q => .rat (q + q)
  | .floatExact q => .floatExact (q + q)
  | .floatRounded => .floatRounded

def allDistinct : List Nat → Bool
  | [] => true
  | p :: ps => !ps.contains p && allDistinct ps

/-- op `m`: the compiled conversion executed three times, each result doubled in place afterwards;
    printed: the value read at the third execution (for the function form and the loop form: the same
    compiled closure in the model) and whether the three objects are distinct -/
def showMutate (c : BigRes) : String :=
  let (_, runs) := runBigFun c doubleBig 3 ⟨[]⟩
  let third := match runs.getLast? with
    | some (_, some v) => showBig0 v
    | _ => "?"
  "ok " ++ third ++ " " ++ third ++ " " ++ (if allDistinct (runs.map (·.1)) then "fresh" else "shared")

def step (_ : Unit) (line : String) : Unit × String :=
  let toks := line.splitOn " "
  ((), match toks with
  | "u" :: rpn =>
    (match runRpn rpn with
     | (.huge, _) => "huge-shift"
     | (_, true) => "big"
     | (.ok l, _) => showLit l
     | (.error, _) => "error")
  | mode :: ty :: rpn =>
    if mode == "d" || mode == "c" then
      (match targetOf ty with
       | none => "bad-op"
       | some t =>
         match runRpn rpn with
         | (.huge, _) => "huge-shift"
         | (_, true) => "big"
         | (.error, _) => "reject"
         | (.ok l, _) => (match convert l t with | some v => showTVal t v | none => "reject"))
    else if mode == "b" then
      (match (match ty with | "Int" => some BigTarget.int | "Rat" => some .rat | "Float" => some .float | _ => none) with
       | none => "bad-op"
       | some t =>
         match runRpn rpn with
         | (.huge, _) => "huge-shift"
         | (_, true) => "big"
         | (.error, _) => "reject"
         | (.ok l, _) => (match toMathBig l t with | some v => showBig v | none => "reject"))
    else if mode == "m" then
      (match (match ty with | "Int" => some BigTarget.int | "Rat" => some .rat | "Float" => some .float | _ => none) with
       | none => "bad-op"
       | some t =>
         match runRpn rpn with
         | (.huge, _) => "huge-shift"
         | (_, true) => "big"
         | (.error, _) => "reject"
         | (.ok l, _) => (match toMathBig l t with | some v => showMutate v | none => "reject"))
    else "bad-op"
  | _ => "bad-op")

end C04

def main : IO Unit := run () C04.step
