import Model.Imports
import Gen.ImportTables
import Drv.Common
open Imports Drv

/-! Driver for C31: answers the harness ops from the regenerated tables `Gen.ImportTables.allFiles`
    (files active on this platform only), using the model's definitions (`untypedDecode`,
    `traceMethod`, the entry forms). -/

def activeFiles : List FileTbl := Gen.ImportTables.allFiles.filter (·.active)

def str (s : Str) : String := Str.toString s

def leBytes (a b : List Nat) : Bool := !(b < a)

def sortByKey {α : Type} (key : α → Str) (l : List α) : List α :=
  ((l.map (fun x => (Str.bytes (key x), x))).mergeSort (fun a b => leBytes a.1 b.1)).map (·.2)

def declared (path : Str) : Bool := activeFiles.any (declaresPkg · path)

def bindsOf (path : Str) : List BindE :=
  sortByKey (·.key) ((activeFiles.map (fun f => f.binds.flatten.filter (·.path == path))).flatten)
def typesOf (path : Str) : List TypeE :=
  sortByKey (·.key) ((activeFiles.map (fun f => f.types.flatten.filter (·.path == path))).flatten)
def proxiesOf (path : Str) : List TypeE :=
  sortByKey (·.key) ((activeFiles.map (fun f => f.proxies.flatten.filter (·.path == path))).flatten)
def untypedsOf (path : Str) : List UntypedE :=
  sortByKey (·.key) ((activeFiles.map (fun f => f.untypeds.flatten.filter (·.path == path))).flatten)
def wrappersOf (path : Str) : List WrapperE :=
  sortByKey (·.key) ((activeFiles.map (fun f => f.wrappers.flatten.filter (·.path == path))).flatten)

def nameOf (path : Str) : String :=
  match (activeFiles.map (fun f => f.pkgs.filter (·.1 == path))).flatten with
  | (_, n) :: _ => str n
  | [] => ""

def bindClass : ValForm → String
  | .addr .. | .localAddr .. => "var"
  | .plain .. | .conv .. | .localPlain .. | .localConv .. => "val"
  | .opaq => "opaque"

def typeSym : TypeForm → String
  | .named _ s => str s
  | .localNamed s => str s
  | .opaq => "opaque"

def hex2 (n : Nat) : String :=
  let d (k : Nat) : Char := if k < 10 then Char.ofNat (48 + k) else Char.ofNat (87 + k)
  String.ofList [d (n / 16), d (n % 16)]

def showRat (n : Int) (d : Nat) : String := if d == 1 then toString n else toString n ++ "/" ++ toString d

def showUVal : Option UVal → String
  | none => "none"
  | some (.bool b) => "bool:" ++ toString b
  | some (.int v) => "int:" ++ toString v
  | some (.rune v) => "rune:" ++ toString v
  | some (.float n d) => "float:" ++ showRat n d
  | some (.complex a b c d) => "complex:" ++ showRat a b ++ ":" ++ showRat c d
  | some (.string bs) => "string:" ++ String.join (bs.map hex2)

def showField (f : FieldDecl) : String :=
  if f.isFunc then str f.name ++ ":" ++ toString f.params.length ++ ":" ++ toString f.results.length
  else str f.name

def showMethod (m : MethodDecl) : String :=
  str m.name ++ ">" ++
  match traceMethod m with
  | none => "opaque"
  | some (fld, idx, returns) =>
    str fld ++ "(" ++ ",".intercalate (idx.map toString) ++ ")" ++ (if returns then "r" else "v")

def findProxy (path key : Str) : Option ProxyDecl :=
  activeFiles.findSome? (fun f =>
    match f.proxies.flatten.find? (fun e => e.path == path && e.key == key) with
    | some e =>
      match e.form with
      | .localNamed s => f.decls.find? (·.name == s)
      | _ => none
    | none => none)

def stepC31 (_ : Unit) (line : String) : Unit × String :=
  let (op, arg) := cut line
  let path := Str.ofString arg
  ((), match op with
  | "selftest" =>
    str objectName ++ " " ++ str interfaceEmpty ++ " " ++ str 0x15f ++ " " ++ ",".intercalate (basicConvTypes.map str)
  | "pkg" =>
    if !declared path then "none" else
    s!"name={nameOf path} binds={(bindsOf path).length} types={(typesOf path).length} proxies={(proxiesOf path).length} untypeds={(untypedsOf path).length} wrappers={(wrappersOf path).length}"
  | "binds" =>
    if !declared path then "none" else
    " ".intercalate ((bindsOf path).map (fun e => str e.key ++ ":" ++ bindClass e.form))
  | "types" =>
    if !declared path then "none" else " ".intercalate ((typesOf path).map (fun e => str e.key))
  | "proxies" =>
    if !declared path then "none" else
    " ".intercalate ((proxiesOf path).map (fun e => str e.key ++ ":" ++ typeSym e.form))
  | "untyped" =>
    if !declared path then "none" else
    " ".intercalate ((untypedsOf path).map (fun e => str e.key ++ "=" ++ showUVal (untypedDecode e.val)))
  | "wrappers" =>
    if !declared path then "none" else
    " ".intercalate ((wrappersOf path).map (fun e => str e.key ++ ":" ++ ",".intercalate (e.methods.map str)))
  | "interp" | "named" | "dot" =>
    if !declared path then "none" else s!"ok {(bindsOf path).length} {(typesOf path).length}"
  | "proxy" =>
    match arg.splitOn " " with
    | [p, k, _] =>
      match findProxy (Str.ofString p) (Str.ofString k) with
      | none => "none"
      | some d =>
        str d.name ++ "|" ++ ",".intercalate (d.fields.map showField) ++ "|" ++
          " ".intercalate ((sortByKey (·.name) d.methods).map showMethod)
    | _ => "bad-op"
  | "xpkg" | "xbinds" | "xtypes" | "xproxies" | "xuntyped" | "xwrappers" | "xinterp" | "xnamed" | "xdot" | "xproxy" => "unanchored"
  | _ => "bad-op")

def main : IO Unit := run () stepC31
