import Model.Marshal
import Gen.MarshalCfg
import Drv.Common
open Marshal Drv

/-! Driver for C32: same op lines as harness/c32.go, executed on Model/Marshal.lean. -/

def hexNib (n : Nat) : Char := Char.ofNat (if n < 10 then 48 + n else 87 + n)

def esc (b : Bytes) : String :=
  String.ofList (b.foldr (fun c acc =>
    if c > 0x20 ∧ c < 0x7f ∧ c ≠ 92 then Char.ofNat c :: acc
    else '\\' :: 'x' :: hexNib (c / 16) :: hexNib (c % 16) :: acc) [])

def nibVal (c : Char) : Option Nat :=
  let n := c.toNat
  if 48 ≤ n ∧ n ≤ 57 then some (n - 48)
  else if 97 ≤ n ∧ n ≤ 102 then some (n - 87)
  else if 65 ≤ n ∧ n ≤ 70 then some (n - 55)
  else none

partial def unescL : List Char → Bytes
  | '\\' :: 'x' :: a :: b :: rest =>
    match nibVal a, nibVal b with
    | some x, some y => (x * 16 + y) :: unescL rest
    | _, _ => 92 :: unescL ('x' :: a :: b :: rest)
  | c :: rest => c.toNat :: unescL rest
  | [] => []

def unesc (s : String) : Bytes := unescL s.toList

def asString (b : Bytes) : String := String.ofList (b.map Char.ofNat)

def kindName : Kind → String
  | .none => "nil" | .bool => "bool" | .int => "int" | .rune => "rune"
  | .float => "float" | .complex => "complex" | .string => "string"

def showRes : Res → String
  | .ok (.bool b) => "bool " ++ toString b
  | .ok (.int i) => "int " ++ asString (intToDec i)
  | .ok (.rune i) => "rune " ++ asString (intToDec i)
  | .ok (.float f) => "float " ++ asString (exactString f)
  | .ok (.complex re im) => "complex " ++ asString (exactString re) ++ " " ++ asString (exactString im)
  | .ok (.str s) => "string " ++ esc s
  | .ok .nil => "nil"
  | .unknown k => "unknown " ++ kindName k
  | .panic => "panic"
  | .abstain => "abstain"

def fltOfSpec (s : String) : Option Flt :=
  match s.splitOn ":" with
  | ["i", n] => n.toInt?.map (fun n => Flt.rat n 1)
  | ["r", n, d] => match n.toInt?, d.toNat? with
    | some n, some d => some (Flt.rat n d)
    | _, _ => none
  | ["g", m, e] => match m.toInt?, e.toInt? with
    | some m, some e => some (mkBig (decide (m < 0)) m.natAbs e)
    | _, _ => none
  | _ => none

def valOfSpec (arg : String) : Option Val :=
  let (k, rest) := cut arg
  match k with
  | "n" => some .nil
  | "b" => some (.bool (rest == "true"))
  | "i" => rest.toInt?.map Val.int
  | "c" => rest.toInt?.map Val.rune
  | "s" => some (.str (unesc rest))
  | "f" => (fltOfSpec rest).map Val.float
  | "z" =>
    let (a, b) := cut rest
    match fltOfSpec a, fltOfSpec b with
    | some re, some im => some (.complex re im)
    | _, _ => none
  | _ => none

def stepC32 (_ : Unit) (line : String) : Unit × String :=
  let (op, arg) := cut line
  match op with
  | "rt" =>
    match valOfSpec arg with
    | some v =>
      let m := marshal v
      ((), esc m ++ " => " ++ showRes (unmarshal cfgExactInt m))
    | none => ((), "bad-op")
  | "un" => ((), showRes (unmarshal cfgExactInt (unesc arg)))
  | "tab" => let (_, e) := cut arg; ((), showRes (unmarshal cfgExactInt (unesc e)))
  | _ => ((), "bad-op")

def main : IO Unit := run () stepC32
