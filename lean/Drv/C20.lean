import Model.MacroExpand
import Drv.Sx
import Drv.Common
open MacroExpand Drv Sx

/-- `(tbl (mac NAME ARITY RES...) ...)` -/
def resOf (arity : Nat) : SX → Option (List Tree → Tree)
  | .paren [.atom "arg", .atom j] =>
    match j.toNat? with
    | some j => if j < arity then some (fun args => args.getD j .nil) else none
    | none => none
  | .paren [.atom "node", t] => (toTree t).map (fun t _ => t)
  | .paren (.atom "list" :: ts) =>
    (ts.mapM toTree).map (fun ts _ => Tree.list (.other "NodeSlice") .slice "-" .node ts)
  | .paren [.atom "none"] => some (fun _ => .nil)
  | _ => none

def macOf : SX → Option (String × Macro)
  | .paren (.atom "mac" :: .atom name :: .atom ar :: rs) =>
    match ar.toNat? with
    | some ar =>
      (rs.mapM (resOf ar)).map (fun fs => ("n" ++ name, { arity := ar, run := fun args => fs.map (· args) }))
    | none => none
  | _ => none

def tblOf : SX → Option Tbl
  | .paren (.atom "tbl" :: ms) =>
    (ms.mapM macOf).map (fun ms name => (ms.find? (·.1 == name)).map (·.2))
  | _ => none

def showRes : MacroExpand.R (Tree × Bool) → String
  | .ok (t, e) => "ok " ++ toString e ++ " " ++ showTree t
  | .error _ => "err"

def fuel : Nat := 100000

def stepC20 (_ : Unit) (line : String) : Unit × String :=
  let (op, rest) := cut line
  let out :=
    if op != "cw" && op != "me" && op != "me1" then "bad-op" else
    match readAll rest.toList with
    | some [tb, tr] =>
      match tblOf tb, toTree tr with
      | some tbl, some t =>
        if op == "cw" then showRes (codewalk tbl fuel t 0)
        else if op == "me" then showRes (macroExpand tbl fuel t)
        else showRes (expand1 tbl fuel t)
      | _, _ => "bad-op"
    | _ => "bad-op"
  ((), out)

def main : IO Unit := run () stepC20
