import Model.Classic
import Model.Defer
import Gen.ClassicBinary
import Drv.Common
import Drv.FloatHW
open GoSpec Drv

/-! Driver for C38 (see harness/c38.go for the op formats).
    cfg = l<0|1>s<0|1>q<0|1>k<0|1>z<0|1>: which repairs the code under test contains (probed by the harness).
    Operator ops are evaluated through the REGENERATED tables `Gen.ClassicBinary.*`. -/

namespace C38Drv

def tables : Classic.Tables :=
  { boolBool := Gen.ClassicBinary.boolBoolArms, intInt := Gen.ClassicBinary.intIntArms,
    uintUint := Gen.ClassicBinary.uintUintArms, float := Gen.ClassicBinary.floatArms,
    string := Gen.ClassicBinary.stringArms, unary := Gen.ClassicBinary.unaryArms }

structure DCfg where
  l : Bool
  s : Bool
  q : Bool
  k : Bool
  z : Bool
  r : Bool

def parseCfg (s : String) : DCfg :=
  { l := s.contains "l1", s := s.contains "s1", q := s.contains "q1", k := s.contains "k1", z := s.contains "z1",
    r := s.contains "r1" }

def DCfg.model (c : DCfg) : Classic.Cfg := ⟨c.l, c.s, c.r⟩

/-! ### value codec (same as harness/c01_kinds.go) -/

def hexDigit (c : Char) : Option Nat :=
  if '0' ≤ c ∧ c ≤ '9' then some (c.toNat - '0'.toNat)
  else if 'a' ≤ c ∧ c ≤ 'f' then some (c.toNat - 'a'.toNat + 10)
  else none

def parseHex (s : String) : Option Nat :=
  if s.isEmpty || s.length > 16 then none
  else s.foldl (fun acc c => match acc, hexDigit c with
    | some a, some d => some (a * 16 + d)
    | _, _ => none) (some 0)

def hexBytes : List Char → Option (List UInt8)
  | [] => some []
  | a :: b :: rest => do
    let x ← hexDigit a
    let y ← hexDigit b
    let r ← hexBytes rest
    pure (UInt8.ofNat (x * 16 + y) :: r)
  | _ => none

def decVal (k : Kind) (s : String) : Option Val :=
  match k with
  | .bool => if s == "t" then some (.bool true) else if s == "f" then some (.bool false) else none
  | .float32 => (parseHex s).map (fun n => .f32 (BitVec.ofNat 32 n))
  | .float64 => (parseHex s).map (fun n => .f64 (BitVec.ofNat 64 n))
  | .complex64 => none
  | .complex128 => none
  | .string =>
    match s.toList with
    | 's' :: rest => (hexBytes rest).map .str
    | _ => none
  | k =>
    match k.ikind? with
    | some ik => (parseHex s).map (fun n => .int ik (BitVec.ofNat ik.w n))
    | none => none

def isNaN32 (b : BitVec 32) : Bool := let f := f32 b; f != f
def isNaN64 (b : BitVec 64) : Bool := let f := f64 b; f != f
def hexOfNat (n : Nat) : String := String.ofList (Nat.toDigits 16 n)
def enc32 (b : BitVec 32) : String := if isNaN32 b then "nan" else hexOfNat b.toNat
def enc64 (b : BitVec 64) : String := if isNaN64 b then "nan" else hexOfNat b.toNat
def hex2 (b : UInt8) : String :=
  let d := Nat.toDigits 16 b.toNat
  String.ofList (if d.length < 2 then '0' :: d else d)

def encVal : Val → String
  | .bool b => if b then "t" else "f"
  | .int _ v => hexOfNat v.toNat
  | .f32 b => enc32 b
  | .f64 b => enc64 b
  | .c64 r i => enc32 r ++ "_" ++ enc32 i
  | .c128 r i => enc64 r ++ "_" ++ enc64 i
  | .str s => "s" ++ String.join (s.map hex2)

def encRes : Option (Outcome Classic.Opnd) → String
  | none => "E"
  | some (.ok o) => o.k.name ++ ":" ++ encVal o.v
  | some (.panic .divide) => "P:divide"
  | some (.panic .negShift) => "P:negShift"

def isAssignable (op : BinOp) : Bool := !(op.isComparison || op == .land || op == .lor)

/-- operator ops: fields after the op name = cfg OP kind [ckind] values... -/
def stepOp (f : String) (fields : List String) : String :=
  match fields with
  | cfgS :: opS :: kS :: rest0 =>
    let c := (parseCfg cfgS).model
    match Kind.ofName kS with
    | none => "bad-op"
    | some k =>
      if k.isComplex then "bad-op" else
      let isSh := f == "sh" || f == "sha"
      let ckRest : Option (Option Kind × List String) :=
        if isSh then
          match rest0 with
          | ckS :: r => match Kind.ofName ckS with
            | some ck => if ck.isInteger then some (some ck, r) else none
            | none => none
          | [] => none
        else some (none, rest0)
      match ckRest with
      | none => "bad-op"
      | some (ck, rest) =>
        if rest.isEmpty then "bad-op"
        else if f == "un" then
          match UnOp.ofName opS with
          | none => "bad-op"
          | some op =>
            let outs := rest.map fun p =>
              match decVal k p with
              | none => none
              | some v => some (encRes (Classic.unary tables hwFloat op ⟨k, v⟩))
            if outs.any Option.isNone then "bad-op" else " ".intercalate (outs.filterMap id)
        else
          match BinOp.ofName opS with
          | none => "bad-op"
          | some op =>
            if isSh != op.isShift then "bad-op"
            else if isSh && !k.isInteger then "bad-op"
            else if f == "asg" && !isAssignable op then "bad-op"
            else
              let ky := ck.getD k
              let outs := rest.map fun p =>
                match p.splitOn "," with
                | [a, b] =>
                  match decVal k a, decVal ky b with
                  | some x, some y =>
                    let r := if f == "asg" || f == "sha" then Classic.assignOp c tables hwFloat op ⟨k, x⟩ ⟨ky, y⟩
                             else Classic.binaryExpr c tables hwFloat op ⟨k, x⟩ ⟨ky, y⟩
                    some (encRes r)
                  | _, _ => none
                | _ => none
              if outs.any Option.isNone then "bad-op" else " ".intercalate (outs.filterMap id)
  | _ => "bad-op"

/-! ### S-expressions of the structured programs (same reader as Drv/C05.lean) -/
open Flow

inductive SExp where
  | atom (s : String)
  | list (l : List SExp)
  deriving Inhabited, Repr

def tokenize (s : String) : List String :=
  let rec go (cs : List Char) (cur : String) (acc : List String) : List String :=
    match cs with
    | [] => (if cur.isEmpty then acc else cur :: acc).reverse
    | c :: r =>
      if c == '(' || c == ')' then
        go r "" (String.singleton c :: (if cur.isEmpty then acc else cur :: acc))
      else if c == ' ' then go r "" (if cur.isEmpty then acc else cur :: acc)
      else go r (cur.push c) acc
  go s.toList "" []

partial def parseList (ts : List String) (acc : List SExp) : List SExp × List String :=
  match ts with
  | [] => (acc.reverse, [])
  | ")" :: r => (acc.reverse, r)
  | "(" :: r =>
    let (l, r') := parseList r []
    parseList r' (.list l :: acc)
  | t :: r => parseList r (.atom t :: acc)

def parseInt (s : String) : Int :=
  if s.startsWith "-" then - ((s.drop 1).toString.toNat?.getD 0 : Nat) else (s.toNat?.getD 0 : Nat)

def parseVar (s : String) : Var := (s.drop 1).toString.toNat?.getD 0

def ints (l : List SExp) : List Int :=
  l.filterMap (fun x => match x with | .atom a => some (parseInt a) | _ => none)

partial def toExpr : SExp → Expr
  | .atom a => if a.startsWith "v" then .var (parseVar a) else .lit (parseInt a)
  | .list [.atom "+", a, b] => .add (toExpr a) (toExpr b)
  | .list [.atom "-", a, b] => .sub (toExpr a) (toExpr b)
  | .list [.atom "tbl", .list t, i] => .tbl (ints t) (toExpr i)
  | _ => .lit 0

partial def toCond : SExp → Cond
  | .atom "T" => .const true
  | .atom "F" => .const false
  | .list [.atom "<", a, b] => .lt (toExpr a) (toExpr b)
  | .list [.atom "<=", a, b] => .le (toExpr a) (toExpr b)
  | .list [.atom "==", a, b] => .eq (toExpr a) (toExpr b)
  | .list [.atom "!=", a, b] => .ne (toExpr a) (toExpr b)
  | .list [.atom "||", a, b] => .or (toCond a) (toCond b)
  | _ => .const false

def optLabel : SExp → Option Label
  | .atom "_" => none
  | .atom a => some (parseVar a)
  | _ => none

def labels : SExp → List Label
  | .list l => l.filterMap optLabel
  | _ => []

def optVar : SExp → Option Var
  | .atom "_" => none
  | .atom a => some (parseVar a)
  | _ => none

mutual
partial def toStmt : SExp → Stmt
  | .atom "_" => .skip
  | .list [.atom "e", .atom t, e] => .emit (t.toNat?.getD 0) (toExpr e)
  | .list [.atom "=", .atom x, e] => .assign (parseVar x) (toExpr e)
  | .list [.atom ":", .atom x, e] => .define (parseVar x) (toExpr e)
  | .list (.atom "b" :: ss) => .block (toList ss)
  | .list [.atom "if", init, c, .list thn, els] => .ite (toStmt init) (toCond c) (toList thn) (toStmt els)
  | .list (.atom "for" :: ls :: init :: c :: post :: body) =>
    .for (labels ls) (toStmt init) (match c with | .atom "_" => none | x => some (toCond x)) (toStmt post) (toList body)
  | .list [.atom "br", l] => .brk (optLabel l)
  | .list [.atom "co", l] => .cont (optLabel l)
  | .list [.atom "ret"] => .ret
  | .list [.atom "lab", l, s] => .labeled ((optLabel l).getD 0) (toStmt s)
  | .list [.atom "goto", l] => .goto ((optLabel l).getD 0)
  | .list (.atom "rng" :: ls :: .atom kind :: .atom dfn :: k :: v :: .list keys :: .list vals :: body) =>
    .range (labels ls) (kind == "str") (dfn == ":") (optVar k) (optVar v) (ints keys) (ints vals) (toList body)
  | .list (.atom "sw" :: ls :: init :: tag :: cls) =>
    .switch (labels ls) (toStmt init) (match tag with | .atom "_" => none | x => some (toExpr x)) (toClauses cls)
  | _ => .skip

partial def toList : List SExp → Stmt
  | [] => .skip
  | s :: r => .seq (toStmt s) (toList r)

partial def toClauses : List SExp → Stmt
  | [] => .skip
  | .list (.atom "case" :: .list gs :: .atom ft :: body) :: r =>
    .clause (some (gs.map toGuard)) (ft == "ft") (toList body) (toClauses r)
  | .list (.atom "default" :: .atom ft :: body) :: r =>
    .clause none (ft == "ft") (toList body) (toClauses r)
  | _ :: r => toClauses r

partial def toGuard : SExp → Guard
  | .list [.atom "c", c] => .cond (toCond c)
  | .list [.atom "g", .atom t, e] => .eff (t.toNat?.getD 0) (toExpr e)
  | e => .val (toExpr e)
end

def frame0 : Frame := [(0, 0), (1, 0), (2, 0), (3, 0)]

def showRes : Res → String
  | .done tr f =>
    "done " ++ ",".intercalate (tr.map (fun p => toString p.1 ++ ":" ++ toString p.2)) ++ "|" ++
      ",".intercalate ([0, 1, 2, 3].map (fun x => toString (Frame.get f x)))
  | .timeout => "timeout"
  | .stuck => "stuck"

def stepProg (arg : String) : String :=
  let (cfgS, rest) := cut arg
  let (fuelS, src) := cut rest
  if src.isEmpty then "bad-op" else
  let c := (parseCfg cfgS).model
  let fuel := fuelS.toNat?.getD 1000
  let (l, _) := parseList (tokenize src) []
  let s := toList l
  -- the harness does not run a program with labels on a tree whose evalStatement spins on them
  if !c.labels && Classic.hasLabels s then "HANG"
  else
    let a := Classic.run c s fuel frame0
    let b := Ref.run s fuel frame0
    -- on a tree that lacks the labels / range repairs the transcription legitimately differs from Go
    if showRes a == showRes b || !(c.labels && c.rangeNoVars) then showRes a
    else "MODEL-SPLIT classic=" ++ showRes a ++ " ref=" ++ showRes b

/-! ### defer / panic / recover call trees: the specification `Defer.Host` -/
open Defer

def natOf? (s : String) : Option Nat :=
  if s.isEmpty || s.length > 7 || !s.all Char.isDigit then none else s.toNat?

partial def parseBody (depth : Nat) (inDefer : Bool) : List String → Option (List Act × List String)
  | [] => if depth == 0 then some ([], []) else none
  | t :: ts =>
    if t == ")" then (if depth > 0 then some ([], ts) else none)
    else
      let one (a : List Act) (ts : List String) : Option (List Act × List String) := do
        let (r, ts') ← parseBody depth inDefer ts
        pure (a ++ r, ts')
      if t == "r" || t == "q" then one [.recover] ts
      else if t == "R" then one [.ret] ts
      else if t == "C(" then do
        let (b, ts1) ← parseBody (depth + 1) false ts
        one [.call b] ts1
      else if t == "D(" then do
        let (b, ts1) ← parseBody (depth + 1) true ts
        one [.deferFn b] ts1
      else if t.length < 2 then none
      else
        let arg := (t.drop 1).toString
        match t.front with
        | 'e' => do let n ← natOf? arg; one [.emit n] ts
        | 'p' => do let n ← natOf? arg; one [.panic n] ts
        | 'V' => if inDefer then none else do let n ← natOf? arg; one [.retv n] ts
        | _ => none

def showEv : Ev → String
  | .emit n => "e" ++ toString n
  | .recov none => "r-"
  | .recov (some v) => "r" ++ toString v
  | .ret r => "c" ++ toString r

def showRun (p : Option Defer.Val) (sh : Sh) : String :=
  let evs := sh.evs.map showEv
  let evs := match p with
    | some v => evs ++ ["P" ++ toString v]
    | none => evs
  " ".intercalate evs

def modelledT (c : DCfg) (toks : List String) : Bool :=
  let hasR := toks.any (fun t => t == "r" || t == "q")
  let hasQ := toks.any (· == "q")
  !hasR || (c.k && c.z && (!hasQ || c.q))

def stepT (fields : List String) : String :=
  match fields with
  | cfgS :: hint :: toks =>
    match natOf? hint, parseBody 0 false toks with
    | some _, some (b, _) =>
      if !modelledT (parseCfg cfgS) toks then "unmodelled"
      else
        let (p, sh) := Host.run b
        showRun p sh
    | _, _ => "bad-op"
  | _ => "bad-op"

def gNames : List String := []  -- names are not checked here: see stepG

def step (_ : Unit) (line : String) : Unit × String :=
  let fields := (line.splitOn " ").filter (· != "")
  match fields with
  | [] => ((), "bad-op")
  | f :: rest =>
    if f == "bin" || f == "asg" || f == "sh" || f == "sha" || f == "un" then ((), stepOp f rest)
    else if f == "prog" then ((), stepProg (cut line).2)
    else if f == "T" then ((), stepT rest)
    else if f == "G" then
      match rest with
      | [name] => ((), "g " ++ name)
      | _ => ((), "bad-op")
    else ((), "bad-op")

end C38Drv

def main : IO Unit := Drv.run () C38Drv.step
