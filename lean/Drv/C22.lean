import Model.Ast2
import Gen.Ast2Table
import Drv.Common
open Ast2 Drv

/-! Driver for C22: predicts, from the regenerated table alone, what the real ast2 code prints for a
    shallow node: wrapper, Size, the children returned by Get, the index check, New(), the rebuilt node. -/

def ctx : Ctx := { structs := Ast2.Gen.structs, toAst := Ast2.Gen.toAst }

def parseElem (s : String) : Elem :=
  if s == "_" then .nil
  else match (s.drop 1).toString.toNat? with
    | some k => .ref k
    | none => .nil

def parseVal (s : String) : Val :=
  if s == "_" then .zero
  else if s.startsWith "a:" then .atom (s.drop 2).toString
  else if s.startsWith "[" then
    let body := ((s.drop 1).toString.dropEnd 1).toString
    if body == "" then .list [] else .list ((body.splitOn ",").map parseElem)
  else match (s.drop 1).toString.toNat? with
    | some k => .ref k
    | none => .atom ("?" ++ s)

def showElem : Elem → String
  | .nil => "_"
  | .ref k => "n" ++ toString k

def showVal : Val → String
  | .zero => "_"
  | .atom s => "a:" ++ s
  | .ref k => "n" ++ toString k
  | .list es => "[" ++ ",".intercalate (es.map showElem) ++ "]"

def isSliceWrapper (name : String) : Bool :=
  Ast2.Gen.wrappers.any (fun w => w.name == name && w.node == "")

def showAst : Ast → String
  | .nil => "nil"
  | .wrap via v => (if isSliceWrapper via then via else "node") ++ "(" ++ showVal v ++ ")"

def showFields (sd : StructDef) (n : Node) : String :=
  "/".intercalate (sd.fields.map (fun fd => fd.name ++ "=" ++ showVal (n fd.name)))

def mkNode (fields : List String) : Node :=
  fields.foldl (fun n fv =>
    match fv.splitOn "=" with
    | [f, v] => n.set f (parseVal v)
    | _ => n) (fun _ => .zero)

def showOor (g : GetArm) (s : SetArm) : String :=
  (if g == .bad then "bad" else "ok") ++ "," ++ (if s == .bad then "bad" else "ok")

def layout (sd : StructDef) (w : Wrapper) (n : Node) : String :=
  let oor := match w.kind with
    | .fixed => showOor w.oorGet w.oorSet
    | _ => "bad,bad"
  "w=" ++ w.name ++ " size=" ++ toString (sizeOf w n) ++
  " get=" ++ ";".intercalate ((children ctx sd w n).map showAst) ++
  " oor=" ++ oor ++
  " new=" ++ showFields sd (newNode w n) ++
  " set=" ++ showFields sd (rebuild ctx sd w n)

def stepC22 (s : Unit) (line : String) : Unit × String :=
  let toks := (line.splitOn " ").filter (· != "")
  match toks with
  | "node" :: ty :: fields =>
    (s, match ctx.struct? ty, toAstWrapper ctx ty with
      | some sd, some wn =>
        match Ast2.Gen.wrappers.find? (·.name == wn) with
        | some w => layout sd w (mkNode fields)
        | none => "no-wrapper " ++ wn
      | some _, none => "unsupported"
      | none, _ => "unknown-type")
  | ["slice", wn, l] =>
    (s, match Ast2.Gen.wrappers.find? (fun w => w.name == wn && w.node == "") with
      | some w => layout sliceStruct w (mkNode ["X=" ++ l])
      | none => "unknown-slice")
  | "tree" :: _ => (s, "tree")
  | "typelist" :: _ => (s, "typelist")
  | _ => (s, "bad-op")

def main : IO Unit := run () stepC22
