import Model.FileSet
import Gen.C27Cfg
import Drv.Common
open FileSet Drv

namespace C27Drv

def hexVal (c : Nat) : Nat :=
  if 48 ≤ c ∧ c ≤ 57 then c - 48 else if 97 ≤ c ∧ c ≤ 102 then c - 87 else if 65 ≤ c ∧ c ≤ 70 then c - 55 else 0

/-- `\n \t \s \\ \xHH` -/
def unesc : List Nat → List Nat
  | 92 :: 110 :: r => 10 :: unesc r
  | 92 :: 116 :: r => 9 :: unesc r
  | 92 :: 115 :: r => 32 :: unesc r
  | 92 :: 92 :: r => 92 :: unesc r
  | 92 :: 120 :: a :: b :: r => (hexVal a * 16 + hexVal b) :: unesc r
  | c :: r => c :: unesc r
  | [] => []

def hexDigit (n : Nat) : Char := if n < 10 then Char.ofNat (48 + n) else Char.ofNat (87 + n)

def esc (b : List Nat) : String :=
  b.foldl (fun acc c =>
    if c = 10 then acc ++ "\\n" else if c = 9 then acc ++ "\\t" else if c = 32 then acc ++ "\\s"
    else if c = 92 then acc ++ "\\\\"
    else if c < 33 ∨ c > 126 then acc ++ "\\x" ++ String.singleton (hexDigit (c / 16)) ++ String.singleton (hexDigit (c % 16))
    else acc.push (Char.ofNat c)) ""

def showPos (p : Position) : String :=
  s!"{p.filename}|{p.offset}|{p.line}|{p.column}"

def ints (s : String) : List Int :=
  if s.isEmpty then [] else (s.splitOn ",").map String.toInt!

structure S where
  fs : FSet
  n : Nat   -- number of AddFile attempts that succeeded (names are f0, f1, ...)

def S.init : S := ⟨FSet.empty, 0⟩

def parseChunks : List String → Nat → List Nat → List Chunk
  | [], _, _ => []
  | _, 0, _ => []
  | w :: ws, n + 1, src =>
    match w.splitOn "," with
    | [a, b] =>
      let len := b.toNat!
      ⟨src.take len, a.toInt!⟩ :: parseChunks ws n (src.drop len)
    | _ => []

def evOp (args : List String) : String :=
  match args with
  | mode :: trap :: dbg :: kind :: m :: n :: rest =>
    let n := n.toNat!
    let m := m.toNat!
    let dbg := dbg == "1"
    let src := unesc (bytes (rest.getD n ""))
    let chunks := parseChunks (rest.take n) n src
    let name := if mode == "file" then "FILE" else "repl.go"
    let st0 : LoopSt := ⟨0, FSet.empty, []⟩
    let cfg := Gen.C27.cfg
    let (k, o) := if mode == "eval" then (0, m) else (locate chunks 0 m).getD (0, 0)
    let chunks := if trap == "0" ∧ kind == "err" then chunks.take (k + 1) else chunks
    let st := match mode with
      | "eval" => evalWhole name dbg st0 src
      | "repl" => runChunks cfg .repl name dbg st0 chunks
      | _ => runChunks cfg .reader name dbg st0 chunks
    match posOf st k o with
    | none => s!"nopos L={st.line}"
    | some p =>
      if kind == "brk" then
        let ((txt, pos), _) := st.fs.sourceAt p
        s!"{pos.filename}:{pos.line}:{pos.column} L={st.line} src={esc txt}"
      else
        let (pos, _) := st.fs.positionFor p
        s!"{pos.filename}:{pos.line}:{pos.column} L={st.line}"
  | _ => "bad-op"

def step (s : S) (line : String) : S × String :=
  let (op, arg) := cut line
  let args := arg.splitOn " "
  match op with
  | "reset" => (S.init, "ok")
  | "add" =>
    match args with
    | [b, sz, ln] =>
      match s.fs.addFile s!"f{s.n}" b.toInt! sz.toInt! ln.toInt! with
      | some (f, fs) => (⟨fs, s.n + 1⟩, s!"f{s.n} base={f.base}")
      | none => (s, "panic")
    | _ => (s, "bad-op")
  | "lines" =>
    match args with
    | [i, os] =>
      let i := i.toNat!
      match s.fs.files[i]? with
      | some f =>
        let f := (ints os).foldl (fun f o => f.addLine o) f
        (⟨s.fs.setFile i f, s.n⟩, s!"n={f.lines.length}")
      | none => (s, "nofile")
    | _ => (s, "bad-op")
  | "content" =>
    match args with
    | ln :: cp :: rest =>
      let text := unesc (bytes (rest.getD 0 ""))
      let (f, fs) := s.fs.addFileAuto s!"f{s.n}" text.length ln.toInt!
      let idx := s.fs.files.length
      let f := f.scan text
      let f := if cp == "1" then { f with source := splitLines text [] } else f
      (⟨fs.setFile idx f, s.n + 1⟩, s!"f{s.n} base={f.base} n={f.lines.length}")
    | _ => (s, "bad-op")
  | "pos" =>
    let (p, fs) := s.fs.positionFor arg.toInt!
    (⟨fs, s.n⟩, showPos p)
  | "fpos" =>
    match args with
    | [i, p] =>
      match s.fs.files[i.toNat!]? with
      | some f => (s, showPos (f.positionFor p.toInt!))
      | none => (s, "nofile")
    | _ => (s, "bad-op")
  | "file" =>
    let (r, fs) := s.fs.fileOf arg.toInt!
    (⟨fs, s.n⟩, match r with
      | some i => (match fs.files[i]? with | some f => f.name | none => "nil")
      | none => "nil")
  | "src" =>
    let ((txt, p), fs) := s.fs.sourceAt arg.toInt!
    (⟨fs, s.n⟩, esc txt ++ "|" ++ showPos p)
  | "ev" => (s, evOp args)
  | _ => (s, "bad-op")

end C27Drv

def main : IO Unit := run C27Drv.S.init C27Drv.step
