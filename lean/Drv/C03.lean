import Model.Convert
import Gen.ConvertArms
import Drv.Common
/-!
Driver of the C03 correspondence.  One op line of `harness/c03.go`:

    cv <mode> <srcType> <dstType> <value>*

mode `v` (operand = variable), `e` (operand = call with a side effect), `c` (typed constant),
`u` (untyped constant; srcType = `u:int|rune|float|complex|bool|string`).
Types: `[N.|M.|E.]kind`, kind = one of the 17 basic kinds, `bytes`, `runes` (N/M: two named types,
E: slice of a named element type).  Values: integers = hex of the bit pattern, bool `t`/`f`,
floats = hex bits, complex `re_im`, string `s<hex>`, bytes `b<hex>`, runes `r<hex>,<hex>...`;
untyped: decimal integer, `n/d`, `n/d,n/d`, `t`/`f`, `s<hex>`.
Output: one token per value: `rej` | `undef` | the converted value in the codec of dstType
(NaN as `nan`).  The read-back arms are taken from the REGENERATED table.
-/
open Convert GoSpec Drv

namespace C03

def hexDigit (c : Char) : Option Nat :=
  if c.isDigit then some (c.toNat - 48)
  else if 'a' ≤ c ∧ c ≤ 'f' then some (c.toNat - 87)
  else none

def parseHex (s : String) : Option Nat :=
  if s.isEmpty then none
  else s.toList.foldlM (fun acc c => (hexDigit c).map (acc * 16 + ·)) 0

def hexBytes : List Char → Option (List Nat)
  | [] => some []
  | a :: b :: r => do
    let x ← hexDigit a
    let y ← hexDigit b
    let rest ← hexBytes r
    some ((x * 16 + y) :: rest)
  | _ => none

def toHex (n : Nat) : String := String.ofList (Nat.toDigits 16 n)

def hex2 (n : Nat) : String :=
  let d := Nat.toDigits 16 n
  String.ofList (if d.length < 2 then '0' :: d else d)

def parseTy (s : String) : Option Ty :=
  let (tag, kn) :=
    match s.splitOn "." with
    | ["N", k] => (1, k)
    | ["M", k] => (2, k)
    | ["E", k] => (3, k)
    | _ => (0, s)
  match kn with
  | "bytes" => some ⟨tag, .bytes⟩
  | "runes" => some ⟨tag, .runes⟩
  | k => if tag == 3 then none else (Kind.ofName k).map fun kd => ⟨tag, .basic kd⟩

def parseVal (k : K) (s : String) : Option CV :=
  match k with
  | .bytes =>
    (match s.toList with
     | 'b' :: r => (hexBytes r).map .bytes
     | _ => none)
  | .runes =>
    (match s.toList with
     | ['r'] => some (.runes [])
     | 'r' :: r =>
       ((String.ofList r).splitOn ",").mapM (fun t => (parseHex t).map (BitVec.ofNat 32)) |>.map .runes
     | _ => none)
  | .basic kd =>
    match kd with
    | .bool => (match s with | "t" => some (.b (.bool true)) | "f" => some (.b (.bool false)) | _ => none)
    | .string =>
      (match s.toList with
       | 's' :: r => (hexBytes r).map fun l => .b (.str (ofBytes l))
       | _ => none)
    | .float32 => (parseHex s).map fun n => .b (.f32 (BitVec.ofNat 32 n))
    | .float64 => (parseHex s).map fun n => .b (.f64 (BitVec.ofNat 64 n))
    | .complex64 =>
      (match s.splitOn "_" with
       | [a, b] => do
         let x ← parseHex a
         let y ← parseHex b
         some (.b (.c64 (BitVec.ofNat 32 x) (BitVec.ofNat 32 y)))
       | _ => none)
    | .complex128 =>
      (match s.splitOn "_" with
       | [a, b] => do
         let x ← parseHex a
         let y ← parseHex b
         some (.b (.c128 (BitVec.ofNat 64 x) (BitVec.ofNat 64 y)))
       | _ => none)
    | k =>
      match k.ikind? with
      | some ik => (parseHex s).map fun n => .b (.int ik (BitVec.ofNat ik.w n))
      | none => none

def showF (f : FloatConv.Fmt) (bits : Nat) : String :=
  if FloatConv.isNaN f bits then "nan" else toHex bits

def showCV : CV → String
  | .b (.bool b) => if b then "t" else "f"
  | .b (.int _ v) => toHex v.toNat
  | .b (.f32 b) => showF FloatConv.f32 b.toNat
  | .b (.f64 b) => showF FloatConv.f64 b.toNat
  | .b (.c64 re im) => showF FloatConv.f32 re.toNat ++ "_" ++ showF FloatConv.f32 im.toNat
  | .b (.c128 re im) => showF FloatConv.f64 re.toNat ++ "_" ++ showF FloatConv.f64 im.toNat
  | .b (.str s) => "s" ++ String.join (s.map fun b => hex2 b.toNat)
  | .bytes l => "b" ++ String.join (l.map hex2)
  | .runes l => "r" ++ ",".intercalate (l.map fun r => toHex r.toNat)

def showRes : Res → String
  | .rej => "rej"
  | .undef => "undef"
  | .val v => showCV v

def parseInt (s : String) : Option Int :=
  match s.toList with
  | '-' :: r => (String.ofList r).toNat?.map fun n => -(n : Int)
  | _ => s.toNat?.map fun n => (n : Int)

def parseRat (s : String) : Option Rat :=
  match s.splitOn "/" with
  | [a] => (parseInt a).map fun n => (n : Rat)
  | [a, b] => do
    let n ← parseInt a
    let d ← b.toNat?
    if d = 0 then none else some ((n : Rat) / (d : Rat))
  | _ => none

def parseLit (uk : String) (s : String) : Option Untyped.Lit :=
  match uk with
  | "u:int" => (parseInt s).map fun n => ⟨.int, .int n⟩
  | "u:rune" => (parseInt s).map fun n => ⟨.rune, .int n⟩
  | "u:float" => (parseRat s).map fun q => ⟨.float, .flt q⟩
  | "u:complex" =>
    (match s.splitOn "," with
     | [a, b] => do
       let x ← parseRat a
       let y ← parseRat b
       some ⟨.complex, .cplx x y⟩
     | _ => none)
  | "u:bool" => (match s with | "t" => some ⟨.bool, .bool true⟩ | "f" => some ⟨.bool, .bool false⟩ | _ => none)
  | "u:string" =>
    (match s.toList with
     | 's' :: r => (hexBytes r).bind fun l =>
        (String.fromUTF8? (ByteArray.mk (l.map (fun n => UInt8.ofNat n)).toArray)).map fun str => ⟨.string, .str str⟩
     | _ => none)
  | _ => none

def arms := Gen.ConvertArms.convertArms

/-- which repairs does the tree under test contain?  (read off the regenerated action list, so
    that on an unrepaired tree the model still follows the code and the failing input is reported
    by the Go-side oracle) -/
def tree : Tree :=
  { numericConst := Gen.ConvertArms.convertActions.any fun a =>
      a.path.contains "init val, ok := c.convertNumericConst(e, t)"
    rtypeGate := Gen.ConvertArms.convertActions.any fun a =>
      a.path.any fun p => (p.splitOn "types.ConvertibleTo(e.Type.GoType(), t.GoType())").length > 1 }

/-- a typed constant with this value can be written (no NaN, infinity, negative zero) -/
def hasLit : CV → Bool
  | .b (.f32 b) => okF FloatConv.f32 b.toNat
  | .b (.f64 b) => okF FloatConv.f64 b.toNat
  | .b (.c64 re im) => okF FloatConv.f32 re.toNat && okF FloatConv.f32 im.toNat
  | .b (.c128 re im) => okF FloatConv.f64 re.toNat && okF FloatConv.f64 im.toNat
  | .bytes _ | .runes _ => false
  | _ => true
where
  okF (f : FloatConv.Fmt) (bits : Nat) : Bool :=
    match FloatConv.decode f bits with
    | .fin neg m _ => !(neg && m == 0)
    | _ => false

def allOrBad (l : List (Option String)) : String :=
  if l.any Option.isNone then "bad-value" else " ".intercalate (l.map (·.getD ""))

def step (_ : Unit) (line : String) : Unit × String :=
  let out :=
    match line.splitOn " " with
    | "cv" :: mode :: src :: dst :: vals =>
      (match parseTy dst with
       | none => "bad-type"
       | some dt =>
         if mode == "u" then
           if !(["u:int", "u:rune", "u:float", "u:complex", "u:bool", "u:string"].contains src) then "bad-type"
           else allOrBad (vals.map fun s =>
             if src == "u:string" then
               match s.toList with
               | 's' :: r => (hexBytes r).map fun l => showRes (convert arms tree (.untypedStr l) dt)
               | _ => none
             else (parseLit src s).map fun l => showRes (convert arms tree (.untyped l) dt))
         else if mode == "v" || mode == "e" || mode == "c" then
           match parseTy src with
           | none => "bad-type"
           | some st =>
             allOrBad (vals.map fun s =>
               (parseVal st.k s).map fun v =>
                 if mode == "c" then
                   (if hasLit v then showRes (convert arms tree (.const st v) dt) else "no-such-constant")
                 else showRes (convert arms tree (.var st v) dt))
         else "bad-op")
    | _ => "bad-op"
  ((), out)

end C03

def main : IO Unit := Drv.run () C03.step
