import Model.ReadMulti
import Drv.Common
open ReadMulti Drv

def hexVal (c : UInt8) : UInt8 :=
  if c ≥ 48 && c ≤ 57 then c - 48 else if c ≥ 97 && c ≤ 102 then c - 87 else 0

def unhexArr (s : String) : Array UInt8 := Id.run do
  let b := s.toUTF8
  let mut out : Array UInt8 := Array.mkEmpty (b.size / 2)
  let mut i := 0
  while i + 1 < b.size do
    out := out.push (hexVal b[i]! * 16 + hexVal b[i+1]!)
    i := i + 2
  return out

/-- the stream field of an op: segments separated by '.', each HEX or HEX*COUNT -/
def unhex (s : String) : List UInt8 := Id.run do
  let mut out : Array UInt8 := #[]
  for seg in s.splitOn "." do
    match seg.splitOn "*" with
    | [h] => out := out ++ unhexArr h
    | [h, n] =>
      let b := unhexArr h
      for _ in [0:n.toNat!] do
        out := out ++ b
    | _ => pure ()
  return out.toList

/-- base.BufReadline: U+2029 (e2 80 a9) becomes a newline inside the line that was read -/
def paraSepAux : List UInt8 → Array UInt8 → Array UInt8
  | 0xe2 :: 0x80 :: 0xa9 :: rest, acc => paraSepAux rest (acc.push 10)
  | c :: rest, acc => paraSepAux rest (acc.push c)
  | [], acc => acc

def paraSep (l : List UInt8) : List UInt8 := (paraSepAux l #[]).toList

/-- lines as a Readline delivers them: split after every '\n'; an unterminated last line comes with EOF -/
partial def splitReads (bs : List UInt8) (cur : Array UInt8) (acc : Array Read) : Array Read :=
  match bs with
  | [] => if cur.isEmpty then acc else acc.push ⟨cur.toList, true⟩
  | c :: rest =>
    if c == 10 then splitReads rest #[] (acc.push ⟨(cur.push c).toList, false⟩)
    else splitReads rest (cur.push c) acc

def checksum (b : List UInt8) : Nat := Id.run do
  let mut s := 0
  let mut i := 0
  for c in b do
    s := (s + c.toNat * (i % 251 + 1)) % 1000003
    i := i + 1
  return s

def showErr : Err → String
  | .nil => "nil" | .eof => "EOF" | .ueof => "UEOF"
  | .lit true => "Erune" | .lit false => "Estring" | .panic => "PANIC"

def stepC26 (_ : Unit) (line : String) : Unit × String :=
  match line.splitOn " " with
  | "rd" :: opts :: mode :: rest =>
    let hex := rest.headD ""
    let src := unhex hex
    let optAll := (opts.toNat!) / 2 % 2 == 1
    let reads := (splitReads src #[] #[]).toList.map fun rd =>
      -- every mode other than L is the real BufReadline (over differently sized / short-reading readers)
      if mode != "L" then { rd with line := paraSep rd.line } else rd
    let chunks := readAll optAll (src.length + 3) reads
    let parts := chunks.map fun c => s!"{c.bytes.length}:{c.firstToken}:{showErr c.err} "
    let all := chunks.foldl (fun a c => a ++ c.bytes) []
    ((), String.join parts ++ s!"sum={checksum all}")
  | _ => ((), "bad-op")

def main : IO Unit := run () stepC26
