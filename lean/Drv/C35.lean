import Model.Generic
import Drv.Common
open Generic Drv

/-! Driver for C35: one op per line.
    `reset`                      new interpreter
    `do ITEM...`                 items run in the file scope (S-expressions, see harness/c35.go)
    `beh ...`                    behavioural (differential only) op: the model has nothing to say -/

inductive SX where
  | atom (s : String)
  | list (xs : List SX)
  deriving Inhabited

def tokenize (s : String) : List String :=
  let rec go (cs : List Char) (cur : List Char) (acc : List String) : List String :=
    let flush := if cur.isEmpty then acc else (String.ofList cur.reverse) :: acc
    match cs with
    | [] => flush.reverse
    | c :: rest =>
      if c == '(' || c == ')' then go rest [] (String.singleton c :: flush)
      else if c == ' ' then go rest [] flush
      else go rest (c :: cur) acc
  go s.toList [] []

/-- parse a sequence of S-expressions up to a closing paren; returns the rest -/
partial def parseSeq (toks : List String) (acc : List SX) : List SX × List String :=
  match toks with
  | [] => (acc.reverse, [])
  | ")" :: rest => (acc.reverse, rest)
  | "(" :: rest =>
    let (xs, rest') := parseSeq rest []
    parseSeq rest' (SX.list xs :: acc)
  | a :: rest => parseSeq rest (SX.atom a :: acc)

def isNum (s : String) : Bool :=
  let cs := s.toList
  let ds := if cs.head? == some '-' then cs.drop 1 else cs
  !ds.isEmpty && ds.all Char.isDigit

partial def toC : SX → CExpr
  | .atom a => if isNum a then .num a.toInt! else .cname a
  | .list [.atom "+", a, b] => .add (toC a) (toC b)
  | _ => .cname "?"

mutual
partial def toT : SX → TExpr
  | .atom "bad" => .bad
  | .atom a => .name a
  | .list [.atom "sl", t] => .slice (toT t)
  | .list [.atom "pt", t] => .ptr (toT t)
  | .list [.atom "ar", c, t] => .array (toC c) (toT t)
  | .list [.atom "mp", k, v] => .map (toT k) (toT v)
  | .list [.atom "fn", a, r] => .func1 (toT a) (toT r)
  | .list (.atom "st" :: fs) => .strct (toFields fs)
  | .list (.atom "g" :: .atom n :: args) => .gen false n (toArgs args)
  | .list (.atom "fg" :: .atom n :: args) => .gen true n (toArgs args)
  | .list [.atom "c", .atom a] => if isNum a then .cst (.num a.toInt!) else .name a   -- same text as the bare name
  | .list [.atom "c", c] => .cst (toC c)
  | _ => .bad
partial def toFields : List SX → TExpr
  | .atom n :: t :: rest => .fcons n (toT t) (toFields rest)
  | _ => .fnil
partial def toArgs : List SX → TExpr
  | a :: rest => .acons (toT a) (toArgs rest)
  | [] => .anil
end

def basicNames : List String := ["bool", "int8", "int", "uint8", "string", "float64", "int64", "uint16"]

partial def render : Ty → String
  | .basic k => basicNames.getD k "?"
  | .named id => "@" ++ toString id
  | .slice e => "[]" ++ render e
  | .ptr e => "*" ++ render e
  | .array n e => "[" ++ toString n ++ "]" ++ render e
  | .map k v => "map[" ++ render k ++ "]" ++ render v
  | .func1 a r => "func(" ++ render a ++ ")" ++ render r
  | .strct fs => "struct{" ++ renderFields fs ++ "}"
  | .inst g args => "#" ++ toString g ++ "[" ++ renderArgs args ++ "]"
  | .cval v t => toString v ++ ":" ++ render t
  | .fnil => ""
  | .anil => ""
  | t@(.fcons ..) => renderFields t
  | t@(.acons ..) => renderArgs t
where
  renderFields : Ty → String
    | .fcons n t .fnil => n ++ " " ++ render t
    | .fcons n t rest => n ++ " " ++ render t ++ ";" ++ renderFields rest
    | _ => ""
  renderArgs : Ty → String
    | .acons a .anil => render a
    | .acons a rest => render a ++ "," ++ renderArgs rest
    | _ => ""

structure DState where
  st : St
  G : List GenDecl
  nnamed : Nat
  deriving Inhabited

def universeScope : Scope :=
  ⟨(basicNames.zipIdx).map (fun (n, i) => (n, Ty.basic i)), []⟩

def fuel : Nat := 64

def addType (E : Env) (n : String) (t : Ty) : Env :=
  match E with
  | s :: rest => ⟨(n, t) :: s.types, s.binds⟩ :: rest
  | [] => []

def addBind (E : Env) (n : String) (b : Bind) : Env :=
  match E with
  | s :: rest => ⟨s.types, (n, b) :: s.binds⟩ :: rest
  | [] => []

def dedupNames (bs : List (String × Bind)) : List (String × Bind) :=
  bs.foldl (fun acc p => if acc.any (fun q => q.1 == p.1) then acc else acc ++ [p]) []

def dump (ds : DState) (sc : Scope) (old : List Entry := []) : String :=
  let gens := (dedupNames sc.binds).filterMap (fun (n, b) => match b with | .gen gid => some (n, gid) | _ => none)
  let gens := gens.mergeSort (fun a b => a.1 ≤ b.1)
  let one := fun (p : String × Nat) =>
    let all := ds.st.cache.filter (fun e => e.gid == p.2)
    let es := all.filter (fun e => (findEntry old e.gid e.key).isNone)
    let strs := es.map (fun e => render e.key ++ "=>" ++ (match e.under with | some u => render u | none => "?"))
    let strs := strs.mergeSort (fun a b => a ≤ b)
    p.1 ++ "#" ++ toString p.2 ++ "[" ++ "|".intercalate strs ++ "]/" ++ toString all.length
  "{" ++ " ".intercalate (gens.map one) ++ "}"

def names : List SX → List String
  | .atom a :: rest => a :: names rest
  | _ :: rest => names rest
  | [] => []

partial def runItems (ds : DState) (E : Env) (items : List SX) (out : List String) : DState × Env × List String :=
  match items with
  | [] => (ds, E, out)
  | it :: rest =>
    let (ds', E', o) : DState × Env × String :=
      match it with
      | .list [.atom "T", .atom n] =>
        ({ ds with nnamed := ds.nnamed + 1 }, addType E n (.named ds.nnamed), "ok")
      | .list [.atom "A", .atom n, t] =>
        let r := resolve ds.G fuel ds.st E (toT t)
        match r.2 with
        | some ty => ({ ds with st := r.1 }, addType E n ty, "ok")
        | none => ({ ds with st := r.1 }, E, "ERR")
      | .list [.atom "C", .atom n, c] =>
        match evalC E (toC c) with
        | some x => (ds, addBind E n (.cst x.v x.t), "ok")
        | none => (ds, E, "ERR")
      | .list [.atom "C", .atom n, c, .atom tn] =>
        match evalC E (toC c), lookupType E tn with
        | some x, some ty =>
          -- typed constant declaration: an already typed value must have that type
          -- (the constants of this model are integers: the type must be a basic numeric type)
          let numeric := match ty with | .basic k => k == 1 || k == 2 || k == 3 || k == 5 || k == 6 || k == 7 | _ => false
          if numeric && (x.t.isNone || x.t == some ty) then (ds, addBind E n (.cst x.v (some ty)), "ok") else (ds, E, "ERR")
        | _, _ => (ds, E, "ERR")
      | .list [.atom "V", .atom n] => (ds, addBind E n .other, "ok")
      | .list [.atom "GT", .atom n, .list ps, body] =>
        ({ ds with G := ds.G ++ [⟨.named, names ps, toT body, .anil⟩] }, addBind E n (.gen ds.G.length), "ok")
      | .list (.atom "GF" :: .atom n :: .list ps :: sig :: refs) =>
        ({ ds with G := ds.G ++ [⟨.func, names ps, toT sig, toArgsRefs refs⟩] }, addBind E n (.gen ds.G.length), "ok")
      | .list (.atom "B" :: inner) =>
        let (ds1, E1, o1) := runItems ds (⟨[], []⟩ :: E) inner []
        let d := match E1 with | sc :: _ => dump ds1 sc | [] => "{}"
        (ds1, E1.drop 1, "(" ++ " ; ".intercalate (o1 ++ [d]) ++ ")")
      | .list [.atom "R", t] =>
        let r := resolve ds.G fuel ds.st E (toT t)
        ({ ds with st := r.1 }, E, match r.2 with | some ty => render ty | none => "ERR")
      | _ => (ds, E, "bad-item")
    runItems ds' E' rest (out ++ [o])
where
  toArgsRefs (refs : List SX) : TExpr :=
    match refs with
    | r :: rest => .acons (toT r) (toArgsRefs rest)
    | [] => .anil

structure DS where
  ds : DState
  top : Scope
  deriving Inhabited

def initDS : DS := ⟨⟨St.empty, [], 0⟩, ⟨[], []⟩⟩

def stepC35 (s : DS) (line : String) : DS × String :=
  let (op, arg) := cut line
  match op with
  | "reset" => (initDS, "ok")
  | "beh" => (s, "beh")
  | "do" =>
    let (items, _) := parseSeq (tokenize arg) []
    let (ds, E, out) := runItems s.ds [s.top, universeScope] items []
    let top := E.headD s.top
    (⟨ds, top⟩, " ; ".intercalate (out ++ [dump ds top s.ds.st.cache]))
  | _ => (s, "bad-op")

def main : IO Unit := run initDS stepC35
