import Model.Globals
import Drv.Common
open Globals Drv

def kindOf : String → Option K
  | "bool" => some .bool | "int" => some .int | "int8" => some .int8 | "int16" => some .int16
  | "int32" => some .int32 | "int64" => some .int64 | "uint" => some .uint | "uint8" => some .uint8
  | "uint16" => some .uint16 | "uint32" => some .uint32 | "uint64" => some .uint64
  | "uintptr" => some .uintptr | "float32" => some .f32 | "float64" => some .f64
  | "complex64" => some .c64 | "complex128" => some .c128 | "string" => some .str
  | _ => none

def opOf : String → Option Op
  | "set" => some .set | "add" => some .add | "sub" => some .sub | "mul" => some .mul
  | "quo" => some .quo | "rem" => some .rem | "and" => some .and | "or" => some .or
  | "xor" => some .xor | "andnot" => some .andnot | "shl" => some .shl | "shr" => some .shr
  | _ => none

/-- constant: `n A` | `n2 A B` | `s TEXT` | `s` (empty) -/
def svOf : List String → Option SV
  | ["n", a] => a.toNat?.map .n
  | ["n2", a, b] => match a.toNat?, b.toNat? with
    | some x, some y => some (.n2 x y)
    | _, _ => none
  | ["s", t] => some (.s t)
  | ["s"] => some (.s "")
  | _ => none

def rhsOf : List String → Option Rhs
  | ["v", w] => w.toNat?.map .v
  | ["d", p] => p.toNat?.map .d
  | "c" :: rest => (svOf rest).map .c
  | _ => none

def optName (w : String) : Option (Option Nat) :=
  if w == "-" then some none else w.toNat?.map some

/-- a sequence of constants `n A` | `n2 A B` | `s TEXT`: returns the number of constants and the last one -/
def constsOf : List String → Nat → Option SV → Option (Nat × Option SV)
  | [], n, last => some (n, last)
  | "n" :: a :: rest, n, _ => match a.toNat? with
    | some x => constsOf rest (n + 1) (some (.n x))
    | none => none
  | "n2" :: a :: b :: rest, n, _ => match a.toNat?, b.toNat? with
    | some x, some y => constsOf rest (n + 1) (some (.n2 x y))
    | _, _ => none
  | "s" :: t :: rest, n, _ => constsOf rest (n + 1) (some (.s t))
  | _, _, _ => none

def rangeOf (ws : List String) : Option Action :=
  match ws with
  | ["rngs", kn, vn, text] => do
    let kn ← optName kn
    let vn ← optName vn
    if text == "-" then pure (.rng kn vn .int32 none) else
    let bs := Drv.bytes text
    pure (.rng kn vn .int32 (some (bs.length - 1, .n (bs.getLastD 0))))
  | "rngl" :: kn :: vn :: k :: rest => do
    let kn ← optName kn
    let vn ← optName vn
    let k ← kindOf k
    let (n, last) ← constsOf rest 0 none
    match last with
    | none => pure (.rng kn vn k none)
    | some v => pure (.rng kn vn k (some (n - 1, v)))
  | _ => none

def actionOf (ws : List String) : Option Action :=
  match ws with
  | ["decl", n, k, "-"] => do pure (.decl (← n.toNat?) (← kindOf k) none)
  | "decl" :: n :: k :: "c" :: rest => do pure (.decl (← n.toNat?) (← kindOf k) (some (← svOf rest)))
  | ["addr", p, n] => do pure (.addr (← p.toNat?) (← n.toNat?))
  | ["addrf", p, n, f, _] => do pure (.addrf (← p.toNat?) (← n.toNat?) (← f.toNat?))
  | "rngs" :: _ => rangeOf ws
  | "rngl" :: _ => rangeOf ws
  | "asg" :: n :: o :: rest => do pure (.asg (← n.toNat?) (← opOf o) (← rhsOf rest))
  | "wrp" :: p :: o :: rest => do pure (.wrp (← p.toNat?) (← opOf o) (← rhsOf rest))
  | ["read", n] => do pure (.read (← n.toNat?))
  | ["rdp", p] => do pure (.rdp (← p.toNat?))
  | ["box"] => some .box
  | ["stat"] => some .stat
  | _ => none

def showOut : Out → String
  | .ok => "ok"
  | .val (.n a) => s!"= {a}"
  | .val (.n2 a b) => s!"= {a} {b}"
  | .val (.s t) => s!"= s:{t}"
  | .cerr => "cerr"
  | .ierr => "ierr"
  | .panic => "panic"
  | .stale => "stale"
  | .stat a b c d e f g => s!"stat bn={a} ibn={b} ibmax={c} capints={d} lenints={e} capvals={f} lenvals={g}"

def stepC14 (s : St) (line : String) : St × String :=
  if line == "reset" then (St.init, "ok") else
  match actionOf (line.splitOn " ") with
  | none => (s, "bad-op")
  | some a => let (s', o) := step Cfg.fixed s a; (s', showOut o)

def main : IO Unit := run St.init stepC14
