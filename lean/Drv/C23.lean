import Model.ScanMini
import Drv.Common
open ScanDelta ScanMini Drv

/-! Driver of C23.  Ops (see harness/c23.go):
  kw <generics> <hexword>         -> etoken.Lookup token.Lookup etoken.LookupSpecial (model tables)
  semi <k><pos> ...               -> semiBack of the abstract stream
  mini <macroChar> <generics> <hex> -> the model's patched scanner over the executable mini base, 4 modes
  lit / soup / file / mut ...     -> "same": for input without extension tokens the model's prediction is
                                     `fork_eq_base_on_extfree` (the fork equals the unpatched scanner);
                                     the Go side reports "same" unless its differential oracle disagrees. -/

def hexVal (c : Char) : Nat :=
  if '0' ≤ c && c ≤ '9' then c.toNat - 48 else if 'a' ≤ c && c ≤ 'f' then c.toNat - 87 else 0

def unhex (s : String) : Array Nat :=
  if s == "-" then #[] else
  let rec go : List Char → Array Nat → Array Nat
    | a :: b :: rest, acc => go rest (acc.push (hexVal a * 16 + hexVal b))
    | _, acc => acc
  go s.toList #[]

def hexNib (n : Nat) : Char := if n < 10 then Char.ofNat (48 + n) else Char.ofNat (87 + n)

def hexOf (s : String) : String :=
  String.ofList (s.toUTF8.toList.foldr (fun b acc => hexNib (b.toNat / 16) :: hexNib (b.toNat % 16) :: acc) [])

def strOf (a : Array Nat) : String := String.ofList (a.toList.map Char.ofNat)

def showMini (src : Src) (mc : Int) (g : Nat) : String :=
  let one (mode : Nat) : String :=
    let c : Cfg := { macroChar := mc, genericsV1 := g == 1, scanComments := mode % 2 == 1, dontInsertSemis := mode / 2 == 1 }
    let (toks, s) := scanAll (scanFork (miniBase src) c) (src.size + 2) (2 * src.size + 16) (initSt src)
    let ts := toks.map (fun (p, t, l) => s!" {p}@{t}@{hexOf l}")
    let es := s.errs.map (fun (o, m) => s!" E{o}@{hexOf m}")
    s!"m{mode}:" ++ String.join ts ++ String.join es
  " | ".intercalate [one 0, one 1, one 2, one 3]

def parseTk (w : String) : Option Tk :=
  match w.toList with
  | k :: ds =>
    let kind : Option Kind := match k with
      | 't' => some .tok | 'c' => some .comment | 's' => some .autoSemi | 'x' => some .semi | _ => none
    match kind, (String.ofList ds).toNat? with
    | some k, some n => some ⟨k, n⟩
    | _, _ => none
  | [] => none

def showTk (t : Tk) : String :=
  (match t.kind with | .tok => "t" | .comment => "c" | .autoSemi => "s" | .semi => "x") ++ toString t.pos

def stepC23 (_ : Unit) (line : String) : Unit × String :=
  let ws := (line.splitOn " ").filter (· ≠ "")
  match ws with
  | ["kw", g, w] =>
    let lit := strOf (unhex w)
    ((), s!"{etokenLookup (g == "1") tokenLookup lit} {tokenLookup lit} {lookupSpecial lit}")
  | "semi" :: items =>
    match items.mapM parseTk with
    | some l => ((), " ".intercalate ((semiBack l).map showTk))
    | none => ((), "bad-op")
  | ["mini", mc, g, h] =>
    match mc.toInt?, g.toNat? with
    | some mc, some g => ((), showMini (unhex h) mc g)
    | _, _ => ((), "bad-op")
  | "lit" :: _ => ((), "same")
  | "soup" :: _ => ((), "same")
  | "file" :: _ => ((), "same")
  | "mut" :: _ => ((), "same")
  | _ => ((), "bad-op")

def main : IO Unit := run () stepC23
