import Model.Interop
import Drv.Common
open Interop Drv

/-! Driver for C11: `cb <n|r><pattern>|<sel>|<args>` runs `callGeneric` of the model on the layout of
    the pattern with a dirty frame; `prog ...` has no model side (compiled-Go oracle only). -/

def parseSel (s : String) : Option (List Nat) :=
  if s.isEmpty then some [] else (s.splitOn ",").mapM (fun t => t.toNat?)

def cbLine (arg : String) : String :=
    match arg.splitOn "|" with
    | [p, selS, argS] =>
      match p.toList with
      | [] => "bad-op"
      | c :: pat =>
        if c != 'n' && c != 'r' then "bad-op" else
        if !(pat.all (fun c => c == 'u' || c == '_' || c == 'v')) then "bad-op" else
        if (pat.dropLast.any (· == 'v')) then "bad-op" else
        let args := if argS.isEmpty then [] else argS.splitOn ";"
        if args.length != pat.length then "bad-op" else
        match parseSel selS with
        | none => "bad-op"
        | some sel =>
          if !(sel.all (fun i => i < pat.length && pat.getD i '_' != '_')) then "bad-op" else
          let m := layoutOf pat sel.length
          let dirty := (List.range m.nbinds).map (fun i => s!"junk{i}")
          let (res, _) := callGeneric m "?" (selBody m sel "?") dirty args ()
          ";".intercalate res
    | _ => "bad-op"

/-- `cbk <kinds> <n|r><pattern>|<sel>|<args>`: typed parameters; the model moves the argument tokens
    exactly (argument i stored in bind i EXACTLY, whatever its kind) -/
def cbkLine (arg : String) : String :=
  let (kinds, rest) := cut arg
  let ks := kinds.splitOn ","
  let known := ["bool", "int", "int8", "int16", "int32", "int64", "uint", "uint8", "uint16", "uint32", "uint64",
    "uintptr", "float32", "float64", "complex64", "complex128", "string", "rune", "byte"]
  match rest.splitOn "|" with
  | [p, _, _] =>
    if ks.length + 1 != p.length || !(ks.all known.contains) || (p.toList.drop 1).any (· == 'v') then "bad-op"
    else cbLine rest
  | _ => "bad-op"

def stepC11 (_ : Unit) (line : String) : Unit × String :=
  let (op, arg) := cut line
  ((), match op with
  | "cb" => cbLine arg
  | "cbk" => cbkLine arg
  | "prog" =>
    match arg.splitOn " " with
    | [k, _] =>
      if ["sortslice", "sortsort", "stringsfunc", "stringer", "reader", "once", "search", "closure",
          "goroutines", "variadic", "panics", "methodvalue", "sprint", "foreignpanic", "reassign"].contains k then "ran" else "bad-op"
    | _ => "bad-op"
  | _ => "bad-op")

def main : IO Unit := run () stepC11
