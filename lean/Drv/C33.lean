import Model.Gls
import Drv.Common
open Gls Drv

/-!
Monitor: every line is one event logged by the hooks of the real code (registry operation or frame
allocation, with the identity of the executing goroutine).  The driver finds the model transition(s)
that explain the event, executes them with `Gls.step`, and prints what the MODEL says the outcome is:
the record used / found, whether the owner assertion holds in the monitor state, whether another
live goroutine uses the same record.  Everything after " => " on the input line (the outcome
recorded on the real code) is ignored here; `check` compares it with this driver's output.
A line `DISABLED ...` means the real event is not an enabled transition of the model.
-/

structure M where
  s : State
  maxId : Nat
  live : List (Nat × Nat)   -- driver-side index identity -> serial of the live goroutine (validated against `idOf`)
  bad : Bool       -- a DISABLED event was seen since the last reset: the state is no longer meaningful

def M.init : M := { s := State.init, maxId := 0, live := [], bad := false }

/-- goroutine with identity i, spawning it if the monitor has not seen it yet -/
def lookupG (m : M) (i : Nat) : Option Nat :=
  match m.live.lookup i with
  | some g => if m.s.idOf g == some i then some g else none
  | none => none

def getG' (m : M) (i : Nat) : Option (M × Nat) :=
  match lookupG m i with
  | some g => some (m, g)
  | none => match step m.s (.spawn i) with     -- `spawn` itself checks that no live goroutine has identity i
    | some s' => some ({ m with s := s', live := (i, m.s.ngid) :: m.live }, m.s.ngid)
    | none => none

def dropG (m : M) (i : Nat) : M := { m with live := m.live.filter (fun p => p.1 != i) }

def showUse (s : State) (g : Nat) : String :=
  match lastUse s with
  | none => "none"
  | some u =>
    "r" ++ toString u.r ++ (if ownedB s u then " own" else " foreign") ++ (if sharedB s g u.r then " shared" else "")

/-- the repair's `rebind` step is inferred: a pending lookup result that is not consumed by the slow
    path of a function entry can only have been stored into ir.env.Run -/
def maybeRebind (s : State) (g : Nat) (fast : Bool) : State :=
  match s.pend g with
  | .got _ => if fast then (match step s (.rebind g) with | some s' => s' | none => s) else s
  | _ => s

def nat (x : String) : Nat := x.toNat!

def stepEvent (m : M) (op : String) (args : List String) : M × String :=
  match op, args with
  | "interp", [i] =>
    match getG' m (nat i) with
    | none => ({ m with bad := true }, "DISABLED spawn")
    | some (m, g) =>
      let s := m.s
      match step s (.interp g) with
      | none => ({ m with bad := true }, "DISABLED interp")
      | some s' => ({ m with s := s' }, "r" ++ toString s.nrun ++ (if s'.reg (nat i) == some s.nrun then " own" else " foreign"))
  | "look", [i] =>
    match getG' m (nat i) with
    | none => ({ m with bad := true }, "DISABLED spawn")
    | some (m, g) =>
      let s := maybeRebind m.s g true
      match step s (.look g) with
      | none => ({ m with bad := true }, "DISABLED look")
      | some s' => ({ m with s := s' }, match s'.pend g with | .got r => "hit r" ++ toString r | _ => "miss")
  | "store", [i] =>
    match getG' m (nat i) with
    | none => ({ m with bad := true }, "DISABLED spawn")
    | some (m, g) =>
      let s := m.s
      match step s (.store g) with
      | none => ({ m with bad := true }, "DISABLED store")
      | some s' => ({ m with s := s' },
          "r" ++ toString s.nrun ++ (if s'.owner s.nrun == some (nat i) && s'.reg (nat i) == some s.nrun then " own" else " foreign"))
  | "del", [i] =>
    match getG' m (nat i) with
    | none => ({ m with bad := true }, "DISABLED spawn")
    | some (m, g) =>
      let s := m.s
      match step s (.del g) with
      | none => ({ m with bad := true }, "DISABLED del")
      | some s' => match step s' (.exit g) with     -- the deferred glsDel is the last act of the child
        | none => ({ m with bad := true }, "DISABLED exit")
        | some s'' => ({ dropG m (nat i) with s := s'' }, "ok")
  | "func", [i, o] =>
    match getG' m (nat i) with
    | none => ({ m with bad := true }, "DISABLED spawn")
    | some (m, g) =>
      let s := m.s
      let s := maybeRebind s g (s.owner (nat o) == some (nat i))
      match step s (.func g (nat o)) with
      | none => ({ m with bad := true }, "DISABLED func")
      | some s' => ({ m with s := s' }, showUse s' g)
  | "block", [i, r] | "gopar", [i, r] =>
    match getG' m (nat i) with
    | none => ({ m with bad := true }, "DISABLED spawn")
    | some (m, g) =>
      let s := m.s
      let s := maybeRebind s g true
      match step s (.block g (nat r)) with
      | none => ({ m with bad := true }, "DISABLED block")
      | some s' =>
        -- report on the entry for (g, r), which may be older than the head of `uses`
        let u : Use := match s'.uses.find? (fun u => u.g == g && u.r == nat r) with
          | some u => u
          | none => ⟨g, nat r, true⟩
        ({ m with s := s' },
          "r" ++ toString u.r ++ (if ownedB s' u then " own" else " foreign") ++ (if sharedB s' g u.r then " shared" else ""))
  | "exit", [i] =>
    match lookupG m (nat i) with
    | none => (m, "ok")      -- a goroutine that never touched the interpreter
    | some g => match step m.s (.exit g) with
      | none => ({ m with bad := true }, "DISABLED exit")
      | some s' => ({ dropG m (nat i) with s := s' }, "ok")
  | "regdump", [] =>
    let ents := (List.range (m.maxId + 1)).filterMap (fun i => match m.s.reg i with
      | some r => some (toString i ++ ":r" ++ toString r ++ (if m.s.owner r == some i then "" else "!"))
      | none => none)
    (m, if ents.isEmpty then "-" else " ".intercalate ents)
  | "goid", [n] =>
    -- n goroutines live at the same time: the model gives them pairwise distinct, constant identities
    let s := (List.range (nat n)).foldl (fun (acc : Option State) i => match acc with
      | none => none
      | some s => step s (.spawn i)) (some State.init)
    (m, match s with
      | some s => if (List.range (nat n)).all (fun g => s.idOf g == some g) then "distinct constant" else "clash"
      | none => "clash")
  | "frames", [] => (m, "ok")       -- frame pools are not in the model (C06): Go-side oracle only
  | "regcheck", [] => (m, "ok")    -- scenario without event log: snapshot of the real registry, Go-side oracle only
  | "race", [] => (m, "none")      -- race detector report of the scenario: Go-side oracle only
  | _, _ => (m, "bad-op")

def stepC33 (m : M) (line : String) : M × String :=
  let body := match line.splitOn " => " with
    | b :: _ => b
    | [] => line
  let (op, rest) := cut body
  if op == "scn" then (M.init, "ok")
  else if m.bad then (m, "SKIPPED")
  else
    let args := if rest == "" then [] else rest.splitOn " "
    let m := match args with
      | i :: _ => if op != "goid" && op != "regdump" then { m with maxId := max m.maxId (nat i) } else m
      | [] => m
    stepEvent m op args

def main : IO Unit := run M.init stepC33
