import Model.Lookup
import Gen.C09Switch
import Drv.Common
open Lookup Drv

/-! Driver for C09.  Ops:
  decl T=<kind>;<body>;<m>.<p>,...  ...  B=<name>.<emb>.<ptr>.<typ>,...  ...  [X=...]   (resets)
  look <t> <name>      FieldByName + MethodByName + TryLookupFieldOrMethod (cached state kept)
  sel <t> <name>       same lookup, printed as the selector outcome
  impl <t> <p> <i>     is every method of interface i in the method set of T (p=0) / *T (p=1)
  tsw <clauses> @ <dyn>  clause index chosen by the type switch   (clauses: '/'-separated, d | ty,ty)
-/

structure St where
  U  : Universe := ⟨[], []⟩
  fc : FCache := []
  mc : MCache := []

def fuel : Nat := 64

def natOf (s : String) : Nat := s.toNat?.getD 0

def parseMethods (s : String) : List MethodDecl :=
  if s.isEmpty then [] else
  (s.splitOn ",").map fun m =>
    match m.splitOn "." with
    | [n, p] => ⟨n, p == "1"⟩
    | _ => ⟨m, false⟩

def parseType (s : String) : TypeDecl :=
  match s.splitOn ";" with
  | [k, b, ms] =>
    ⟨(if k == "s" then Kind.struct else if k == "i" then Kind.iface else Kind.other), natOf b, parseMethods ms⟩
  | _ => default

def parseBody (s : String) : List Field :=
  if s.isEmpty then [] else
  (s.splitOn ",").map fun f =>
    match f.splitOn "." with
    | [n, e, p, t] => ⟨n, e == "1", p == "1", natOf t⟩
    | _ => default

def parseDecl (arg : String) : Universe :=
  let toks := arg.splitOn " "
  let ts := toks.filterMap fun t => if t.startsWith "T=" then some (parseType (t.drop 2).toString) else none
  let bs := toks.filterMap fun t => if t.startsWith "B=" then some (parseBody (t.drop 2).toString) else none
  ⟨ts, bs⟩

def showPath (p : List Nat) : String :=
  if p.isEmpty then "-" else ".".intercalate (p.map toString)

def showF (r : Option (List Nat) × Nat) : String :=
  "F " ++ toString r.2 ++ " " ++ showPath (r.1.getD [])

def showM (r : Option MRes × Nat) : String :=
  match r.1 with
  | none => "M " ++ toString r.2 ++ " + -"
  | some m => "M " ++ toString r.2 ++ " " ++ (if m.index < 0 then toString m.index else "+") ++ " " ++ showPath m.fieldIndex

def showSel : Sel → String
  | .field i => "field " ++ showPath i
  | .method fi _ => "method " ++ showPath fi
  | .none => "none"
  | .err => "err"

/-- run both lookups through the caches -/
def lookBoth (s : St) (t : Nat) (name : String) : St × Option ((Option (List Nat) × Nat) × (Option MRes × Nat)) :=
  match FieldByName s.U fuel s.fc t name with
  | none => (s, none)
  | some (fr, fc') =>
    match MethodByName s.U fuel s.mc t name with
    | none => (s, none)
    | some (mr, mc') => ({ s with fc := fc', mc := mc' }, some (fr, mr))

/-- the declared method selected by `x.name` on a value of type t (no cache), with `indirect` -/
def methodSetHas (U : Universe) (t : Nat) (viaPtr : Bool) (name : String) : Bool :=
  match fieldBFS U t name fuel, methodBFS U t name fuel with
  | some fr, some mr =>
    let fr' := if U.kindOf t = some Kind.struct then fr else (none, 0)
    match tryLookupFieldOrMethod fr' mr with
    | .method fi idx =>
      -- walk the embedding path: is a pointer crossed, which type declares the method
      let rec walk (fuel : Nat) (ty : Nat) (ind : Bool) (p : List Nat) : Nat × Bool × Bool :=
        match fuel, p with
        | _, [] => (ty, ind, false)
        | 0, _ => (ty, ind, false)
        | fuel+1, i :: rest =>
          match U.bodyOf ty with
          | none => (ty, ind, false)
          | some b =>
            match (U.fieldsOf b)[i]? with
            | none => (ty, ind, false)
            | some f => walk fuel f.typ (ind || f.ptr) rest
      let (ty, ind, _) := walk 64 t viaPtr fi
      if U.kindOf ty = some Kind.iface then true
      else match (U.methodsOf ty)[idx.toNat]? with
        | some m => !m.ptrRecv || ind
        | none => false
    | _ => false
  | _, _ => false

/-- reflect.Type identity of a type code: k = T_k (a named struct IS its unnamed struct type,
    `type N int` IS int), 100+k = *T_k, 200 = int, 201 = string, none = nil -/
def rtOf (U : Universe) : Option Nat → Nat
  | none => 0
  | some k =>
    let base (k : Nat) : Nat :=
      match U.bodyOf k with
      | some b => 1000 + b
      | none => 200
    if k ≥ 200 then k else if k ≥ 100 then 5000 + base (k - 100) else base k

def parseTy (s : String) : Option Nat := if s == "n" then none else some (natOf s)

def parseClauses (s : String) : List Clause :=
  (s.splitOn "/").map fun c =>
    if c == "d" then ⟨[], true⟩ else ⟨(c.splitOn ",").map parseTy, false⟩

def validT (s : St) (t : String) : Bool :=
  match t.toNat? with
  | some k => k < s.U.types.length
  | none => false

/-- type codes: k = T_k, 100+k = *T_k, 200 int, 201 string, 300 fmt.Stringer, 301 error,
    310 time.Duration, 311 time.Month, 312 the dynamic type of errors.New (operand only), n = nil -/
def validCode (s : St) (c : String) (asCase : Bool) : Bool :=
  if c == "n" then true else
  match c.toNat? with
  | none => false
  | some k =>
    if k == 200 || k == 201 || k == 310 || k == 311 then true
    else if k == 300 || k == 301 then asCase
    else if k == 312 then !asCase
    else if k ≥ 200 then false
    else
      let j := if k ≥ 100 then k - 100 else k
      j < s.U.types.length &&
        (if s.U.kindOf j == some Kind.iface then asCase && k < 100 else true)

def validClauses (s : St) (cl : String) : Bool :=
  (cl.splitOn "/").all fun c => c == "d" || (c.splitOn ",").all (fun x => validCode s x true)

def isIfaceCode (U : Universe) : Option Nat → Bool
  | none => false
  | some k => k == 300 || k == 301 || (k < 100 && U.kindOf k == some Kind.iface)

/-- method names of the dynamic type `dyn` (Go method set) -/
def dynHas (U : Universe) (dyn : Option Nat) (name : String) : Bool :=
  match dyn with
  | none => false
  | some k =>
    if k < 100 then methodSetHas U k false name
    else if k < 200 then methodSetHas U (k - 100) true name
    else if k == 310 || k == 311 then name == "String"
    else if k == 312 then name == "Error"
    else false

def ifaceMethods (U : Universe) (k : Nat) : List String :=
  if k == 300 then ["String"] else if k == 301 then ["Error"] else (U.methodsOf k).map (·.name)

/-- xr.Type.Implements on the operand's xr.Type -/
def implementsX (U : Universe) (dyn : Option Nat) (k : Nat) : Bool :=
  (ifaceMethods U k).all (dynHas U dyn)

/-- reflect.Type.Implements on the operand's reflect.Type: only compiled types have methods there -/
def reflImpl (dyn : Option Nat) (k : Nat) : Bool :=
  (k == 300 && (dyn == some 310 || dyn == some 311)) || (k == 301 && dyn == some 312)

def tswStep (s : St) (cl d tag : String) : St × String :=
  let tagE := tag == "e"
  let tagOK := tagE || (validT s tag && s.U.kindOf (natOf tag) == some Kind.iface)
  if !(validClauses s cl && validCode s d false && tagOK) then (s, "bad-op") else
  let dyn := parseTy d
  let U := s.U
  let rt := rtOf U
  let conc := fun ty => !isIfaceCode U ty
  -- interface case on an interface{} tag: reflect only
  let imE := fun (ty : Option Nat) => dyn != none && reflImpl dyn (ty.getD 0)
  let ct : Clause → Bool :=
    if tagE then clauseTest (mtEmpty rt conc imE dyn) (mtEmpty rt conc imE dyn)
    else
      -- the tag is an interpreted interface: the operand carries its xr.Type
      let mt1 := fun (ty : Option Nat) =>
        match ty with
        | none => dyn == none
        | some k =>
          if isIfaceCode U ty then dyn != none && (reflImpl dyn k || implementsX U dyn k)
          else dyn != none && rt ty == rt dyn && ty == dyn
      let mtN := fun (ty : Option Nat) => if conc ty then rt ty == rt dyn else imE ty
      clauseTest mt1 mtN
  -- observed defects of the real code (reported by the compiled-Go oracle under their own keys):
  -- a nil interpreted interface panics in xr.FromEmulatedInterface; a value of a named basic
  -- type is not converted when passed as an interpreted-interface argument
  let dynOther := match dyn with
    | some k => k < 100 && U.kindOf k == some Kind.other
    | none => false
  if !tagE && (dyn == none || dynOther) then (s, "arm ?")
  else
    let r := tsDispatch Gen.C09.concreteMapGuardedByAllConcrete rt conc ct dyn (parseClauses cl)
    (s, match r with | some i => "arm " ++ toString i | none => "arm -")

def stepC09 (s : St) (line : String) : St × String :=
  let (op, arg) := cut line
  match op with
  | "decl" => ({ U := parseDecl arg, fc := [], mc := [] }, "ok")
  | "look" =>
    let (t, name) := cut arg
    if !validT s t then (s, "bad-op") else
    match lookBoth s (natOf t) name with
    | (s', some (fr, mr)) =>
      let fr' := if s.U.kindOf (natOf t) = some Kind.struct then fr else (none, 0)
      (s', showF fr ++ " | " ++ showM mr ++ " | " ++ showSel (tryLookupFieldOrMethod fr' mr))
    | (s', none) => (s', "out-of-fuel")
  | "sel" =>
    let (t, name) := cut arg
    if !validT s t then (s, "bad-op") else
    match lookBoth s (natOf t) name with
    | (s', some (fr, mr)) =>
      let fr' := if s.U.kindOf (natOf t) = some Kind.struct then fr else (none, 0)
      (s', match tryLookupFieldOrMethod fr' mr with
           | .none => "fail" | .err => "fail" | x => showSel x)
    | (s', none) => (s', "out-of-fuel")
  | "impl" =>
    match arg.splitOn " " with
    | [t, p, i] =>
      if !(validT s t && validT s i && s.U.kindOf (natOf i) == some Kind.iface) then (s, "bad-op") else
      let ms := s.U.methodsOf (natOf i)
      (s, "impl " ++ toString (ms.all fun m => methodSetHas s.U (natOf t) (p == "1") m.name))
    | _ => (s, "bad-op")
  | "tsw" =>
    match arg.splitOn " @ " with
    | [cl, d] => tswStep s cl d "e"
    | [cl, d, tag] => tswStep s cl d tag
    | _ => (s, "bad-op")
  | _ => (s, "bad-op")

def main : IO Unit := run ({} : St) stepC09
