import Model.Options
import Drv.Common
open Options Drv

/-! Driver for C18.  Op lines:

    m <cfg> | <program>     run the mini-language program from initial option bits <cfg>
    s <n> | ...             source-corpus op: only the Go-side oracle works on it; the model
                            answers with the number of option configurations (`src <n>`)

  Program grammar (blank-separated tokens):
    prog  := chunk (";;" chunk)*
    chunk := "tog" bits | [":"] "def" k stmt* "ret" expr "end" | [":"] "do" stmt* [fin] "end"
    fin   := "val" expr | "kint" int | "krune" int | "kbool" (0|1)
    stmt  := "set" k expr | "emit" expr | "if" expr stmt* "else" stmt* "end" | "loop" n stmt* "end"
           | "panic" expr | "blk" expr stmt* "end" | "brk"
    expr  := "n" int | "g" k | "p" | "l" | ("+"|"-"|"*"|"/"|"%") expr expr | "call" k expr
-/

def natOf (s : String) : Option Nat := if s.isEmpty then none else s.toNat?
def intOf (s : String) : Option Int :=
  if s.startsWith "-" then (natOf (s.drop 1).toString).map (fun n => -(Int.ofNat n)) else (natOf s).map Int.ofNat

def binOf : String → Option BinOp
  | "+" => some .add | "-" => some .sub | "*" => some .mul | "/" => some .quo | "%" => some .rem
  | _ => none

def parseE : Nat → List String → Option (Expr × List String)
  | 0, _ => none
  | f + 1, toks =>
    match toks with
    | "n" :: c :: rest => (intOf c).bind fun c => if c.natAbs ≤ 99 then some (.lit c, rest) else none
    | "g" :: k :: rest => (natOf k).bind fun k => if k < 4 then some (.glob k, rest) else none
    | "p" :: rest => some (.par, rest)
    | "l" :: rest => some (.loc, rest)
    | "call" :: k :: rest =>
      (natOf k).bind fun k => if k < 8 then (parseE f rest).map fun (a, r) => (.call k a, r) else none
    | op :: rest =>
      (binOf op).bind fun op => (parseE f rest).bind fun (a, r) => (parseE f r).map fun (b, r2) => (.bin op a b, r2)
    | [] => none

mutual
def parseS : Nat → List String → Option (Stmt × List String)
  | 0, _ => none
  | f + 1, toks =>
    match toks with
    | "set" :: k :: rest =>
      (natOf k).bind fun k => if k < 4 then (parseE 64 rest).map fun (e, r) => (.set k e, r) else none
    | "emit" :: rest => (parseE 64 rest).map fun (e, r) => (.emit e, r)
    | "panic" :: rest => (parseE 64 rest).map fun (e, r) => (.panic e, r)
    | "brk" :: rest => some (.brk, rest)
    | "if" :: rest =>
      (parseE 64 rest).bind fun (c, r) => (parseL f r).bind fun (t, r2) =>
        match r2 with
        | "else" :: r3 => (parseL f r3).bind fun (e, r4) =>
          match r4 with
          | "end" :: r5 => some (.ifs c t e, r5)
          | _ => none
        | _ => none
    | "loop" :: n :: rest =>
      (natOf n).bind fun n => if n ≤ 6 then (parseL f rest).bind fun (b, r) =>
        match r with
        | "end" :: r2 => some (.loop n b, r2)
        | _ => none
      else none
    | "blk" :: rest =>
      (parseE 64 rest).bind fun (e, r) => (parseL f r).bind fun (b, r2) =>
        match r2 with
        | "end" :: r3 => some (.blk e b, r3)
        | _ => none
    | _ => none
def parseL : Nat → List String → Option (List Stmt × List String)
  | 0, _ => none
  | f + 1, toks =>
    match toks with
    | [] => some ([], [])
    | t :: _ =>
      if t == "end" || t == "else" || t == "ret" || t == "val" || t == "kint" || t == "krune" || t == "kbool" then
        some ([], toks)
      else (parseS f toks).bind fun (s, r) => (parseL f r).map fun (ss, r2) => (s :: ss, r2)
end

def bitAt (n i : Nat) : Bool := (n / 2 ^ i) % 2 == 1

/-- flips the neutral bits of `bits` (bit numbering of the op line) -/
def togOf (bits : Nat) (o : NOpts) : NOpts :=
  { debugger := o.debugger != bitAt bits 0, collectDecl := o.collectDecl != bitAt bits 1,
    collectStmt := o.collectStmt != bitAt bits 2, trapPanic := o.trapPanic != bitAt bits 3,
    stackTrace := o.stackTrace != bitAt bits 4, showEval := o.showEval != bitAt bits 6,
    showEvalType := o.showEvalType != bitAt bits 7, showTime := o.showTime != bitAt bits 8 }

def lastIsBrk : List Stmt → Bool
  | [] => false
  | [.brk] => true
  | _ :: rest => lastIsBrk rest

def parseChunk (toks : List String) : Option Chunk :=
  let (forced, toks) := match toks with
    | ":" :: rest => (true, rest)
    | _ => (false, toks)
  match toks with
  | ["tog", b] =>
    if forced then none else
    (natOf b).bind fun b => if b < 512 && !bitAt b 5 && b != 0 then some (.tog (togOf b) b) else none
  | "def" :: k :: rest =>
    (natOf k).bind fun k => if k < 8 then
      (parseL 64 rest).bind fun (body, r) =>
        match r with
        | "ret" :: r2 => (parseE 64 r2).bind fun (e, r3) =>
          match r3 with
          | ["end"] =>
            -- a function that calls itself is rejected: unbounded recursion cannot be run
            if (callsFuel depthBound body ++ e.calls).contains k then none else some (.defn forced k body e)
          | _ => none
        | _ => none
    else none
  | "do" :: rest =>
    (parseL 64 rest).bind fun (stmts, r) =>
      let fin : Option Fin := match r with
        | ["end"] => some .none
        | "val" :: r2 => (parseE 64 r2).bind fun (e, r3) => if r3 == ["end"] then some (.expr e) else none
        | ["kint", c, "end"] => (intOf c).map .kint
        | ["krune", c, "end"] => (intOf c).bind fun c => if 97 ≤ c ∧ c ≤ 122 then some (.krune c) else none
        | ["kbool", "0", "end"] => some (.kbool false)
        | ["kbool", "1", "end"] => some (.kbool true)
        | _ => none
      fin.bind fun fin =>
        match fin with
        | .none => if stmts.isEmpty || lastIsBrk stmts then none else some (.code forced stmts fin)
        | _ => some (.code forced stmts fin)
  | _ => none

def splitChunks (toks : List String) : List (List String) :=
  let (cur, acc) := toks.foldl (fun (cur, acc) t => if t == ";;" then ([], acc ++ [cur]) else (cur ++ [t], acc)) ([], [])
  acc ++ [cur]

def defIndex : Chunk → Option Nat
  | .defn _ k _ _ => some k
  | _ => none

def parseProg (src : String) : Option (List Chunk) :=
  let toks := (src.splitOn " ").filter (· ≠ "")
  let cs := (splitChunks toks).map parseChunk
  if cs.all Option.isSome then
    let chunks := cs.filterMap id
    let ks := chunks.filterMap defIndex
    if ks.eraseDups.length == ks.length && !chunks.isEmpty then some chunks else none
  else none

def initState (cfg : Nat) : St :=
  { sem := { meo := bitAt cfg 9, keep := bitAt cfg 5 },
    obs := { n := togOf cfg {} } }

def showBits (l : List Bool) : String := String.join (l.map fun b => if b then "1" else "0")
def showInts (l : List Int) : String := ",".intercalate (l.map toString)

def showRes (r : ChunkRes) : String :=
  match r.panic with
  | none => "ok"
  | some m => "p[" ++ m ++ "]"

def runOp (cfg : Nat) (chunks : List Chunk) : String :=
  let s0 := initState cfg
  let (rs, s) := runChunks true 100000 chunks s0
  let out := if s0.sem.meo then "" else "⏎".intercalate s.obs.stdout
  "R=" ++ ",".intercalate (rs.map showRes) ++
  " | g=" ++ showInts s.sem.globals ++
  " | line=" ++ toString s.sem.line ++
  " | meo=" ++ (if s.sem.meo then "1" else "0") ++
  " | e=" ++ showInts s.sem.out ++
  " | d=" ++ toString s.obs.decls ++ " s=" ++ toString s.obs.stmts ++
  " | brk=" ++ showBits s.obs.brkLog ++
  " | trap=" ++ showBits s.obs.trapped ++ " stack=" ++ showBits s.obs.stack ++
  " | out=" ++ out

def stepC18 (s : Unit) (line : String) : Unit × String :=
  let (op, arg) := cut line
  match op with
  | "m" =>
    match arg.splitOn " | " with
    | [cfg, prog] =>
      match natOf cfg, parseProg prog with
      | some cfg, some chunks => if cfg < 1024 then (s, runOp cfg chunks) else (s, "bad-op")
      | _, _ => (s, "bad-op")
    | _ => (s, "bad-op")
  | "s" =>
    match arg.splitOn " | " with
    | n :: _ :: _ => match natOf n with
      | some n => (s, "src " ++ toString n)
      | none => (s, "bad-op")
    | _ => (s, "bad-op")
  | "reset" => (s, "ok")
  | _ => (s, "bad-op")

def main : IO Unit := run () stepC18
