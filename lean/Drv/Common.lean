/-! Line-protocol driver shared by all correspondence checks:
    one operation per input line, exactly one output line per operation. -/
namespace Drv

partial def loop {σ : Type} (step : σ → String → σ × String) (h : IO.FS.Stream) (out : IO.FS.Stream) (s : σ) : IO Unit := do
  let line ← h.getLine
  if line.isEmpty then return ()
  let l := if line.back == '\n' then (line.dropEnd 1).toString else line
  let (s', o) := step s l
  out.putStrLn o
  loop step h out s'

def run {σ : Type} (init : σ) (step : σ → String → σ × String) : IO Unit := do
  let i ← IO.getStdin
  let o ← IO.getStdout
  loop step i o init
  o.flush

/-- split "op rest" at the first blank -/
def cut (s : String) : String × String :=
  match s.splitOn " " with
  | [] => ("", "")
  | [a] => (a, "")
  | a :: rest => (a, " ".intercalate rest)

def bytes (s : String) : List Nat := s.toUTF8.toList.map (·.toNat)
def ofBytes (b : List Nat) : String :=
  String.fromUTF8! (ByteArray.mk (b.map (fun n => UInt8.ofNat n)).toArray)

end Drv
