import Model.MacroExpand
/-! Reader / printer of the tree serialisation of harness/c20sx.go (shared by Drv/C20 and Drv/C21). -/
namespace Sx
open MacroExpand

inductive SX
  | atom (s : String)
  | paren (xs : List SX)
  | brack (xs : List SX)
  deriving Inhabited

def isDelim (c : Char) : Bool := c == ' ' || c == '(' || c == ')' || c == '[' || c == ']'

partial def skipWs : List Char → List Char
  | ' ' :: cs => skipWs cs
  | cs => cs

mutual
partial def readOne (cs : List Char) : Option (SX × List Char) :=
  match skipWs cs with
  | [] => none
  | '(' :: cs => (readSeq ')' cs []).map (fun (xs, r) => (.paren xs, r))
  | '[' :: cs => (readSeq ']' cs []).map (fun (xs, r) => (.brack xs, r))
  | ')' :: _ => none
  | ']' :: _ => none
  | cs =>
    let a := cs.takeWhile (fun c => !isDelim c)
    some (.atom (String.ofList a), cs.drop a.length)
partial def readSeq (close : Char) (cs : List Char) (acc : List SX) : Option (List SX × List Char) :=
  match skipWs cs with
  | [] => none
  | c :: cs' =>
    if c == close then some (acc.reverse, cs')
    else if c == ')' || c == ']' then none
    else match readOne (c :: cs') with
      | some (x, r) => readSeq close r (x :: acc)
      | none => none
end

partial def readAllAux (cs : List Char) (acc : List SX) : Option (List SX) :=
  match skipWs cs with
  | [] => some acc.reverse
  | cs => match readOne cs with
    | some (x, r) => readAllAux r (x :: acc)
    | none => none

def readAll (cs : List Char) : Option (List SX) := readAllAux cs []

def nodeKinds : List String := ["ArrayType", "AssignStmt", "BinaryExpr", "BranchStmt", "CallExpr", "CaseClause", "ChanType",
  "CommClause", "CompositeLit", "DeclStmt", "DeferStmt", "Ellipsis", "ExprStmt", "Field", "ForStmt", "FuncDecl", "FuncLit",
  "FuncType", "GoStmt", "IfStmt", "ImportSpec", "IncDecStmt", "IndexExpr", "InterfaceType", "KeyValueExpr", "LabeledStmt",
  "MapType", "ParenExpr", "RangeStmt", "SelectStmt", "SelectorExpr", "SendStmt", "SliceExpr", "StarExpr", "StructType",
  "SwitchStmt", "TypeAssertExpr", "TypeSpec", "TypeSwitchStmt", "UnaryExpr", "ValueSpec", "BadDecl", "BadExpr", "BadStmt",
  "BasicLit", "EmptyStmt", "Ident"]
def listKinds : List String := ["AstSlice", "NodeSlice", "ExprSlice", "FieldSlice", "DeclSlice", "IdentSlice", "StmtSlice",
  "SpecSlice", "BlockStmt", "FieldList", "GenDecl", "ReturnStmt"]

def kindOf : String → Kind
  | "ParenExpr" => .parenExpr | "ExprStmt" => .exprStmt | "DeclStmt" => .declStmt | "BlockStmt" => .blockStmt
  | "UnaryExpr" => .unaryExpr | "FuncLit" => .funcLit | "FuncType" => .funcType | "FieldList" => .fieldList
  | "Field" => .field | "Ident" => .ident | "EmptyStmt" => .emptyStmt | "AssignStmt" => .assignStmt
  | "CallExpr" => .callExpr | "BasicLit" => .basicLit | "ExprSlice" => .exprSlice | "StmtSlice" => .stmtSlice
  | "IdentSlice" => .identSlice | s => .other s

def kindName : Kind → String
  | .parenExpr => "ParenExpr" | .exprStmt => "ExprStmt" | .declStmt => "DeclStmt" | .blockStmt => "BlockStmt"
  | .unaryExpr => "UnaryExpr" | .funcLit => "FuncLit" | .funcType => "FuncType" | .fieldList => "FieldList"
  | .field => "Field" | .ident => "Ident" | .emptyStmt => "EmptyStmt" | .assignStmt => "AssignStmt"
  | .callExpr => "CallExpr" | .basicLit => "BasicLit" | .exprSlice => "ExprSlice" | .stmtSlice => "StmtSlice"
  | .identSlice => "IdentSlice" | .other s => s

def catOf : String → Option Cat
  | "e" => some .expr | "s" => some .stmt | "d" => some .decl | "p" => some .spec | "o" => some .other | "z" => some .slice
  | _ => none
def catName : Cat → String
  | .expr => "e" | .stmt => "s" | .decl => "d" | .spec => "p" | .other => "o" | .slice => "z"

def slotOf : String → Option Slot
  | "e" => some .expr | "s" => some .stmt | "b" => some .block | "E" => some .exprs | "S" => some .stmts
  | "I" => some .idents | "i" => some .ident | "d" => some .decl | "p" => some .spec | "f" => some .field
  | "F" => some .fieldList | "t" => some .funcType | "c" => some .call | "l" => some .basicLit
  | "n" => some .node | "a" => some .any | _ => none
def slotName : Slot → String
  | .expr => "e" | .stmt => "s" | .block => "b" | .exprs => "E" | .stmts => "S" | .idents => "I" | .ident => "i"
  | .decl => "d" | .spec => "p" | .field => "f" | .fieldList => "F" | .funcType => "t" | .call => "c"
  | .basicLit => "l" | .node => "n" | .any => "a"

def okOpt {α} : MacroExpand.R α → Option α
  | .ok a => some a
  | .error _ => none

/-- rebuild a tree the way harness/c20sx.go does: every child goes through the slot's conversion
    (`Set` / `Append` of the real constructors), so ill-typed input is rejected or normalised alike -/
partial def toTree : SX → Option Tree
  | .atom "_" => some .nil
  | .atom _ => none
  | .paren (.atom k :: .atom c :: .atom a :: rest) =>
    if !nodeKinds.contains k then none else
    match catOf c with
    | none => none
    | some c =>
      let rec go : List SX → Option (List Slot × List Tree)
        | [] => some ([], [])
        | .atom s :: x :: more =>
          match slotOf s, toTree x, go more with
          | some s, some t, some (ss, ts) =>
            match t with
            | .nil => some (s :: ss, .nil :: ts)
            | _ => (okOpt (conv s t)).map (fun t' => (s :: ss, t' :: ts))
          | _, _, _ => none
        | _ => none
      (go rest).map (fun (ss, ts) => .node (kindOf k) c a ss ts)
  | .paren _ => none
  | .brack (.atom k :: .atom c :: .atom a :: .atom es :: rest) =>
    if !listKinds.contains k then none else
    match catOf c, slotOf es with
    | some c, some es =>
      ((rest.mapM toTree).bind (fun ts => okOpt (ts.mapM (conv es)))).map (fun ts => .list (kindOf k) c a es ts)
    | _, _ => none
  | .brack _ => none

partial def showTree : Tree → String
  | .nil => "_"
  | .node k c a ss ks =>
    "(" ++ kindName k ++ " " ++ catName c ++ " " ++ a ++
      String.join ((ss.zip ks).map (fun (s, t) => " " ++ slotName s ++ " " ++ showTree t)) ++ ")"
  | .list k c a es ks =>
    "[" ++ kindName k ++ " " ++ catName c ++ " " ++ a ++ " " ++ slotName es ++
      String.join (ks.map (fun t => " " ++ showTree t)) ++ "]"

end Sx
