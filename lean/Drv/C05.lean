import Model.Flow
import Drv.Common
open Flow Drv

/-! Driver for C05.  One op per line:  `prog <fuel> <s-expression of the statement list>`.
    Output: the result of `Flat.run (compileTop s)` if it equals `Ref.run s`, else both. -/

inductive SExp where
  | atom (s : String)
  | list (l : List SExp)
  deriving Inhabited, Repr

def tokenize (s : String) : List String :=
  let rec go (cs : List Char) (cur : String) (acc : List String) : List String :=
    match cs with
    | [] => (if cur.isEmpty then acc else cur :: acc).reverse
    | c :: r =>
      if c == '(' || c == ')' then
        go r "" (String.singleton c :: (if cur.isEmpty then acc else cur :: acc))
      else if c == ' ' then go r "" (if cur.isEmpty then acc else cur :: acc)
      else go r (cur.push c) acc
  go s.toList "" []

partial def parseList (ts : List String) (acc : List SExp) : List SExp × List String :=
  match ts with
  | [] => (acc.reverse, [])
  | ")" :: r => (acc.reverse, r)
  | "(" :: r =>
    let (l, r') := parseList r []
    parseList r' (.list l :: acc)
  | t :: r => parseList r (.atom t :: acc)

def parseInt (s : String) : Int :=
  if s.startsWith "-" then - ((s.drop 1).toString.toNat?.getD 0 : Nat) else (s.toNat?.getD 0 : Nat)

def parseVar (s : String) : Var := (s.drop 1).toString.toNat?.getD 0   -- "v3"

def ints (l : List SExp) : List Int :=
  l.filterMap (fun x => match x with | .atom a => some (parseInt a) | _ => none)

partial def toExpr : SExp → Expr
  | .atom a => if a.startsWith "v" then .var (parseVar a) else .lit (parseInt a)
  | .list [.atom "+", a, b] => .add (toExpr a) (toExpr b)
  | .list [.atom "-", a, b] => .sub (toExpr a) (toExpr b)
  | .list [.atom "tbl", .list t, i] => .tbl (ints t) (toExpr i)
  | _ => .lit 0

partial def toCond : SExp → Cond
  | .atom "T" => .const true
  | .atom "F" => .const false
  | .list [.atom "<", a, b] => .lt (toExpr a) (toExpr b)
  | .list [.atom "<=", a, b] => .le (toExpr a) (toExpr b)
  | .list [.atom "==", a, b] => .eq (toExpr a) (toExpr b)
  | .list [.atom "!=", a, b] => .ne (toExpr a) (toExpr b)
  | .list [.atom "||", a, b] => .or (toCond a) (toCond b)
  | _ => .const false

def optLabel : SExp → Option Label
  | .atom "_" => none
  | .atom a => some (parseVar a)     -- "L3"
  | _ => none

def labels : SExp → List Label
  | .list l => l.filterMap optLabel
  | _ => []

def optVar : SExp → Option Var
  | .atom "_" => none
  | .atom a => some (parseVar a)
  | _ => none

mutual
partial def toStmt : SExp → Stmt
  | .atom "_" => .skip
  | .list [.atom "e", .atom t, e] => .emit (t.toNat?.getD 0) (toExpr e)
  | .list [.atom "=", .atom x, e] => .assign (parseVar x) (toExpr e)
  | .list [.atom ":", .atom x, e] => .define (parseVar x) (toExpr e)
  | .list (.atom "b" :: ss) => .block (toList ss)
  | .list [.atom "if", init, c, .list thn, els] => .ite (toStmt init) (toCond c) (toList thn) (toStmt els)
  | .list (.atom "for" :: ls :: init :: c :: post :: body) =>
    .for (labels ls) (toStmt init) (match c with | .atom "_" => none | x => some (toCond x)) (toStmt post) (toList body)
  | .list [.atom "br", l] => .brk (optLabel l)
  | .list [.atom "co", l] => .cont (optLabel l)
  | .list [.atom "ret"] => .ret
  | .list [.atom "lab", l, s] => .labeled ((optLabel l).getD 0) (toStmt s)
  | .list [.atom "goto", l] => .goto ((optLabel l).getD 0)
  | .list (.atom "rng" :: ls :: .atom kind :: .atom dfn :: k :: v :: .list keys :: .list vals :: body) =>
    .range (labels ls) (kind == "str") (dfn == ":") (optVar k) (optVar v) (ints keys) (ints vals) (toList body)
  | .list (.atom "sw" :: ls :: init :: tag :: cls) =>
    .switch (labels ls) (toStmt init) (match tag with | .atom "_" => none | x => some (toExpr x)) (toClauses cls)
  | _ => .skip

partial def toList : List SExp → Stmt
  | [] => .skip
  | s :: r => .seq (toStmt s) (toList r)

partial def toClauses : List SExp → Stmt
  | [] => .skip
  | .list (.atom "case" :: .list gs :: .atom ft :: body) :: r =>
    .clause (some (gs.map toGuard)) (ft == "ft") (toList body) (toClauses r)
  | .list (.atom "default" :: .atom ft :: body) :: r =>
    .clause none (ft == "ft") (toList body) (toClauses r)
  | _ :: r => toClauses r

partial def toGuard : SExp → Guard
  | .list [.atom "c", c] => .cond (toCond c)
  | .list [.atom "g", .atom t, e] => .eff (t.toNat?.getD 0) (toExpr e)
  | e => .val (toExpr e)
end

def frame0 : Frame := [(0, 0), (1, 0), (2, 0), (3, 0)]

def showRes : Res → String
  | .done tr f =>
    "done " ++ ",".intercalate (tr.map (fun p => toString p.1 ++ ":" ++ toString p.2)) ++ "|" ++
      ",".intercalate ([0, 1, 2, 3].map (fun x => toString (Frame.get f x)))
  | .timeout => "timeout"
  | .stuck => "stuck"

def hasInvalid (c : Code) : Bool := c.any (· == .invalid)

def stepC05 (u : Unit) (line : String) : Unit × String :=
  let (op, arg) := cut line
  match op with
  | "prog" =>
    let (fuelS, src) := cut arg
    let fuel := fuelS.toNat?.getD 1000
    let (l, _) := parseList (tokenize src) []
    let s := toList l
    let code := compileTop s
    if hasInvalid code then (u, "cerr")
    else
      let a := Flat.run code fuel frame0
      let b := Ref.run s fuel frame0
      if showRes a == showRes b then (u, showRes a) else (u, "MODEL-SPLIT flat=" ++ showRes a ++ " ref=" ++ showRes b)
  | "gosrc" => (u, "unmodelled")   -- select / type switch / map, channel ranges / closures: interpreter vs compiled Go only
  | "code" =>
    let (l, _) := parseList (tokenize arg) []
    (u, toString (repr (compileTop (toList l))))
  | _ => (u, "bad-op")

def main : IO Unit := run () stepC05
