/-
Model of the top-level (REPL) variable storage of gomacro's fast interpreter.

Code transcribed (branch by branch):
* fast/declaration.go  `Comp.NewBind` (IntBind / VarBind class choice, `IntBindMax`),
  `CompBinds.NewBind` (redeclaration: slot reuse rule, complex128 = two slots, counters),
  `Comp.DeclVar0` (IntBind: declaration = assignment to the slot; VarBind: a fresh settable place
  `reflect.New(t).Elem()` is stored in `env.Vals[index]`).
* fast/repl.go  `Interp.prepareEnv` (growth of `env.Vals` / `env.Ints`: doubling, minimum delta
  16 / 1024, "internal error" when `env.Ints` would have to be reallocated after an address was
  taken, `IntBindMax := cap(env.Ints)` when `IntAddressTaken`), `Interp.updateIntBindMax`
  (the repair of fixes/C14-intbind-realloc-after-address.diff), `Interp.Eval = Compile; RunExpr`.
* fast/address.go  `Var.Address` (IntBind: `env.IntAddressTaken = true; &env.Ints[index]`,
  VarBind: `env.Vals[index].Addr()`).
* fast/var_ops.go / var_set.go / var_shifts.go  accessors of a variable: IntBind -> the low bytes of
  `env.Ints[index]` through an unsafe pointer cast, VarBind -> the place in `env.Vals[index]`;
  `varQuoPow2` (`x /= ±2^n`) accesses `env.Ints[index]` and, before
  fixes/C14-varquopow2-boxed.diff, did so whatever the class.
* fast/identifier.go  reads of a variable (same two paths).

Transcription rules / abstractions
* One action = one `Interp.Eval` of one top-level statement: compile (bind table mutation, may
  fail), `prepareEnv`, run.
* `env.Ints` is an array of 64-bit words with an *allocation identity* `gen` (incremented each
  time `prepareEnv` allocates a new backing array and copies).  A pointer to an int slot records
  the generation it was taken from; dereferencing a pointer of an older generation yields `stale`
  (the real pointer still addresses the replaced array: writes through it are lost, reads see old
  contents).  A variable of kind k occupies the low `k.modulus` part of its word (little endian
  `*(*T)(unsafe.Pointer(&env.Ints[i]))`); complex128 occupies two consecutive words.
* `env.Vals[i]` holds the identity (`boxes` index) of the heap place created by the declaration.
* Scalar values are bit patterns (`Nat` below the modulus of the kind); floats are IEEE bit patterns
  operated on with Lean's `Float`/`Float32` (= the host's IEEE arithmetic = Go's).
* Pointer variables (`p := &v`) are `VarBind` variables like any other (slot allocation is
  transcribed), but their *content* is kept in the table `ptab` keyed by the pointer's name: the
  histories never take the address of a pointer variable nor copy one, so the content is a
  function of the name.
* `Cfg` selects between the code as repaired by the three fixes/C14-*.diff (`Cfg.fixed`, what the
  correspondence run executes) and the code before them (`Cfg.orig`, used only for the Lean
  witnesses that the theorems fail there).
* Names are numbers (`v<n>`, `p<n>` in the Go source the harness feeds to the interpreter).
-/
namespace Globals

/-! ## kinds, types, values -/

inductive K where
  | bool | int | int8 | int16 | int32 | int64
  | uint | uint8 | uint16 | uint32 | uint64 | uintptr
  | f32 | f64 | c64 | c128 | str
  deriving DecidableEq, Repr, Inhabited

/-- number of distinct payload patterns a variable of this kind keeps in ONE 64-bit slot -/
def K.modulus : K → Nat
  | .bool | .int8 | .uint8 => 256
  | .int16 | .uint16 => 65536
  | .int32 | .uint32 | .f32 => 4294967296
  | .str => 1
  | _ => 18446744073709551616

/-- complex128 occupies two slots of env.Ints -/
def K.slots : K → Nat
  | .c128 => 2
  | _ => 1

/-- reflect.IsCategory(kind, Bool, Int, Uint, Float64, Complex128) -/
def K.intLike : K → Bool
  | .str => false
  | _ => true

def K.signed : K → Bool
  | .int | .int8 | .int16 | .int32 | .int64 => true
  | _ => false

def K.isInteger : K → Bool
  | .int | .int8 | .int16 | .int32 | .int64 | .uint | .uint8 | .uint16 | .uint32 | .uint64 | .uintptr => true
  | _ => false

inductive Ty where
  | sc (k : K)     -- scalar / string variable
  | ptr (k : K)    -- *k
  deriving DecidableEq, Repr, Inhabited

def Ty.intLike : Ty → Bool
  | .sc k => k.intLike
  | .ptr _ => false

def Ty.isC128 : Ty → Bool
  | .sc .c128 => true
  | _ => false

def Ty.slots (t : Ty) : Nat := if t.isC128 then 2 else 1

/-- a stored value -/
inductive SV where
  | n (a : Nat)            -- one word (all kinds except complex128 and string)
  | n2 (re im : Nat)       -- complex128
  | s (v : String)
  deriving DecidableEq, Repr, Inhabited

/-- the value a variable of kind k holds after `v` is assigned to it: payload truncated to the kind
    (what the typed store `*(*T)(unsafe.Pointer(..)) = v` / `reflect.Value.SetInt` etc. keep); a value
    of the wrong shape (never produced by the harness) becomes the zero value -/
def canon (k : K) (v : SV) : SV :=
  match k, v with
  | .c128, .n2 a b => .n2 (a % 18446744073709551616) (b % 18446744073709551616)
  | .c128, _ => .n2 0 0
  | .str, .s t => .s t
  | .str, _ => .s ""
  | k, .n a => .n (a % k.modulus)
  | _, _ => .n 0

def zeroOf : K → SV
  | .c128 => .n2 0 0
  | .str => .s ""
  | _ => .n 0

/-! ## arithmetic of compound assignments (Go semantics on bit patterns) -/

inductive Op where
  | set | add | sub | mul | quo | rem | and | or | xor | andnot | shl | shr
  deriving DecidableEq, Repr, Inhabited

def toInt (m a : Nat) : Int := if 2 * a ≥ m then (a : Int) - m else a
def ofInt (m : Nat) (z : Int) : Nat := (z % (m : Int)).toNat

def f64op (o : Op) (a b : Nat) : Option Nat :=
  let x := Float.ofBits a.toUInt64
  let y := Float.ofBits b.toUInt64
  match o with
  | .add => some (x + y).toBits.toNat
  | .sub => some (x - y).toBits.toNat
  | .mul => some (x * y).toBits.toNat
  | .quo => some (x / y).toBits.toNat
  | _ => none

def f32op (o : Op) (a b : Nat) : Option Nat :=
  let x := Float32.ofBits a.toUInt32
  let y := Float32.ofBits b.toUInt32
  match o with
  | .add => some (x + y).toBits.toNat
  | .sub => some (x - y).toBits.toNat
  | .mul => some (x * y).toBits.toNat
  | .quo => some (x / y).toBits.toNat
  | _ => none

def intOp (k : K) (o : Op) (a b : Nat) : Option Nat :=
  let m := k.modulus
  let sa := if k.signed then toInt m a else (a : Int)
  let sb := if k.signed then toInt m b else (b : Int)
  match o with
  | .add => some (ofInt m (sa + sb))
  | .sub => some (ofInt m (sa - sb))
  | .mul => some (ofInt m (sa * sb))
  | .quo => if b = 0 then none else some (ofInt m (Int.tdiv sa sb))
  | .rem => if b = 0 then none else some (ofInt m (Int.tmod sa sb))
  | .and => some (a &&& b)
  | .or => some (a ||| b)
  | .xor => some (a ^^^ b)
  | .andnot => some (a &&& (b ^^^ (m - 1)))
  | .shl => some (if b ≥ 64 then 0 else (a <<< b) % m)           -- b is the shift count
  | .shr => some (ofInt m (sa >>> b))
  | .set => some b

/-- `x op= y` on kind k; `none` = run-time panic (integer division by zero) or an operator the
    history generator never applies to that kind -/
def evalOp (k : K) (o : Op) (x y : SV) : Option SV :=
  if o = .set then some y else
  match k, x, y with
  | .str, .s a, .s b => if o = .add then some (.s (a ++ b)) else none
  | .bool, _, _ => none
  | .f64, .n a, .n b => (f64op o a b).map .n
  | .f32, .n a, .n b => (f32op o a b).map .n
  | .c128, .n2 a b, .n2 c d =>
    if o = .add ∨ o = .sub then
      match f64op o a c, f64op o b d with
      | some r, some i => some (.n2 r i)
      | _, _ => none
    else none
  | .c64, .n a, .n b =>
    if o = .add ∨ o = .sub then
      match f32op o (a % 4294967296) (b % 4294967296), f32op o (a / 4294967296) (b / 4294967296) with
      | some r, some i => some (.n (r + 4294967296 * i))
      | _, _ => none
    else none
  | k, .n a, .n b => if k.isInteger then (intOp k o a b).map .n else none
  | _, _, _ => none

def isPow2 : Nat → Nat → Bool
  | 0, _ => false
  | fuel + 1, n => n == 1 || (n != 0 && n % 2 == 0 && isPow2 fuel (n / 2))

/-- does `x /= c` take the `varQuoPow2` shortcut?  (integer kind, |c| a power of two, c ∉ {0, 1, -1}) -/
def usesQuoPow2 (k : K) (o : Op) (c : SV) : Bool :=
  match o, c with
  | .quo, .n b =>
    k.isInteger &&
      (let a := if k.signed then (toInt k.modulus b).natAbs else b
       a != 1 && isPow2 65 a)
  | _, _ => false

/-! ## compile-time state: fast.CompBinds -/

inductive Class where
  | intb   -- IntBind: env.Ints[idx]
  | varb   -- VarBind: env.Vals[idx]
  deriving DecidableEq, Repr, Inhabited

structure Bind where
  cls : Class
  ty : Ty
  idx : Nat
  vid : Nat      -- GHOST: number of the declaration that created the bind (not used by any computation)
  deriving DecidableEq, Repr, Inhabited

structure Cfg where
  quoGuard : Bool     -- fixes/C14-varquopow2-boxed.diff
  syncMax : Bool      -- fixes/C14-intbind-realloc-after-address.diff
  reuseGuard : Bool   -- fixes/C14-redeclare-reuses-addressed-slot.diff
  deriving DecidableEq, Repr

def Cfg.fixed : Cfg := ⟨true, true, true⟩
def Cfg.orig : Cfg := ⟨false, false, false⟩

structure Comp where
  binds : List (Nat × Bind)     -- map name -> bind (the first entry for a name is the live one)
  bindNum : Nat
  intBindNum : Nat
  intBindMax : Nat
  deriving Repr, Inhabited

abbrev findBind (bs : List (Nat × Bind)) (n : Nat) : Option Bind := bs.lookup n

/-- class chosen by `Comp.NewBind` for a variable of type t -/
def chooseClass (cfg : Cfg) (c : Comp) (t : Ty) : Class :=
  let fits := if cfg.syncMax then c.intBindNum + t.slots ≤ c.intBindMax else c.intBindNum < c.intBindMax
  if (c.intBindMax = 0 ∨ fits) ∧ t.intLike then .intb else .varb

/-- index reused by `CompBinds.NewBind` when the name is already bound -/
def reuseIdx (cfg : Cfg) (c : Comp) (name : Nat) (cls : Class) (t : Ty) : Option Nat :=
  match findBind c.binds name with
  | none => none
  | some old =>
    if (old.cls = .intb) = (cls = .intb) then
      if cfg.reuseGuard ∧ cls = .intb ∧ c.intBindMax ≠ 0 then none
      else if old.ty.isC128 ∨ ¬ t.isC128 then some old.idx
      else none
    else none

/-- `Comp.NewBind(name, VarBind, t)` followed by `CompBinds.NewBind` -/
def newBind (cfg : Cfg) (c : Comp) (name : Nat) (t : Ty) (vid : Nat) : Comp × Bind :=
  let cls := chooseClass cfg c t
  match cls, reuseIdx cfg c name cls t with
  | cls, some i =>
    let b : Bind := ⟨cls, t, i, vid⟩
    ({ c with binds := (name, b) :: c.binds }, b)
  | .intb, none =>
    let b : Bind := ⟨.intb, t, c.intBindNum, vid⟩
    ({ c with binds := (name, b) :: c.binds, intBindNum := c.intBindNum + t.slots }, b)
  | .varb, none =>
    let b : Bind := ⟨.varb, t, c.bindNum, vid⟩
    ({ c with binds := (name, b) :: c.binds, bindNum := c.bindNum + 1 }, b)

/-! ## run-time state: fast.Env of the top-level scope -/

inductive Loc where
  | slot (gen idx : Nat)   -- &env.Ints[idx] of the backing array with identity gen
  | box (id : Nat)         -- the heap place created by a VarBind declaration
  deriving DecidableEq, Repr, Inhabited

structure Env where
  vals : Array (Option Nat)   -- env.Vals: identity of the place held by each slot (none = zero reflect.Value)
  valsCap : Nat
  ints : Array Nat            -- env.Ints[0:cap]; size = cap(env.Ints)
  intsLen : Nat               -- len(env.Ints)
  gen : Nat                   -- allocation identity of env.Ints
  boxes : Array SV            -- heap of places
  taken : Bool                -- env.IntAddressTaken
  deriving Repr, Inhabited

def Env.init : Env := ⟨#[], 0, #[], 0, 0, #[], false⟩

structure St where
  c : Comp
  e : Env
  ptab : List (Nat × (Loc × K × Nat))   -- content of the pointer variables: (target, elem kind, GHOST target vid)
  nvid : Nat                            -- GHOST: number of declarations so far
  deriving Repr, Inhabited

def St.init : St := ⟨⟨[], 0, 0, 0⟩, Env.init, [], 0⟩

/-- capacity computed by prepareEnv when `cap < min` -/
def growCap (cap min delta : Nat) : Nat :=
  let c := cap * 2
  let c := if c < min then min else c
  if c - cap < delta then cap + delta else c

/-- make([]uint64, min, capacity); copy(binds, env.Ints): the first `len` words are copied, the rest is zero -/
def growInts (a : Array Nat) (len cap : Nat) : Array Nat :=
  Array.ofFn (n := cap) (fun j => if j.val < len then a.getD j.val 0 else 0)

/-- env.Vals resliced / reallocated to length n: old elements kept, new ones are zero Values -/
def growVals (a : Array (Option Nat)) (n : Nat) : Array (Option Nat) :=
  Array.ofFn (n := n) (fun j => a.getD j.val none)

/-- the `env.Vals` half of prepareEnv -/
def prepareVals (c : Comp) (e : Env) : Env :=
  let cap := if e.valsCap < c.bindNum then growCap e.valsCap c.bindNum 16 else e.valsCap
  let vals := if e.vals.size < c.bindNum then growVals e.vals c.bindNum else e.vals
  { e with vals := vals, valsCap := cap }

/-- Interp.prepareEnv(16, 1024); `none` = "internal error: attempt to reallocate Env.Ints[] after
    one of its addresses was taken" (raised after the Vals half was done) -/
def prepareEnv (c : Comp) (e : Env) : Comp × Env × Bool :=
  let e := prepareVals c e
  if e.ints.size < c.intBindNum then
    if e.taken then (c, e, false)
    else
      let cap := growCap e.ints.size c.intBindNum 1024
      let ints := growInts e.ints e.intsLen cap
      let e := { e with ints := ints, intsLen := c.intBindNum, gen := e.gen + 1 }
      (c, e, true)
  else
    let e := if e.intsLen < c.intBindNum then { e with intsLen := c.intBindNum } else e
    let c := if e.taken then { c with intBindMax := e.ints.size } else c
    (c, e, true)

/-- Interp.updateIntBindMax (only in the repaired code) -/
def updateIntBindMax (cfg : Cfg) (c : Comp) (e : Env) : Comp :=
  if cfg.syncMax ∧ e.taken then { c with intBindMax := e.ints.size } else c

/-! ## accessors -/

/-- result of a memory access -/
inductive Acc (α : Type) where
  | ok (a : α)
  | panic          -- Go run-time panic (index out of range, invalid reflect.Value)
  | stale          -- access through a pointer into a replaced env.Ints backing array
  deriving Repr

def loadSlot (e : Env) (i : Nat) (k : K) : Acc SV :=
  if i + k.slots ≤ e.intsLen ∧ i + k.slots ≤ e.ints.size then
    if k = .c128 then .ok (.n2 (e.ints.getD i 0 % k.modulus) (e.ints.getD (i + 1) 0 % k.modulus))
    else .ok (.n (e.ints.getD i 0 % k.modulus))
  else .panic

/-- typed store into the low part of a word: the other bytes of the word are kept -/
def putWord (a : Array Nat) (i : Nat) (m v : Nat) : Array Nat :=
  a.setIfInBounds i (a.getD i 0 - a.getD i 0 % m + v % m)

def storeSlot (e : Env) (i : Nat) (k : K) (v : SV) : Acc Env :=
  if i + k.slots ≤ e.intsLen ∧ i + k.slots ≤ e.ints.size then
    if k = .c128 then
      match canon k v with
      | .n2 a b => .ok { e with ints := (putWord (putWord e.ints i k.modulus a) (i + 1) k.modulus b) }
      | _ => .panic
    else
      match canon k v with
      | .n a => .ok { e with ints := putWord e.ints i k.modulus a }
      | _ => .panic
  else .panic

def load (e : Env) (l : Loc) (k : K) : Acc SV :=
  match l with
  | .slot g i => if g = e.gen then loadSlot e i k else .stale
  | .box id => match e.boxes[id]? with
    | some v => .ok v
    | none => .panic

def store (e : Env) (l : Loc) (k : K) (v : SV) : Acc Env :=
  match l with
  | .slot g i => if g = e.gen then storeSlot e i k v else .stale
  | .box id => if id < e.boxes.size then .ok { e with boxes := e.boxes.setIfInBounds id (canon k v) } else .panic

/-- where the accessors compiled for a bind find the variable -/
def locOf (e : Env) (b : Bind) : Option Loc :=
  match b.cls with
  | .intb => some (.slot e.gen b.idx)
  | .varb => match e.vals.getD b.idx none with
    | some id => some (.box id)
    | none => none

/-- `xr.New(t).Elem()` stored into env.Vals[idx] -/
def newBox (e : Env) (idx : Nat) (v : SV) : Acc Env :=
  if idx < e.vals.size then
    .ok { e with vals := e.vals.setIfInBounds idx (some e.boxes.size), boxes := e.boxes.push v }
  else .panic

/-! ## actions -/

inductive Rhs where
  | c (v : SV)       -- constant
  | v (name : Nat)   -- another variable
  | d (p : Nat)      -- *p
  deriving Repr, Inhabited

inductive Action where
  | decl (name : Nat) (k : K) (init : Option SV)   -- var v<name> K [= const]
  | addr (p : Nat) (name : Nat)                    -- p<p> := &v<name>
  | asg (name : Nat) (o : Op) (r : Rhs)            -- v<name> op= rhs
  | wrp (p : Nat) (o : Op) (r : Rhs)               -- *p<p> op= rhs
  | read (name : Nat)                              -- v<name>
  | rdp (p : Nat)                                  -- *p<p>
  | addrf (p : Nat) (name : Nat) (fid : Nat)       -- func f<fid>() *K { return &v<name> }  then  p<p> := f<fid>()
                                                   --   (two evaluations; the address is taken one or more frames down)
  | rng (kn vn : Option Nat) (kv : K) (last : Option (Nat × SV))
                                                   -- for v<kn>, v<vn> = range <string|slice of kv> {}   (assignment form);
                                                   --   last = index and element of the final iteration (none: empty)
  | box                                            -- harness: Comp.IntBindMax = Comp.IntBindNum
  | stat                                           -- harness: PrepareEnv(); report counters
  deriving Repr, Inhabited

inductive Out where
  | ok
  | val (v : SV)
  | cerr     -- compile error
  | ierr     -- prepareEnv internal error
  | panic    -- run-time panic
  | stale
  | stat (bindNum intBindNum intBindMax capInts lenInts capVals lenVals : Nat)
  deriving DecidableEq, Repr, Inhabited

/-- pointer variables live in the name space `p<n>`; in `binds` they are keyed `2n+1`, variables `2n` -/
def vkey (n : Nat) : Nat := 2 * n
def pkey (n : Nat) : Nat := 2 * n + 1
/-- helper functions `f<fid>` share the name space of the variables (names >= 1000000 are reserved for them) -/
def fkey (fid : Nat) : Nat := 2 * (fid + 1000000)

def scalarBind (c : Comp) (name : Nat) : Option (Bind × K) :=
  match findBind c.binds (vkey name) with
  | some b => match b.ty with
    | .sc k => some (b, k)
    | .ptr _ => none
  | none => none

def ptrOf (s : St) (p : Nat) : Option (Loc × K × Nat) :=
  match findBind s.c.binds (pkey p) with
  | some _ => s.ptab.lookup p
  | none => none

/-- compile-time part of an rhs: its kind must be k -/
def rhsOk (s : St) (k : K) : Rhs → Bool
  | .c _ => true
  | .v w => match scalarBind s.c w with
    | some (_, k') => k' == k
    | none => false
  | .d q => match ptrOf s q with
    | some (_, k', _) => k' == k
    | none => false

def rhsVal (s : St) (k : K) : Rhs → Acc SV
  | .c v => .ok v
  | .v w => match scalarBind s.c w with
    | some (b, _) => match locOf s.e b with
      | some l => load s.e l k
      | none => .panic
    | none => .panic
  | .d q => match ptrOf s q with
    | some (l, _, _) => load s.e l k
    | none => .panic

def constDivZero (k : K) (o : Op) : Rhs → Bool
  | .c (.n 0) => k.isInteger && (o == .quo || o == .rem)
  | _ => false

/-- run `place op= rhs` where the place is the location l -/
def runAssign (s : St) (l : Loc) (k : K) (o : Op) (r : Rhs) : St × Out :=
  match rhsVal s k r with
  | .panic => (s, .panic)
  | .stale => (s, .stale)
  | .ok y =>
    if o = .set then
      match store s.e l k y with
      | .ok e => ({ s with e := e }, .ok)
      | .panic => (s, .panic)
      | .stale => (s, .stale)
    else
      match load s.e l k with
      | .panic => (s, .panic)
      | .stale => (s, .stale)
      | .ok x =>
        match evalOp k o x y with
        | none => (s, .panic)
        | some z =>
          match store s.e l k z with
          | .ok e => ({ s with e := e }, .ok)
          | .panic => (s, .panic)
          | .stale => (s, .stale)

/-- `Interp.updateIntBindMax` at the start of a compile -/
def pre (cfg : Cfg) (s : St) : St := { s with c := updateIntBindMax cfg s.c s.e }

/-- `Interp.PrepareEnv` between compile and run -/
def prep (s : St) : St × Bool :=
  let r := prepareEnv s.c s.e
  ({ s with c := r.1, e := r.2.1 }, r.2.2)

/-- value stored by `var v K [= init]` -/
def declVal (k : K) (init : Option SV) : SV := canon k (init.getD (zeroOf k))

/-- run phase of `var v K = init` -/
def runDecl (s : St) (b : Bind) (k : K) (init : Option SV) : St × Out :=
  match b.cls with
  | .intb =>
    match storeSlot s.e b.idx k (declVal k init) with
    | .ok e => ({ s with e := e }, .ok)
    | _ => (s, .panic)
  | .varb =>
    match newBox s.e b.idx (declVal k init) with
    | .ok e => ({ s with e := e }, .ok)
    | _ => (s, .panic)

/-- evaluating `&v` on an IntBind variable sets env.IntAddressTaken -/
def takeAddr (e : Env) (tb : Bind) : Env := if tb.cls = .intb then { e with taken := true } else e

/-- run phase of `p := &v`: evaluate &v (tb = bind of v), then declare p (b = bind of p) -/
def runAddr (s : St) (tb b : Bind) (p : Nat) (k : K) : St × Out :=
  match locOf (takeAddr s.e tb) tb with
  | none => ({ s with e := takeAddr s.e tb }, .panic)
  | some l =>
    match newBox (takeAddr s.e tb) b.idx (.s "") with
    | .ok e4 => ({ s with e := e4, ptab := (p, (l, k, tb.vid)) :: s.ptab }, .ok)
    | _ => ({ s with e := takeAddr s.e tb }, .panic)

def runRead (s : St) (l : Loc) (k : K) : St × Out :=
  match load s.e l k with
  | .ok v => (s, .val v)
  | .panic => (s, .panic)
  | .stale => (s, .stale)

/-- the state after `pre` and the NewBind of a pointer/function name -/
def declared (cfg : Cfg) (s : St) (key : Nat) (k : K) : St :=
  { pre cfg s with c := (newBind cfg (pre cfg s).c key (.ptr k) (pre cfg s).nvid).1, nvid := (pre cfg s).nvid + 1 }

/-- one evaluation of `p := &v` (also the second evaluation of `addrf`: `p := f()` executes the same `&v`
    one frame further down; `Var.Address` walks `env.Outer` to the frame that owns the slot) -/
def stepAddr (cfg : Cfg) (s : St) (p name : Nat) : St × Out :=
  match scalarBind (pre cfg s).c name with
  | none => (pre cfg s, .cerr)
  | some (tb, k) =>
    if !(prep (declared cfg s (pkey p) k)).2 then
      ((prep (declared cfg s (pkey p) k)).1, .ierr)
    else runAddr (prep (declared cfg s (pkey p) k)).1
                 tb (newBind cfg (pre cfg s).c (pkey p) (.ptr k) (pre cfg s).nvid).2 p k

/-- the first evaluation of `addrf`: `func f<fid>() *K { return &v }` — a FuncBind: one slot of env.Vals,
    which receives the function value (modelled as a place of its own) -/
def stepFunc (cfg : Cfg) (s : St) (fid : Nat) (k : K) : St × Out :=
  if !(prep (declared cfg s (fkey fid) k)).2 then
    ((prep (declared cfg s (fkey fid) k)).1, .ierr)
  else
    match newBox (prep (declared cfg s (fkey fid) k)).1.e
                 (newBind cfg (pre cfg s).c (fkey fid) (.ptr k) (pre cfg s).nvid).2.idx (.s "") with
    | .ok e => ({ (prep (declared cfg s (fkey fid) k)).1 with e := e }, .ok)
    | _ => ((prep (declared cfg s (fkey fid) k)).1, .panic)

/-- kind of the key variable of a range statement: Go's `int` -/
def rngVarOk (s : St) (k : K) : Option Nat → Bool
  | none => true
  | some n => match scalarBind s.c n with
    | some (_, k') => k' == k
    | none => false

/-- `v<n> = val` inside the loop body of a range statement -/
def rngAssign (s : St) (k : K) (v : SV) : Option Nat → St × Out
  | none => (s, .ok)
  | some n => match scalarBind s.c n with
    | some (b, _) => match locOf s.e b with
      | some l => runAssign s l k .set (.c v)
      | none => (s, .panic)
    | none => (s, .panic)

/-- compile; prepareEnv; run — one `Interp.Eval` -/
def step (cfg : Cfg) (s : St) (a : Action) : St × Out :=
  match a with
  | .box => ({ s with c := { s.c with intBindMax := s.c.intBindNum } }, .ok)
  | .stat =>
    let r := prep s
    (r.1, if r.2 then .stat r.1.c.bindNum r.1.c.intBindNum r.1.c.intBindMax r.1.e.ints.size r.1.e.intsLen
                        r.1.e.valsCap r.1.e.vals.size else .ierr)
  | .decl name k init =>
    let s0 := pre cfg s
    let nb := newBind cfg s0.c (vkey name) (.sc k) s0.nvid
    let s1 := { s0 with c := nb.1, nvid := s0.nvid + 1 }
    let r := prep s1
    if !r.2 then (r.1, .ierr) else runDecl r.1 nb.2 k init
  | .addr p name => stepAddr cfg s p name
  | .addrf p name fid =>
    match scalarBind (pre cfg s).c name with
    | none => (pre cfg s, .cerr)
    | some (_, k) =>
      match (stepFunc cfg s fid k).2 with
      | .ok => stepAddr cfg (stepFunc cfg s fid k).1 p name
      | o => ((stepFunc cfg s fid k).1, o)
  | .rng kn vn kv last =>
    if !rngVarOk (pre cfg s) .int kn || !rngVarOk (pre cfg s) kv vn then (pre cfg s, .cerr) else
    if !(prep (pre cfg s)).2 then ((prep (pre cfg s)).1, .ierr) else
    match last with
    | none => ((prep (pre cfg s)).1, .ok)
    | some (i, v) =>
      match (rngAssign (prep (pre cfg s)).1 .int (.n i) kn).2 with
      | .ok => rngAssign (rngAssign (prep (pre cfg s)).1 .int (.n i) kn).1 kv v vn
      | o => ((rngAssign (prep (pre cfg s)).1 .int (.n i) kn).1, o)
  | .asg name o r =>
    let s0 := pre cfg s
    match scalarBind s0.c name with
    | none => (s0, .cerr)
    | some (b, k) =>
      if !rhsOk s0 k r || constDivZero k o r then (s0, .cerr) else
      let pr := prep s0
      if !pr.2 then (pr.1, .ierr) else
      let viaInts : Bool := match r with
        | .c cv => !cfg.quoGuard && usesQuoPow2 k o cv
        | _ => false
      let l? : Option Loc := if viaInts then some (.slot pr.1.e.gen b.idx) else locOf pr.1.e b
      match l? with
      | none => (pr.1, .panic)
      | some l => runAssign pr.1 l k o r
  | .wrp p o r =>
    let s0 := pre cfg s
    match ptrOf s0 p with
    | none => (s0, .cerr)
    | some (l, k, _) =>
      if !rhsOk s0 k r || constDivZero k o r then (s0, .cerr) else
      let pr := prep s0
      if !pr.2 then (pr.1, .ierr) else runAssign pr.1 l k o r
  | .read name =>
    let s0 := pre cfg s
    match scalarBind s0.c name with
    | none => (s0, .cerr)
    | some (b, k) =>
      let pr := prep s0
      if !pr.2 then (pr.1, .ierr) else
      match locOf pr.1.e b with
      | none => (pr.1, .panic)
      | some l => runRead pr.1 l k
  | .rdp p =>
    let s0 := pre cfg s
    match ptrOf s0 p with
    | none => (s0, .cerr)
    | some (l, k, _) =>
      let pr := prep s0
      if !pr.2 then (pr.1, .ierr) else runRead pr.1 l k

def run (cfg : Cfg) : St → List Action → St × List Out
  | s, [] => (s, [])
  | s, a :: as =>
    let (s1, o) := step cfg s a
    let (s2, os) := run cfg s1 as
    (s2, o :: os)

/-! ## specification: Go executing the same statements in order in one block
    (a plain store: every declaration creates a fresh variable, a pointer is the identity of a variable) -/

structure Seq where
  names : List (Nat × (Nat × K))     -- variable name -> (variable id, kind) of the latest declaration
  ptrs : List (Nat × (Nat × K))      -- pointer name -> (target variable id, elem kind)
  vars : List (Nat × SV)             -- variable id -> current value (first entry wins)
  nvid : Nat
  deriving Repr, Inhabited

def Seq.init : Seq := ⟨[], [], [], 0⟩

def Seq.rhsOk (q : Seq) (k : K) : Rhs → Bool
  | .c _ => true
  | .v w => match q.names.lookup w with
    | some (_, k') => k' == k
    | none => false
  | .d p => match q.ptrs.lookup p with
    | some (_, k') => k' == k
    | none => false

def Seq.rhsVal (q : Seq) : Rhs → Option SV
  | .c v => some v
  | .v w => match q.names.lookup w with
    | some (id, _) => q.vars.lookup id
    | none => none
  | .d p => match q.ptrs.lookup p with
    | some (id, _) => q.vars.lookup id
    | none => none

def Seq.assign (q : Seq) (id : Nat) (k : K) (o : Op) (r : Rhs) : Seq × Out :=
  match q.rhsVal r with
  | none => (q, .panic)
  | some y =>
    if o = .set then ({ q with vars := (id, canon k y) :: q.vars }, .ok) else
    match q.vars.lookup id with
    | none => (q, .panic)
    | some x => match evalOp k o x y with
      | none => (q, .panic)
      | some z => ({ q with vars := (id, canon k z) :: q.vars }, .ok)

def Seq.step (q : Seq) (a : Action) : Seq × Out :=
  match a with
  | .box => (q, .ok)
  | .stat => (q, .ok)
  | .decl name k init =>
    ({ q with names := (name, (q.nvid, k)) :: q.names, vars := (q.nvid, canon k (init.getD (zeroOf k))) :: q.vars,
              nvid := q.nvid + 1 }, .ok)
  | .addr p name =>
    match q.names.lookup name with
    | none => (q, .cerr)
    | some (id, k) => ({ q with ptrs := (p, (id, k)) :: q.ptrs, nvid := q.nvid + 1 }, .ok)
  | .addrf p name _ =>
    match q.names.lookup name with
    | none => (q, .cerr)
    | some (id, k) => ({ q with ptrs := (p, (id, k)) :: q.ptrs, nvid := q.nvid + 2 }, .ok)
  | .rng kn vn kv last =>
    let okVar (k : K) : Option Nat → Bool
      | none => true
      | some n => match q.names.lookup n with
        | some (_, k') => k' == k
        | none => false
    if !okVar .int kn || !okVar kv vn then (q, .cerr) else
    match last with
    | none => (q, .ok)
    | some (i, v) =>
      let set (q : Seq) (k : K) (x : SV) : Option Nat → Seq
        | none => q
        | some n => match q.names.lookup n with
          | some (id, _) => { q with vars := (id, canon k x) :: q.vars }
          | none => q
      (set (set q .int (.n i) kn) kv v vn, .ok)
  | .asg name o r =>
    match q.names.lookup name with
    | none => (q, .cerr)
    | some (id, k) =>
      if !q.rhsOk k r || constDivZero k o r then (q, .cerr) else q.assign id k o r
  | .wrp p o r =>
    match q.ptrs.lookup p with
    | none => (q, .cerr)
    | some (id, k) =>
      if !q.rhsOk k r || constDivZero k o r then (q, .cerr) else q.assign id k o r
  | .read name =>
    match q.names.lookup name with
    | none => (q, .cerr)
    | some (id, _) => match q.vars.lookup id with
      | some v => (q, .val v)
      | none => (q, .panic)
  | .rdp p =>
    match q.ptrs.lookup p with
    | none => (q, .cerr)
    | some (id, _) => match q.vars.lookup id with
      | some v => (q, .val v)
      | none => (q, .panic)

def Seq.run : Seq → List Action → Seq × List Out
  | q, [] => (q, [])
  | q, a :: as =>
    let (q1, o) := q.step a
    let (q2, os) := Seq.run q1 as
    (q2, o :: os)

/-- what a history shows to its user: everything except the harness' counters -/
def Out.obs : Out → Out
  | .stat .. => .ok
  | o => o

end Globals
