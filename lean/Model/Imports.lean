/-!
# Model of gomacro's precompiled import tables (imports/*.go) and interface proxies

Shared by C31 (tables bind each name to exactly that exported symbol) and C11 (proxy forwarding).

## What is transcribed

`imports/<pkg>.go`, `imports/thirdparty/*.go`, `imports/syscall/*.go` and the `x_package.go`
files are *generated Go source* (base/genimport/genimport.go `writeBinds`, `writeTypes`,
`writeProxies`, `writeUntypeds`, `writeWrappers`, proxy.go `writeInterfaceProxy`):

    Packages["io"] = Package{ Name: "io",
       Binds:    map[string]Value{ "Copy": ValueOf(io.Copy), "EOF": ValueOf(&io.EOF).Elem(), ... },
       Types:    map[string]Type{ "Reader": TypeOf((*io.Reader)(nil)).Elem(), ... },
       Proxies:  map[string]Type{ "Reader": TypeOf((*P_io_Reader)(nil)).Elem(), ... },
       Untypeds: map[string]string{ "SeekEnd": "int:2", ... },
       Wrappers: map[string][]string{ "ReadWriter": []string{"Read", ...}, ... } }
    type P_io_Reader struct { Object interface{}; Read_ func(_proxy_obj_ interface{}, p []byte) (n int, err error) }
    func (P *P_io_Reader) Read(p []byte) (n int, err error) { return P.Read_(P.Object, p) }

The extractor (harness/c31_extract.go, go/ast) records for every table entry the key and the
SYNTAX of the bound expression; the meaning "which symbol does this Go expression denote" is then
Go's own: `ValueOf(io.Copy)` in a file whose import clause says `io "io"` IS the function `Copy` of
package "io".  So "the table binds name N of package P to exactly symbol N of P" is the decidable
syntactic statement `key = selector name ∧ import alias ↦ P` (below: `bindOk`, `typeOk`, ...).
Syntax the extractor does not recognise becomes `opaque`, which no checker accepts.

## Abstractions

* Byte strings (`Str`) are natural numbers: `1 :: bytes` read as a base-256 numeral (the leading 1
  keeps leading NUL bytes).  Equality of `Str` is equality of byte strings (`Str.bytes_ofBytes`);
  the kernel compares them with GMP arithmetic, which makes `decide +kernel` over ~25000 entries
  cheap.  The driver decodes them back to text.
* Go types inside proxy signatures are compared as rendered source text.
* The proxy call model (`callMethod`) evaluates the extracted method body on abstract values with an
  explicit state (so "the field is called exactly once with these arguments" is expressible);
  variadic parameters are one value (the slice), forwarded with `...`.
-/
namespace Imports

/-- byte string encoded as a natural number: `1 :: bytes` as base-256 digits (big endian) -/
abbrev Str := Nat

namespace Str
def ofBytes (l : List Nat) : Str := l.foldl (fun acc b => acc * 256 + b) 1

/-- little-endian digits of `n` until the leading 1 is reached (fuel = n suffices) -/
def revBytesAux : Nat → Nat → List Nat
  | 0, _ => []
  | fuel + 1, n => if n ≤ 1 then [] else (n % 256) :: revBytesAux fuel (n / 256)

def bytes (s : Str) : List Nat := (revBytesAux s s).reverse

def ofString (s : String) : Str := ofBytes (s.toUTF8.toList.map (·.toNat))
def toString (s : Str) : String :=
  String.fromUTF8! (ByteArray.mk ((bytes s).map (fun n => UInt8.ofNat n)).toArray)

/-- `s ++ "_"` -/
def underscore (s : Str) : Str := s * 256 + 95
def empty : Str := 1
end Str

/-! ## Table entries (syntax of the bound expression) -/

inductive ValForm
  | plain (pkg sym : Str)              -- ValueOf(pkg.Sym)
  | addr (pkg sym : Str)               -- ValueOf(&pkg.Sym).Elem()
  | conv (ty pkg sym : Str)            -- ValueOf(T(pkg.Sym))        T a basic numeric type
  | localPlain (sym : Str)             -- ValueOf(Sym)               (file inside the package itself)
  | localAddr (sym : Str)              -- ValueOf(&Sym).Elem()
  | localConv (ty sym : Str)           -- ValueOf(T(Sym))
  | opaq
  deriving Repr, DecidableEq, Inhabited

inductive TypeForm
  | named (pkg sym : Str)              -- TypeOf((*pkg.Sym)(nil)).Elem()
  | localNamed (sym : Str)             -- TypeOf((*Sym)(nil)).Elem()
  | opaq
  deriving Repr, DecidableEq, Inhabited

structure BindE where
  path : Str
  key : Str
  form : ValForm
  deriving Repr, Inhabited

structure TypeE where
  path : Str
  key : Str
  form : TypeForm
  deriving Repr, Inhabited

structure UntypedE where
  path : Str
  key : Str
  val : Str
  deriving Repr, Inhabited

structure WrapperE where
  path : Str
  key : Str
  methods : List Str
  deriving Repr, Inhabited

/-! ## Proxy declarations -/

structure Param where
  name : Str            -- `Str.empty` when unnamed
  ty : Str              -- rendered type (element type when variadic)
  variadic : Bool
  deriving Repr, DecidableEq, Inhabited

structure FieldDecl where
  name : Str
  isFunc : Bool
  ty : Str              -- rendered type when not a func
  params : List Param
  results : List Param
  deriving Repr, Inhabited

inductive Arg
  | recvField (recv field : Str)       -- P.Object
  | ident (name : Str) (ellipsis : Bool)
  | opaq
  deriving Repr, DecidableEq, Inhabited

structure Call where
  recv : Str
  field : Str
  args : List Arg
  deriving Repr, Inhabited

inductive Body
  | ret (c : Call)                     -- { return P.F(args) }
  | expr (c : Call)                    -- { P.F(args) }
  | opaq
  deriving Repr, Inhabited

structure MethodDecl where
  recvName : Str
  recvType : Str                       -- name of the struct the pointer receiver points to; 1 if not `*T`
  name : Str
  params : List Param
  results : List Param
  body : Body
  deriving Repr, Inhabited

structure ProxyDecl where
  name : Str
  fields : List FieldDecl
  methods : List MethodDecl
  deriving Repr, Inhabited

/-- how a file refers to its own tables -/
inductive FileKind
  | generated        -- imports/*.go, thirdparty, syscall: every symbol is `alias.Sym`
  | inception        -- x_package.go inside the package it describes: symbols are unqualified
  deriving Repr, DecidableEq, Inhabited

structure FileTbl where
  file : Str
  active : Bool                        -- compiled on the platform of the check (build constraints)
  kind : FileKind
  ownPath : Str                        -- import path of the Go package the file belongs to
  reflectAliases : List Str            -- aliases under which "reflect" is imported (`.` = dot import)
  aliases : List (Str × Str)           -- import alias ↦ path
  pkgs : List (Str × Str)              -- tables declared in this file: path, Name field (Str.empty if absent)
  binds : List (List BindE)
  types : List (List TypeE)
  proxies : List (List TypeE)          -- Proxies map: key ↦ TypeOf((*P_x)(nil)).Elem()
  untypeds : List (List UntypedE)
  wrappers : List (List WrapperE)
  decls : List ProxyDecl
  deriving Repr, Inhabited

/-! ## Well-formedness predicates (Bool, kernel-evaluated on the regenerated tables) -/

def lookupAlias (f : FileTbl) (a : Str) : Option Str :=
  (f.aliases.find? (fun p => p.1 == a)).map (·.2)

/-- "int", "int8", ..., "uintptr", "float32", "float64" (as `Str` literals: `String.toUTF8` does not
    reduce in the kernel; the driver op `selftest` prints them back) -/
def basicConvTypes : List Str :=
  [0x1696e74, 0x1696e7438, 0x1696e743136, 0x1696e743332, 0x1696e743634, 0x175696e74, 0x175696e7438, 0x175696e743136, 0x175696e743332, 0x175696e743634, 0x175696e74707472, 0x1666c6f61743332, 0x1666c6f61743634]

/-- the package a symbol reference denotes, and the symbol -/
def ValForm.target (f : FileTbl) : ValForm → Option (Str × Str)
  | .plain p s | .addr p s => (lookupAlias f p).map (·, s)
  | .conv t p s => if basicConvTypes.contains t then (lookupAlias f p).map (·, s) else none
  | .localPlain s | .localAddr s => if f.kind == .inception then some (f.ownPath, s) else none
  | .localConv t s =>
    if f.kind == .inception && basicConvTypes.contains t then some (f.ownPath, s) else none
  | .opaq => none

def TypeForm.target (f : FileTbl) : TypeForm → Option (Str × Str)
  | .named p s => (lookupAlias f p).map (·, s)
  | .localNamed s => if f.kind == .inception then some (f.ownPath, s) else none
  | .opaq => none

/-- the bind denotes symbol `key` of package `path` -/
def bindOk (f : FileTbl) (e : BindE) : Bool := e.form.target f == some (e.path, e.key)
def typeOk (f : FileTbl) (e : TypeE) : Bool := e.form.target f == some (e.path, e.key)

/-- every alias maps to one path only, and an inception file describes its own package -/
def aliasesOk (f : FileTbl) : Bool :=
  (f.aliases.map (·.1)).Nodup &&
  f.pkgs.all (fun p => f.kind != .inception || p.1 == f.ownPath)

def declaresPkg (f : FileTbl) (path : Str) : Bool := f.pkgs.any (·.1 == path)

/-! ### proxies -/

def interfaceEmpty : Str := 0x1696e746572666163657b7d  -- "interface{}"
def objectName : Str := 0x14f626a656374  -- "Object"

def paramNames (ps : List Param) : List Str := ps.map (·.name)
def paramTypes (ps : List Param) : List (Str × Bool) := ps.map (fun p => (p.ty, p.variadic))

/-- arguments the generated body must pass: `P.Object, p1, p2, ..., pn[...]` -/
def expectedArgs (recv : Str) (ps : List Param) : List Arg :=
  Arg.recvField recv objectName :: ps.map (fun p => Arg.ident p.name p.variadic)

def variadicOnlyLast : List Param → Bool
  | [] => true
  | [_] => true
  | p :: rest => !p.variadic && variadicOnlyLast rest

def methodOk (d : ProxyDecl) (m : MethodDecl) : Bool :=
  m.recvType == d.name &&
  (paramNames m.params).Nodup &&
  (paramNames m.params).all (fun n => n != Str.empty && n != m.recvName && n != 0x15f /- "_" -/) &&
  variadicOnlyLast m.params &&
  (match d.fields.find? (fun fd => fd.name == Str.underscore m.name) with
   | none => false
   | some fd =>
     fd.isFunc &&
     (match fd.params with
      | [] => false
      | p0 :: rest => p0.ty == interfaceEmpty && !p0.variadic &&
          paramTypes rest == paramTypes m.params) &&
     paramTypes fd.results == paramTypes m.results) &&
  (let c := Call.mk m.recvName (Str.underscore m.name) (expectedArgs m.recvName m.params)
   match m.body with
   | .ret c' => !m.results.isEmpty && c'.recv == c.recv && c'.field == c.field && c'.args == c.args
   | .expr c' => m.results.isEmpty && c'.recv == c.recv && c'.field == c.field && c'.args == c.args
   | .opaq => false)

/-- one func field `M_` per method `M` and nothing else but `Object interface{}` first -/
def proxyOk (d : ProxyDecl) : Bool :=
  (match d.fields with
   | [] => false
   | f0 :: rest =>
     f0.name == objectName && !f0.isFunc && f0.ty == interfaceEmpty &&
     rest.all (·.isFunc) &&
     rest.map (·.name) == d.methods.map (fun m => Str.underscore m.name)) &&
  (d.methods.map (·.name)).Nodup &&
  d.methods.all (methodOk d)

/-- `Proxies["Reader"] = TypeOf((*P_io_Reader)(nil)).Elem()`: refers to a struct declared in this very
    file, the interface `Reader` is listed in `Types` of the same package. -/
def proxyEntryOk (f : FileTbl) (e : TypeE) : Bool :=
  (match e.form with
   | .localNamed s => f.decls.any (fun d => d.name == s)
   | _ => false) &&
  f.types.any (fun ch => ch.any (fun t => t.path == e.path && t.key == e.key))

/-! ### untyped constants: `kind:ExactString` -/

inductive UVal
  | bool (b : Bool)
  | int (v : Int)
  | rune (v : Int)
  | float (num : Int) (den : Nat)
  | complex (reNum : Int) (reDen : Nat) (imNum : Int) (imDen : Nat)
  | string (bytes : List Nat)
  deriving Repr, DecidableEq, Inhabited

def isDigit (b : Nat) : Bool := 48 ≤ b && b ≤ 57

def parseNatAux : List Nat → Nat → Option Nat
  | [], acc => some acc
  | b :: rest, acc => if isDigit b then parseNatAux rest (acc * 10 + (b - 48)) else none

/-- canonical decimal: no leading zero unless the number is 0, at least one digit -/
def parseNat (l : List Nat) : Option Nat :=
  match l with
  | [] => none
  | [48] => some 0
  | 48 :: _ => none
  | _ => parseNatAux l 0

def parseInt (l : List Nat) : Option Int :=
  match l with
  | 45 :: rest => (parseNat rest).bind (fun n => if n == 0 then none else some (-(n : Int)))
  | _ => (parseNat l).map (fun n => (n : Int))

def splitAt (sep : Nat) : List Nat → Option (List Nat × List Nat)
  | [] => none
  | b :: rest =>
    if b == sep then some ([], rest)
    else (splitAt sep rest).map (fun p => (b :: p.1, p.2))

/-- `n` or `n/d` in lowest terms with `d > 1` (the format of go/constant's ExactString) -/
def parseRat (l : List Nat) : Option (Int × Nat) :=
  match splitAt 47 l with
  | none => (parseInt l).map (·, 1)
  | some (a, b) =>
    match parseInt a, parseNat b with
    | some n, some d => if d > 1 && Nat.gcd n.natAbs d == 1 then some (n, d) else none
    | _, _ => none

def untypedDecode (s : Str) : Option UVal :=
  match splitAt 58 (Str.bytes s) with
  | none => none
  | some (k, v) =>
    if k == [98, 111, 111, 108] /- bool -/ then
      if v == [116, 114, 117, 101] /- true -/ then some (.bool true)
      else if v == [102, 97, 108, 115, 101] /- false -/ then some (.bool false) else none
    else if k == [105, 110, 116] /- int -/ then (parseInt v).map .int
    else if k == [114, 117, 110, 101] /- rune -/ then (parseInt v).map .rune
    else if k == [102, 108, 111, 97, 116] /- float -/ then (parseRat v).map (fun p => .float p.1 p.2)
    else if k == [99, 111, 109, 112, 108, 101, 120] /- complex -/ then
      match splitAt 58 v with
      | none => none
      | some (re, im) =>
        match parseRat re, parseRat im with
        | some a, some b => some (.complex a.1 a.2 b.1 b.2)
        | _, _ => none
    else if k == [115, 116, 114, 105, 110, 103] /- string -/ then some (.string v)
    else none

/-- `us` is a subsequence of `bs` (same relative order; both maps are emitted in sorted key order by
    the generator).  Linear, unlike a membership test per entry: the syscall tables have ~2500 binds
    and ~1500 untyped constants each. -/
def subseqKeys : List (Str × Str) → List (Str × Str) → Bool
  | _, [] => true
  | [], _ :: _ => false
  | b :: bs, u :: us => if b == u then subseqKeys bs us else subseqKeys bs (u :: us)

def constShaped : ValForm → Bool
  | .plain .. | .conv .. | .localPlain .. | .localConv .. => true
  | _ => false

/-- the untyped string decodes -/
def untypedOk (e : UntypedE) : Bool := (untypedDecode e.val).isSome

/-- every name with an untyped string is bound (the loader consults `Untypeds` only for names present
    in `Binds`) by a constant-shaped expression -/
def untypedsBound (f : FileTbl) : Bool :=
  subseqKeys ((f.binds.flatten.filter (fun b => constShaped b.form)).map (fun b => (b.path, b.key)))
    (f.untypeds.flatten.map (fun e => (e.path, e.key)))

/-- wrapper lists: for a type listed in `Types`, non-empty, duplicate free -/
def wrapperOk (f : FileTbl) (e : WrapperE) : Bool :=
  !e.methods.isEmpty && (e.methods.Nodup : Bool) &&
  f.types.any (fun ch => ch.any (fun t => t.path == e.path && t.key == e.key))

def fileOk (f : FileTbl) : Bool :=
  aliasesOk f &&
  f.binds.all (·.all (fun e => declaresPkg f e.path && bindOk f e)) &&
  f.types.all (·.all (fun e => declaresPkg f e.path && typeOk f e)) &&
  f.proxies.all (·.all (fun e => declaresPkg f e.path && proxyEntryOk f e)) &&
  f.untypeds.all (·.all (fun e => declaresPkg f e.path && untypedOk e)) &&
  untypedsBound f &&
  f.wrappers.all (·.all (fun e => declaresPkg f e.path && wrapperOk f e)) &&
  f.decls.all proxyOk &&
  (f.decls.map (·.name)).Nodup

/-! ## Proxy call model

Values are abstract (`V`); a func field is a state transformer on argument lists.  A method call
`p.M(args)` evaluates the extracted body: parameters are bound to the arguments positionally, each
actual argument of the inner call is looked up, and the named field is applied. -/

structure Proxy (V σ : Type) where
  object : V
  field : Str → Option (List V → σ → List V × σ)

def bindParams {V : Type} : List Param → List V → List (Str × V)
  | p :: ps, v :: vs => (p.name, v) :: bindParams ps vs
  | _, _ => []

def lookupVar {V : Type} (env : List (Str × V)) (n : Str) : Option V :=
  (env.find? (fun p => p.1 == n)).map (·.2)

def evalArg {V σ : Type} (recv : Str) (p : Proxy V σ) (env : List (Str × V)) : Arg → Option V
  | .recvField r fld => if r == recv && fld == objectName then some p.object else none
  | .ident n _ => lookupVar env n
  | .opaq => none

def evalArgs {V σ : Type} (recv : Str) (p : Proxy V σ) (env : List (Str × V)) : List Arg → Option (List V)
  | [] => some []
  | a :: rest =>
    match evalArg recv p env a, evalArgs recv p env rest with
    | some v, some vs => some (v :: vs)
    | _, _ => none

def evalCall {V σ : Type} (m : MethodDecl) (p : Proxy V σ) (env : List (Str × V)) (c : Call) (s : σ) :
    Option (List V × σ) :=
  if c.recv != m.recvName then none else
  match p.field c.field, evalArgs m.recvName p env c.args with
  | some fn, some vs => some (fn vs s)
  | _, _ => none

/-- run method `m` of the proxy on `args` (one value per parameter) in state `s` -/
def runMethod {V σ : Type} (m : MethodDecl) (p : Proxy V σ) (args : List V) (s : σ) : Option (List V × σ) :=
  if args.length != m.params.length then none else
  let env := bindParams m.params args
  match m.body with
  | .ret c => evalCall m p env c s
  | .expr c => (evalCall m p env c s).map (fun r => ([], r.2))
  | .opaq => none

def findMethod (d : ProxyDecl) (name : Str) : Option MethodDecl :=
  d.methods.find? (fun m => m.name == name)

/-- Go's dynamic dispatch on the proxy pointer: select the declared method by name -/
def callMethod {V σ : Type} (d : ProxyDecl) (p : Proxy V σ) (name : Str) (args : List V) (s : σ) :
    Option (List V × σ) :=
  match findMethod d name with
  | none => none
  | some m => runMethod m p args s

/-! ## Trace form used by the correspondence driver: which field is called with which argument
positions (0 = Object, i+1 = i-th parameter) -/

def traceMethod (m : MethodDecl) : Option (Str × List Nat × Bool) :=
  let idx (a : Arg) : Option Nat :=
    match a with
    | .recvField r fld => if r == m.recvName && fld == objectName then some 0 else none
    | .ident n _ => (m.params.findIdx? (fun p => p.name == n)).map (· + 1)
    | .opaq => none
  let go (c : Call) (returns : Bool) : Option (Str × List Nat × Bool) :=
    if c.recv != m.recvName then none else
    (c.args.mapM idx).map (fun l => (c.field, l, returns))
  match m.body with
  | .ret c => go c true
  | .expr c => go c false
  | .opaq => none

end Imports
