/-
Hand-written whitelist for C23: the declarations of go/scanner/scanner.go (fork) and the arms of its
`Scan` switch that have NO token-identical counterpart in GOROOT/src/go/scanner/scanner.go (go1.23.5),
and vice versa.  Entries are (label, hash) as printed by harness/c23_extract.go (hash of the token
sequence after the renaming etoken -> token; reference side: eof -> -1); the text behind a hash is in
.work/C23-extract/ScanSwitch.txt after a run.  Hashes are PINNED: any edit of a listed declaration
changes its hash, the obligation `delta_arms_subset_ext` / `helpers_equal_or_whitelisted` fails, and
the entry (and the model, if it is a patched arm) has to be looked at again.

The fork is go1.13 + patch; the reference is go1.23.5.  Each entry is either
  PATCH  (part of scanner_1.13_gomacro.diff; transcribed in Model/ScanDelta.lean), or
  DRIFT  (upstream change between go1.13 and go1.23 that the fork does not have; the behavioural
          consequence, if any, is stated and is exercised by the differential run of harness/c23.go).
The hashes are those of the tree with fixes/C23-*.diff applied (see notes/C23.md).
-/
namespace ScanDelta.Whitelist

/-- fork arms without identical reference arm -/
def forkArms : List (String × String) := [
  -- DRIFT: go1.20 (CL 429635) added `if s.nlPos.IsValid() {...}` in front of `scanAgain:`; behaviour: position/order of
  -- automatic semicolons next to comments (finding autosemi-before-comment; `semiBack`)
  ("Scan prologue", "27ba7f53dc9065d8"),
  -- PATCH ('#', "#!" comments, HASH token) + DRIFT (findLineEnd look-ahead instead of nlPos): ScanDelta.forkSlashArm / commentPart
  ("case '/' , '#'", "3828cdc05f9ff7ba"),
  -- PATCH: ScanDelta.macroArm
  ("case s . macroChar", "56ce8a90ba2a9c88")
]

/-- reference arms without identical fork arm -/
def stdArms : List (String × String) := [
  ("Scan prologue", "5b545310295c1baf"),   -- DRIFT, see above
  ("case '/'", "a7b54b54f0a37f26")         -- counterpart of the patched arm
]

/-- fork declarations without identical reference declaration -/
def forkDecls : List (String × String) := [
  ("type Scanner", "8bdcb28a1451b58c"),                 -- PATCH: *etoken.File, field macroChar; DRIFT: no field nlPos
  ("func Scanner.Init", "1b1d864a0681bdba"),            -- PATCH: parameter macroChar, *etoken.File
  ("func Scanner.errorf", "78373f5bc54d68ab"),          -- DRIFT: `...interface{}` vs `...any` (same type)
  ("func Scanner.scanComment", "2a8fdac883070bc2"),     -- DRIFT: go1.20 returns the offset of the first newline as 2nd result; text result identical
  ("func Scanner.findLineEnd", "b0190e8fa73c6249"),     -- DRIFT: removed upstream in go1.20 (replaced by nlPos); + fixes/C23-dup-error-lookahead
  ("func Scanner.scanIdentifier", "e696908e73bf919d"),  -- DRIFT: go1.16 added an ASCII fast path; same result (differential run: every identifier of GOROOT/src)
  ("func Scanner.digits", "0118443a2d78c58a")           -- DRIFT: `int(s.offset)` vs `s.offset` (s.offset is an int)
]

/-- reference declarations without identical fork declaration -/
def stdDecls : List (String × String) := [
  ("type Scanner", "ff17ea9c95b655dc"),
  ("func Scanner.Init", "7f4168b983cdeb7a"),
  ("func Scanner.errorf", "7d68525f0f6f48fc"),
  ("func Scanner.scanComment", "1e175821524c2b81"),
  ("func Scanner.scanIdentifier", "4c1376527b22301e"),
  ("func Scanner.digits", "13101fac3d53e1aa")
]

end ScanDelta.Whitelist
