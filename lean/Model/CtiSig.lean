/-! # CtiSig — the shape of the signature table of go/types/cti_method.go

`harness/c34_extract.go` evaluates the `newVar / NewTuple / NewSignature / newFunc` calls of
`makeBasicMethods`, `makeArrayMethods`, `makeChanMethods`, `makeMapMethods`, `makeSliceMethods`
symbolically (nothing is executed) into `Rule`s: the enclosing conditions, the method name and its
signature over the symbolic types below.  Conditions of the form `info&IsX != 0` become `.flag`,
every other condition is kept as source text (`.other`); `if C { v = A } else { v = B }`
becomes the conditional type `.ite "C" A B`; syntax the extractor does not know becomes
`.unknown`, which no evaluation accepts. -/
namespace CtiSig

inductive Ty where
  | self                        -- the type the methods are declared on (`t`)
  | elem                        -- `underlying.elem`
  | key                         -- `underlying.key`
  | basic (name : String)       -- `Typ[name]`
  | ptr (t : Ty)                -- `NewPointer(t)`
  | slice (t : Ty)              -- `NewSlice(t)`
  | ite (cond : String) (a b : Ty)
  | unknown (s : String)
  deriving DecidableEq, Repr, Inhabited

structure Sig where
  recv : Ty
  params : List Ty
  results : List Ty
  variadic : Bool
  deriving DecidableEq, Repr, Inhabited

inductive Cond where
  | flag (name : String) (pos : Bool)     -- `info&name != 0` (pos) or its negation
  | other (text : String) (pos : Bool)
  deriving DecidableEq, Repr, Inhabited

structure Rule where
  conds : List Cond
  name : String
  sig : Sig
  deriving DecidableEq, Repr, Inhabited

/-- the primitive flags a BasicInfo constant is the union of (regenerated from type.go) -/
def flagsOf (defs : List (String × List String)) (name : String) : Option (List String) :=
  defs.lookup name

/-- `info & flag != 0` -/
def hasFlag (defs : List (String × List String)) (info : List String) (flag : String) : Option Bool :=
  (flagsOf defs flag).map (fun fs => fs.any (fun f => info.contains f))

/-- truth of the conditions that are kept as text: supplied by the instance (basic kind,
    container shape); `none` = unknown text = the rule table is not accepted -/
abbrev TextConds := String → Option Bool

def evalCond (defs : List (String × List String)) (info : List String) (tc : TextConds) : Cond → Option Bool
  | .flag n pos => (hasFlag defs info n).map (· == pos)
  | .other t pos => (tc t).map (· == pos)

def evalConds (defs : List (String × List String)) (info : List String) (tc : TextConds) : List Cond → Option Bool
  | [] => some true
  | c :: cs => match evalCond defs info tc c, evalConds defs info tc cs with
    | some a, some b => some (a && b)
    | _, _ => none

/-- resolve the conditional types -/
def resolve (tc : TextConds) : Ty → Option Ty
  | .ite c a b => match tc c with
    | some true => resolve tc a
    | some false => resolve tc b
    | none => none
  | .ptr t => (resolve tc t).map .ptr
  | .slice t => (resolve tc t).map .slice
  | .unknown _ => none
  | t => some t

def resolveList (tc : TextConds) : List Ty → Option (List Ty)
  | [] => some []
  | t :: ts => match resolve tc t, resolveList tc ts with
    | some a, some b => some (a :: b)
    | _, _ => none

def resolveSig (tc : TextConds) (s : Sig) : Option Sig :=
  match resolve tc s.recv, resolveList tc s.params, resolveList tc s.results with
  | some r, some p, some q => some { recv := r, params := p, results := q, variadic := s.variadic }
  | _, _, _ => none

/-- the methods the table declares for an instance: the rules all of whose conditions hold, in
    source order (`shellsortFuncs` afterwards sorts by name; only the set matters) -/
def declared (defs : List (String × List String)) (info : List String) (tc : TextConds) : List Rule → Option (List (String × Sig))
  | [] => some []
  | r :: rs =>
    match evalConds defs info tc r.conds, declared defs info tc rs with
    | some true, some rest => (resolveSig tc r.sig).map (fun s => (r.name, s) :: rest)
    | some false, some rest => some rest
    | _, _ => none

end CtiSig
