/-!
# C24 — hand-written pins for the regenerated parser tables (Gen/ParseDispatch.lean)

`pinnedFuncs`: token-text hashes of the functions of the fork that Model/ParseTop.lean and Model/ParseExpr.lean
TRANSCRIBE.  A change of one of these functions breaks obligation `model_functions_pinned`: the transcription has
to be re-read (the text behind each hash is written to .work/C24-extract/ParseDispatch.txt by the extractor).
Relation to the reference (GOROOT go1.23.5 go/parser), for the record:
* `p.tokPrec` is token-identical to the reference's;
* `p.parseBinaryExpr`: the reference (go1.19+) passes the already parsed left operand `x` and counts the nesting
  depth `n` (error "exceeds max nesting depth"); same climbing loop otherwise;
* `p.parseUnaryExpr`: the reference has `TILDE` in the first arm (go1.18 type sets) and no `lhs` parameter;
* `p.parsePrimaryExpr`, `p.parseOperand`: no `lhs`/resolve (object resolution moved to resolver.go in go1.17),
  the reference handles instantiation `x[T1, T2]`; the fork adds quote / `{...}` block operands;
* `p.parseDecl`: the reference has an IMPORT arm (go1.21), the fork MACRO/FUNCTION/TEMPLATE arms;
* `p.Parse`, `p.parseAny`: fork only.
-/
namespace ParseWhitelist

def pinnedFuncs : List (String × Nat) :=
  [("p.Parse", 12257282134500795957),
   ("p.parseAny", 13465665849848185308),
   ("p.parseDecl", 17401120331337301355),
   ("p.parseBinaryExpr", 555235234297023118),
   ("p.parseUnaryExpr", 12437607000923878477),
   ("p.parsePrimaryExpr", 1298508999920747394),
   ("p.parseOperand", 13458561905049007908),
   ("p.tokPrec", 16912144625892153322)]

/-- the loop of Parser.Parse transcribed as `ParseTop.forkLoop` -/
def parseLoopHash : Nat := 8611479355774297519

/-- parseAny outside its arms -/
def topPrelude : String := "if p . tok == token . COMMENT { p . next ( ) } ; var node ast . Node"
def topDefault : String :=
  "node = p . parseStmt ( ) ; if expr , ok := node . ( * ast . ExprStmt ) ; ok { node = expr . X } ;; return node"

/-- the reference's parseFile as transcribed in `ParseTop.stdFile` -/
def stdFileSteps : List String :=
  ["p . expect ( token . PACKAGE )", "p . parseIdent ( )", "p . expectSemi ( )",
   "for p . tok == token . IMPORT { append ( decls , p . parseGenDecl ( token . IMPORT , p . parseImportSpec ) ) }",
   "for p . tok != token . EOF { append ( decls , p . parseDecl ( declStart ) ) }"]

/-- parseDecl's switch: which tokens start a declaration, and what the arm does -/
def forkDeclArms : List (List String × String) :=
  [(["CONST", "VAR"], "f = p . parseValueSpec"),
   (["TYPE"], "f = p . parseTypeSpec"),
   (["FUNC", "FUNCTION"], "return p . parseFuncDecl ( p . tok )"),
   (["MACRO"], "return p . parseMacroDecl ( )"),
   (["TEMPLATE"], "if GENERICS_V1_CXX ( ) { return p . parseTemplateDecl ( sync ) } ; fallthrough")]
def stdDeclArms : List (List String × String) :=
  [(["IMPORT"], "f = p . parseImportSpec"),
   (["CONST", "VAR"], "f = p . parseValueSpec"),
   (["TYPE"], "f = p . parseTypeSpec"),
   (["FUNC"], "return p . parseFuncDecl ( )")]
/-- the default arm of both: "expected declaration" (hypothesis `Sane.declStart`) -/
def forkDeclDefault : String :=
  "pos := p . pos ; p . errorExpected ( pos , \"declaration\" ) ; sync ( p ) ; return & ast . BadDecl { From : pos , To : p . pos }"
def stdDeclDefault : String :=
  "pos := p . pos ; p . errorExpected ( pos , \"declaration\" ) ; p . advance ( sync ) ; return & ast . BadDecl { From : pos , To : p . pos }"

end ParseWhitelist
