/-!
# C24 — hand-written pins for the regenerated parser tables (Gen/ParseDispatch.lean)

`pinnedFuncs`: token-text hashes of the functions of the fork that Model/ParseTop.lean and Model/ParseExpr.lean
TRANSCRIBE.  A change of one of these functions breaks obligation `model_functions_pinned`: the transcription has
to be re-read (the text behind each hash is written to .work/C24-extract/ParseDispatch.txt by the extractor).
Relation to the reference (GOROOT go1.23.5 go/parser), for the record:
* `p.tokPrec` is token-identical to the reference's;
* `p.parseBinaryExpr`: the reference (go1.19+) passes the already parsed left operand `x` and counts the nesting
  depth `n` (error "exceeds max nesting depth"); same climbing loop otherwise;
* `p.parseUnaryExpr`: the reference has `TILDE` in the first arm (go1.18 type sets) and no `lhs` parameter;
* `p.parsePrimaryExpr`, `p.parseOperand`: no `lhs`/resolve (object resolution moved to resolver.go in go1.17),
  the reference handles instantiation `x[T1, T2]`; the fork adds quote / `{...}` block operands;
* `p.parseDecl`: the reference has an IMPORT arm (go1.21), the fork MACRO/FUNCTION/TEMPLATE arms;
* `p.Parse`, `p.parseAny`: fork only.
-/
namespace ParseWhitelist

def pinnedFuncs : List (String × Nat) :=
  [("p.Parse", 12257282134500795957),
   ("p.parseAny", 13465665849848185308),
   ("p.parseDecl", 17401120331337301355),
   ("p.parseBinaryExpr", 555235234297023118),
   ("p.parseUnaryExpr", 12437607000923878477),
   ("p.parsePrimaryExpr", 1298508999920747394),
   ("p.parseOperand", 13458561905049007908),
   ("p.tokPrec", 16912144625892153322)]

/-- the loop of Parser.Parse transcribed as `ParseTop.forkLoop` -/
def parseLoopHash : Nat := 8611479355774297519

/-- parseAny outside its arms -/
def topPrelude : String := "if p . tok == token . COMMENT { p . next ( ) } ; var node ast . Node"
def topDefault : String :=
  "node = p . parseStmt ( ) ; if expr , ok := node . ( * ast . ExprStmt ) ; ok { node = expr . X } ;; return node"

/-- the reference's parseFile as transcribed in `ParseTop.stdFile` -/
def stdFileSteps : List String :=
  ["p . expect ( token . PACKAGE )", "p . parseIdent ( )", "p . expectSemi ( )",
   "for p . tok == token . IMPORT { append ( decls , p . parseGenDecl ( token . IMPORT , p . parseImportSpec ) ) }",
   "for p . tok != token . EOF { append ( decls , p . parseDecl ( declStart ) ) }"]

/-- parseDecl's switch: which tokens start a declaration, and what the arm does -/
def forkDeclArms : List (List String × String) :=
  [(["CONST", "VAR"], "f = p . parseValueSpec"),
   (["TYPE"], "f = p . parseTypeSpec"),
   (["FUNC", "FUNCTION"], "return p . parseFuncDecl ( p . tok )"),
   (["MACRO"], "return p . parseMacroDecl ( )"),
   (["TEMPLATE"], "if GENERICS_V1_CXX ( ) { return p . parseTemplateDecl ( sync ) } ; fallthrough")]
def stdDeclArms : List (List String × String) :=
  [(["IMPORT"], "f = p . parseImportSpec"),
   (["CONST", "VAR"], "f = p . parseValueSpec"),
   (["TYPE"], "f = p . parseTypeSpec"),
   (["FUNC"], "return p . parseFuncDecl ( )")]
/-- the default arm of both: "expected declaration" (hypothesis `Sane.declStart`) -/
def forkDeclDefault : String :=
  "pos := p . pos ; p . errorExpected ( pos , \"declaration\" ) ; sync ( p ) ; return & ast . BadDecl { From : pos , To : p . pos }"
def stdDeclDefault : String :=
  "pos := p . pos ; p . errorExpected ( pos , \"declaration\" ) ; p . advance ( sync ) ; return & ast . BadDecl { From : pos , To : p . pos }"

/-- golden table: token-text hash of EVERY function of the fork's parser.go and global.go (regenerated table
    `Gen.ParseDispatch.forkFuncs`, relation column dropped).  Any change of the parser's code breaks obligation
    `all_parse_functions_pinned` even when no failing input is found; the differential run is the search for one.
    Update it (from Gen/ParseDispatch.lean) together with a reviewed change of go/parser. -/
def allFuncs : List (String × Nat) :=
  [("assert", 5868850778608151781),
   ("deref", 1468979603126243585),
   ("isLiteralType", 11176814480467565817),
   ("isTypeName", 8655342275427828762),
   ("isTypeSwitchAssert", 10549129895594451506),
   ("isValidImport", 5054684326356866069),
   ("p.atComma", 10098007122138263580),
   ("p.checkExpr", 11323826743733410472),
   ("p.checkExprOrType", 11089743488437297680),
   ("p.closeLabelScope", 4542633109669617633),
   ("p.closeScope", 7822776741025637496),
   ("p.consumeComment", 9635981081425509565),
   ("p.consumeCommentGroup", 14841221695904911827),
   ("p.declare", 14920908572443630304),
   ("p.error", 3817744887022203701),
   ("p.errorExpected", 14002538409355059575),
   ("p.expect", 13626979069476352731),
   ("p.expectClosing", 18303166103830309368),
   ("p.expectSemi", 579744433935591135),
   ("p.init", 4727782550950919888),
   ("p.isTypeSwitchGuard", 18098783268685356930),
   ("p.makeExpr", 11963234310137295587),
   ("p.makeIdentList", 10148100570941018641),
   ("p.next", 10571100695477844053),
   ("p.next0", 4483217511593699086),
   ("p.openLabelScope", 15777714624507680355),
   ("p.openScope", 6666445185471027280),
   ("p.parseArrayType", 4045400337044749870),
   ("p.parseBinaryExpr", 555235234297023118),
   ("p.parseBlockStmt", 11378364930233110803),
   ("p.parseBody", 17948536584680963975),
   ("p.parseBranchStmt", 17920738354339502433),
   ("p.parseCallExpr", 17068273070284900381),
   ("p.parseCallOrConversion", 5175782518139460140),
   ("p.parseCaseClause", 13235994780184295341),
   ("p.parseChanType", 7134140516705711946),
   ("p.parseCommClause", 17813884297903668032),
   ("p.parseDecl", 17401120331337301355),
   ("p.parseDeferStmt", 12273020775574234396),
   ("p.parseElement", 17155576848427324498),
   ("p.parseElementList", 331826289602957311),
   ("p.parseExpr", 4318504136681211701),
   ("p.parseExprList", 10103522890366615616),
   ("p.parseFieldDecl", 16031006252947968748),
   ("p.parseFile", 10891485854643021851),
   ("p.parseForStmt", 9753192040755937147),
   ("p.parseFuncDecl", 16472334136279207053),
   ("p.parseFuncOrMacroDecl", 9478756879665174564),
   ("p.parseFuncType", 7332916044834562096),
   ("p.parseFuncTypeOrLit", 17367129169768913908),
   ("p.parseGenDecl", 16456945708620394571),
   ("p.parseGoStmt", 8086283909637655795),
   ("p.parseIdent", 10566626084654670011),
   ("p.parseIdentList", 10930566748499873753),
   ("p.parseIfStmt", 13164646112716296071),
   ("p.parseImportSpec", 17197180099901223640),
   ("p.parseIndexOrSlice", 1231551345885930265),
   ("p.parseInterfaceType", 4132949237356390843),
   ("p.parseLhsList", 3380960770726196318),
   ("p.parseLiteralValue", 4895467363500501967),
   ("p.parseMacroDecl", 10798395800498312585),
   ("p.parseMapType", 13818880920598292141),
   ("p.parseMethodSpec", 7047346038577260205),
   ("p.parseOperand", 13458561905049007908),
   ("p.parseParameterList", 14695349461644492229),
   ("p.parseParameters", 6249838219356774658),
   ("p.parsePointerType", 1545941823967882992),
   ("p.parsePrimaryExpr", 1298508999920747394),
   ("p.parseResult", 5182540695969702288),
   ("p.parseReturnStmt", 17121922441145371326),
   ("p.parseRhs", 8281780890753624981),
   ("p.parseRhsList", 17987417759011521322),
   ("p.parseRhsOrType", 18192254701050141348),
   ("p.parseSelectStmt", 9594983126782960966),
   ("p.parseSelector", 5115622670061637565),
   ("p.parseSignature", 3453173962555764405),
   ("p.parseSimpleStmt", 13990674575188900611),
   ("p.parseStmt", 4899156027599991182),
   ("p.parseStmtList", 3688677452576750252),
   ("p.parseStructType", 3626429592142819885),
   ("p.parseSwitchStmt", 14906141822307950434),
   ("p.parseType", 8368057020885929257),
   ("p.parseTypeAssertion", 5658436882984323424),
   ("p.parseTypeList", 3833359008634702054),
   ("p.parseTypeName", 16523531842837059688),
   ("p.parseTypeSpec", 7944377852135907590),
   ("p.parseUnaryExpr", 12437607000923878477),
   ("p.parseValue", 11709649493951410211),
   ("p.parseValueSpec", 10745735608978541070),
   ("p.parseVarType", 14658195110327308663),
   ("p.printTrace", 6454141271753168899),
   ("p.resolve", 13747981908629628436),
   ("p.safePos", 3845753444680247363),
   ("p.shortVarDecl", 12638076752706974322),
   ("p.tokPrec", 16912144625892153322),
   ("p.tryIdentOrType", 9275486765756227760),
   ("p.tryResolve", 6200215599981264726),
   ("p.tryType", 6752070222216163406),
   ("p.tryVarType", 2292959367994939460),
   ("syncDecl", 3196531158120112020),
   ("syncStmt", 8761388327578696141),
   ("trace", 6792605919422681544),
   ("un", 5928175947468411828),
   ("unparen", 1857905603947572468),
   ("p.Configure", 2326815622798045281),
   ("p.Init", 8988796386696123358),
   ("p.Parse", 12257282134500795957),
   ("p.parseAny", 13465665849848185308),
   ("p.parsePackage", 335720412601630678)]

end ParseWhitelist
