import Model.StmtSyntax
/-! # C02Once — "every operand closure is applied exactly once on every path", as a syntactic
check on an arm: the closures a statement arm may apply are the place closure (`lhsfun` / `lhs` /
`fun` of placeForSideEffects), the map-key closure (`keyfun` / `mapkey`) and the right-hand side
(`fun` / `rhs`).  An application `f(env)` inside the body of an `if` or of the frame-walking loop
would be conditional / repeated: it is counted as 2 so that the test fails. -/
namespace C02Once
open ClosureIR StmtIR

/-- number of applications `n(env)` in an expression -/
def appsE (n : String) : E → Nat
  | .app (.var m) => if m = n then 1 else 0
  | .app f => appsE n f
  | .bin _ a b => appsE n a + appsE n b
  | .un _ a => appsE n a
  | .conv _ a => appsE n a
  | .sel a _ => appsE n a
  | .index a i => appsE n a + appsE n i
  | .addr a => appsE n a
  | .deref a => appsE n a
  | .ptrCast _ a => appsE n a
  | .assertFun a _ => appsE n a
  | .assertFunX a => appsE n a
  | .assertFunXV a => appsE n a
  | .meth0 a _ => appsE n a
  | .meth1 a _ b => appsE n a + appsE n b
  | .call1 _ a => appsE n a
  | .call2 _ a b => appsE n a + appsE n b
  | .tuple _ a => appsE n a
  | _ => 0

def appsS (n : String) : S → Nat
  | .ret e => appsE n e
  | .ret2 a b => appsE n a + appsE n b
  | .expr e => appsE n e
  | .inc e => appsE n e
  | .define _ e => appsE n e
  | .define2 _ _ e => appsE n e
  | .assign l r => appsE n l + appsE n r
  | .opAssign l _ r => appsE n l + appsE n r
  | .ifThen c s => appsE n c + 2 * appsS n s
  | _ => 0

def appsSt (n : String) : St → Nat
  | .s s => appsS n s
  | .forLt _ a b body => appsE n a + appsE n b + 2 * appsS n body

def apps (n : String) (body : List St) : Nat := (body.map (appsSt n)).sum

/-- the operand closures bound by an entry: each must be applied exactly once -/
def operandNames : List String := ["lhsfun", "keyfun", "fun", "lhs", "mapkey", "rhs"]

def boundNames (e : SEntry) : List String := (e.binds.map (·.1)).filter (operandNames.contains ·)

def once (e : SEntry) : Bool := (boundNames e).all fun n => apps n e.body == 1

def onceAll (l : List SEntry) : Bool := l.all once

def incDecGolden : List String :=
  ["func(node *ast.IncDecStmt)",
   "place := c.Place(node.X)",
   "switch reflect.Category(place.Type.Kind()) { case r.Int, r.Uint, r.Float64, r.Complex128: default: c.Errorf(\"invalid operation: %v (non-numeric type %v)\", node, place.Type) }",
   "op := node.Tok",
   "if op == token.DEC { op = token.SUB } else { op = token.ADD }",
   "one := c.exprUntypedLit(untypedOne.Kind, untypedOne.Val)",
   "c.SetPlace(place, op, one)"]

end C02Once
