/-
Model of the run-time frame (`*Env`) management of gomacro's fast interpreter:
fast/compile.go `newEnv`, `NewEnv`, `newEnv4Func` (allocation: pop `Run.Pool` or `&Env{}`, re-slice
or `make` `Vals`/`Ints`, set `Outer`), `Env.MarkUsedByClosure`, `Env.FreeEnv`, `Env.freeEnv4Func`,
`Env.freeEnv` (release: not if `UsedByClosure`, not if the pool is full, drop `Ints` if
`IntAddressTaken`, clear `Outer`, push on `Run.Pool`); fast/statement.go `pushEnvIfFlag` /
`popEnv` (block frames), `jumpOut` (break/continue/goto leave block frames to the GC),
fast/function.go `funcGeneric` & fast/func*ret*.go (mark at closure creation, frame per call,
free after the results were read), fast/address.go (`env.IntAddressTaken = true; &env.Ints[i]`).

Transcription rules
* A frame is an index into `State.heap` (Go: the `*Env` pointer).  `Frame.vals` is the BACKING
  ARRAY of `env.Vals` (its length is `cap(env.Vals)`), `Frame.nb` is `len(env.Vals)`.
  `env.Ints` is a slice of a separately allocated backing array, because pointers `&env.Ints[i]`
  refer to the array, not to the frame: `Frame.ints = some a` names the array `State.arrs[a]`
  (length = `cap`), `none` is the nil slice; `Frame.ni` is `len(env.Ints)`.
* A slot holds `Option Int`: `none` is the content of freshly `make`d memory (zero `xr.Value` /
  zero word) = "never written"; re-slicing a recycled frame keeps whatever was there (stale).
  Boxed variables (`env.Vals[i]` is a `reflect.Value` pointing to its own heap cell) keep their
  cell when the frame dies, so only the slot content is modelled.
* `Run.Pool [32]*Env` + `Run.PoolSize` is the list `State.pool` with the TOP FIRST
  (`Pool[PoolSize-1]` = head): `newEnv*` pops the head, `freeEnv` pushes a new head.
* Roots.  `State.stack` = the interpreted call chain: one activation per running function,
  each the list of its frames innermost first (block frames ..., function frame last); the head
  of the head is the executor's current `env`.  `State.clos` = every function value created so
  far (the `env` captured by the Go closure that `funcGeneric`/`funcXretY` returns); closures are
  never forgotten (escaping through results, slices, globals makes no difference to the model).
  `State.ptrs` = every pointer `&env.Ints[i]` created so far, as (array, index).
* Operations are ROOT RELATIVE (closure number k, pointer number k, `up` levels of `Outer`
  from the current env), so that one operation sequence can be run on two machines.
* The machine is parameterised by `reuse : Bool`: `true` = PoolMachine = the code as written;
  `false` = FreshMachine: `alloc` never pops the pool and `free` never pushes (the pool stays
  empty), i.e. Go's semantics where every call/block gets new variables.
* `Frame.lid`, `Arr.lid`, `State.nlid`, `State.nalid` are GHOST fields (not in the code, never
  read by `step`): the serial number of the allocation that produced the current incarnation
  of a frame / array = the index the FreshMachine gives to the same allocation.
* `MarkUsedByClosure`'s loop `for ; env != nil && !env.UsedByClosure; env = env.Outer` takes fuel
  `len(heap)+1` (every iteration marks a frame that was unmarked).
* Not modelled: `Env.Run/FileEnv/Code/IP/DebugPos/DebugComp/Caller/CallDepth`, `Run.CurrEnv` (call
  stack for the debugger), goroutines (`Go` statement: a frame taken with `newEnv` and never
  released, one pool per goroutine: property C33), `poolCapacity` is the constant 32.
-/
namespace Frames

def poolCap : Nat := 32

abbrev Slot := Option Int

structure Frame where
  vals  : List Slot := []
  nb    : Nat := 0
  ints  : Option Nat := none
  ni    : Nat := 0
  outer : Option Nat := none
  used  : Bool := false      -- Env.UsedByClosure
  addr  : Bool := false      -- Env.IntAddressTaken
  lid   : Nat := 0           -- ghost
  deriving Repr, DecidableEq, Inhabited

structure Arr where
  cells : List Slot := []
  lid   : Nat := 0           -- ghost
  deriving Repr, DecidableEq, Inhabited

structure State where
  heap  : List Frame
  arrs  : List Arr
  pool  : List Nat
  stack : List (List Nat)
  clos  : List Nat
  ptrs  : List (Nat × Nat)
  nlid  : Nat                -- ghost
  nalid : Nat                -- ghost
  deriving Repr, DecidableEq

/-- `fast.New()`: frame 0 = top env, frame 1 = file env (`Outer` = top), both with
    `UsedByClosure = true`; top-level code runs in the file env. -/
def init : State :=
  { heap := [{ used := true, lid := 0 }, { outer := some 0, used := true, lid := 1 }],
    arrs := [], pool := [], stack := [[1]], clos := [], ptrs := [], nlid := 2, nalid := 0 }

inductive Op where
  | call (k nb ni : Nat)        -- call function value number k: newEnv4Func(clos[k], nb, ni)
  | ret                         -- function returns: freeEnv4Func of the function frame
  | blockEnter (nb ni : Nat)    -- NewEnv(env, nb, ni)
  | blockExit                   -- popEnv: env.FreeEnv()
  | jumpOut (n : Nat)           -- break/continue/goto out of n block frames (not released)
  | makeClosure                 -- function literal / declaration evaluated in the current env
  | takeAddr (up i : Nat)       -- &x, x int-like variable i of the env `up` levels out
  | read (up : Nat) (isInt : Bool) (i : Nat)
  | write (up : Nat) (isInt : Bool) (i : Nat) (v : Int)
  | readPtr (k : Nat)           -- *p, p pointer number k
  | writePtr (k : Nat) (v : Int)
  | panicUnwind (n : Nat)       -- a panic leaves n activations without releasing anything
  deriving Repr, DecidableEq

def getF (h : List Frame) (e : Nat) : Frame := h.getD e default

/-- `pool := &run.Pool; index := run.PoolSize - 1; if index >= 0 { pop } else { env = &Env{} }`:
    the frame, its previous content, the remaining pool, the heap containing the frame -/
def pick (reuse : Bool) (s : State) : Nat × Frame × List Nat × List Frame :=
  match reuse, s.pool with
  | true, p :: rest => (p, getF s.heap p, rest, s.heap)
  | _, _ => (s.heap.length, {}, s.pool, s.heap ++ [{}])

/-- cap(env.Ints) -/
def intsCap (arrs : List Arr) (fr : Frame) : Nat :=
  match fr.ints with
  | some a => (arrs.getD a default).cells.length
  | none => 0

/-- `if cap(env.Ints) >= nintbind { env.Ints = env.Ints[0:nintbind] } else { env.Ints = make([]uint64, nintbind) }` -/
def resizeInts (arrs : List Arr) (fr : Frame) (ni : Nat) : Option Nat × List Arr :=
  if ni ≤ intsCap arrs fr then (fr.ints, arrs)
  else (some arrs.length, arrs ++ [{ cells := List.replicate ni none }])

/-- ghost: the array visible through the new incarnation gets the next array serial -/
def relabel (arrs : List Arr) (ints : Option Nat) (ni lid : Nat) : List Arr :=
  if 0 < ni then
    match ints with
    | some a => arrs.set a { arrs.getD a default with lid := lid }
    | none => arrs
  else arrs

/-- `if cap(env.Vals) >= nbind { env.Vals = env.Vals[0:nbind] } else { env.Vals = make([]xr.Value, nbind) }` -/
def resizeVals (fr : Frame) (nb : Nat) : List Slot :=
  if nb ≤ fr.vals.length then fr.vals else List.replicate nb none

/-- the common part of newEnv / NewEnv / newEnv4Func.  Returns the new state and the frame. -/
def alloc (reuse : Bool) (s : State) (outer nb ni : Nat) : State × Nat :=
  let pk := pick reuse s
  let e := pk.1
  let fr := pk.2.1
  let ri := resizeInts s.arrs fr ni
  let fr' : Frame := { fr with vals := resizeVals fr nb, nb := nb, ints := ri.1, ni := ni, outer := some outer, lid := s.nlid }
  ({ s with heap := pk.2.2.2.set e fr', arrs := relabel ri.2 ri.1 ni s.nalid, pool := pk.2.2.1,
            nlid := s.nlid + 1, nalid := if 0 < ni then s.nalid + 1 else s.nalid }, e)

/-- Env.freeEnv -/
def free (reuse : Bool) (s : State) (e : Nat) : State :=
  let fr := getF s.heap e
  if fr.used then s                            -- if env.UsedByClosure { return }
  else if poolCap ≤ s.pool.length then s       -- if n >= poolCapacity { return }
  else if !reuse then s                        -- FreshMachine: nothing is ever recycled
  else
    -- if env.IntAddressTaken { env.Ints = nil; env.IntAddressTaken = false }
    let fr1 : Frame := if fr.addr then { fr with ints := none, addr := false } else fr
    -- env.Outer = nil ...; run.Pool[n] = env; run.PoolSize = n + 1
    { s with heap := s.heap.set e { fr1 with outer := none }, pool := e :: s.pool }

/-- Env.MarkUsedByClosure -/
def markLoop : Nat → List Frame → Option Nat → List Frame
  | 0, h, _ => h
  | _ + 1, h, none => h
  | fuel + 1, h, some e =>
    match h[e]? with
    | none => h
    | some fr =>
      if fr.used then h
      else markLoop fuel (h.set e { fr with used := true }) fr.outer

def mark (h : List Frame) (e : Nat) : List Frame := markLoop (h.length + 1) h (some e)

/-- env.Outer.Outer... (`up` times) -/
def walkUp (h : List Frame) : Nat → Nat → Option Nat
  | 0, e => if e < h.length then some e else none
  | up + 1, e =>
    match h[e]? with
    | none => none
    | some fr =>
      match fr.outer with
      | none => none
      | some o => walkUp h up o

def cur (s : State) : Option Nat :=
  match s.stack with
  | (c :: _) :: _ => some c
  | _ => none

/-- result of a step: the new state and, for read operations, the value read -/
abbrev Res := State × Option Slot

def step (reuse : Bool) (s : State) : Op → Option Res
  | .call k nb ni =>
    match s.clos[k]? with
    | none => none
    | some c =>
      let (s1, e) := alloc reuse s c nb ni
      some ({ s1 with stack := [e] :: s1.stack }, none)
  | .ret =>
    match s.stack with
    | [] => none
    | a :: rest =>
      match a.getLast? with
      | none => none
      | some f => some ({ free reuse s f with stack := rest }, none)
  | .blockEnter nb ni =>
    match s.stack with
    | (c :: fs) :: rest =>
      let (s1, e) := alloc reuse s c nb ni
      some ({ s1 with stack := (e :: c :: fs) :: rest }, none)
    | _ => none
  | .blockExit =>
    match s.stack with
    | (b :: c :: fs) :: rest => some ({ free reuse s b with stack := (c :: fs) :: rest }, none)
    | _ => none
  | .jumpOut n =>
    match s.stack with
    | a :: rest => if n < a.length then some ({ s with stack := a.drop n :: rest }, none) else none
    | [] => none
  | .makeClosure =>
    match cur s with
    | none => none
    | some c => some ({ s with heap := mark s.heap c, clos := s.clos ++ [c] }, none)
  | .takeAddr up i =>
    match cur s with
    | none => none
    | some c =>
      match walkUp s.heap up c with
      | none => none
      | some e =>
        let fr := getF s.heap e
        match fr.ints with
        | none => none
        | some a =>
          if i < fr.ni then
            some ({ s with heap := s.heap.set e { fr with addr := true }, ptrs := s.ptrs ++ [(a, i)] }, none)
          else none
  | .read up isInt i =>
    match cur s with
    | none => none
    | some c =>
      match walkUp s.heap up c with
      | none => none
      | some e =>
        let fr := getF s.heap e
        if isInt then
          match fr.ints with
          | none => none
          | some a =>
            if i < fr.ni then
              match (s.arrs.getD a default).cells[i]? with
              | none => none
              | some v => some (s, some v)
            else none
        else
          if i < fr.nb then
            match fr.vals[i]? with
            | none => none
            | some v => some (s, some v)
          else none
  | .write up isInt i v =>
    match cur s with
    | none => none
    | some c =>
      match walkUp s.heap up c with
      | none => none
      | some e =>
        let fr := getF s.heap e
        if isInt then
          match fr.ints with
          | none => none
          | some a =>
            if i < fr.ni then
              let ar := s.arrs.getD a default
              if i < ar.cells.length then
                some ({ s with arrs := s.arrs.set a { ar with cells := ar.cells.set i (some v) } }, none)
              else none
            else none
        else
          if i < fr.nb ∧ i < fr.vals.length then
            some ({ s with heap := s.heap.set e { fr with vals := fr.vals.set i (some v) } }, none)
          else none
  | .readPtr k =>
    match s.ptrs[k]? with
    | none => none
    | some (a, i) =>
      match (s.arrs.getD a default).cells[i]? with
      | none => none
      | some v => some (s, some v)
  | .writePtr k v =>
    match s.ptrs[k]? with
    | none => none
    | some (a, i) =>
      let ar := s.arrs.getD a default
      if i < ar.cells.length then
        some ({ s with arrs := s.arrs.set a { ar with cells := ar.cells.set i (some v) } }, none)
      else none
  | .panicUnwind n =>
    if n < s.stack.length then some ({ s with stack := s.stack.drop n }, none) else none

/-- run a sequence of operations; `none` = some operation was not enabled.
    Returns the final state and the values read, in order. -/
def run (reuse : Bool) : State → List Op → Option (State × List Slot)
  | s, [] => some (s, [])
  | s, op :: ops =>
    match step reuse s op with
    | none => none
    | some (s1, o) =>
      match run reuse s1 ops with
      | none => none
      | some (s2, os) => some (s2, (match o with | some v => [v] | none => []) ++ os)

/-- PoolMachine = the code; FreshMachine = no recycling -/
abbrev runPool := run true
abbrev runFresh := run false

/-! executable form of the invariant, evaluated by the monitor on every state -/

/-- frames reachable from `e` through `Outer` (fuel = heap size) -/
def chain (h : List Frame) : Nat → Nat → List Nat
  | 0, _ => []
  | fuel + 1, e =>
    match h[e]? with
    | none => []
    | some fr => e :: (match fr.outer with | some o => chain h fuel o | none => [])

/-- every frame reachable from a root: activations, closures, and their `Outer` chains -/
def reachable (s : State) : List Nat :=
  (s.stack.flatten ++ s.clos).flatMap (fun e => chain s.heap (s.heap.length + 1) e)

/-- arrays that a live pointer refers to -/
def ptrArrs (s : State) : List Nat := s.ptrs.map (·.1)

def nodupB : List Nat → Bool
  | [] => true
  | x :: xs => !xs.contains x && nodupB xs

def poolInvB (s : State) : Bool :=
  s.pool.length ≤ poolCap && nodupB s.pool &&
  s.pool.all (fun p => !(reachable s).contains p) &&
  s.pool.all (fun p => match (getF s.heap p).ints with
                       | some a => !(ptrArrs s).contains a
                       | none => true)

end Frames
