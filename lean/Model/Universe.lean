import Model.TypeId
import Model.TypeMap
/-! # Model of the interpreter's type universe (xreflect)                     (property C29)

Transcription of `/repo/xreflect`:
* `type.go`      `Types.add`, `Universe.maketype4`, `maketype`, `xtype.Comparable` (= forked
                 `types.Comparable`, go/types/predicates.go), `xtype.approxReflectType`
* `init.go`      `NewUniverse` (`makeBasicTypes`, `makeForward`, `makeInterface`, `makeError`)
* `composite.go` `ArrayOf`, `ChanOf`, `MapOf`, `PtrTo`, `SliceOf`, `propagateFwd`, `elem`, `Key`, `Len`
* `function.go`  `FuncOf`/`MethodOf` (receiver nil), `In`, `Out`, `NumIn`, `NumOut`, `IsVariadic`
* `struct.go`    `StructOf` (`sanitize`, `toGoField`, `toReflectField`, `toExportedFieldName`), `field`
* `named.go`     `NamedOf`/`reflectNamedOf(.., rTypeOfForward)`, `SetUnderlying`
* `util.go`      `gtypeToKind`, `ToReflectKind`, `dirToGdir`
and of what `reflect` contributes to the observable answers: `Size`, `Align`, `Field(i).Offset`
(`reflect.StructOf` / the compiler's struct layout on amd64), the panics of `reflect.MapOf`,
`reflect.FuncOf`, `reflect.ChanOf`, `reflect.StructOf` on arguments the interpreter passes through.

Transcription rules / abstractions
* An `*xtype` is an index into `U.reps` (append only: the index IS the pointer identity).
  `xtype.gtype` is a `TypeId.Ty` (the key of the intern table `Universe.Types.gmap`, a
  `typeutil.Map` = `TypeMap.Map Ty` of C28 with values = indices), `xtype.rtype` is an `RTy`.
* `reflect.Type` values are canonical in the Go runtime (one descriptor per type, `==` is type
  identity), so `RTy` is a first-order term with decidable equality; lists of components are
  `RTy.nil`/`RTy.cons` chains so that the type is a plain (non nested) inductive.
  `RTy.forward` = `reflect.TypeOf((*Forward)(nil)).Elem()`, `RTy.iface` = `interface{}`,
  `RTy.error` = the compiled `error`.
* `*types.Named` is `Ty.named id`; `U.under[id]` is what `Named.Underlying()` returns (mutated by
  `SetUnderlying`), `U.names[id]` the object name.  `error` is id 0.
* The key operations of the map (`typeutil.Identical`, `Hasher.Hash`) are the parameter `o`
  (instance: `TypeId.identB`, `TypeId.hash nh`); the hash of a named type is an address in the
  real code; every theorem of Props.C29 holds for every `nh`.
* A Go panic (`xerrorf`, reflect's panics, index out of range) is `none`.
* Not modelled: methods (`AddMethod`, `methodvalue`, CTI methods of basic types: `addTypeMethodsCTI`
  is a no-op unless generics v2 are switched on), `InterfaceOf` (emulated interfaces), the
  `ReflectTypes` cache of `FromReflectType`, `InvalidateCache` on redefinition, `ThreadSafe` locking,
  `errorOnSuspiciousCache` (never fires for the reflect types built here), debug output.
-/
namespace Universe
open TypeId

/-! ## reflect side -/

inductive RShape where
  | array (n : Nat)
  | slice
  | ptr
  | chan (dir : Nat)                       -- reflect.ChanDir: 1 recv, 2 send, 3 both
  | map
  | func (variadic : Bool) (nin : Nat)
  | struct (fs : List (String × String))   -- reflect field name (after gensym), tag
  deriving DecidableEq, Repr, Inhabited

inductive RTy where
  | basic (k : Nat)                        -- go/types BasicKind 1..18
  | iface
  | error
  | forward
  | node (sh : RShape) (cs : RTy)
  | nil
  | cons (a b : RTy)
  deriving DecidableEq, Repr, Inhabited

def RTy.ofList : List RTy → RTy
  | [] => .nil
  | a :: l => .cons a (RTy.ofList l)

def RTy.toList : RTy → List RTy
  | .cons a b => a :: b.toList
  | _ => []

def alignUp (x a : Nat) : Nat := (x + a - 1) / a * a

/-- `(size, align)` of the basic kinds on amd64 -/
def basicSA : Nat → Nat × Nat
  | 1 => (1, 1) | 2 => (8, 8) | 3 => (1, 1) | 4 => (2, 2) | 5 => (4, 4) | 6 => (8, 8)
  | 7 => (8, 8) | 8 => (1, 1) | 9 => (2, 2) | 10 => (4, 4) | 11 => (8, 8) | 12 => (8, 8)
  | 13 => (4, 4) | 14 => (8, 8) | 15 => (8, 4) | 16 => (16, 8) | 17 => (16, 8) | 18 => (8, 8)
  | _ => (0, 1)

/-- struct layout, the loop of `reflect.StructOf` (same rule as cmd/compile):
    state = (offsets so far reversed, size, max align, lastzero) -/
def layoutLoop : List (Nat × Nat) → Nat → Nat → List Nat × Nat × Nat
  | [], size, al => ([], size, al)
  | (sz, a) :: fs, size, al =>
      let off := alignUp size a
      let (offs, size', al') := layoutLoop fs (off + sz) (max al a)
      (off :: offs, size', al')

/-- does the field list end in a zero-sized field -/
def lastZero : List (Nat × Nat) → Bool
  | [] => false
  | [(sz, _)] => sz == 0
  | _ :: fs => lastZero fs

/-- `(offsets, size, align)` of a struct whose fields have the given `(size, align)` -/
def layout (fs : List (Nat × Nat)) : List Nat × Nat × Nat :=
  let (offs, size, al) := layoutLoop fs 0 1
  let size := if size > 0 && lastZero fs then size + 1 else size
  (offs, alignUp size al, al)

mutual
/-- `(Size(), Align())` of a reflect type -/
def rSA : RTy → Nat × Nat
  | .basic k => basicSA k
  | .iface => (16, 8)
  | .error => (16, 8)
  | .forward => (16, 8)
  | .node (.array n) cs => match cs with
      | .cons e _ => let (s, a) := rSA e; (n * s, a)
      | _ => (0, 1)
  | .node .slice _ => (24, 8)
  | .node (.struct _) cs => let (_, s, a) := layout (rSAs cs); (s, a)
  | .node _ _ => (8, 8)
  | .nil => (0, 1)
  | .cons _ _ => (0, 1)
def rSAs : RTy → List (Nat × Nat)
  | .cons a b => rSA a :: rSAs b
  | _ => []
end

def rSize (r : RTy) : Nat := (rSA r).1
def rAlign (r : RTy) : Nat := (rSA r).2

/-- field offsets of a reflect struct type -/
def rOffsets : RTy → List Nat
  | .node (.struct _) cs => (layout (rSAs cs)).1
  | _ => []

/-- `reflect.Kind` of a basic kind (`ToReflectKind`) -/
def toReflectKind (k : Nat) : Nat :=
  if 1 ≤ k && k ≤ 16 then k else if k == 17 then 24 else if k == 18 then 26 else 0

def rKind : RTy → Nat
  | .basic k => toReflectKind k
  | .iface => 20 | .error => 20 | .forward => 20
  | .node (.array _) _ => 17
  | .node (.chan _) _ => 18
  | .node (.func _ _) _ => 19
  | .node .map _ => 21
  | .node .ptr _ => 22
  | .node .slice _ => 23
  | .node (.struct _) _ => 25
  | _ => 0

mutual
/-- can reflect use the type as a map key (`reflect.MapOf` panics otherwise) -/
def rHashable : RTy → Bool
  | .basic _ => true
  | .iface => true | .error => true | .forward => true
  | .node (.array _) cs => match cs with | .cons e _ => rHashable e | _ => true
  | .node (.struct _) cs => rHashables cs
  | .node (.chan _) _ => true
  | .node .ptr _ => true
  | .node _ _ => false         -- slice, map, func
  | _ => true
def rHashables : RTy → Bool
  | .cons a b => rHashable a && rHashables b
  | _ => true
end

/-! ## go/types side -/

def emptyIface : Ty := .iface [] [] []
def errorIface : Ty := mkIface [.mk "Error" none false .self [] [.basic 17]] []

/-- `gtypeToKind` for a type that is its own underlying type -/
def kindU : Ty → Nat
  | .basic k => toReflectKind k
  | .array _ _ => 17
  | .chan _ _ => 18
  | .sig _ _ _ _ => 19
  | .iface _ _ _ => 20
  | .map _ _ => 21
  | .pointer _ => 22
  | .slice _ => 23
  | .struct _ => 25
  | _ => 0

/-- `dirToGdir` -/
def dirToGdir (d : Nat) : Nat := if d == 1 then 2 else if d == 2 then 1 else 0
/-- `gdirTodir` -/
def gdirToDir (d : Nat) : Nat := if d == 2 then 1 else if d == 1 then 2 else 3

def basicName : Nat → String
  | 1 => "bool" | 2 => "int" | 3 => "int8" | 4 => "int16" | 5 => "int32" | 6 => "int64"
  | 7 => "uint" | 8 => "uint8" | 9 => "uint16" | 10 => "uint32" | 11 => "uint64" | 12 => "uintptr"
  | 13 => "float32" | 14 => "float64" | 15 => "complex64" | 16 => "complex128" | 17 => "string"
  | 18 => "Pointer" | _ => ""

/-! ## the universe -/

structure Rep where
  kind : Nat
  g : Ty
  r : RTy
  opt : Nat          -- 0 OptDefault, 1 OptRecursive, 2 OptIncomplete (bit-or of these)
  deriving Inhabited

structure U where
  map : TypeMap.Map Ty
  reps : List Rep
  under : List Ty
  names : List String

instance : Inhabited U := ⟨⟨TypeMap.empty, [], [], []⟩⟩

abbrev Ops := TypeMap.Ops Ty

def U.rep (s : U) (i : Nat) : Rep := s.reps.getD i default

def setAt {α} (l : List α) (i : Nat) (f : α → α) : List α :=
  match l, i with
  | [], _ => []
  | a :: l, 0 => f a :: l
  | a :: l, i + 1 => a :: setAt l i f

def U.modRep (s : U) (i : Nat) (f : Rep → Rep) : U := { s with reps := setAt s.reps i f }

/-- `t.gtype.Underlying()` -/
def U.underlying (s : U) : Ty → Ty
  | .named id => s.under.getD id emptyIface
  | g => g

/-- `gtypeToKind(nil, gtype)` -/
def U.gkind (s : U) (g : Ty) : Nat := kindU (s.underlying g)

/-- `Types.add` for the rep with index `i` (already appended to `reps`).  The kind switch of `add`
    only performs consistency checks. -/
def add (o : Ops) (s : U) (i : Nat) (x : Rep) : U :=
  if x.r = .forward then
    (if (TypeMap.get o s.map x.g).isSome then s else { s with map := (TypeMap.set o s.map x.g i).1 })
  else { s with map := (TypeMap.set o s.map x.g i).1 }

/-- allocate a new `xtype` and `add` it -/
def fresh (o : Ops) (s : U) (kind : Nat) (g : Ty) (r : RTy) (opt : Nat) : U × Nat :=
  let opt := if r = .forward then 2 else opt
  let i := s.reps.length
  let x : Rep := ⟨kind, g, r, opt⟩
  (add o { s with reps := s.reps ++ [x] } i x, i)

/-- `Universe.maketype4` -/
def maketype4 (o : Ops) (s : U) (kind : Nat) (g : Ty) (r : RTy) (opt : Nat) : U × Nat :=
  match TypeMap.get o s.map g with
  | some i =>
      let x := s.rep i
      let updateOpt := opt == 0 && x.opt == 2
      if x.r = r then
        ((if updateOpt then s.modRep i (fun x => { x with opt := opt }) else s), i)
      else if x.r = .forward then
        (s.modRep i (fun x => { x with r := r, opt := if updateOpt then opt else x.opt }), i)
      else fresh o s kind g r opt
  | none => fresh o s kind g r opt

/-- `Universe.maketype` / `MakeType` -/
def maketype (o : Ops) (s : U) (g : Ty) (r : RTy) (opt : Nat) : U × Nat :=
  maketype4 o s (s.gkind g) g r opt

/-- `NewUniverse`: 18 basic types (index = BasicKind - 1), Forward (18), interface{} (19), error (20) -/
def initU (o : Ops) : U :=
  let s : U := ⟨TypeMap.empty, [], [errorIface], ["error"]⟩
  let basics := (List.range 18).map (· + 1)
  let s := basics.foldl (fun s k =>
      let x : Rep := ⟨toReflectKind k, .basic k, .basic k, 0⟩
      add o { s with reps := s.reps ++ [x] } s.reps.length x) s
  let fw : Rep := ⟨0, emptyIface, .forward, 0⟩
  let s := add o { s with reps := s.reps ++ [fw] } s.reps.length fw
  let it : Rep := ⟨20, emptyIface, .iface, 0⟩
  let s := add o { s with reps := s.reps ++ [it] } s.reps.length it
  let er : Rep := ⟨20, .named 0, .error, 0⟩
  add o { s with reps := s.reps ++ [er] } s.reps.length er

/-- `v.BasicTypes[kind]` for a reflect.Kind -/
def basicIndex (kind : Nat) : Option Nat :=
  if 1 ≤ kind && kind ≤ 16 then some (kind - 1)
  else if kind == 24 then some 16 else if kind == 26 then some 17 else none

/-- `propagateFwd(xt, maker)` -/
def propagateFwd (s : U) (x : Nat) (maker : RTy → RTy) : U × RTy :=
  let xt := s.rep x
  if xt.opt != 0 || xt.r == .forward then (s.modRep x (fun x => { x with opt := 1 }), .forward)
  else (s, maker xt.r)

/-- `xt.approxReflectType()` -/
def approx (s : U) (x : Nat) : U × RTy :=
  let xt := s.rep x
  if xt.opt != 0 then (s.modRep x (fun x => { x with opt := 1 }), .forward)
  else (s, xt.r)

def valid (s : U) (x : Nat) : Bool := x < s.reps.length

def arrayOf (o : Ops) (s : U) (n : Nat) (x : Nat) : Option (U × Nat) :=
  if !valid s x then none else
  let g := Ty.array n (s.rep x).g
  let (s, r) := propagateFwd s x (fun r => .node (.array n) (.cons r .nil))
  some (maketype o s g r (s.rep x).opt)

def sliceOf (o : Ops) (s : U) (x : Nat) : Option (U × Nat) :=
  if !valid s x then none else
  let g := Ty.slice (s.rep x).g
  let (s, r) := propagateFwd s x (fun r => .node .slice (.cons r .nil))
  some (maketype o s g r (s.rep x).opt)

def ptrTo (o : Ops) (s : U) (x : Nat) : Option (U × Nat) :=
  if !valid s x then none else
  let g := Ty.pointer (s.rep x).g
  let (s, r) := propagateFwd s x (fun r => .node .ptr (.cons r .nil))
  some (maketype o s g r (s.rep x).opt)

def chanOf (o : Ops) (s : U) (dir : Nat) (x : Nat) : Option (U × Nat) :=
  if !valid s x || !(1 ≤ dir && dir ≤ 3) then none else
  let g := Ty.chan (dirToGdir dir) (s.rep x).g
  let (s, re) := approx s x
  if rSize re ≥ 65536 then none else       -- reflect.ChanOf: element size too large
  some (maketype o s g (.node (.chan dir) (.cons re .nil)) (s.rep x).opt)

def mapOf (o : Ops) (s : U) (k e : Nat) : Option (U × Nat) :=
  if !valid s k || !valid s e then none else
  let g := Ty.map (s.rep k).g (s.rep e).g
  let (s, rk) := approx s k
  let (s, re) := approx s e
  if !rHashable rk then none else          -- reflect.MapOf: invalid key type
  some (maketype o s g (.node .map (.cons rk (.cons re .nil))) ((s.rep k).opt ||| (s.rep e).opt))

/-- `FuncOf(in, out, variadic)` = `MethodOf(nil, ..)` -/
def funcOf (o : Ops) (s : U) (variadic : Bool) (ins outs : List Nat) : Option (U × Nat) :=
  if !(ins ++ outs).all (valid s) then none else
  let gin := ins.map fun x => (s.rep x).g
  let gout := outs.map fun x => (s.rep x).g
  let rin := ins.map fun x => (s.rep x).r
  let rout := outs.map fun x => (s.rep x).r
  let opt := (ins ++ outs).foldl (fun a x => a ||| (s.rep x).opt) 0
  let fwd := (rin ++ rout).any (· == .forward)
  -- reflect.FuncOf: last arg of variadic func must be slice
  let rok := !variadic || (match rin.getLast? with | some (.node .slice _) => true | _ => false)
  -- types.NewSignature: variadic parameter must be of unnamed slice type
  let gok := !variadic || (match gin.getLast? with | some (.slice _) => true | _ => false)
  if !fwd && !rok then none else
  if !gok then none else
  let r := if fwd then RTy.forward else .node (.func variadic ins.length) (RTy.ofList (rin ++ rout))
  some (maketype o s (.sig variadic none gin gout) r opt)

/-- one `StructField` given to `StructOf`: name (empty = embedded), package path, tag, type -/
structure FieldArg where
  name : String
  pkg : Option String
  tag : String
  t : Nat

def gensymPrivate : String := String.singleton (Char.ofNat 0x12038)
def gensymAnonymous : String := String.singleton (Char.ofNat 0x12039)

/-- `xtype.elem()` -/
def elem (o : Ops) (s : U) (t : Nat) : Option (U × Nat) :=
  if !valid s t then none else
  let x := s.rep t
  let ge : Option Ty := match s.underlying x.g with
    | .array _ e => some e
    | .chan _ e => some e
    | .map _ e => some e
    | .pointer e => some e
    | .slice e => some e
    | _ => none
  match ge with
  | none => none
  | some ge =>
    let r := match x.r with
      | .node (.array _) (.cons e _) => e
      | .node (.chan _) (.cons e _) => e
      | .node .map (.cons _ (.cons e _)) => e
      | .node .ptr (.cons e _) => e
      | .node .slice (.cons e _) => e
      | r => r
    some (maketype o s ge r x.opt)

/-- `xtype.Name()` -/
def U.typeName (s : U) : Ty → String
  | .basic k => basicName k
  | .named id => s.names.getD id ""
  | _ => ""

/-- `StructField.sanitize(i)`: the name and Anonymous flag actually used -/
def sanitize (o : Ops) (s : U) (i : Nat) (f : FieldArg) : Option (U × String × Bool) :=
  if f.name != "" then some (s, f.name, false) else
  let x := s.rep f.t
  let name := s.typeName x.g
  if name == "" && x.kind == 22 then
    match elem o s f.t with
    | none => none
    | some (s, e) =>
      let name := s.typeName (s.rep e).g
      some (s, if name == "" then gensymAnonymous ++ toString i else name, true)
  else some (s, if name == "" then gensymAnonymous ++ toString i else name, true)

/-- `toExportedFieldName(name, t, anonymous)` for a non-empty name -/
def exportedFieldName (name : String) (anon : Bool) : String :=
  if isExported name then name else if anon then gensymAnonymous ++ name else gensymPrivate ++ name

def hasDup : List String → Bool
  | [] => false
  | a :: l => l.contains a || hasDup l

/-- `toGoFields` loop (sanitize every field, left to right) -/
def sanitizeAll (o : Ops) (s : U) : Nat → List FieldArg → Option (U × List (String × Bool))
  | _, [] => some (s, [])
  | i, f :: fs =>
    match sanitize o s i f with
    | none => none
    | some (s, n, a) =>
      match sanitizeAll o s (i + 1) fs with
      | none => none
      | some (s, l) => some (s, (n, a) :: l)

def structOf (o : Ops) (s : U) (fs : List FieldArg) : Option (U × Nat) :=
  if !fs.all (fun f => valid s f.t) then none else
  match sanitizeAll o s 0 fs with
  | none => none
  | some (s, nas) =>
    let gfs := (fs.zip nas).map fun (f, (n, a)) => Field.mk n f.pkg a f.tag (s.rep f.t).g
    let rfs := (fs.zip nas).map fun (f, (n, a)) => (exportedFieldName n a, f.tag)
    let rts := fs.map fun f => (s.rep f.t).r
    let opt := fs.foldl (fun a f => a ||| (s.rep f.t).opt) 0
    -- types.NewStruct / reflect.StructOf: duplicate field names
    if hasDup ((nas.map (·.1)).filter (· != "_")) || hasDup (rfs.map (·.1)) then none else
    some (maketype o s (.struct gfs) (.node (.struct rfs) (RTy.ofList rts)) opt)

/-- `NamedOf(name, pkgpath)` -/
def namedOf (o : Ops) (s : U) (name : String) : U × Nat :=
  let id := s.under.length
  let s := { s with under := s.under ++ [emptyIface], names := s.names ++ [name] }
  maketype4 o s 0 (.named id) .forward 2

/-- `t.SetUnderlying(u)` -/
def setUnderlying (s : U) (t u : Nat) : Option U :=
  if !valid s t || !valid s u then none else
  match (s.rep t).g with
  | .named id =>
    let gu := s.underlying (s.rep u).g
    let kind := kindU gu
    let ru := (s.rep u).r
    let s := { s with under := setAt s.under id (fun _ => gu) }
    some (s.modRep t fun x => { x with kind := kind, r := ru, opt := if x.opt == 2 then 0 else x.opt })
  | _ => none

/-- `t.Key()` -/
def key (o : Ops) (s : U) (t : Nat) : Option (U × Nat) :=
  if !valid s t then none else
  let x := s.rep t
  if x.kind != 21 then none else
  match s.underlying x.g with
  | .map gk _ =>
    match (if x.r = .forward then some RTy.forward else
           match x.r with | .node .map (.cons k _) => some k | _ => none) with
    | some r => some (maketype o s gk r x.opt)
    | none => none
  | _ => none

/-- `t.resolve()`: the cached type for gtype, else (absent or still Forward) for its underlying type -/
def resolve (o : Ops) (s : U) (g : Ty) : Option Nat :=
  match TypeMap.get o s.map g with
  | some j => if (s.rep j).r = .forward then TypeMap.get o s.map (s.underlying g) else some j
  | none => TypeMap.get o s.map (s.underlying g)

/-- `t.field(i).Type` -/
def field (o : Ops) (s : U) (t i : Nat) : Option (U × Nat) :=
  if !valid s t then none else
  let x := s.rep t
  if x.kind != 25 then none else
  match s.underlying x.g with
  | .struct gfs =>
    match gfs[i]? with
    | none => none
    | some (.mk _ _ _ _ gt) =>
      -- `rf.Type`; the outer `none` is a panic of reflect's `Field(i)`
      let rf : Option RTy :=
        if x.r = .forward then
          match resolve o s x.g with
          | some j => (match (s.rep j).r with
              | .node (.struct _) cs => cs.toList[i]?
              | _ => none)
          | none => some .forward
        else match x.r with
          | .node (.struct _) cs => cs.toList[i]?
          | _ => none
      match rf with
      | some r => some (maketype o s gt r x.opt)
      | none => none
  | _ => none

/-- `t.In(i)` (no receiver) -/
def inp (o : Ops) (s : U) (t i : Nat) : Option (U × Nat) :=
  if !valid s t then none else
  let x := s.rep t
  if x.kind != 19 then none else
  match s.underlying x.g with
  | .sig _ _ ps _ =>
    match ps[i]? with
    | none => none
    | some gt =>
      match x.r with
      | .forward => some (maketype o s gt .forward x.opt)
      | .node (.func _ nin) cs =>
        if nin != ps.length then none else       -- NumIn consistency check
        (match cs.toList[i]? with
          | some r => some (maketype o s gt r x.opt)
          | none => none)
      | _ => none
  | _ => none

/-- `t.Out(i)` -/
def outp (o : Ops) (s : U) (t i : Nat) : Option (U × Nat) :=
  if !valid s t then none else
  let x := s.rep t
  if x.kind != 19 then none else
  match s.underlying x.g with
  | .sig _ _ _ rs =>
    match rs[i]? with
    | none => none
    | some gt =>
      match x.r with
      | .forward => some (maketype o s gt .forward x.opt)
      | .node (.func _ nin) cs =>
        (match cs.toList[nin + i]? with
          | some r => some (maketype o s gt r x.opt)
          | none => none)
      | _ => none
  | _ => none

/-! ## observations -/

/-- forked `types.Comparable`; `fuel` bounds the walk through named types -/
def comparable (s : U) : Nat → Ty → Bool
  | 0, _ => false
  | fuel + 1, g =>
    match s.underlying g with
    | .basic k => k != 25
    | .pointer _ => true
    | .iface _ _ _ => true
    | .chan _ _ => true
    | .struct fs => fs.all fun | .mk _ _ _ _ t => comparable s fuel t
    | .array _ e => comparable s fuel e
    | _ => false

/-- `t.IdenticalTo(u)` -/
def identicalTo (o : Ops) (s : U) (t u : Nat) : Bool :=
  t == u || o.ident (s.rep t).g (s.rep u).g

end Universe
