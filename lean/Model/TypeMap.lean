/-! # Model of `typeutil.Map`  (go/typeutil/map.go: Delete, At, Set, Len, Iterate)    (property C28)

Transcription rules
* `table map[uint32][]entry` is a list of (hash, bucket) pairs with one pair per hash (`bucketOf` =
  `m.table[hash]`, the empty bucket when the key is absent; `setBucket` = `m.table[hash] = b`).
  Writes through `bucket[i]` / `*hole` go to the slice's backing array, i.e. to the stored bucket.
* `entry{}` (key == nil: unused slot) is `none`.  Values are natural numbers.
* The key operations are parameters (`Ops`): `ident` = `typeutil.Identical` (total by
  `TypeId.identical_total`), `hash` = `Hasher.Hash`.  The instance used by the driver and by
  `Props.C28` is `TypeId.identB` / `TypeId.hash nh`.
* `Iterate` visits buckets in the order of the table list; Go's order is unspecified, results are
  compared as sets.
* A nil `*Map` behaves as the zero `Map` for the read-only operations.
-/
namespace TypeMap

structure Ops (K : Type) where
  ident : K → K → Bool
  hash : K → UInt32

abbrev Slot (K : Type) := Option (K × Nat)

structure Map (K : Type) where
  table : Option (List (UInt32 × List (Slot K)))   -- `none` = nil table
  length : Int

def empty {K} : Map K := ⟨none, 0⟩

variable {K : Type}

/-- `m.table[hash]` -/
def bucketOf : List (UInt32 × List (Slot K)) → UInt32 → List (Slot K)
  | [], _ => []
  | (h', b) :: r, h => if h' == h then b else bucketOf r h

/-- `m.table[hash] = b` -/
def setBucket : List (UInt32 × List (Slot K)) → UInt32 → List (Slot K) → List (UInt32 × List (Slot K))
  | [], h, b => [(h, b)]
  | (h', b') :: r, h, b => if h' == h then (h, b) :: r else (h', b') :: setBucket r h b

/-- loop of `At` over one bucket -/
def atBucket (o : Ops K) (k : K) : List (Slot K) → Option Nat
  | [] => none
  | none :: r => atBucket o k r
  | some (k', v) :: r => if o.ident k k' then some v else atBucket o k r

/-- loop of `Delete` over one bucket: `none` = not found -/
def delBucket (o : Ops K) (k : K) : List (Slot K) → Option (List (Slot K))
  | [] => none
  | none :: r => (delBucket o k r).map (none :: ·)
  | some (k', v) :: r =>
      if o.ident k k' then some (none :: r) else (delBucket o k r).map (some (k', v) :: ·)

/-- loop of `Set` over one bucket when an identical key is found: new bucket and previous value -/
def setScan (o : Ops K) (k : K) (v : Nat) : List (Slot K) → Option (List (Slot K) × Nat)
  | [] => none
  | none :: r => (setScan o k v r).map fun (b, p) => (none :: b, p)
  | some (k', v') :: r =>
      if o.ident k k' then some (some (k', v) :: r, v')
      else (setScan o k v r).map fun (b, p) => (some (k', v') :: b, p)

/-- `hole` after the loop is the LAST unused slot; `*hole = entry{key, value}` -/
def fillLastHole (e : K × Nat) : List (Slot K) → Option (List (Slot K))
  | [] => none
  | s :: r =>
      match fillLastHole e r with
      | some r' => some (s :: r')
      | none => match s with
        | none => some (some e :: r)
        | some _ => none

def get (o : Ops K) (m : Map K) (k : K) : Option Nat :=
  match m.table with
  | some t => atBucket o k (bucketOf t (o.hash k))
  | none => none

def delete (o : Ops K) (m : Map K) (k : K) : Map K × Bool :=
  match m.table with
  | some t =>
      let h := o.hash k
      match delBucket o k (bucketOf t h) with
      | some b' => (⟨some (setBucket t h b'), m.length - 1⟩, true)
      | none => (m, false)
  | none => (m, false)

def set (o : Ops K) (m : Map K) (k : K) (v : Nat) : Map K × Option Nat :=
  match m.table with
  | some t =>
      let h := o.hash k
      let b := bucketOf t h
      match setScan o k v b with
      | some (b', prev) => (⟨some (setBucket t h b'), m.length⟩, some prev)
      | none =>
          let b' := match fillLastHole (k, v) b with
            | some b' => b'
            | none => b ++ [some (k, v)]
          (⟨some (setBucket t h b'), m.length + 1⟩, none)
  | none => (⟨some [(o.hash k, [some (k, v)])], m.length + 1⟩, none)

def len (m : Map K) : Int := m.length

def slots (m : Map K) : List (Slot K) :=
  match m.table with
  | some t => t.flatMap (·.2)
  | none => []

/-- entries in the order `Iterate` of the model visits them -/
def iterate (m : Map K) : List (K × Nat) := (slots m).filterMap id

end TypeMap
