import Model.ParseExpr
/-!
# C25 — the parenthesisation decisions of the forked printer on the expression core

Transcribed from /repo/go/printer/nodes.go (spacing, line breaks, positions and comments ignored: the output is a
token list; `p.expr(x)` = `p.expr0(x, 1)` = `expr1(x, token.LowestPrec = 0, 1)`):

* `binaryExpr(x, prec1, ..)` (733-770): `prec := x.Op.Precedence(); if prec < prec1 { "(" expr0(x) ")" ; return }`
  (expr0 re-enters binaryExpr with prec1 = 0, which prints the plain form); plain form:
  `expr1(x.X, prec)`, the operator, `expr1(x.Y, prec+1)`.
* `expr1` `*ast.UnaryExpr` (813-836): `const prec = token.UnaryPrec (6); if prec < prec1 { "(" expr(x) ")" } else
  { op; expr1(x.X, prec) }`.
* `expr1` `*ast.StarExpr` (799-811): same test; the operand is printed with `expr1(x.X, prec)` in the tree under
  test (fixes/C25-star-operand-parens.diff; upstream go/printer and the unrepaired fork print it with
  `p.expr(x.X)`, i.e. without ever parenthesising it).  Here `*` is one more prefix operator (`Expr.un`).
* `*ast.ParenExpr` (845-854): `if x.X is a ParenExpr { expr0(x.X) } else { "(" expr0(x.X) ")" }` — directly
  nested parentheses are collapsed (gofmt's simplification).
* `*ast.SelectorExpr` (1033-1045): `expr1(x.X, token.HighestPrec = 7)`, `.`, the name.
* `*ast.IndexExpr` (869-881): `expr1(x.X, HighestPrec)`, `[`, `expr0(x.Index)`, `]`.
* `*ast.CallExpr` (924-950), one argument, `Fun` not a function type: `expr1(x.Fun, HighestPrec)`, `(`, the argument
  through exprList -> `expr0`, `)`.
* identifiers / basic literals: themselves.

`parse` is the precedence-climbing model of C24 (`ParseExpr.parseExpr`).
-/
namespace PrintPrec
open ParseExpr

variable (T : Tables)

/-- expr1(e, prec1) as a token list -/
def print1 : Expr → Nat → List Tok
  | .atom n, _ => [Tok.atom n]
  | .bin l o r, p1 =>
    let body := print1 l (T.binPrec o) ++ Tok.op o :: print1 r (T.binPrec o + 1)
    if T.binPrec o < p1 then Tok.lparen :: body ++ [Tok.rparen] else body
  | .un o x, p1 =>
    let body := Tok.op o :: print1 x 6
    if 6 < p1 then Tok.lparen :: body ++ [Tok.rparen] else body
  | .paren x, _ =>
    match x with
    | .paren _ => print1 x 0
    | _ => Tok.lparen :: print1 x 0 ++ [Tok.rparen]
  | .sel x n, _ => print1 x 7 ++ [Tok.period, Tok.atom n]
  | .index x i, _ => print1 x 7 ++ Tok.lbrack :: print1 i 0 ++ [Tok.rbrack]
  | .call f a, _ => print1 f 7 ++ Tok.lparen :: print1 a 0 ++ [Tok.rparen]

/-- `Config.Fprint` of an expression: `p.expr(x)` -/
def print (e : Expr) : List Tok := print1 T e 0

/-- the same decisions, building the tree with the inserted `ParenExpr` nodes made explicit (and the collapsed
    ones removed) instead of tokens -/
def norm1 : Expr → Nat → Expr
  | .atom n, _ => .atom n
  | .bin l o r, p1 =>
    let b := Expr.bin (norm1 l (T.binPrec o)) o (norm1 r (T.binPrec o + 1))
    if T.binPrec o < p1 then .paren b else b
  | .un o x, p1 =>
    let b := Expr.un o (norm1 x 6)
    if 6 < p1 then .paren b else b
  | .paren x, _ =>
    match x with
    | .paren _ => norm1 x 0
    | _ => .paren (norm1 x 0)
  | .sel x n, _ => .sel (norm1 x 7) n
  | .index x i, _ => .index (norm1 x 7) (norm1 i 0)
  | .call f a, _ => .call (norm1 f 7) (norm1 a 0)

def normalize (e : Expr) : Expr := norm1 T e 0

/-- the operators of the tree are operators: binary ones have a precedence (1..5), prefix ones are prefix operators -/
def Valid : Expr → Prop
  | .atom _ => True
  | .bin l o r => 1 ≤ T.binPrec o ∧ Valid l ∧ Valid r
  | .un o x => T.isUnary o = true ∧ Valid x
  | .paren x => Valid x
  | .sel x _ => Valid x
  | .index x i => Valid x ∧ Valid i
  | .call f a => Valid f ∧ Valid a

def validb : Expr → Bool
  | .atom _ => true
  | .bin l o r => decide (1 ≤ T.binPrec o) && validb l && validb r
  | .un o x => T.isUnary o && validb x
  | .paren x => validb x
  | .sel x _ => validb x
  | .index x i => validb x && validb i
  | .call f a => validb f && validb a

/-- no `ParenExpr` directly inside a `ParenExpr` -/
def NoDP : Expr → Prop
  | .atom _ => True
  | .bin l _ r => NoDP l ∧ NoDP r
  | .un _ x => NoDP x
  | .paren x => (∀ y, x ≠ .paren y) ∧ NoDP x
  | .sel x _ => NoDP x
  | .index x i => NoDP x ∧ NoDP i
  | .call f a => NoDP f ∧ NoDP a

end PrintPrec
