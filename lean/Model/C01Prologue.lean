import Model.ClosureIR
/-! # C01Prologue — the non-closure statements (guards of shortcuts, early returns, error calls,
prologue assignments) of the C01 functions and the source text of the helper functions, exactly as the
hand-written `Model/Dispatch.lean` transcribes them.  `Props/C01.lean` checks that the lists
regenerated from the Go source are equal to these, so any change to a guard, a shortcut or a
helper breaks an obligation and forces the transcription to be revisited. -/
namespace C01Prologue
open ClosureIR
set_option maxRecDepth 100000

def binary_binaryExpr1Actions : List Action :=
  [{ fn := "BinaryExpr1", path := ["if x.Untyped() && y.Untyped()"], text := "return c.BinaryExprUntyped(node, x.Value.(UntypedLit), y.Value.(UntypedLit))" },
   { fn := "BinaryExpr1", path := ["not(x.Untyped() && y.Untyped())", "switch op", "case token.ADD"], text := "z = c.Add(node, x, y)" },
   { fn := "BinaryExpr1", path := ["not(x.Untyped() && y.Untyped())", "switch op", "case token.SUB"], text := "z = c.Sub(node, x, y)" },
   { fn := "BinaryExpr1", path := ["not(x.Untyped() && y.Untyped())", "switch op", "case token.MUL"], text := "z = c.Mul(node, x, y)" },
   { fn := "BinaryExpr1", path := ["not(x.Untyped() && y.Untyped())", "switch op", "case token.QUO"], text := "z = c.Quo(node, x, y)" },
   { fn := "BinaryExpr1", path := ["not(x.Untyped() && y.Untyped())", "switch op", "case token.REM"], text := "z = c.Rem(node, x, y)" },
   { fn := "BinaryExpr1", path := ["not(x.Untyped() && y.Untyped())", "switch op", "case token.AND"], text := "z = c.And(node, x, y)" },
   { fn := "BinaryExpr1", path := ["not(x.Untyped() && y.Untyped())", "switch op", "case token.OR"], text := "z = c.Or(node, x, y)" },
   { fn := "BinaryExpr1", path := ["not(x.Untyped() && y.Untyped())", "switch op", "case token.XOR"], text := "z = c.Xor(node, x, y)" },
   { fn := "BinaryExpr1", path := ["not(x.Untyped() && y.Untyped())", "switch op", "case token.SHL"], text := "z = c.Shl(node, x, y)" },
   { fn := "BinaryExpr1", path := ["not(x.Untyped() && y.Untyped())", "switch op", "case token.SHR"], text := "z = c.Shr(node, x, y)" },
   { fn := "BinaryExpr1", path := ["not(x.Untyped() && y.Untyped())", "switch op", "case token.AND_NOT"], text := "z = c.Andnot(node, x, y)" },
   { fn := "BinaryExpr1", path := ["not(x.Untyped() && y.Untyped())", "switch op", "case token.LAND"], text := "z = c.Land(node, x, y)" },
   { fn := "BinaryExpr1", path := ["not(x.Untyped() && y.Untyped())", "switch op", "case token.LOR"], text := "z = c.Lor(node, x, y)" },
   { fn := "BinaryExpr1", path := ["not(x.Untyped() && y.Untyped())", "switch op", "case token.EQL"], text := "z = c.Eql(node, x, y)" },
   { fn := "BinaryExpr1", path := ["not(x.Untyped() && y.Untyped())", "switch op", "case token.LSS"], text := "z = c.Lss(node, x, y)" },
   { fn := "BinaryExpr1", path := ["not(x.Untyped() && y.Untyped())", "switch op", "case token.GTR"], text := "z = c.Gtr(node, x, y)" },
   { fn := "BinaryExpr1", path := ["not(x.Untyped() && y.Untyped())", "switch op", "case token.NEQ"], text := "z = c.Neq(node, x, y)" },
   { fn := "BinaryExpr1", path := ["not(x.Untyped() && y.Untyped())", "switch op", "case token.LEQ"], text := "z = c.Leq(node, x, y)" },
   { fn := "BinaryExpr1", path := ["not(x.Untyped() && y.Untyped())", "switch op", "case token.GEQ"], text := "z = c.Geq(node, x, y)" },
   { fn := "BinaryExpr1", path := ["not(x.Untyped() && y.Untyped())", "switch op", "default"], text := "return c.unimplementedBinaryExpr(node, x, y)" },
   { fn := "BinaryExpr1", path := ["not(x.Untyped() && y.Untyped())", "if bothConst"], text := "z.EvalConst(COptKeepUntyped)" },
   { fn := "BinaryExpr1", path := ["not(x.Untyped() && y.Untyped())"], text := "return z" }]

def binary_landActions : List Action :=
  [{ fn := "Land", path := ["if xerr || yerr"], text := "return c.invalidBinaryExpr(node, x, y)" },
   { fn := "Land", path := ["not(xerr || yerr)", "if xfun == nil", "if xval"], text := "return y" },
   { fn := "Land", path := ["not(xerr || yerr)", "if xfun == nil", "not(xval)"], text := "return c.exprValue(nil, false)" },
   { fn := "Land", path := ["not(xerr || yerr)", "not(xfun == nil)", "if yfun == nil", "if yval"], text := "return x" }]

def binary_lorActions : List Action :=
  [{ fn := "Lor", path := ["if xerr || yerr"], text := "return c.invalidBinaryExpr(node, x, y)" },
   { fn := "Lor", path := ["not(xerr || yerr)", "if xfun == nil", "if xval"], text := "return c.exprValue(nil, true)" },
   { fn := "Lor", path := ["not(xerr || yerr)", "if xfun == nil", "not(xval)"], text := "return y" },
   { fn := "Lor", path := ["not(xerr || yerr)", "not(xfun == nil)", "if yfun == nil", "not(yval)"], text := "return x" }]

def binary_prepareShiftActions : List Action :=
  [{ fn := "prepareShift", path := ["if xe.Untyped() && ye.Untyped()"], text := "return c.ShiftUntyped(node, node.Op, xe.Value.(UntypedLit), ye.Value.(UntypedLit))" },
   { fn := "prepareShift", path := ["not(xe.Untyped() && ye.Untyped())", "if xet == nil || !reflect.IsCategory(xet.Kind(), xr.Int, xr.Uint)"], text := "return c.invalidBinaryExpr(node, xe, ye)" },
   { fn := "prepareShift", path := ["not(xe.Untyped() && ye.Untyped())", "not(xet == nil || !reflect.IsCategory(xet.Kind(), xr.Int, xr.Uint))", "if xe.Untyped()", "if ye.Const()"], text := "return c.ShiftUntyped(node, node.Op, xuntyp, yuntyp)" },
   { fn := "prepareShift", path := ["not(xe.Untyped() && ye.Untyped())", "not(xet == nil || !reflect.IsCategory(xet.Kind(), xr.Int, xr.Uint))", "if xe.Untyped()", "not(ye.Const())", "if warnUntypedShift2"], text := "c.Warnf(\"known limitation (warned only once): untyped constant shifted by a non-constant expression. returning int instead of deducing the type from the surrounding context: %v\", node)" },
   { fn := "prepareShift", path := ["not(xe.Untyped() && ye.Untyped())", "not(xet == nil || !reflect.IsCategory(xet.Kind(), xr.Int, xr.Uint))", "if xe.Untyped()", "not(ye.Const())", "if warnUntypedShift2"], text := "warnUntypedShift2 = false" },
   { fn := "prepareShift", path := ["not(xe.Untyped() && ye.Untyped())", "not(xet == nil || !reflect.IsCategory(xet.Kind(), xr.Int, xr.Uint))", "if xe.Untyped()", "not(ye.Const())"], text := "xe.ConstTo(c.TypeOfInt())" },
   { fn := "prepareShift", path := ["not(xe.Untyped() && ye.Untyped())", "not(xet == nil || !reflect.IsCategory(xet.Kind(), xr.Int, xr.Uint))", "if ye.Untyped()", "if yet == nil || !reflect.IsCategory(yet.Kind(), xr.Int)"], text := "return c.invalidBinaryExpr(node, xe, ye)" },
   { fn := "prepareShift", path := ["not(xe.Untyped() && ye.Untyped())", "not(xet == nil || !reflect.IsCategory(xet.Kind(), xr.Int, xr.Uint))", "if ye.Untyped()", "not(yet == nil || !reflect.IsCategory(yet.Kind(), xr.Int))"], text := "ye.ConstTo(c.TypeOfUint64())" },
   { fn := "prepareShift", path := ["not(xe.Untyped() && ye.Untyped())", "not(xet == nil || !reflect.IsCategory(xet.Kind(), xr.Int, xr.Uint))", "not(ye.Untyped())", "if yet == nil || !reflect.IsCategory(yet.Kind(), xr.Int, xr.Uint)"], text := "return c.invalidBinaryExpr(node, xe, ye)" },
   { fn := "prepareShift", path := ["not(xe.Untyped() && ye.Untyped())", "not(xet == nil || !reflect.IsCategory(xet.Kind(), xr.Int, xr.Uint))"], text := "xe.WithFun()" },
   { fn := "prepareShift", path := ["not(xe.Untyped() && ye.Untyped())", "not(xet == nil || !reflect.IsCategory(xet.Kind(), xr.Int, xr.Uint))"], text := "ye.WithFun()" },
   { fn := "prepareShift", path := ["not(xe.Untyped() && ye.Untyped())", "not(xet == nil || !reflect.IsCategory(xet.Kind(), xr.Int, xr.Uint))"], text := "return nil" }]

def binary_toSameFuncTypeActions : List Action :=
  [{ fn := "toSameFuncType", path := [], text := "xe.CheckX1()" },
   { fn := "toSameFuncType", path := [], text := "ye.CheckX1()" },
   { fn := "toSameFuncType", path := ["if yconst", "if xconst"], text := "c.constsToSameType(node, xe, ye)" },
   { fn := "toSameFuncType", path := ["if yconst", "if xconst"], text := "xe.WithFun()" },
   { fn := "toSameFuncType", path := ["if yconst", "if xconst"], text := "ye.WithFun()" },
   { fn := "toSameFuncType", path := ["if yconst", "not(xconst)"], text := "ye.ConstTo(xe.Type)" },
   { fn := "toSameFuncType", path := ["not(yconst)", "if xconst"], text := "xe.ConstTo(ye.Type)" },
   { fn := "toSameFuncType", path := ["not(yconst)", "not(xconst)", "if !xe.Type.IdenticalTo(ye.Type)"], text := "c.mismatchedTypes(node, xe, ye)" }]

def binaryeqlneq_eqlActions : List Action :=
  [{ fn := "Eql", path := ["if xe.IsNil()", "if ye.IsNil()"], text := "return c.invalidBinaryExpr(node, xe, ye)" },
   { fn := "Eql", path := ["if xe.IsNil()", "not(ye.IsNil())"], text := "return c.eqlneqNilR(node, xe, ye)" },
   { fn := "Eql", path := ["not(xe.IsNil())", "if ye.IsNil()"], text := "return c.eqlneqNilR(node, xe, ye)" },
   { fn := "Eql", path := ["not(xe.IsNil())", "not(ye.IsNil())", "if !xe.Type.Comparable() || !xe.Type.Comparable()"], text := "return c.invalidBinaryExpr(node, xe, ye)" },
   { fn := "Eql", path := ["not(xe.IsNil())", "not(ye.IsNil())", "not(!xe.Type.Comparable() || !xe.Type.Comparable())", "if xe.Type.Kind() != xr.Interface && ye.Type.Kind() != xr.Interface"], text := "c.toSameFuncType(node, xe, ye)" },
   { fn := "Eql", path := ["not(xe.IsNil())", "not(ye.IsNil())", "not(!xe.Type.Comparable() || !xe.Type.Comparable())", "not(k != yk)", "not(xc == yc)", "if yc", "if k == xr.Bool && yv.Bool()"], text := "return xe" },
   { fn := "Eql", path := ["not(xe.IsNil())", "not(ye.IsNil())", "not(!xe.Type.Comparable() || !xe.Type.Comparable())", "not(k != yk)", "not(xc == yc)", "not(yc)", "if k == xr.Bool && xv.Bool()"], text := "return ye" },
   { fn := "Eql", path := ["not(xe.IsNil())", "not(ye.IsNil())", "not(!xe.Type.Comparable() || !xe.Type.Comparable())", "if fun != nil"], text := "return c.exprBool(fun)" },
   { fn := "Eql", path := ["not(xe.IsNil())", "not(ye.IsNil())", "not(!xe.Type.Comparable() || !xe.Type.Comparable())", "not(fun != nil)"], text := "return c.eqlneqMisc(node, xe, ye)" }]

def binaryeqlneq_neqActions : List Action :=
  [{ fn := "Neq", path := ["if xe.IsNil()", "if ye.IsNil()"], text := "return c.invalidBinaryExpr(node, xe, ye)" },
   { fn := "Neq", path := ["if xe.IsNil()", "not(ye.IsNil())"], text := "return c.eqlneqNilR(node, xe, ye)" },
   { fn := "Neq", path := ["not(xe.IsNil())", "if ye.IsNil()"], text := "return c.eqlneqNilR(node, xe, ye)" },
   { fn := "Neq", path := ["not(xe.IsNil())", "not(ye.IsNil())", "if !xe.Type.Comparable() || !xe.Type.Comparable()"], text := "return c.invalidBinaryExpr(node, xe, ye)" },
   { fn := "Neq", path := ["not(xe.IsNil())", "not(ye.IsNil())", "not(!xe.Type.Comparable() || !xe.Type.Comparable())", "if xe.Type.Kind() != xr.Interface && ye.Type.Kind() != xr.Interface"], text := "c.toSameFuncType(node, xe, ye)" },
   { fn := "Neq", path := ["not(xe.IsNil())", "not(ye.IsNil())", "not(!xe.Type.Comparable() || !xe.Type.Comparable())", "not(k != yk)", "not(xc == yc)", "if yc", "if k == xr.Bool && !yv.Bool()"], text := "return xe" },
   { fn := "Neq", path := ["not(xe.IsNil())", "not(ye.IsNil())", "not(!xe.Type.Comparable() || !xe.Type.Comparable())", "not(k != yk)", "not(xc == yc)", "not(yc)", "if k == xr.Bool && !xv.Bool()"], text := "return ye" },
   { fn := "Neq", path := ["not(xe.IsNil())", "not(ye.IsNil())", "not(!xe.Type.Comparable() || !xe.Type.Comparable())", "if fun != nil"], text := "return c.exprBool(fun)" },
   { fn := "Neq", path := ["not(xe.IsNil())", "not(ye.IsNil())", "not(!xe.Type.Comparable() || !xe.Type.Comparable())", "not(fun != nil)"], text := "return c.eqlneqMisc(node, xe, ye)" }]

def binaryops_addActions : List Action :=
  [{ fn := "Add", path := [], text := "c.toSameFuncType(node, xe, ye)" },
   { fn := "Add", path := ["if xc == yc", "switch k", "default"], text := "return c.invalidBinaryExpr(node, xe, ye)" },
   { fn := "Add", path := ["not(xc == yc)", "if yc", "if y == \"\" || isLiteralNumber(y, 0) && reflect.IsCategory(k, xr.Int, xr.Uint)"], text := "return xe" },
   { fn := "Add", path := ["not(xc == yc)", "if yc", "not(y == \"\" || isLiteralNumber(y, 0) && reflect.IsCategory(k, xr.Int, xr.Uint))", "switch k", "default"], text := "return c.invalidBinaryExpr(node, xe, ye)" },
   { fn := "Add", path := ["not(xc == yc)", "not(yc)", "if x == \"\" || isLiteralNumber(x, 0) && reflect.IsCategory(k, xr.Int, xr.Uint)"], text := "return ye" },
   { fn := "Add", path := ["not(xc == yc)", "not(yc)", "not(x == \"\" || isLiteralNumber(x, 0) && reflect.IsCategory(k, xr.Int, xr.Uint))", "switch k", "default"], text := "return c.invalidBinaryExpr(node, xe, ye)" },
   { fn := "Add", path := [], text := "return exprFun(xe.Type, fun)" }]

def binaryops_subActions : List Action :=
  [{ fn := "Sub", path := [], text := "c.toSameFuncType(node, xe, ye)" },
   { fn := "Sub", path := ["if xc == yc", "switch k", "default"], text := "return c.invalidBinaryExpr(node, xe, ye)" },
   { fn := "Sub", path := ["not(xc == yc)", "if yc", "if isLiteralNumber(y, 0)"], text := "return xe" },
   { fn := "Sub", path := ["not(xc == yc)", "if yc", "not(isLiteralNumber(y, 0))", "switch k", "default"], text := "return c.invalidBinaryExpr(node, xe, ye)" },
   { fn := "Sub", path := ["not(xc == yc)", "not(yc)", "switch k", "default"], text := "return c.invalidBinaryExpr(node, xe, ye)" },
   { fn := "Sub", path := [], text := "return exprFun(xe.Type, fun)" }]

def binaryops_mulActions : List Action :=
  [{ fn := "Mul", path := [], text := "c.toSameFuncType(node, xe, ye)" },
   { fn := "Mul", path := ["if xc == yc", "switch k", "default"], text := "return c.invalidBinaryExpr(node, xe, ye)" },
   { fn := "Mul", path := ["not(xc == yc)", "if yc", "init ze := c.mulPow2(node, xe, ye)", "if ze != nil"], text := "return ze" },
   { fn := "Mul", path := ["not(xc == yc)", "if yc", "init ze := c.mulPow2(node, xe, ye)", "not(ze != nil)", "switch k", "default"], text := "return c.invalidBinaryExpr(node, xe, ye)" },
   { fn := "Mul", path := ["not(xc == yc)", "not(yc)", "init ze := c.mulPow2(node, xe, ye)", "if ze != nil"], text := "return ze" },
   { fn := "Mul", path := ["not(xc == yc)", "not(yc)", "init ze := c.mulPow2(node, xe, ye)", "not(ze != nil)", "switch k", "default"], text := "return c.invalidBinaryExpr(node, xe, ye)" },
   { fn := "Mul", path := [], text := "return exprFun(xe.Type, fun)" }]

def binaryops_quoActions : List Action :=
  [{ fn := "Quo", path := [], text := "c.toSameFuncType(node, xe, ye)" },
   { fn := "Quo", path := ["if xc == yc", "switch k", "default"], text := "return c.invalidBinaryExpr(node, xe, ye)" },
   { fn := "Quo", path := ["not(xc == yc)", "if yc", "if isLiteralNumber(y, 0)"], text := "c.Errorf(\"division by zero\")" },
   { fn := "Quo", path := ["not(xc == yc)", "if yc", "if isLiteralNumber(y, 0)"], text := "return nil" },
   { fn := "Quo", path := ["not(xc == yc)", "if yc", "not(isLiteralNumber(y, 0))", "init ze := c.quoPow2(node, xe, ye)", "if ze != nil"], text := "return ze" },
   { fn := "Quo", path := ["not(xc == yc)", "if yc", "not(isLiteralNumber(y, 0))", "init ze := c.quoPow2(node, xe, ye)", "not(ze != nil)", "switch k", "default"], text := "return c.invalidBinaryExpr(node, xe, ye)" },
   { fn := "Quo", path := ["not(xc == yc)", "not(yc)", "switch k", "default"], text := "return c.invalidBinaryExpr(node, xe, ye)" },
   { fn := "Quo", path := [], text := "return exprFun(xe.Type, fun)" }]

def binaryops_remActions : List Action :=
  [{ fn := "Rem", path := [], text := "c.toSameFuncType(node, xe, ye)" },
   { fn := "Rem", path := ["if !reflect.IsCategory(k, xr.Int, xr.Uint)"], text := "return c.invalidBinaryExpr(node, xe, ye)" },
   { fn := "Rem", path := ["not(!reflect.IsCategory(k, xr.Int, xr.Uint))", "if xc == yc", "switch k", "default"], text := "return c.invalidBinaryExpr(node, xe, ye)" },
   { fn := "Rem", path := ["not(!reflect.IsCategory(k, xr.Int, xr.Uint))", "not(xc == yc)", "if yc", "if isLiteralNumber(y, 0)"], text := "c.Errorf(\"division by zero\")" },
   { fn := "Rem", path := ["not(!reflect.IsCategory(k, xr.Int, xr.Uint))", "not(xc == yc)", "if yc", "if isLiteralNumber(y, 0)"], text := "return nil" },
   { fn := "Rem", path := ["not(!reflect.IsCategory(k, xr.Int, xr.Uint))", "not(xc == yc)", "if yc", "not(isLiteralNumber(y, 0))", "init ze := c.remPow2(node, xe, ye)", "if ze != nil"], text := "return ze" },
   { fn := "Rem", path := ["not(!reflect.IsCategory(k, xr.Int, xr.Uint))", "not(xc == yc)", "if yc", "not(isLiteralNumber(y, 0))", "init ze := c.remPow2(node, xe, ye)", "not(ze != nil)", "switch k", "default"], text := "return c.invalidBinaryExpr(node, xe, ye)" },
   { fn := "Rem", path := ["not(!reflect.IsCategory(k, xr.Int, xr.Uint))", "not(xc == yc)", "not(yc)", "switch k", "default"], text := "return c.invalidBinaryExpr(node, xe, ye)" },
   { fn := "Rem", path := ["not(!reflect.IsCategory(k, xr.Int, xr.Uint))"], text := "return exprFun(xe.Type, fun)" }]

def binaryops_andActions : List Action :=
  [{ fn := "And", path := [], text := "c.toSameFuncType(node, xe, ye)" },
   { fn := "And", path := ["if !reflect.IsCategory(k, xr.Int, xr.Uint)"], text := "return c.invalidBinaryExpr(node, xe, ye)" },
   { fn := "And", path := ["not(!reflect.IsCategory(k, xr.Int, xr.Uint))", "if xc == yc", "switch k", "default"], text := "return c.invalidBinaryExpr(node, xe, ye)" },
   { fn := "And", path := ["not(!reflect.IsCategory(k, xr.Int, xr.Uint))", "not(xc == yc)", "if yc", "if isLiteralNumber(y, 0)"], text := "return c.exprZero(xe)" },
   { fn := "And", path := ["not(!reflect.IsCategory(k, xr.Int, xr.Uint))", "not(xc == yc)", "if yc", "not(isLiteralNumber(y, 0))", "if isLiteralNumber(y, -1)"], text := "return xe" },
   { fn := "And", path := ["not(!reflect.IsCategory(k, xr.Int, xr.Uint))", "not(xc == yc)", "if yc", "not(isLiteralNumber(y, 0))", "not(isLiteralNumber(y, -1))", "switch k", "default"], text := "return c.invalidBinaryExpr(node, xe, ye)" },
   { fn := "And", path := ["not(!reflect.IsCategory(k, xr.Int, xr.Uint))", "not(xc == yc)", "not(yc)", "if isLiteralNumber(x, 0)"], text := "return c.exprZero(ye)" },
   { fn := "And", path := ["not(!reflect.IsCategory(k, xr.Int, xr.Uint))", "not(xc == yc)", "not(yc)", "not(isLiteralNumber(x, 0))", "if isLiteralNumber(x, -1)"], text := "return ye" },
   { fn := "And", path := ["not(!reflect.IsCategory(k, xr.Int, xr.Uint))", "not(xc == yc)", "not(yc)", "not(isLiteralNumber(x, 0))", "not(isLiteralNumber(x, -1))", "switch k", "default"], text := "return c.invalidBinaryExpr(node, xe, ye)" },
   { fn := "And", path := ["not(!reflect.IsCategory(k, xr.Int, xr.Uint))"], text := "return exprFun(xe.Type, fun)" }]

def binaryops_orActions : List Action :=
  [{ fn := "Or", path := [], text := "c.toSameFuncType(node, xe, ye)" },
   { fn := "Or", path := ["if !reflect.IsCategory(k, xr.Int, xr.Uint)"], text := "return c.invalidBinaryExpr(node, xe, ye)" },
   { fn := "Or", path := ["not(!reflect.IsCategory(k, xr.Int, xr.Uint))", "if xc == yc", "switch k", "default"], text := "return c.invalidBinaryExpr(node, xe, ye)" },
   { fn := "Or", path := ["not(!reflect.IsCategory(k, xr.Int, xr.Uint))", "not(xc == yc)", "if yc", "if isLiteralNumber(y, 0)"], text := "return xe" },
   { fn := "Or", path := ["not(!reflect.IsCategory(k, xr.Int, xr.Uint))", "not(xc == yc)", "if yc", "not(isLiteralNumber(y, 0))", "switch k", "default"], text := "return c.invalidBinaryExpr(node, xe, ye)" },
   { fn := "Or", path := ["not(!reflect.IsCategory(k, xr.Int, xr.Uint))", "not(xc == yc)", "not(yc)", "if isLiteralNumber(x, 0)"], text := "return ye" },
   { fn := "Or", path := ["not(!reflect.IsCategory(k, xr.Int, xr.Uint))", "not(xc == yc)", "not(yc)", "not(isLiteralNumber(x, 0))", "switch k", "default"], text := "return c.invalidBinaryExpr(node, xe, ye)" },
   { fn := "Or", path := ["not(!reflect.IsCategory(k, xr.Int, xr.Uint))"], text := "return exprFun(xe.Type, fun)" }]

def binaryops_xorActions : List Action :=
  [{ fn := "Xor", path := [], text := "c.toSameFuncType(node, xe, ye)" },
   { fn := "Xor", path := ["if !reflect.IsCategory(k, xr.Int, xr.Uint)"], text := "return c.invalidBinaryExpr(node, xe, ye)" },
   { fn := "Xor", path := ["not(!reflect.IsCategory(k, xr.Int, xr.Uint))", "if xc == yc", "switch k", "default"], text := "return c.invalidBinaryExpr(node, xe, ye)" },
   { fn := "Xor", path := ["not(!reflect.IsCategory(k, xr.Int, xr.Uint))", "not(xc == yc)", "if yc", "if isLiteralNumber(y, 0)"], text := "return xe" },
   { fn := "Xor", path := ["not(!reflect.IsCategory(k, xr.Int, xr.Uint))", "not(xc == yc)", "if yc", "not(isLiteralNumber(y, 0))", "switch k", "default"], text := "return c.invalidBinaryExpr(node, xe, ye)" },
   { fn := "Xor", path := ["not(!reflect.IsCategory(k, xr.Int, xr.Uint))", "not(xc == yc)", "not(yc)", "if isLiteralNumber(x, 0)"], text := "return ye" },
   { fn := "Xor", path := ["not(!reflect.IsCategory(k, xr.Int, xr.Uint))", "not(xc == yc)", "not(yc)", "not(isLiteralNumber(x, 0))", "switch k", "default"], text := "return c.invalidBinaryExpr(node, xe, ye)" },
   { fn := "Xor", path := ["not(!reflect.IsCategory(k, xr.Int, xr.Uint))"], text := "return exprFun(xe.Type, fun)" }]

def binaryops_andnotActions : List Action :=
  [{ fn := "Andnot", path := [], text := "c.toSameFuncType(node, xe, ye)" },
   { fn := "Andnot", path := ["if !reflect.IsCategory(k, xr.Int, xr.Uint)"], text := "return c.invalidBinaryExpr(node, xe, ye)" },
   { fn := "Andnot", path := ["not(!reflect.IsCategory(k, xr.Int, xr.Uint))", "if xc == yc", "switch k", "default"], text := "return c.invalidBinaryExpr(node, xe, ye)" },
   { fn := "Andnot", path := ["not(!reflect.IsCategory(k, xr.Int, xr.Uint))", "not(xc == yc)", "if yc", "if isLiteralNumber(y, -1)"], text := "return c.exprZero(xe)" },
   { fn := "Andnot", path := ["not(!reflect.IsCategory(k, xr.Int, xr.Uint))", "not(xc == yc)", "if yc", "not(isLiteralNumber(y, -1))", "if isLiteralNumber(y, 0)"], text := "return xe" },
   { fn := "Andnot", path := ["not(!reflect.IsCategory(k, xr.Int, xr.Uint))", "not(xc == yc)", "if yc", "not(isLiteralNumber(y, -1))", "not(isLiteralNumber(y, 0))", "switch k", "default"], text := "return c.invalidBinaryExpr(node, xe, ye)" },
   { fn := "Andnot", path := ["not(!reflect.IsCategory(k, xr.Int, xr.Uint))", "not(xc == yc)", "not(yc)", "if isLiteralNumber(x, 0)"], text := "return c.exprZero(ye)" },
   { fn := "Andnot", path := ["not(!reflect.IsCategory(k, xr.Int, xr.Uint))", "not(xc == yc)", "not(yc)", "not(isLiteralNumber(x, 0))", "switch k", "default"], text := "return c.invalidBinaryExpr(node, xe, ye)" },
   { fn := "Andnot", path := ["not(!reflect.IsCategory(k, xr.Int, xr.Uint))"], text := "return exprFun(xe.Type, fun)" }]

def binaryops_mulPow2Actions : List Action :=
  [{ fn := "mulPow2", path := ["if xe.Const() == ye.Const()"], text := "return nil" },
   { fn := "mulPow2", path := ["not(xe.Const() == ye.Const())", "if xe.Const()"], text := "xe, ye = ye, xe" },
   { fn := "mulPow2", path := ["not(xe.Const() == ye.Const())", "if !reflect.IsCategory(xe.Type.Kind(), xr.Int, xr.Uint)"], text := "return nil" },
   { fn := "mulPow2", path := ["not(xe.Const() == ye.Const())", "not(!reflect.IsCategory(xe.Type.Kind(), xr.Int, xr.Uint))", "if isLiteralNumber(ye.Value, 0)"], text := "return c.exprZero(xe)" },
   { fn := "mulPow2", path := ["not(xe.Const() == ye.Const())", "not(!reflect.IsCategory(xe.Type.Kind(), xr.Int, xr.Uint))", "not(isLiteralNumber(ye.Value, 0))", "if isLiteralNumber(ye.Value, 1)"], text := "return xe" },
   { fn := "mulPow2", path := ["not(xe.Const() == ye.Const())", "not(!reflect.IsCategory(xe.Type.Kind(), xr.Int, xr.Uint))", "not(isLiteralNumber(ye.Value, 0))", "not(isLiteralNumber(ye.Value, 1))", "if isLiteralNumber(ye.Value, -1)"], text := "return c.UnaryMinus(node1, xe)" },
   { fn := "mulPow2", path := ["not(xe.Const() == ye.Const())", "not(!reflect.IsCategory(xe.Type.Kind(), xr.Int, xr.Uint))", "not(isLiteralNumber(ye.Value, 0))", "not(isLiteralNumber(ye.Value, 1))", "not(isLiteralNumber(ye.Value, -1))", "switch reflect.Category(yv.Kind())", "case xr.Int", "if sy < 0"], text := "ypositive = false" },
   { fn := "mulPow2", path := ["not(xe.Const() == ye.Const())", "not(!reflect.IsCategory(xe.Type.Kind(), xr.Int, xr.Uint))", "not(isLiteralNumber(ye.Value, 0))", "not(isLiteralNumber(ye.Value, 1))", "not(isLiteralNumber(ye.Value, -1))", "switch reflect.Category(yv.Kind())", "case xr.Int", "if sy < 0"], text := "y = uint64(-sy)" },
   { fn := "mulPow2", path := ["not(xe.Const() == ye.Const())", "not(!reflect.IsCategory(xe.Type.Kind(), xr.Int, xr.Uint))", "not(isLiteralNumber(ye.Value, 0))", "not(isLiteralNumber(ye.Value, 1))", "not(isLiteralNumber(ye.Value, -1))", "switch reflect.Category(yv.Kind())", "case xr.Int", "not(sy < 0)"], text := "y = uint64(sy)" },
   { fn := "mulPow2", path := ["not(xe.Const() == ye.Const())", "not(!reflect.IsCategory(xe.Type.Kind(), xr.Int, xr.Uint))", "not(isLiteralNumber(ye.Value, 0))", "not(isLiteralNumber(ye.Value, 1))", "not(isLiteralNumber(ye.Value, -1))", "switch reflect.Category(yv.Kind())", "case xr.Uint"], text := "y = yv.Uint()" },
   { fn := "mulPow2", path := ["not(xe.Const() == ye.Const())", "not(!reflect.IsCategory(xe.Type.Kind(), xr.Int, xr.Uint))", "not(isLiteralNumber(ye.Value, 0))", "not(isLiteralNumber(ye.Value, 1))", "not(isLiteralNumber(ye.Value, -1))", "switch reflect.Category(yv.Kind())", "default"], text := "return nil" },
   { fn := "mulPow2", path := ["not(xe.Const() == ye.Const())", "not(!reflect.IsCategory(xe.Type.Kind(), xr.Int, xr.Uint))", "not(isLiteralNumber(ye.Value, 0))", "not(isLiteralNumber(ye.Value, 1))", "not(isLiteralNumber(ye.Value, -1))", "if !isPowerOfTwo(y)"], text := "return nil" },
   { fn := "mulPow2", path := ["not(xe.Const() == ye.Const())", "not(!reflect.IsCategory(xe.Type.Kind(), xr.Int, xr.Uint))", "not(isLiteralNumber(ye.Value, 0))", "not(isLiteralNumber(ye.Value, 1))", "not(isLiteralNumber(ye.Value, -1))", "not(!isPowerOfTwo(y))", "switch xe.Type.Kind()", "default"], text := "return nil" },
   { fn := "mulPow2", path := ["not(xe.Const() == ye.Const())", "not(!reflect.IsCategory(xe.Type.Kind(), xr.Int, xr.Uint))", "not(isLiteralNumber(ye.Value, 0))", "not(isLiteralNumber(ye.Value, 1))", "not(isLiteralNumber(ye.Value, -1))", "not(!isPowerOfTwo(y))"], text := "return exprFun(xe.Type, fun)" }]

def binaryops_quoPow2Actions : List Action :=
  [{ fn := "quoPow2", path := ["if xe.Const() || !ye.Const()"], text := "return nil" },
   { fn := "quoPow2", path := ["not(xe.Const() || !ye.Const())", "if xcat != xr.Int && xcat != xr.Uint"], text := "return nil" },
   { fn := "quoPow2", path := ["not(xe.Const() || !ye.Const())", "not(xcat != xr.Int && xcat != xr.Uint)", "if isLiteralNumber(ye.Value, 0)"], text := "c.Errorf(\"division by zero\")" },
   { fn := "quoPow2", path := ["not(xe.Const() || !ye.Const())", "not(xcat != xr.Int && xcat != xr.Uint)", "if isLiteralNumber(ye.Value, 0)"], text := "return nil" },
   { fn := "quoPow2", path := ["not(xe.Const() || !ye.Const())", "not(xcat != xr.Int && xcat != xr.Uint)", "not(isLiteralNumber(ye.Value, 0))", "if isLiteralNumber(ye.Value, 1)"], text := "return xe" },
   { fn := "quoPow2", path := ["not(xe.Const() || !ye.Const())", "not(xcat != xr.Int && xcat != xr.Uint)", "not(isLiteralNumber(ye.Value, 0))", "not(isLiteralNumber(ye.Value, 1))", "if xcat == xr.Int && isLiteralNumber(ye.Value, -1)"], text := "return c.UnaryMinus(node1, xe)" },
   { fn := "quoPow2", path := ["not(xe.Const() || !ye.Const())", "not(xcat != xr.Int && xcat != xr.Uint)", "not(isLiteralNumber(ye.Value, 0))", "not(isLiteralNumber(ye.Value, 1))", "not(xcat == xr.Int && isLiteralNumber(ye.Value, -1))", "switch reflect.Category(yv.Kind())", "case xr.Int", "if sy < 0"], text := "ypositive = false" },
   { fn := "quoPow2", path := ["not(xe.Const() || !ye.Const())", "not(xcat != xr.Int && xcat != xr.Uint)", "not(isLiteralNumber(ye.Value, 0))", "not(isLiteralNumber(ye.Value, 1))", "not(xcat == xr.Int && isLiteralNumber(ye.Value, -1))", "switch reflect.Category(yv.Kind())", "case xr.Int", "if sy < 0"], text := "y = uint64(-sy)" },
   { fn := "quoPow2", path := ["not(xe.Const() || !ye.Const())", "not(xcat != xr.Int && xcat != xr.Uint)", "not(isLiteralNumber(ye.Value, 0))", "not(isLiteralNumber(ye.Value, 1))", "not(xcat == xr.Int && isLiteralNumber(ye.Value, -1))", "switch reflect.Category(yv.Kind())", "case xr.Int", "not(sy < 0)"], text := "y = uint64(sy)" },
   { fn := "quoPow2", path := ["not(xe.Const() || !ye.Const())", "not(xcat != xr.Int && xcat != xr.Uint)", "not(isLiteralNumber(ye.Value, 0))", "not(isLiteralNumber(ye.Value, 1))", "not(xcat == xr.Int && isLiteralNumber(ye.Value, -1))", "switch reflect.Category(yv.Kind())", "case xr.Uint"], text := "y = yv.Uint()" },
   { fn := "quoPow2", path := ["not(xe.Const() || !ye.Const())", "not(xcat != xr.Int && xcat != xr.Uint)", "not(isLiteralNumber(ye.Value, 0))", "not(isLiteralNumber(ye.Value, 1))", "not(xcat == xr.Int && isLiteralNumber(ye.Value, -1))", "switch reflect.Category(yv.Kind())", "default"], text := "return nil" },
   { fn := "quoPow2", path := ["not(xe.Const() || !ye.Const())", "not(xcat != xr.Int && xcat != xr.Uint)", "not(isLiteralNumber(ye.Value, 0))", "not(isLiteralNumber(ye.Value, 1))", "not(xcat == xr.Int && isLiteralNumber(ye.Value, -1))", "if !isPowerOfTwo(y)"], text := "return nil" },
   { fn := "quoPow2", path := ["not(xe.Const() || !ye.Const())", "not(xcat != xr.Int && xcat != xr.Uint)", "not(isLiteralNumber(ye.Value, 0))", "not(isLiteralNumber(ye.Value, 1))", "not(xcat == xr.Int && isLiteralNumber(ye.Value, -1))", "not(!isPowerOfTwo(y))", "switch xe.Type.Kind()", "default"], text := "return nil" },
   { fn := "quoPow2", path := ["not(xe.Const() || !ye.Const())", "not(xcat != xr.Int && xcat != xr.Uint)", "not(isLiteralNumber(ye.Value, 0))", "not(isLiteralNumber(ye.Value, 1))", "not(xcat == xr.Int && isLiteralNumber(ye.Value, -1))", "not(!isPowerOfTwo(y))"], text := "return exprFun(xe.Type, fun)" }]

def binaryops_remPow2Actions : List Action :=
  [{ fn := "remPow2", path := ["if xe.Const() || !ye.Const()"], text := "return nil" },
   { fn := "remPow2", path := ["not(xe.Const() || !ye.Const())", "if isLiteralNumber(ye.Value, 0)"], text := "c.Errorf(\"division by zero\")" },
   { fn := "remPow2", path := ["not(xe.Const() || !ye.Const())", "if isLiteralNumber(ye.Value, 0)"], text := "return nil" },
   { fn := "remPow2", path := ["not(xe.Const() || !ye.Const())", "not(isLiteralNumber(ye.Value, 0))", "if isLiteralNumber(ye.Value, 1)"], text := "return c.exprZero(xe)" },
   { fn := "remPow2", path := ["not(xe.Const() || !ye.Const())", "not(isLiteralNumber(ye.Value, 0))", "not(isLiteralNumber(ye.Value, 1))", "switch reflect.Category(yv.Kind())", "case xr.Int", "if sy < 0"], text := "y = uint64(-sy)" },
   { fn := "remPow2", path := ["not(xe.Const() || !ye.Const())", "not(isLiteralNumber(ye.Value, 0))", "not(isLiteralNumber(ye.Value, 1))", "switch reflect.Category(yv.Kind())", "case xr.Int", "not(sy < 0)"], text := "y = uint64(sy)" },
   { fn := "remPow2", path := ["not(xe.Const() || !ye.Const())", "not(isLiteralNumber(ye.Value, 0))", "not(isLiteralNumber(ye.Value, 1))", "switch reflect.Category(yv.Kind())", "case xr.Uint"], text := "y = yv.Uint()" },
   { fn := "remPow2", path := ["not(xe.Const() || !ye.Const())", "not(isLiteralNumber(ye.Value, 0))", "not(isLiteralNumber(ye.Value, 1))", "switch reflect.Category(yv.Kind())", "default"], text := "return nil" },
   { fn := "remPow2", path := ["not(xe.Const() || !ye.Const())", "not(isLiteralNumber(ye.Value, 0))", "not(isLiteralNumber(ye.Value, 1))", "if !isPowerOfTwo(y)"], text := "return nil" },
   { fn := "remPow2", path := ["not(xe.Const() || !ye.Const())", "not(isLiteralNumber(ye.Value, 0))", "not(isLiteralNumber(ye.Value, 1))", "not(!isPowerOfTwo(y))", "switch xe.Type.Kind()", "default"], text := "return nil" },
   { fn := "remPow2", path := ["not(xe.Const() || !ye.Const())", "not(isLiteralNumber(ye.Value, 0))", "not(isLiteralNumber(ye.Value, 1))", "not(!isPowerOfTwo(y))"], text := "return exprFun(xe.Type, fun)" }]

def binaryops_exprZeroActions : List Action :=
  [{ fn := "exprZero", path := ["if xe.Const()"], text := "xe.ConstTo(xe.DefaultType())" },
   { fn := "exprZero", path := ["if xe.Const()"], text := "return c.exprValue(xe.Type, xr.Zero(xe.Type).Interface())" },
   { fn := "exprZero", path := ["not(xe.Const())"], text := "return exprFun(t, fun)" }]

def binaryops_isPowerOfTwoSrc : List String :=
  ["func(n uint64) bool",
   "return n != 0 && n&(n-1) == 0"]

def binaryops_integerLenSrc : List String :=
  ["func(n uint64) uint8",
   "var l uint8",
   "for n > 0xff { l += 8 n >>= 8 }",
   "for n != 0 { l++ n >>= 1 }",
   "return l"]

def binaryrelops_lssActions : List Action :=
  [{ fn := "Lss", path := [], text := "c.toSameFuncType(node, xe, ye)" },
   { fn := "Lss", path := ["if xc == yc", "switch k", "default"], text := "return c.invalidBinaryExpr(node, xe, ye)" },
   { fn := "Lss", path := ["not(xc == yc)", "if yc", "switch k", "default"], text := "return c.invalidBinaryExpr(node, xe, ye)" },
   { fn := "Lss", path := ["not(xc == yc)", "not(yc)", "switch k", "default"], text := "return c.invalidBinaryExpr(node, xe, ye)" },
   { fn := "Lss", path := [], text := "return c.exprBool(fun)" }]

def binaryrelops_gtrActions : List Action :=
  [{ fn := "Gtr", path := [], text := "c.toSameFuncType(node, xe, ye)" },
   { fn := "Gtr", path := ["if xc == yc", "switch k", "default"], text := "return c.invalidBinaryExpr(node, xe, ye)" },
   { fn := "Gtr", path := ["not(xc == yc)", "if yc", "switch k", "default"], text := "return c.invalidBinaryExpr(node, xe, ye)" },
   { fn := "Gtr", path := ["not(xc == yc)", "not(yc)", "switch k", "default"], text := "return c.invalidBinaryExpr(node, xe, ye)" },
   { fn := "Gtr", path := [], text := "return c.exprBool(fun)" }]

def binaryrelops_leqActions : List Action :=
  [{ fn := "Leq", path := [], text := "c.toSameFuncType(node, xe, ye)" },
   { fn := "Leq", path := ["if xc == yc", "switch k", "default"], text := "return c.invalidBinaryExpr(node, xe, ye)" },
   { fn := "Leq", path := ["not(xc == yc)", "if yc", "switch k", "default"], text := "return c.invalidBinaryExpr(node, xe, ye)" },
   { fn := "Leq", path := ["not(xc == yc)", "not(yc)", "switch k", "default"], text := "return c.invalidBinaryExpr(node, xe, ye)" },
   { fn := "Leq", path := [], text := "return c.exprBool(fun)" }]

def binaryrelops_geqActions : List Action :=
  [{ fn := "Geq", path := [], text := "c.toSameFuncType(node, xe, ye)" },
   { fn := "Geq", path := ["if xc == yc", "switch k", "default"], text := "return c.invalidBinaryExpr(node, xe, ye)" },
   { fn := "Geq", path := ["not(xc == yc)", "if yc", "switch k", "default"], text := "return c.invalidBinaryExpr(node, xe, ye)" },
   { fn := "Geq", path := ["not(xc == yc)", "not(yc)", "switch k", "default"], text := "return c.invalidBinaryExpr(node, xe, ye)" },
   { fn := "Geq", path := [], text := "return c.exprBool(fun)" }]

def binaryshifts_shlActions : List Action :=
  [{ fn := "Shl", path := ["init ze := c.prepareShift(node, xe, ye)", "if ze != nil"], text := "return ze" },
   { fn := "Shl", path := ["init ze := c.prepareShift(node, xe, ye)", "not(ze != nil)", "if xc == yc", "switch xk", "default"], text := "return c.invalidBinaryExpr(node, xe, ye)" },
   { fn := "Shl", path := ["init ze := c.prepareShift(node, xe, ye)", "not(ze != nil)", "not(xc == yc)", "if yc", "if !ok"], text := "c.invalidBinaryExpr(node, xe, ye)" },
   { fn := "Shl", path := ["init ze := c.prepareShift(node, xe, ye)", "not(ze != nil)", "not(xc == yc)", "if yc", "not(!ok)", "if y == 0"], text := "return xe" },
   { fn := "Shl", path := ["init ze := c.prepareShift(node, xe, ye)", "not(ze != nil)", "not(xc == yc)", "if yc", "not(!ok)", "not(y == 0)", "switch xk", "default"], text := "return c.invalidBinaryExpr(node, xe, ye)" },
   { fn := "Shl", path := ["init ze := c.prepareShift(node, xe, ye)", "not(ze != nil)", "not(xc == yc)", "not(yc)", "switch xk", "default"], text := "return c.invalidBinaryExpr(node, xe, ye)" },
   { fn := "Shl", path := ["init ze := c.prepareShift(node, xe, ye)", "not(ze != nil)"], text := "return exprFun(xe.Type, fun)" }]

def binaryshifts_shrActions : List Action :=
  [{ fn := "Shr", path := ["init ze := c.prepareShift(node, xe, ye)", "if ze != nil"], text := "return ze" },
   { fn := "Shr", path := ["init ze := c.prepareShift(node, xe, ye)", "not(ze != nil)", "if xc == yc", "switch xk", "default"], text := "return c.invalidBinaryExpr(node, xe, ye)" },
   { fn := "Shr", path := ["init ze := c.prepareShift(node, xe, ye)", "not(ze != nil)", "not(xc == yc)", "if yc", "if !ok"], text := "c.invalidBinaryExpr(node, xe, ye)" },
   { fn := "Shr", path := ["init ze := c.prepareShift(node, xe, ye)", "not(ze != nil)", "not(xc == yc)", "if yc", "not(!ok)", "if y == 0"], text := "return xe" },
   { fn := "Shr", path := ["init ze := c.prepareShift(node, xe, ye)", "not(ze != nil)", "not(xc == yc)", "if yc", "not(!ok)", "not(y == 0)", "switch xk", "default"], text := "return c.invalidBinaryExpr(node, xe, ye)" },
   { fn := "Shr", path := ["init ze := c.prepareShift(node, xe, ye)", "not(ze != nil)", "not(xc == yc)", "not(yc)", "switch xk", "default"], text := "return c.invalidBinaryExpr(node, xe, ye)" },
   { fn := "Shr", path := ["init ze := c.prepareShift(node, xe, ye)", "not(ze != nil)"], text := "return exprFun(xe.Type, fun)" }]

def compile_upSrc : List String :=
  ["func(n int) *Env",
   "for ; n >= 3; n -= 3 { env = env.Outer.Outer.Outer }",
   "switch n { case 2: env = env.Outer fallthrough case 1: env = env.Outer }",
   "return env"]

def identifier_bind_exprActions : List Action :=
  [{ fn := "Bind.expr", path := [], text := "return &Expr{Lit: Lit{Type: bind.Type}, Fun: fun, Sym: bind.AsSymbol(0)}" }]

def identifier_symbol_exprActions : List Action :=
  [{ fn := "Symbol.expr", path := ["switch upn", "case 0"], text := "return sym.Bind.expr(g)" },
   { fn := "Symbol.expr", path := [], text := "return &Expr{Lit: Lit{Type: sym.Type}, Fun: fun, Sym: sym}" }]

def identifier_bind_intExprActions : List Action :=
  [{ fn := "Bind.intExpr", path := ["switch bind.Type.Kind()", "default"], text := "g.Errorf(\"unsupported symbol type, cannot use for optimized read: %s %s <%v>\", bind.Desc.Class(), bind.Name, bind.Type)" },
   { fn := "Bind.intExpr", path := ["switch bind.Type.Kind()", "default"], text := "return nil" },
   { fn := "Bind.intExpr", path := [], text := "return &Expr{Lit: Lit{Type: bind.Type}, Fun: fun, Sym: bind.AsSymbol(0)}" }]

def identifier_symbol_intExprActions : List Action :=
  [{ fn := "Symbol.intExpr", path := ["switch upn", "case 0"], text := "return sym.Bind.intExpr(g)" },
   { fn := "Symbol.intExpr", path := ["if fun == nil"], text := "g.Errorf(\"unsupported variable type, cannot use for optimized read: %s <%v>\", sym.Name, sym.Type)" },
   { fn := "Symbol.intExpr", path := ["not(fun == nil)"], text := "return &Expr{Lit: Lit{Type: sym.Type}, Fun: fun, Sym: sym}" }]

def identifier_outerEnv3Src : List String :=
  ["func(env *Env, upn int) *Env",
   "for ; upn >= 3; upn -= 3 { env = env.Outer.Outer.Outer }",
   "switch upn { case 2: env = env.Outer fallthrough case 1: env = env.Outer }",
   "return env"]

def literal_isLiteralNumberSrc : List String :=
  ["func(x I, n int64) bool",
   "if x == nil { return false }",
   "v := xr.ValueOf(x)",
   "switch reflect.Category(v.Kind()) { case xr.Bool: return false case xr.Int: return v.Int() == n case xr.Uint: return v.Uint() == uint64(n) case xr.Float64: return v.Float() == float64(n) case xr.Complex128: return v.Complex() == complex(float64(n), 0) case xr.String: return false }",
   "switch x := x.(type) { case xr.Value: return false case UntypedLit: return x.EqualInt64(n) }",
   "output.Errorf(\"isLiteralNumber: unexpected literal type %v <%v>\", x, r.TypeOf(x))",
   "return false"]

def unary_unaryExprActions : List Action :=
  [{ fn := "UnaryExpr", path := ["switch node.Op", "case etoken.QUOTE"], text := "return c.exprValue(nil, node)" },
   { fn := "UnaryExpr", path := ["switch node.Op", "case etoken.QUASIQUOTE"], text := "return c.quasiquoteUnary(node)" },
   { fn := "UnaryExpr", path := ["switch node.Op", "case etoken.UNQUOTE, etoken.UNQUOTE_SPLICE"], text := "c.Errorf(\"invalid %s outside %s: %v\", etoken.String(node.Op), etoken.String(etoken.QUASIQUOTE), node)" },
   { fn := "UnaryExpr", path := ["switch node.Op", "case token.AND"], text := "return c.AddressOf(node)" },
   { fn := "UnaryExpr", path := ["if xe.Type == nil"], text := "return c.invalidUnaryExpr(node, xe)" },
   { fn := "UnaryExpr", path := ["not(xe.Type == nil)", "if xe.Untyped()"], text := "return c.UnaryExprUntyped(node, xe)" },
   { fn := "UnaryExpr", path := ["not(xe.Type == nil)", "not(xe.Untyped())"], text := "xe.WithFun()" },
   { fn := "UnaryExpr", path := ["not(xe.Type == nil)", "not(xe.Untyped())", "switch node.Op", "case token.ADD"], text := "z = c.UnaryPlus(node, xe)" },
   { fn := "UnaryExpr", path := ["not(xe.Type == nil)", "not(xe.Untyped())", "switch node.Op", "case token.SUB"], text := "z = c.UnaryMinus(node, xe)" },
   { fn := "UnaryExpr", path := ["not(xe.Type == nil)", "not(xe.Untyped())", "switch node.Op", "case token.NOT"], text := "z = c.UnaryNot(node, xe)" },
   { fn := "UnaryExpr", path := ["not(xe.Type == nil)", "not(xe.Untyped())", "switch node.Op", "case token.XOR"], text := "z = c.UnaryXor(node, xe)" },
   { fn := "UnaryExpr", path := ["not(xe.Type == nil)", "not(xe.Untyped())", "switch node.Op", "case token.ARROW"], text := "z = c.Recv(node, xe)" },
   { fn := "UnaryExpr", path := ["not(xe.Type == nil)", "not(xe.Untyped())", "switch node.Op", "case token.ARROW"], text := "isConst = false" },
   { fn := "UnaryExpr", path := ["not(xe.Type == nil)", "not(xe.Untyped())", "switch node.Op", "default"], text := "return c.invalidUnaryExpr(node, xe)" },
   { fn := "UnaryExpr", path := ["not(xe.Type == nil)", "not(xe.Untyped())", "if isConst"], text := "z.EvalConst(COptKeepUntyped)" },
   { fn := "UnaryExpr", path := ["not(xe.Type == nil)", "not(xe.Untyped())"], text := "return z" }]

def unaryops_unaryPlusActions : List Action :=
  [{ fn := "UnaryPlus", path := ["if !reflect.IsCategory(xe.Type.Kind(), r.Int, r.Uint, r.Float64, r.Complex128)"], text := "return c.invalidUnaryExpr(node, xe)" },
   { fn := "UnaryPlus", path := ["not(!reflect.IsCategory(xe.Type.Kind(), r.Int, r.Uint, r.Float64, r.Complex128))"], text := "return xe" }]

def unaryops_unaryMinusActions : List Action :=
  [{ fn := "UnaryMinus", path := ["typeswitch x := x.(type)", "default"], text := "return c.invalidUnaryExpr(node, xe)" },
   { fn := "UnaryMinus", path := [], text := "return exprFun(xe.Type, fun)" }]

def unaryops_unaryXorActions : List Action :=
  [{ fn := "UnaryXor", path := ["typeswitch x := x.(type)", "default"], text := "return c.invalidUnaryExpr(node, xe)" },
   { fn := "UnaryXor", path := [], text := "return exprFun(xe.Type, fun)" }]

def unaryops_unaryNotActions : List Action :=
  [{ fn := "UnaryNot", path := ["typeswitch x := x.(type)", "default"], text := "return c.invalidUnaryExpr(node, xe)" },
   { fn := "UnaryNot", path := [], text := "return exprFun(xe.Type, fun)" }]

def util_asUint64Actions : List Action :=
  [{ fn := "AsUint64", path := ["if e == nil"], text := "output.Errorf(\"internal error in Expr.AsUint64: receiver is nil\")" },
   { fn := "AsUint64", path := ["not(e == nil)", "if e.Const()", "if !ok"], text := "output.Errorf(\"invalid shift amount: %v // %v\", e.Value, e.Type)" },
   { fn := "AsUint64", path := ["not(e == nil)", "not(e.Const())", "if e.NumOut() == 0"], text := "output.Errorf(\"expression returns no values, cannot convert to func(env *Env) uint64\")" },
   { fn := "AsUint64", path := ["not(e == nil)", "not(e.Const())", "if e.NumOut() == 0"], text := "return nil" },
   { fn := "AsUint64", path := ["not(e == nil)", "not(e.Const())", "not(e.NumOut() == 0)", "if e.NumOut() > 1"], text := "output.Warnf(\"expression returns %d values, using only the first one: %v\", e.NumOut(), e.Types)" },
   { fn := "AsUint64", path := ["not(e == nil)", "not(e.Const())", "if t == nil"], text := "t = e.Types[0]" },
   { fn := "AsUint64", path := ["not(e == nil)", "not(e.Const())", "if cat != r.Int && cat != r.Uint"], text := "output.Errorf(\"expression returns %v, cannot convert to func(env *Env) uint64\", t)" },
   { fn := "AsUint64", path := ["not(e == nil)", "not(e.Const())", "if cat != r.Int && cat != r.Uint"], text := "return nil" },
   { fn := "AsUint64", path := ["not(e == nil)", "not(e.Const())", "not(cat != r.Int && cat != r.Uint)", "typeswitch fun := e.Fun.(type)", "case func(*Env) uint64"], text := "return fun" },
   { fn := "AsUint64", path := ["not(e == nil)", "not(e.Const())", "not(cat != r.Int && cat != r.Uint)", "typeswitch fun := e.Fun.(type)", "default"], text := "output.Errorf(\"unsupported function type, cannot convert to func(*Env) uint64: %v <%T>\", fun, fun)" },
   { fn := "AsUint64", path := ["not(e == nil)", "not(e.Const())", "not(cat != r.Int && cat != r.Uint)"], text := "return ret" }]

def util_constAsUint64Src : List String :=
  ["func(any I) (uint64, bool)",
   "v := xr.ValueOf(any)",
   "if !v.IsValid() { return 0, false }",
   "switch reflect.Category(v.Kind()) { case xr.Uint: return v.Uint(), true case xr.Int: if i := v.Int(); i >= 0 { return uint64(i), true } }",
   "return 0, false"]

end C01Prologue
