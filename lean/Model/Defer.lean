/-
Model for property C07: defer / panic / recover in interpreted code.

Two layers run the SAME scripted call tree (`List Act`):

* `Host`   = Go's own defer/panic/recover semantics (the SPECIFICATION; my reading of the
             language specification, validated on every run against compiled Go).
* `Interp` = the bookkeeping of gomacro's executor, transcribed as coded from
             fast/code.go  (reExecWithFlags, rundefer, pushDefer, popDefer, restore, maybeRepanic),
             fast/builtin.go (callRecover), fast/statement.go (Comp.Defer) and the Run fields
             ExecFlags{EFStartDefer, EFDefer}, DeferOfFun, PanicFun, Panic of fast/global.go.

Scripted call tree.  A function body is a list of actions:
  emit n      log an event                      panic v     panic(v)
  recover     x := recover(); log x             setRes v    named result r = v
  addRes v    r = (r*10+v) % resMod             ret         return
  retv v      return v                          call b      call of a function with body b and its own
  deferFn b   defer func(){ b }()                           result; logs the result on normal return
`setRes/addRes/retv` address the result of the innermost enclosing `call` (a deferred closure
captures the named result of the function that deferred it; a bare result stack is enough because
a deferred closure only runs when every frame above its function has been popped).

Transcription rules / abstractions
* Host Go `defer` is LIFO and runs on return and on panic: both layers realise this by running the
  rest of the body first and the deferred call when the recursion unwinds (`deferFn d :: rest`).
  In `Interp` this stands for `defer rundefer(fun)` issued by reExecWithFlags on SigDefer; the
  order itself is the host's (trusted: Go runtime), gomacro has no ordering logic of its own.
* A host panic in flight is the field `hp` of the frame-local record `Loc` (`some v` = the host
  goroutine is unwinding this reExecWithFlags frame with value v).  The host `recover()` inside
  `rundefer` (a function deferred by the host frame, so the call is honoured) reads and clears it.
* `*Env` identities (funenv, DeferOfFun, PanicFun) are natural numbers drawn from `Run.nextEnv`.
* Function bodies without a defer statement are run by `exec`, which enters reExecWithFlags only if
  `ExecFlags != 0`; with `ExecFlags == 0` the fast path touches no flag, which is what the
  transcription of reExecWithFlags does on all-zero flags (isDefer := startDefer = false, restored
  to false).  So every call is modelled by `Interp.frame`.  EFDebug / the debugger are outside.
* `Cfg.savePanic` selects the code WITH the repair fixes/C07-nested-recover-loses-outer-panic.diff
  (a frame that takes over Run.Panic/Run.PanicFun saves the previous pair and puts it back when the
  frame is left).  `savePanic := false` is the unrepaired code; `Props/C07.lean` proves the
  simulation for the repaired code and exhibits the counterexample for the unrepaired one.
* `maybeRepanic` does `panic(run.Panic)`; a nil `run.Panic` would become a *runtime.PanicNilError
  (Go >= 1.21): value `nilPanic`.  Unreachable (invariant `inv_panic_some` in the proofs).
* Outside the model: goroutines, runtime.Goexit, os.Exit, the debugger, deferred COMPILED functions
  calling back into interpreted code, evaluation of defer arguments (checked differentially).
-/
namespace Defer

abbrev Val := Nat

/-- modulus used by `addRes` (keeps results inside Go's int on every platform) -/
def resMod : Nat := 1000003

/-- value of `panic(nil)` as seen by recover (Go >= 1.21: *runtime.PanicNilError) -/
def nilPanic : Val := 999

inductive Act where
  | emit (n : Nat)
  | panic (v : Val)
  | recover
  | setRes (v : Nat)
  | addRes (v : Nat)
  | ret
  | retv (v : Nat)
  | call (body : List Act)
  | deferFn (body : List Act)

inductive Ev where
  | emit (n : Nat)
  | recov (v : Option Val)   -- value returned by one recover() call (none = nil)
  | ret (r : Nat)            -- a `call` returned normally with result r
  deriving DecidableEq, Repr

/-- Observable state shared by both layers: the event log and the stack of results
    (one cell per active `call`). -/
structure Sh where
  evs : List Ev := []
  res : List Nat := []
  deriving DecidableEq, Repr

def Sh.log (s : Sh) (e : Ev) : Sh := { s with evs := s.evs ++ [e] }
def Sh.setRes (s : Sh) (v : Nat) : Sh :=
  match s.res with
  | [] => s
  | _ :: t => { s with res := v :: t }
def Sh.addRes (s : Sh) (v : Nat) : Sh :=
  match s.res with
  | [] => s
  | r :: t => { s with res := ((r * 10 + v) % resMod) :: t }
def Sh.push (s : Sh) : Sh := { s with res := 0 :: s.res }
def Sh.top (s : Sh) : Nat := s.res.headD 0
def Sh.pop (s : Sh) : Sh := { s with res := s.res.tail }

/-! ## Host: Go semantics (specification)

`Host.stmts body rec sh = (pend, rec', sh')` runs the statements of one function activation and
then every call deferred by them.
* `rec`  : the panic that a recover() called DIRECTLY by this activation returns (`none`: recover
           returns nil).  It is `some v` exactly for a deferred call started by the panic sequence of v
           and is consumed by the first recover().
* `pend` : `some v` = the activation ends panicking with v; `none` = it returns normally.
* `rec'` : what is left of `rec` (`none` while `rec = some _` means: the panic was recovered). -/
mutual
def Host.stmts : List Act → Option Val → Sh → Option Val × Option Val × Sh
  | [], rec, sh => (none, rec, sh)
  | a :: rest, rec, sh =>
    match a with
    | .emit n => Host.stmts rest rec (sh.log (.emit n))
    | .panic v => (some v, rec, sh)
    | .recover => Host.stmts rest none (sh.log (.recov rec))
    | .setRes v => Host.stmts rest rec (sh.setRes v)
    | .addRes v => Host.stmts rest rec (sh.addRes v)
    | .ret => (none, rec, sh)
    | .retv v => (none, rec, sh.setRes v)
    | .call _ =>
      -- a called function is not a deferred call: its recover() returns nil
      match Host.sub a none sh.push with
      | (some v, _, sh1) => (some v, rec, sh1.pop)
      | (none, _, sh1) => Host.stmts rest rec (sh1.pop.log (.ret sh1.top))
    | .deferFn _ =>
      -- the rest of the body runs first; the deferred call runs when the function is left,
      -- after the calls deferred later (LIFO), whether it returns or panics
      match Host.stmts rest rec sh with
      | (pend, rec1, sh1) =>
        match Host.sub a pend sh1 with
        | (some v2, _, sh2) => (some v2, rec1, sh2)   -- a panic in the deferred call replaces the current one
        | (none, drec, sh2) => (drec, rec1, sh2)      -- still panicking unless the deferred call recovered
/-- the activation of the function literal / function carried by a `call` or `deferFn` node
    (a separate function only to make the recursion structural) -/
def Host.sub : Act → Option Val → Sh → Option Val × Option Val × Sh
  | .call b, rec, sh => Host.stmts b rec sh
  | .deferFn b, rec, sh => Host.stmts b rec sh
  | _, rec, sh => (none, rec, sh)
end

/-- a complete program: one call of a function with body `b` on an empty log.
    Result: (escaping panic, observable state). -/
def Host.run (b : List Act) : Option Val × Sh :=
  Host.stmts [.call b] none {} |> fun (p, _, sh) => (p, sh)

/-! ## Interp: gomacro's executor bookkeeping, as coded -/

structure Cfg where
  savePanic : Bool   -- repaired code (see header)
  deriving DecidableEq, Repr

/-- fields of fast.Run used by defer/panic/recover -/
structure Run where
  startDefer : Bool := false          -- ExecFlags & EFStartDefer
  isDefer : Bool := false             -- ExecFlags & EFDefer
  deferOfFun : Option Nat := none     -- Run.DeferOfFun
  panicFun : Option Nat := none       -- Run.PanicFun
  panic : Option Val := none          -- Run.Panic (nil = none)
  nextEnv : Nat := 0                  -- source of fresh *Env identities
  sh : Sh := {}
  deriving DecidableEq, Repr

/-- locals of one reExecWithFlags activation + the host panic unwinding it -/
structure Loc where
  hp : Option Val := none             -- host panic in flight through this frame
  panicking : Bool := true
  panicking2 : Bool := false
  saved : Bool := false               -- (repair) previous Panic/PanicFun saved
  savedPanic : Option Val := none
  savedPanicFun : Option Nat := none
  deriving DecidableEq, Repr

/-- fast/builtin.go callRecover -/
def callRecover (run : Run) : Option Val × Run :=
  if !run.isDefer then (none, run)
  else if run.panicFun.isNone then (none, run)
  else if run.deferOfFun != run.panicFun then (none, run)
  else (run.panic, { run with panic := none, panicFun := none })

/-- body of reExecWithFlags reached the end / a return statement: `panicking = false; return` -/
def Loc.returned : Loc := { hp := none, panicking := false }
/-- a statement panicked with v: the host unwinds the frame, `panicking` is still true -/
def Loc.paniced (v : Val) : Loc := { hp := some v, panicking := true }

/-- first part of `rundefer`, up to and including pushDefer -/
def rundeferEnter (cfg : Cfg) (funenv : Nat) (loc : Loc) (run : Run) : Loc × Run :=
  -- if panicking || panicking2 { panicking = true; panicking2 = false; run.Panic = recover() }
  let (loc, run) :=
    if loc.panicking || loc.panicking2 then
      let loc := if cfg.savePanic && !loc.saved
        then { loc with saved := true, savedPanic := run.panic, savedPanicFun := run.panicFun } else loc
      ({ loc with panicking := true, panicking2 := false, hp := none }, { run with panic := loc.hp })
    else (loc, run)
  -- pushDefer(run, funenv, panicking)   [popDefer's arguments are returned by rundeferExit's caller]
  let run := if loc.panicking then { run with panicFun := some funenv } else run
  (loc, { run with deferOfFun := some funenv, startDefer := true })

/-- second part of `rundefer`: after `fun()` came back with `out`, then popDefer -/
def rundeferExit (out : Option Val) (savedDeferOf : Option Nat) (savedIsDefer : Bool)
    (loc : Loc) (run : Run) : Loc × Run :=
  let loc :=
    match out with
    | some v2 => { loc with panicking2 := true, hp := some v2 }   -- fun() panicked, panicking2 stays true
    | none =>
      -- panicking2 = false; if panicking { panicking = maybeRepanic(run) }
      if loc.panicking then
        if run.panicFun.isSome then { loc with panicking2 := false, hp := some (run.panic.getD nilPanic) }
        else { loc with panicking2 := false, panicking := false }
      else { loc with panicking2 := false }
  -- popDefer(run, deferOf_, isDefer)
  (loc, { run with deferOfFun := savedDeferOf, startDefer := false, isDefer := savedIsDefer })

/-- entry of reExecWithFlags(env, ...) for a fresh env: `ef.SetDefer(ef.StartDefer()); ef.SetStartDefer(false)` -/
def frameEnter (run : Run) : Run :=
  { run with isDefer := run.startDefer, startDefer := false, nextEnv := run.nextEnv + 1 }

/-- exit of reExecWithFlags: (repair) put back the Panic/PanicFun pair this frame displaced, then
    `restore(run, isDefer, ...)` with the EFDefer flag saved at entry; the host panic, if any, goes on -/
def frameExit (savedIsDefer : Bool) (loc : Loc) (run1 : Run) : Option Val × Run :=
  let run2 := if loc.saved then { run1 with panic := loc.savedPanic, panicFun := loc.savedPanicFun } else run1
  (loc.hp, { run2 with isDefer := savedIsDefer })

mutual
/-- statements of one reExecWithFlags activation whose Env is `funenv`, followed by the host
    running the `defer rundefer(fun)` calls issued by them -/
def Interp.stmts (cfg : Cfg) (funenv : Nat) : List Act → Run → Loc × Run
  | [], run => (Loc.returned, run)
  | a :: rest, run =>
    match a with
    | .emit n => Interp.stmts cfg funenv rest { run with sh := run.sh.log (.emit n) }
    | .panic v => (Loc.paniced v, run)
    | .recover =>
      match callRecover run with
      | (v, run1) => Interp.stmts cfg funenv rest { run1 with sh := run1.sh.log (.recov v) }
    | .setRes v => Interp.stmts cfg funenv rest { run with sh := run.sh.setRes v }
    | .addRes v => Interp.stmts cfg funenv rest { run with sh := run.sh.addRes v }
    | .ret => (Loc.returned, run)
    | .retv v => (Loc.returned, { run with sh := run.sh.setRes v })
    | .call _ =>
      match Interp.sub cfg a { run with sh := run.sh.push } with
      | (some v, run1) => (Loc.paniced v, { run1 with sh := run1.sh.pop })
      | (none, run1) => Interp.stmts cfg funenv rest { run1 with sh := run1.sh.pop.log (.ret run1.sh.top) }
    | .deferFn _ =>
      -- Comp.Defer: run.InstallDefer = closure; SigDefer  ->  executor: `defer rundefer(fun)`; go on
      match Interp.stmts cfg funenv rest run with
      | (loc, run1) =>
        -- the host runs rundefer(fun)
        match rundeferEnter cfg funenv loc run1 with
        | (loc2, run2) =>
          -- fun(): the deferred closure is called through reflect -> exec/execWithFlags
          match Interp.sub cfg a run2 with
          | (out, run3) => rundeferExit out run1.deferOfFun run1.isDefer loc2 run3

/-- one function activation (the function carried by a `call`/`deferFn` node):
    exec -> reExecWithFlags(env, ...) with a fresh env -/
def Interp.sub (cfg : Cfg) : Act → Run → Option Val × Run
  | .call b, run =>
    match Interp.stmts cfg run.nextEnv b (frameEnter run) with
    | (loc, run1) => frameExit run.isDefer loc run1
  | .deferFn b, run =>
    match Interp.stmts cfg run.nextEnv b (frameEnter run) with
    | (loc, run1) => frameExit run.isDefer loc run1
  | _, run => (none, run)
end

/-- one function activation with body `b` -/
def Interp.frame (cfg : Cfg) (b : List Act) (run : Run) : Option Val × Run :=
  match Interp.stmts cfg run.nextEnv b (frameEnter run) with
  | (loc, run1) => frameExit run.isDefer loc run1

def Interp.run (cfg : Cfg) (b : List Act) : Option Val × Run :=
  Interp.stmts cfg 0 [.call b] { nextEnv := 1 } |> fun (loc, run) => (loc.hp, run)

def fixedCfg : Cfg := { savePanic := true }
def origCfg : Cfg := { savePanic := false }

end Defer
