/-
Model of fast/cmd.go: `Cmds` (per-first-byte sorted vectors of commands), `binarySearch`,
`prefixSearch`, `Lookup`, `Add`, `Del`, `removeCmd`.

Transcription rules
* a command is represented by its name; a name is the list of its bytes (`Name`);
  Go's `<` on strings is byte-wise lexicographic = `ltN`.
* `Cmds.m : map[byte][]Cmd` is a total function `Nat → List Name` (an absent key and an empty
  vector are indistinguishable for every operation of cmd.go: `Lookup` returns io.EOF, `Add`
  appends to nil, `Del` returns false).
* `for` loops over indices become structural recursion over the remaining suffix;
  `binarySearch` keeps its index arithmetic (with an exclusive upper bound `hi' = hi+1`,
  so that no negative number is needed) and takes fuel `len+1`.
* `sort.Slice` on a vector of distinct names is abstracted as ordered insertion of the
  appended element (the sorted permutation of distinct names is unique).
-/
namespace Cmds

abbrev Name := List Nat

/-- byte-wise lexicographic `<` (Go string comparison). -/
def ltN : Name → Name → Bool
  | [], [] => false
  | [], _ :: _ => true
  | _ :: _, [] => false
  | a :: as, b :: bs => if a < b then true else if b < a then false else ltN as bs

/-- strings.HasPrefix(name, p) -/
def hasPrefix : Name → Name → Bool
  | _, [] => true
  | [], _ :: _ => false
  | a :: as, b :: bs => a == b && hasPrefix as bs

/-- Cmd.Match: 0 if name starts with prefix, -1 if name < prefix, else 1 -/
def matchN (name p : Name) : Int :=
  if hasPrefix name p then 0 else if ltN name p then -1 else 1

/-- binarySearch loop.  `hi` is exclusive (Go's `hi` is `hi-1`). -/
def bsearch (vec : List Name) (x : Name) : Nat → Nat → Nat → Nat × Bool
  | 0, lo, _ => (lo, false)
  | fuel + 1, lo, hi =>
    if lo < hi then
      let mid := (lo + hi - 1) / 2
      let name := vec.getD mid []
      if ltN name x then bsearch vec x fuel (mid + 1) hi
      else if ltN x name then bsearch vec x fuel lo mid
      else (mid, true)
    else (lo, false)

def binarySearch (vec : List Name) (x : Name) : Nat × Bool :=
  bsearch vec x (vec.length + 1) 0 vec.length

inductive Res where
  | none                       -- io.EOF
  | one (n : Name)             -- exactly one command
  | ambig (ns : List Name)     -- error listing the candidates
  deriving DecidableEq, Repr

/-- first loop of prefixSearch: skip names with Match<0; stop at the first Match==0;
    give up at the first Match>0.  Returns the suffix starting at the match. -/
def scan1 (p : Name) : List Name → Option (List Name)
  | [] => none
  | n :: rest =>
    if matchN n p < 0 then scan1 p rest
    else if matchN n p = 0 then some (n :: rest)
    else none

/-- second loop of prefixSearch: extend while Match <= 0 -/
def scan2 (p : Name) : List Name → List Name
  | [] => []
  | n :: rest => if matchN n p > 0 then [] else n :: scan2 p rest

/-- the two loops of prefixSearch and its three-way result -/
def scanRes (p : Name) (l : List Name) : Res :=
  match scan1 p l with
  | none => .none
  | some [] => .none
  | some (n :: rest) =>
    match scan2 p rest with
    | [] => .one n
    | more => .ambig (n :: more)

/-- prefixSearch composed with the `vec[i]` of Lookup.  `exactFirst` = the repaired code
    (an exact name found by binarySearch wins); `exactFirst = false` is the code before the
    fix, kept to state the defect (finding F15). -/
def prefixSearchG (exactFirst : Bool) (vec : List Name) (p : Name) : Res :=
  let (lo, found) := binarySearch vec p
  if exactFirst && found then .one (vec.getD lo [])
  else scanRes p (vec.drop lo)

def prefixSearch := prefixSearchG true

structure State where
  m : Nat → List Name

def State.empty : State := ⟨fun _ => []⟩

def lookupG (ef : Bool) (s : State) (p : Name) : Res :=
  match p with
  | [] => .none
  | c :: _ => prefixSearchG ef (s.m c) p

def lookup := lookupG true

def insertSorted (x : Name) : List Name → List Name
  | [] => [x]
  | y :: ys => if ltN x y then x :: y :: ys else y :: insertSorted x ys

def upd (m : Nat → List Name) (c : Nat) (v : List Name) : Nat → List Name :=
  fun d => if d = c then v else m d

/-- Cmds.Add -/
def add (s : State) (name : Name) : State × Bool :=
  match name with
  | [] => (s, false)
  | c :: _ =>
    let vec := s.m c
    let (pos, ok) := binarySearch vec name
    if ok then (⟨upd s.m c (vec.set pos name)⟩, true)
    else (⟨upd s.m c (insertSorted name vec)⟩, true)

/-- Go's `copy(dst[off:], src)` on a slice viewed as a list (len(src) fits). -/
def copyAt : List Name → Nat → List Name → List Name
  | dst, _, [] => dst
  | dst, off, x :: xs => copyAt (dst.set off x) (off + 1) xs

/-- removeCmd, with its two in-place copies -/
def removeCmd (vec : List Name) (pos : Nat) : List Name :=
  let head := vec.take pos
  let n := vec.length
  if pos = n - 1 then head
  else
    let tail := vec.drop (pos + 1)
    if pos = 0 then tail
    else
      let headn := pos
      let tailn := tail.length
      if headn ≥ tailn then (copyAt vec headn tail).take (n - 1)
      else (copyAt vec 1 head).drop 1

/-- Cmds.Del -/
def del (s : State) (name : Name) : State × Bool :=
  match name with
  | [] => (s, false)
  | c :: _ =>
    let vec := s.m c
    let (pos, ok) := binarySearch vec name
    if ok then (⟨upd s.m c (removeCmd vec pos)⟩, true) else (s, false)

/-- Cmds.List: all names, sorted (driver use; bytes 0..255) -/
def list (s : State) : List Name :=
  (List.range 256).foldl (fun acc c => acc ++ s.m c) []

/-! ### Interp.Cmd dispatch -/

inductive Dispatch where
  | call (cmd : Name) (arg : List Nat)   -- cmd.Func(ir, arg, opt)
  | evalCode (src : List Nat)            -- returned for evaluation with CmdOptForceEval
  | warnAmbiguous                        -- warning, returns ""
  | passThrough                          -- not a command line
  deriving DecidableEq, Repr

def isSpace (b : Nat) : Bool :=
  b = 32 || b = 9 || b = 10 || b = 11 || b = 12 || b = 13

def trimLeft : List Nat → List Nat
  | [] => []
  | b :: bs => if isSpace b then trimLeft bs else b :: bs

def trimSpace (s : List Nat) : List Nat := (trimLeft (trimLeft s).reverse).reverse

/-- bstrings.Split2(s, ' ') : split at the first space if its index is > 0 -/
def split2 (s : List Nat) : List Nat × List Nat :=
  match s.idxOf 32 with
  | 0 => (s, [])
  | i => if i < s.length then (s.take i, trimSpace (s.drop (i + 1))) else (s, [])

/-- `src[:pos] + " " + src[pos+1:]` with `pos = strings.IndexByte(src, ':')` -/
def blankFirstColon : List Nat → List Nat
  | [] => []
  | b :: bs => if b = 58 then 32 :: bs else b :: blankFirstColon bs

/-- Interp.Cmd for a line `src` (ASCII; command char ':' = 58) -/
def dispatch (s : State) (src : List Nat) : Dispatch :=
  match trimSpace src with
  | 58 :: rest =>
    let (prefix_, arg) := split2 rest
    match lookup s prefix_ with
    | .one c => .call c arg
    | .none => .evalCode (blankFirstColon src)
    | .ambig _ => .warnAmbiguous
  | _ => .passThrough

end Cmds
