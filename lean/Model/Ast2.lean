/-
Model of gomacro's uniform syntax-tree wrapper `ast2` (ast2/ast_node.go, ast2/ast_slice.go,
ast2/wrap.go `ToAst`/`ToAst1..4`, ast2/unwrap.go `ToNode`/`To<T>`).

The per-type methods `New/Size/Get/Set` are NOT transcribed by hand: the extractor
(harness/c22_extract.go) symbolically evaluates every method body of /repo/ast2 for each concrete
child index and regenerates `Gen/Ast2Table.lean` (a list of `Wrapper` records) on every run; the
field list of every go/ast node struct (with a class per field) is regenerated from the go/ast
package the code imports.  This file gives the table its meaning:

* a go/ast node (shallow view) is a record `Node = field name → Val`; a child is an abstract
  reference `Val.ref id` (the identity of the child node), a child list is a list of such
  references, every non-child field (position, token, flag, literal) is an atom; `Val.zero` is
  Go's zero value of the field's type (nil pointer / nil interface / nil slice / 0 / false / "").
* an `Ast` (what `Get` returns, what `Set` takes) is `nil` or a wrapper around a value.
  `ToAst` on a nil interface gives nil; on a typed nil pointer it gives nil only when the
  `ToAst` arm of that type is guarded by `if node != nil` (regenerated: `ToAstArm.guarded`),
  otherwise a non-nil wrapper around a nil pointer (`Ast.wrap via .zero`).
* `To<T>(child)` applied to a wrapper produced from a field of static type T returns the wrapped
  value (`Ast.unwrap`) when the converter is the one for T (`convFor`); a converter that does not
  fit the field's type is modelled as producing a poison atom (never equal to the original).
* `rebuild` is the one-level clone used by macro expansion and quasiquote
  (fast/macroexpand.go macroExpandCodewalk, fast/quasiquote.go, the commented-out ast2.CloneAst):
  `out := in.New(); for i < in.Size() { out.Set(i, in.Get(i)) }`, with `Append(nil)` up to Size
  first for the variable-length wrappers.
Core Lean only.
-/
namespace Ast2

/-- class of a field of a go/ast node struct -/
inductive FClass where
  | pos        -- token.Pos: exempt from the property (position-insensitive equality)
  | posflag    -- token.Pos whose validity carries meaning (CallExpr.Ellipsis, TypeSpec.Assign)
  | tok        -- token.Token
  | flag       -- bool, ChanDir
  | lit        -- string
  | child      -- a node (interface or pointer)
  | childList  -- a slice of nodes
  | childMap   -- a map of nodes (Package.Files)
  | comment    -- *CommentGroup, []*CommentGroup: exempt
  | resolve    -- *Object, *Scope, Unresolved, Imports: derived resolver data, exempt
  | opq     -- not understood by the extractor: accepted by no checker
  deriving DecidableEq, Repr

/-- fields the property requires to survive the round trip -/
def FClass.relevant : FClass → Bool
  | .pos | .comment | .resolve => false
  | _ => true

structure FieldDef where
  name : String
  cls : FClass
  gty : String        -- Go type as written in go/ast (package-local): "Expr", "*Ident", "[]Stmt", "token.Pos"
  deriving DecidableEq, Repr

structure StructDef where
  name : String
  fields : List FieldDef
  impls : List String   -- marker interfaces implemented: Expr, Stmt, Decl, Spec
  deriving DecidableEq, Repr

inductive Elem where
  | nil
  | ref (id : Nat)
  deriving DecidableEq, Repr

inductive Val where
  | zero
  | atom (s : String)
  | ref (id : Nat)
  | list (es : List Elem)
  deriving DecidableEq, Repr

abbrev Node := String → Val

def Node.set (n : Node) (f : String) (v : Val) : Node := fun g => if g = f then v else n g

inductive Ast where
  | nil
  | wrap (via : String) (v : Val)
  deriving DecidableEq, Repr

/-- `ToNode` / `To<T>` on a fitting wrapper: the wrapped value; nil for a nil Ast. -/
def Ast.unwrap : Ast → Val
  | .nil => .zero
  | .wrap _ v => v

/-- one arm of `ToAst`'s type switch -/
structure ToAstArm where
  ty : String         -- go/ast struct name T of `case *ast.T`
  wrapper : String    -- ast2 wrapper type built
  guarded : Bool      -- `if node != nil { ... }`
  deriving DecidableEq, Repr

/-- what `Get(i)` does for one concrete `i` (result of symbolic evaluation) -/
inductive GetArm where
  | read (field via : String) (guarded : Bool)  -- wrapper `via` around x.X.field; guarded = explicit nil test
  | none_                                       -- returns nil whatever the node holds
  | bad                                         -- badIndex(...) / run-time index panic
  | opq (why : String)
  deriving DecidableEq, Repr

inductive WriteKind where
  | conv (c : String)        -- x.X.f = To<c>(child)
  | nonNil (c : String)      -- x.X.f = To<c>(child) != nil       (derived flag)
  | opq (why : String)
  deriving DecidableEq, Repr

structure Write where
  field : String
  kind : WriteKind
  deriving DecidableEq, Repr

inductive SetArm where
  | writes (ws : List Write)
  | bad
  | opq (why : String)
  deriving DecidableEq, Repr

structure Arm where
  get : GetArm
  set : SetArm
  deriving DecidableEq, Repr

inductive Kind where
  | fixed                                                   -- constant Size, per-index arms
  | list (field getVia setConv appendConv : String)         -- Size = len(x.X.field), element access
  | slice (elemTy getVia setConv appendConv : String)       -- wrapper around a bare slice
  | opq (why : String)
  deriving DecidableEq, Repr

structure Wrapper where
  name : String                       -- ast2 wrapper type
  node : String                       -- go/ast struct it wraps ("" for bare slices)
  kind : Kind
  size : Nat                          -- constant Size() (fixed kind)
  sizeNilGuard : Bool                 -- `if x.X == nil { return 0 }`
  newCopies : List (String × String)  -- (destination field, source field) pairs of New()
  newOk : Bool                        -- New() has the understood shape `W{&ast.T{k: x.X.f, ...}}` / `W{}`
  arms : List Arm                     -- Get(i)/Set(i) for i = 0 .. Size-1
  oorGet : GetArm                     -- Get(Size)
  oorSet : SetArm                     -- Set(Size, child)
  opReads : List String               -- fields Op() depends on
  deriving DecidableEq, Repr

structure Ctx where
  structs : List StructDef
  toAst : List ToAstArm
  deriving Repr

def Ctx.struct? (c : Ctx) (name : String) : Option StructDef := c.structs.find? (·.name == name)

def StructDef.field? (sd : StructDef) (f : String) : Option FieldDef := sd.fields.find? (·.name == f)

/-- static Go type of a field ("" if unknown) -/
def StructDef.gtyOf (sd : StructDef) (f : String) : String :=
  match sd.field? f with
  | some fd => fd.gty
  | none => ""

def isPtrTy (t : String) : Bool := t.startsWith "*"

/-- Does wrapping a nil value of static type `gty` through `via` give a nil Ast? -/
def nilSafe (c : Ctx) (gty via : String) (guarded : Bool) : Bool :=
  if guarded then true
  else if via == "ToAst" then
    if isPtrTy gty then
      match c.toAst.find? (fun a => "*" ++ a.ty == gty) with
      | some a => a.guarded
      | none => false
    else true          -- nil interface: `case nil: return nil`
  else if via == "self" then true   -- AstSlice: the element is the Ast itself
  else false           -- composite literal `W{x.X.f}` around a nil pointer / nil slice

def wrapVal (c : Ctx) (gty via : String) (guarded : Bool) (v : Val) : Ast :=
  if v = .zero then (if nilSafe c gty via guarded then .nil else .wrap via .zero)
  else .wrap via v

def evalGet (c : Ctx) (sd : StructDef) (g : GetArm) (n : Node) : Ast :=
  match g with
  | .read f via guarded => wrapVal c (sd.gtyOf f) via guarded (n f)
  | _ => .nil

/-- the converter whose first matching case returns its argument unchanged, per static type -/
def convFor (gty : String) : List String :=
  match gty with
  | "Expr" => ["ToExpr"]
  | "Stmt" => ["ToStmt"]
  | "Decl" => ["ToDecl"]
  | "Spec" => ["ToSpec"]
  | "Node" => ["ToNode"]
  | "Ast" => ["self"]
  | "*Ident" => ["ToIdent"]
  | "*BasicLit" => ["ToBasicLit"]
  | "*BlockStmt" => ["ToBlockStmt"]
  | "*CallExpr" => ["ToCallExpr"]
  | "*FieldList" => ["ToFieldList"]
  | "*FuncType" => ["ToFuncType"]
  | "*Field" => ["ToField"]
  | "*ImportSpec" => ["ToImportSpec"]
  | "*File" => ["ToFile"]
  | "[]Expr" => ["ToExprSlice"]
  | "[]Stmt" => ["ToStmtSlice"]
  | "[]*Ident" => ["ToIdentSlice"]
  | _ => []

def convOk (gty conv : String) : Bool := (convFor gty).contains conv

def poison : Val := .atom "?conv"

def WriteKind.eval (gty : String) (k : WriteKind) (a : Ast) : Val :=
  match k with
  | .conv c => if convOk gty c then a.unwrap else poison
  | .nonNil c => if convOk gty c then (if a.unwrap = .zero then .zero else .atom "true") else poison
  | .opq _ => poison

/-- static type the converted child must have for a write: the field's own type, except for a
    derived flag (`nonNil`), which is judged against the type of the field read by the same arm. -/
def writeTy (sd : StructDef) (g : GetArm) (w : Write) : String :=
  match w.kind, g with
  | .nonNil _, .read f _ _ => sd.gtyOf f
  | _, _ => sd.gtyOf w.field

def applySet (sd : StructDef) (arm : Arm) (a : Ast) (m : Node) : Node :=
  match arm.set with
  | .writes ws => ws.foldl (fun m w => m.set w.field (w.kind.eval (writeTy sd arm.get w) a)) m
  | _ => m

/-- `New()`: a fresh node holding the copied fields, everything else zero -/
def newNode (w : Wrapper) (n : Node) : Node := fun f =>
  match w.newCopies.find? (·.1 == f) with
  | some (_, src) => n src
  | none => .zero

/-- rebuild of a fixed-size wrapper: `out := New(); for i < Size { out.Set(i, in.Get(i)) }` -/
def rebuildFixed (c : Ctx) (sd : StructDef) (w : Wrapper) (n : Node) : Node :=
  w.arms.foldl (fun m arm => applySet sd arm (evalGet c sd arm.get n) m) (newNode w n)

/-! variable-length wrappers -/

def elemTyOf (listTy : String) : String := (listTy.drop 2).toString   -- "[]Expr" -> "Expr"

def wrapElem (c : Ctx) (ety via : String) (e : Elem) : Ast :=
  match e with
  | .nil => if nilSafe c ety via false then .nil else .wrap via .zero
  | .ref id => .wrap via (.ref id)

def unwrapElem (ety conv : String) (a : Ast) : Elem :=
  if convOk ety conv then
    match a.unwrap with
    | .ref id => .ref id
    | _ => .nil
  else .ref 999999999

def Val.elems : Val → List Elem
  | .list es => es
  | _ => []

/-- `out := New(); for out.Size() < n { out = out.Append(nil) }; for i < n { out.Set(i, in.Get(i)) }`
    on a list: an empty input never appends, so the result is the nil slice. -/
def rebuildList (c : Ctx) (ety getVia setConv appendConv : String) (v : Val) : Val :=
  match v.elems with
  | [] => .zero
  | es => if convOk ety appendConv then .list (es.map (fun e => unwrapElem ety setConv (wrapElem c ety getVia e)))
          else poison

def rebuild (c : Ctx) (sd : StructDef) (w : Wrapper) (n : Node) : Node :=
  match w.kind with
  | .fixed => rebuildFixed c sd w n
  | .list f gv sc ac => (newNode w n).set f (rebuildList c (elemTyOf (sd.gtyOf f)) gv sc ac (n f))
  | .slice ety gv sc ac => (newNode w n).set "X" (rebuildList c ety gv sc ac (n "X"))
  | .opq _ => fun _ => poison

def sizeOf (w : Wrapper) (n : Node) : Nat :=
  match w.kind with
  | .fixed => w.size
  | .list f _ _ _ => (n f).elems.length
  | .slice _ _ _ _ => (n "X").elems.length
  | .opq _ => 0

/-- the children `Get(0) .. Get(Size-1)` -/
def children (c : Ctx) (sd : StructDef) (w : Wrapper) (n : Node) : List Ast :=
  match w.kind with
  | .fixed => w.arms.map (fun arm => evalGet c sd arm.get n)
  | .list f gv _ _ => (n f).elems.map (wrapElem c (elemTyOf (sd.gtyOf f)) gv)
  | .slice ety gv _ _ => (n "X").elems.map (wrapElem c ety gv)
  | .opq _ => []

/-- equality of field values up to nil-slice = empty-slice (both are the empty child list) -/
def Val.equiv (a b : Val) : Prop := a = b ∨ (a.elems = [] ∧ b.elems = [] ∧ (a = .zero ∨ a = .list []) ∧ (b = .zero ∨ b = .list []))

instance (a b : Val) : Decidable (Val.equiv a b) := by unfold Val.equiv; infer_instance

/-! ## well-formedness of a table entry (decidable; checked on the regenerated table) -/

/-- last write to field `f` inside one Set arm -/
def lastWrite (f : String) : List Write → Option Write
  | [] => none
  | w :: rest =>
    match lastWrite f rest with
    | some r => some r
    | none => if w.field = f then some w else none

/-- last write to field `f` performed by `Set(0) .. Set(Size-1)`, with its arm -/
def lastWriter (f : String) : List Arm → Option (Arm × Write)
  | [] => none
  | arm :: rest =>
    match lastWriter f rest with
    | some r => some r
    | none =>
      match arm.set with
      | .writes ws =>
        match lastWrite f ws with
        | some w => some (arm, w)
        | none => none
      | _ => none

def copied (w : Wrapper) (f : String) : Bool := w.newCopies.find? (·.1 == f) == some (f, f)

/-- field-level obligation for fixed wrappers: the field is copied by New() and never written,
    or its last writer is the Set(i) whose Get(i) reads the same field through a fitting converter,
    or it is a flag derived from the child of that arm. -/
def fieldOk (sd : StructDef) (w : Wrapper) (fd : FieldDef) : Bool :=
  fd.cls != .opq &&
  match lastWriter fd.name w.arms with
  | none => copied w fd.name
  | some (arm, wr) =>
    match arm.get, wr.kind with
    | .read g _ _, .conv c => g == fd.name && convOk (sd.gtyOf fd.name) c
    | .read g _ _, .nonNil c => fd.cls == .flag && convOk (sd.gtyOf g) c
    | _, _ => false

/-- derived invariants a node must satisfy (go/ast's own: `Slice3 ↔ Max != nil`) -/
def derivedPairs (w : Wrapper) : List (String × String) :=
  w.arms.flatMap (fun arm =>
    match arm.get, arm.set with
    | .read g _ _, .writes ws => ws.filterMap (fun wr => match wr.kind with | .nonNil _ => some (wr.field, g) | _ => none)
    | _, _ => [])

def flagOf (v : Val) : Val := if v = .zero then .zero else .atom "true"

def DerivedOK (w : Wrapper) (n : Node) : Prop := ∀ p ∈ derivedPairs w, n p.1 = flagOf (n p.2)

def armShapeOk (a : Arm) : Bool :=
  (match a.get with | .read _ _ _ => true | _ => false) &&
  (match a.set with | .writes ws => ws.all (fun w => match w.kind with | .opq _ => false | _ => true) | _ => false)

def readField : GetArm → String
  | .read f _ _ => f
  | _ => ""

/-- Size / Get / Set agree: Size arms, every arm reads a child field of the struct and writes it
    back, distinct arms read distinct fields, index Size is rejected by both Get and Set. -/
def sizeOk (sd : StructDef) (w : Wrapper) : Bool :=
  w.arms.length == w.size &&
  w.arms.all armShapeOk &&
  (w.arms.map (fun a => readField a.get)).Nodup &&
  w.arms.all (fun a => match sd.field? (readField a.get) with
                        | some fd => fd.cls == .child || fd.cls == .childList
                        | none => false) &&
  w.oorGet == .bad && w.oorSet == .bad

def opReadsOk (sd : StructDef) (w : Wrapper) : Bool :=
  w.opReads.all (fun f => match sd.field? f with
    | some fd => fd.cls == .pos && copied w f || fd.cls.relevant
    | none => false)

def listKindOk (sd : StructDef) (w : Wrapper) : Bool :=
  match w.kind with
  | .list f gv sc ac =>
    let ety := elemTyOf (sd.gtyOf f)
    (match sd.field? f with | some fd => fd.cls == .childList | none => false) &&
    (gv == "ToAst") && convOk ety sc && convOk ety ac &&
    (w.newCopies.find? (·.1 == f)).isNone
  | .slice ety gv sc ac =>
    (match sd.field? "X" with | some fd => fd.cls == .childList | none => false) &&
    (gv == "ToAst" || gv == "self") && convOk ety sc && convOk ety ac && w.newCopies.isEmpty
  | _ => false

/-- per-field obligation, by wrapper kind -/
def fieldGood (sd : StructDef) (w : Wrapper) (fd : FieldDef) : Bool :=
  match w.kind with
  | .fixed => fieldOk sd w fd
  | .list f _ _ _ => fd.name == f || (fd.cls != .opq && copied w fd.name)
  | .slice _ _ _ _ => fd.name == "X"
  | .opq _ => false

/-- relevant fields of a wrapper that violate the field obligation -/
def badFields (sd : StructDef) (w : Wrapper) : List String :=
  (sd.fields.filter (fun fd => fd.cls.relevant && !fieldGood sd w fd)).map (·.name)

/-- structural part of well-formedness (everything except the per-field obligation) -/
def shapeOk (sd : StructDef) (w : Wrapper) : Bool :=
  w.newOk &&
  match w.kind with
  | .fixed => sizeOk sd w && opReadsOk sd w
  | .list _ _ _ _ => listKindOk sd w && opReadsOk sd w
  | .slice _ _ _ _ => listKindOk sd w
  | .opq _ => false

def wrapperWF (sd : StructDef) (w : Wrapper) : Bool := shapeOk sd w && (badFields sd w).isEmpty

/-- position fields not carried over by New() (informational: positions are exempt) -/
def droppedPositions (sd : StructDef) (w : Wrapper) : List String :=
  (sd.fields.filter (fun fd => fd.cls == .pos && !copied w fd.name)).map (·.name)

/-! ## ToAst / ToNode -/

/-- `ToAst(node)` for a non-nil node of dynamic type `*ast.ty`: the wrapper, or none = errorf("unsupported node type") -/
def toAstWrapper (c : Ctx) (ty : String) : Option String := (c.toAst.find? (·.ty == ty)).map (·.wrapper)

/-- the bare slice struct an empty struct def stands for -/
def sliceStruct : StructDef := { name := "", fields := [{ name := "X", cls := .childList, gty := "[]Node" }], impls := [] }

/-! ## converters of unwrap.go (regenerated case tables) -/

inductive ConvAct where
  | ident    -- `return node` / `return x.X`: the argument itself
  | retNil   -- `break` / empty / `return nil`
  | other    -- a conversion or an error
  deriving DecidableEq, Repr

structure ConvDef where
  name : String
  onNode : Bool                          -- `switch node := ToNode(x).(type)` (else `switch x := x.(type)`)
  cases : List (List String × ConvAct)   -- in source order; "default" for the default clause
  understood : Bool
  why : String
  deriving Repr

/-- Go's type switch: the first non-default clause with a matching type, else `default`,
    else control falls out of the switch (to the trailing `return nil`). -/
def firstAct (cases : List (List String × ConvAct)) (m : String → Bool) : ConvAct :=
  match cases.find? (fun c => c.1.any (fun t => t != "default" && m t)) with
  | some c => c.2
  | none =>
    match cases.find? (fun c => c.1.contains "default") with
    | some c => c.2
    | none => .retNil

/-- dynamic struct types a non-nil value of static type `gty` can have -/
def dynTypes (structs : List StructDef) (gty : String) : List StructDef :=
  if isPtrTy gty then structs.filter (fun sd => "*" ++ sd.name == gty)
  else if gty == "Node" then structs
  else structs.filter (fun sd => sd.impls.contains gty)

def caseMatchesNode (sd : StructDef) (t : String) : Bool :=
  t == "*" ++ sd.name || t == "Node" || sd.impls.contains t

def caseMatchesWrapper (ws : List Wrapper) (wname t : String) : Bool :=
  t == wname || t == "Ast" ||
  (t == "AstWithNode" && ws.any (fun w => w.name == wname && w.node != "")) ||
  (t == "AstWithSlice" && ws.any (fun w => w.name == wname &&
      (match w.kind with | .list _ _ _ _ => true | .slice _ _ _ _ => true | _ => false)))

/-- Is converter `conv`, applied to what `Get` produces (through `via`) from a field of static type
    `gty`, the identity?  Decided on the regenerated case tables: nil goes to nil, and for every
    dynamic type the field can hold the first matching clause returns the argument itself.
    `ToNode` is `x.Node()`, which every wrapper implements as `asNode(x.X, x.X == nil)`. -/
def convJustified (c : Ctx) (ws : List Wrapper) (convs : List ConvDef) (conv gty via : String) : Bool :=
  if conv == "self" then gty == "Ast"
  else if conv == "ToNode" then gty == "Node"
  else
    match convs.find? (·.name == conv) with
    | none => false
    | some cd =>
      cd.understood && firstAct cd.cases (· == "nil") == .retNil &&
      (if gty.startsWith "[]" then
         !cd.onNode && firstAct cd.cases (caseMatchesWrapper ws via) == .ident
       else
         let dts := dynTypes c.structs gty
         !dts.isEmpty && dts.all (fun sd =>
           if cd.onNode then firstAct cd.cases (caseMatchesNode sd) == .ident
           else
             match toAstWrapper c sd.name with
             | some wn => firstAct cd.cases (caseMatchesWrapper ws wn) == .ident
             | none => true))

/-- (converter, static type of the child, wrapper it arrives in) for every write of the table -/
def usedConvs (sdOf : Wrapper → StructDef) (ws : List Wrapper) : List (String × String × String) :=
  ws.flatMap (fun w =>
    let sd := sdOf w
    match w.kind with
    | .fixed => w.arms.flatMap (fun arm =>
        match arm.get, arm.set with
        | .read _ via _, .writes wr => wr.filterMap (fun x =>
            match x.kind with
            | .conv cv => some (cv, writeTy sd arm.get x, via)
            | .nonNil cv => some (cv, writeTy sd arm.get x, via)
            | .opq _ => none)
        | _, _ => [])
    | .list f gv sc ac => [(sc, elemTyOf (sd.gtyOf f), gv), (ac, elemTyOf (sd.gtyOf f), gv)]
    | .slice ety gv sc ac => [(sc, ety, gv), (ac, ety, gv)]
    | .opq _ => [])

end Ast2
