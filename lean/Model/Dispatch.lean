import Model.ClosureIR
import Model.C01Arms
import Model.Pow2
/-! # Dispatch — which closure the compiler builds for `x op y`, `op x` and for a variable read

Hand transcription of the compile-time decisions of `Comp.BinaryExpr1` (binary.go), the prologues
of `Comp.Add .. Andnot`, `mulPow2`, `quoPow2`, `remPow2` (binary_ops.go), `Shl`, `Shr`
(binary_shifts.go) with `prepareShift`/`AsUint64`, `Lss .. Geq`, `Eql`, `Neq`, `Land`, `Lor`,
`UnaryExpr` + `UnaryPlus/Minus/Xor/Not`, and `Symbol.Expr`/`Bind.Expr` (identifier.go).
The statements transcribed here are exactly the `Action` lists of `Model/C01Prologue.lean`, which
`Props/C01.lean` proves equal to what the extractor regenerates from the Go source.

The result of a decision is a `Sel`: *which arm* (function name + path of enclosing conditions, the
key of the regenerated tables) with the values of the prologue variables the arm captures, or one
of the operand-returning shortcuts.  `runSel` then evaluates the selected arm's IR taken from a
table of entries (the regenerated tables in the driver, the templates in the theorems).

Abstractions: an operand is either a constant (its value) or a non-constant expression, of which
only the kind and the closure's result on the current environment matter.  Types are basic kinds
(named types, untyped-constant conversion `ConstTo` and its range errors belong to C03/C04). -/
namespace Dispatch
open ClosureIR GoSpec C01Arms

/-- an operand `*Expr` as the binary-operator compilers see it -/
inductive Operand where
  | const (v : Val)                       -- Expr.Value (after ConstTo the operand type)
  | fn (r : Outcome Val)                  -- Expr.Fun: result of the operand closure on the current env

def Operand.isConst : Operand → Bool
  | .const _ => true
  | .fn _ => false

inductive Sel where
  | arm (fn : String) (path : List String) (extra : Store)
  | armY (fn : String) (path : List String) (extra : Store)   -- the same after `xe, ye = ye, xe` (mulPow2)
  | opX | opY                 -- `return xe` / `return ye`
  | zeroX | zeroY             -- `return c.exprZero(xe)` / `(ye)`
  | negX | negY               -- `return c.UnaryMinus(node1, xe)`
  | value (v : Val)           -- `return c.exprValue(nil, v)`
  | misc                      -- `c.eqlneqMisc`: generic comparison through reflect (outside the tables)
  | error                     -- compile error (`c.Errorf`, `invalidBinaryExpr`)

def operandStore (name : String) (k : Kind) (o : Operand) : Store :=
  match o with
  | .const v => [(name ++ ".Value", .iface v), (name ++ ".Fun", .closure k (.ok v))]
  | .fn r => [(name ++ ".Fun", .closure k r)]

def operandResult : Operand → Outcome Val
  | .const v => .ok v
  | .fn r => r

/-! ### `isLiteralNumber` (literal.go) on typed constants -/
def isLitNum (v : Val) (n : Int) : Bool :=
  match v with
  | .int k x => if k.signed then x.toInt == n else (I.conv false x 64) == BitVec.ofInt 64 n
  -- floats/complex: only `n = 0` is ever asked for operands of these kinds (the ±1 shortcuts of
  -- mulPow2/quoPow2 are behind the integer-category test)
  | .f32 b => n == 0 && (b == 0#32 || b == 0x80000000#32)
  | .f64 b => n == 0 && (b == 0#64 || b == 0x8000000000000000#64)
  | .c64 r i => n == 0 && (r == 0#32 || r == 0x80000000#32) && (i == 0#32 || i == 0x80000000#32)
  | .c128 r i => n == 0 && (r == 0#64 || r == 0x8000000000000000#64) && (i == 0#64 || i == 0x8000000000000000#64)
  | _ => false

def isEmptyStr : Val → Bool
  | .str [] => true
  | _ => false

def isIntKind (k : Kind) : Bool := k.isInteger

/-! ### the prologue of mulPow2 / quoPow2 / remPow2: `ypositive`, `y`, `shift` -/
structure Pow2Info where
  ypositive : Bool
  y : BitVec 64
  deriving Repr

def pow2Prologue (c : Val) : Option Pow2Info :=
  match c with
  | .int k x =>
    if k.signed then
      let sy : BitVec 64 := I.conv true x 64        -- yv.Int()
      if sy.slt 0#64 then some ⟨false, -sy⟩          -- y = uint64(-sy)
      else some ⟨true, sy⟩
    else some ⟨true, I.conv false x 64⟩               -- yv.Uint()
  | _ => none

def pow2Store (p : Pow2Info) : Store :=
  [("y", .val (.int ⟨64, false⟩ p.y)),
   ("integerLen(y)", .val (.int ⟨8, false⟩ (BitVec.ofNat 8 (Pow2.integerLen p.y))))]

def shiftCase (p : Pow2Info) : List String :=
  let s := Pow2.integerLen p.y - 1
  ["switch shift", if s == 1 then "case 1" else if s == 2 then "case 2" else if s == 8 then "case 8" else "default"]

def isSigned (k : Kind) : Bool := match k.ikind? with | some ik => ik.signed | none => false

/-- `c.mulPow2(node, xe, ye)` with the constant operand `c` (after the swap); `constIsX` tells which
    operand the constant was.  `none` = "returns nil" (no shortcut) -/
def mulPow2 (k : Kind) (c : Val) (constIsX : Bool) : Option Sel :=
  if !isIntKind k then none
  else if isLitNum c 0 then some (if constIsX then .zeroY else .zeroX)
  else if isLitNum c 1 then some (if constIsX then .opY else .opX)
  else if isLitNum c (-1) then some (if constIsX then .negY else .negX)
  else match pow2Prologue c with
    | none => none
    | some p =>
      if !Pow2.isPowerOfTwo p.y then none
      else
        let sub := if isSigned k then (if p.ypositive then "if ypositive" :: shiftCase p else ["not(ypositive)"])
                   else shiftCase p
        some (.arm "mulPow2" (pow2Pre "mulPow2" ++ [caseK k] ++ sub) (pow2Store p))

def quoPow2 (k : Kind) (c : Val) : Option Sel :=
  if !isIntKind k then none
  else if isLitNum c 0 then some .error
  else if isLitNum c 1 then some .opX
  else if isSigned k && isLitNum c (-1) then some .negX
  else match pow2Prologue c with
    | none => none
    | some p =>
      if !Pow2.isPowerOfTwo p.y then none
      else
        let sub := if isSigned k then [if p.ypositive then "if ypositive" else "not(ypositive)"] else []
        some (.arm "quoPow2" (pow2Pre "quoPow2" ++ [caseK k] ++ sub) (pow2Store p))

def remPow2 (k : Kind) (c : Val) : Option Sel :=
  if isLitNum c 0 then some .error
  else if isLitNum c 1 then some .zeroX
  else match pow2Prologue c with
    | none => none
    | some p =>
      if !Pow2.isPowerOfTwo p.y then none
      else some (.arm "remPow2" (pow2Pre "remPow2" ++ [caseK k]) (pow2Store p))

def binFnOf : BinOp → Option BinFn
  | .add => some addFn | .sub => some subFn | .mul => some mulFn | .quo => some quoFn | .rem => some remFn
  | .and => some andFn | .or => some orFn | .xor => some xorFn | .andNot => some andnotFn
  | .lss => some lssFn | .gtr => some gtrFn | .leq => some leqFn | .geq => some geqFn
  | .eql => some eqlFn | .neq => some neqFn
  | _ => none

def armOf (f : BinFn) (sh : Shape) (k : Kind) : Sel :=
  if f.kinds.contains k then .arm f.fn (f.pre sh ++ ["switch k", caseK k]) []
  else if f.op == .neq && k == .bool then .misc
  else .error

def boolOf : Val → Option Bool
  | .bool b => some b
  | _ => none

/-- the compile-time decision of `Comp.<Op>(node, xe, ye)` for operands of (equal) kind `k` -/
def compileArith (op : BinOp) (k : Kind) (x y : Operand) : Sel :=
  match binFnOf op with
  | none => .error
  | some f =>
    -- Rem, And, Or, Xor, Andnot test the operand category first
    if (op == .rem || op == .and || op == .or || op == .xor || op == .andNot) && !isIntKind k then .error
    else match x, y with
    | .fn _, .fn _ => armOf f .vv k
    | .const _, .const _ => armOf f .vv k              -- `xc == yc`: both closures are constant closures
    | .fn _, .const c =>
      let short : Option Sel :=
        match op with
        | .add => if isEmptyStr c || (isLitNum c 0 && isIntKind k) then some .opX else none
        | .sub => if isLitNum c 0 then some .opX else none
        | .mul => mulPow2 k c false
        | .quo => if isLitNum c 0 then some .error else quoPow2 k c
        | .rem => if isLitNum c 0 then some .error else remPow2 k c
        | .and => if isLitNum c 0 then some .zeroX else if isLitNum c (-1) then some .opX else none
        | .or | .xor => if isLitNum c 0 then some .opX else none
        | .andNot => if isLitNum c (-1) then some .zeroX else if isLitNum c 0 then some .opX else none
        | .eql => if k == .bool && boolOf c == some true then some .opX else none
        | .neq => if k == .bool && boolOf c == some false then some .opX else none
        | _ => none
      match short with
      | some s => s
      | none => armOf f .vc k
    | .const c, .fn _ =>
      let short : Option Sel :=
        match op with
        | .add => if isEmptyStr c || (isLitNum c 0 && isIntKind k) then some .opY else none
        | .mul =>
          -- mulPow2 swaps xe and ye: the arm's `xe.Fun` is the variable operand
          (match mulPow2 k c true with
           | some (.arm fn p ex) => some (.armY fn p ex)
           | r => r)
        | .and => if isLitNum c 0 then some .zeroY else if isLitNum c (-1) then some .opY else none
        | .or | .xor => if isLitNum c 0 then some .opY else none
        | .andNot => if isLitNum c 0 then some .zeroY else none
        | .eql => if k == .bool && boolOf c == some true then some .opY else none
        | .neq => if k == .bool && boolOf c == some false then some .opY else none
        | _ => none
      match short with
      | some s => s
      | none => armOf f .cv k

/-- `constAsUint64` -/
def constAsUint64 (c : Val) : Option (BitVec 64) :=
  match c with
  | .int k x => if k.signed && x.msb then none else some (I.conv k.signed x 64)
  | _ => none

def compileShift (fn : String) (k : Kind) (x y : Operand) : Sel :=
  if !isIntKind k then .error
  else match x, y with
    | .fn _, .fn _ | .const _, .const _ => .arm fn (shiftPath .vv ++ ["switch xk", caseK k]) []
    | .fn _, .const c =>
      match constAsUint64 c with
      | none => .error
      | some n => if n == 0#64 then .opX else .arm fn (shiftPath .vc ++ ["switch xk", caseK k]) []
    | .const _, .fn _ => .arm fn (shiftPath .cv ++ ["switch xk", caseK k]) []

/-- `Land` / `Lor` -/
def compileLogic (op : BinOp) (x y : Operand) : Sel :=
  let isAnd := op == .land
  match x, y with
  | .const (.bool xv), _ =>
    if isAnd then (if xv then .opY else .value (.bool false))
    else (if xv then .value (.bool true) else .opY)
  | .fn _, .const (.bool yv) =>
    if isAnd then
      (if yv then .opX else .arm "Land" ["not(xerr || yerr)", "not(xfun == nil)", "if yfun == nil", "not(yval)", "return c.exprBool"] [])
    else
      (if yv then .arm "Lor" ["not(xerr || yerr)", "not(xfun == nil)", "if yfun == nil", "if yval", "return c.exprBool"] [] else .opX)
  | .fn _, .fn _ =>
    .arm (if isAnd then "Land" else "Lor") ["not(xerr || yerr)", "not(xfun == nil)", "not(yfun == nil)", "return c.exprBool"] []
  | _, _ => .error

/-- `BinaryExpr1`: dispatch on the operator -/
def compileBinary (op : BinOp) (xk yk : Kind) (x y : Operand) : Sel :=
  match op with
  | .shl => if yk.isInteger then compileShift "Shl" xk x y else .error
  | .shr => if yk.isInteger then compileShift "Shr" xk x y else .error
  | .land | .lor => if xk == .bool && yk == .bool then compileLogic op x y else .error
  | op => if xk == yk then compileArith op xk x y else .error

/-! ### `Expr.AsUint64` -/
def asUint64Sel (yk : Kind) (y : Operand) : Sel :=
  match y with
  | .const _ => .arm "AsUint64" ["not(e == nil)", "if e.Const()", "not(!ok)", "return"] []
  -- `case func(*Env) uint64: return fun`: the operand closure itself
  | .fn _ => if yk == .uint64 then .opY else .arm "AsUint64" (asUint64Pre ++ [caseF' yk]) []

/-! ### unary operators -/
def compileUnary (op : UnOp) (k : Kind) : Sel :=
  match op with
  | .plus => if k.isNumeric then .opX else .error
  | .neg => if k.isNumeric then .arm "UnaryMinus" ["typeswitch x := x.(type)", caseF k] [] else .error
  | .xor => if k.isInteger then .arm "UnaryXor" ["typeswitch x := x.(type)", caseF k] [] else .error
  | .not => if k == .bool then .arm "UnaryNot" ["typeswitch x := x.(type)", caseF k] [] else .error

/-! ### variable reads: `Symbol.Expr` -/
/-- storage class of a variable: `IntBind` (slot of `Env.Ints`) or `VarBind` (boxed in `Env.Vals`) -/
def identSel (intBind : Bool) (upn depth : Nat) (k : Kind) : Sel :=
  if intBind then
    if upn == 0 then .arm "Bind.intExpr" ["switch bind.Type.Kind()", caseK k] []
    else
      let h : Hops := if upn == 1 then .h1 else if upn == 2 then .h2 else if upn == depth - 1 then .file else .up
      .arm "Symbol.intExpr" (hopsCase false h ++ ["switch k", caseK k]) []
  else
    if upn == 0 then .arm "Bind.expr" ["switch bind.Type.Kind()", caseK k] []
    else
      let h : Hops := if upn == 1 then .h1 else if upn == 2 then .h2 else if upn == depth - 1 then .file
                      else if upn == depth then .top else .up
      .arm "Symbol.expr" (hopsCase true h ++ ["switch kind", caseK k]) []

/-! ### evaluation of a selection -/

def findArm (tables : List Entry) (fn : String) (path : List String) : Option Arm :=
  match tables.find? (fun e => e.fn == fn && e.path == path) with
  | some e => some e.arm
  | none => none

def baseStore : Store :=
  [("true", .val (.bool true)), ("false", .val (.bool false)), ("negativeShiftAmount", .negShiftErr)]

/-- Go constants have no negative zero: `EvalConst` normalises the folded value -/
def noNegZero : Val → Val
  | .f32 b => if b == 0x80000000#32 then .f32 0 else .f32 b
  | .f64 b => if b == 0x8000000000000000#64 then .f64 0 else .f64 b
  | .c64 r i => .c64 (if r == 0x80000000#32 then 0 else r) (if i == 0x80000000#32 then 0 else i)
  | .c128 r i => .c128 (if r == 0x8000000000000000#64 then 0 else r) (if i == 0x8000000000000000#64 then 0 else i)
  | v => v

/-- a selection with its arm(s) looked up in the tables -/
inductive Resolved where
  | arm (a : Arm) (extra : Store)
  | armY (a : Arm) (extra : Store)
  | opX | opY
  | zeroX (a : Arm) | zeroY (a : Arm)
  | negX (a : Arm) | negY (a : Arm)
  | value (v : Val)
  | misc
  | stuck

def resolveSel (tables : List Entry) (k : Kind) : Sel → Resolved
  | .arm fn path extra =>
    (match findArm tables fn path with
     | some a => .arm a extra
     | none => .stuck)
  | .armY fn path extra =>
    (match findArm tables fn path with
     | some a => .armY a extra
     | none => .stuck)
  | .opX => .opX
  | .opY => .opY
  | .zeroX =>
    (match findArm tables "exprZero" ["not(xe.Const())", "switch k", caseK k] with
     | some a => .zeroX a
     | none => .stuck)
  | .zeroY =>
    (match findArm tables "exprZero" ["not(xe.Const())", "switch k", caseK k] with
     | some a => .zeroY a
     | none => .stuck)
  | .negX =>
    (match findArm tables "UnaryMinus" ["typeswitch x := x.(type)", caseF k] with
     | some a => .negX a
     | none => .stuck)
  | .negY =>
    (match findArm tables "UnaryMinus" ["typeswitch x := x.(type)", caseF k] with
     | some a => .negY a
     | none => .stuck)
  | .value v => .value v
  | .misc => .misc
  | .error => .stuck

def runResolved (F : FloatOps) (ρ : Store) (k : Kind) (x y : Operand) : Resolved → Option (Outcome Val)
  | .arm a extra => evalArm F (extra ++ ρ) a
  | .armY a extra => evalArm F (extra ++ operandStore "xe" k y ++ ρ) a
  | .opX => some (operandResult x)
  | .opY => some (operandResult y)
  | .zeroX a => evalArm F (operandStore "xe" k x ++ baseStore) a
  | .zeroY a => evalArm F (operandStore "xe" k y ++ baseStore) a
  | .negX a => evalArm F (operandStore "xe" k x ++ baseStore) a
  | .negY a => evalArm F (operandStore "xe" k y ++ baseStore) a
  | .value v => some (.ok v)
  | .misc => none
  | .stuck => none

def runSel (F : FloatOps) (tables : List Entry) (ρ : Store) (k : Kind) (x y : Operand) (sel : Sel) : Option (Outcome Val) :=
  runResolved F ρ k x y (resolveSel tables k sel)

/-- the compiled form of `x op y`: everything that is decided at compile time (arm selection from the
    constness and the constant values of the operands) -/
structure CompiledBin where
  op : BinOp
  xk : Kind
  yk : Kind
  sel : Resolved
  count : Option Arm        -- the `AsUint64` arm of a shift count
  fold : Bool               -- both operands constant: result folded by `EvalConst`

def compileBin (tables : List Entry) (op : BinOp) (xk yk : Kind) (x y : Operand) : CompiledBin :=
  { op := op, xk := xk, yk := yk,
    sel := resolveSel tables xk (compileBinary op xk yk x y),
    count := if op.isShift then
        (match asUint64Sel yk y with
         | .arm fn path _ => findArm tables fn path
         | _ => none)
      else none,
    fold := x.isConst && y.isConst }

/-- run the compiled expression on the operands' run-time values -/
def runBin (F : FloatOps) (c : CompiledBin) (x y : Operand) : Option (Outcome Val) :=
  let countStore : Store :=
    match c.count with
    | some a =>
      (match evalArm F ([("e.Fun", .closure c.yk (operandResult y)),
                         ("e.Value", .iface (match y with | .const v => v | _ => .bool false))] ++ baseStore) a with
       | some r => [("ye.AsUint64()", .closure .uint64 r)]
       | none => [])
    | none => if c.op.isShift then [("ye.AsUint64()", .closure .uint64 (operandResult y))] else []
  let tryAsPred (name : String) (o : Operand) : Store :=
    [(name ++ ".TryAsPred()", .pair (.val (.bool false)) (.closure .bool (operandResult o)))]
  let ρ := countStore ++ operandStore "xe" c.xk x ++ operandStore "ye" c.yk y ++ tryAsPred "x" x ++ tryAsPred "y" y ++ baseStore
  let r := match c.sel with
    | .misc =>
      -- `eqlneqMisc` (bool != bool): generic comparison of the two values through reflect;
      -- abstraction: modelled by the specification operator itself
      (match operandResult x, operandResult y with
       | .ok a, .ok b => binop F c.op a b
       | .panic p, _ => some (.panic p)
       | _, .panic p => some (.panic p))
    | sel => runResolved F ρ c.xk x y sel
  -- both operands constant: BinaryExpr1 folds the result (EvalConst)
  if c.fold then
    match r with
    | some (.ok v) => some (.ok (noNegZero v))
    | r => r
  else r

/-- the complete evaluation of `x op y` as compiled by the fast interpreter -/
def evalBinary (F : FloatOps) (tables : List Entry) (op : BinOp) (xk yk : Kind) (x y : Operand) : Option (Outcome Val) :=
  runBin F (compileBin tables op xk yk x y) x y

structure CompiledUn where
  k : Kind
  sel : Resolved
  fold : Bool

def compileUn (tables : List Entry) (op : UnOp) (k : Kind) (x : Operand) : CompiledUn :=
  { k := k, sel := resolveSel tables k (compileUnary op k), fold := x.isConst }

def runUn (F : FloatOps) (c : CompiledUn) (x : Operand) : Option (Outcome Val) :=
  let ρ := operandStore "xe" c.k x ++ baseStore
  let r := runResolved F ρ c.k x x c.sel
  if c.fold then
    match r with
    | some (.ok v) => some (.ok (noNegZero v))
    | r => r
  else r

def evalUnary (F : FloatOps) (tables : List Entry) (op : UnOp) (k : Kind) (x : Operand) : Option (Outcome Val) :=
  runUn F (compileUn tables op k x) x

end Dispatch
