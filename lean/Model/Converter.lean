/-! # Model of go/types/converter.go: standard go/types objects -> fork objects      (property C30)

Transcription of `/repo/go/types/converter.go`: `Converter.Package`, `object` (`constant`, `function`,
`typename`, `variable`), `typ`, `mknamed`, `mktypename`, `mkinterface`, `mksignature`, `mkstruct`,
`mkparams`, `mkfield`, `addmethods`, and the loop over `toaddmethods` (after
fixes/C30-addmethods-drain.diff: repeated until the map is empty).

Transcription rules / abstractions
* Both sides use ONE abstract syntax `CTy`.  Every cycle of a Go type graph passes through a named
  type, so a type is a finite tree whose leaves `named id` refer to declarations: on the standard
  side `id` indexes the input environment `env : List SDecl` (one entry per `*types.TypeName`), on
  the fork side it indexes `St.fdecls` (one entry per fork `*Named`, in creation order).
* All composite nodes have the form `node label children`: the label carries the constructor and
  everything that is not a type (array length, channel direction, variadic flag, parameter names,
  field names / packages / embedded flags / tags, method names / packages, number of explicit
  methods), `children` is a `nil`/`cons` chain of types.  `Converter.typ` rebuilds the node with the
  same label from the converted children (`NewArray(elem, g.Len())`, `NewStruct(fields, tags)` ...):
  that the label is copied field by field is checked by the correspondence run, the recursion
  scheme (order, memo table, creation of named types, cycles, deferred methods) is what is modelled.
* `c.cache` is keyed by the node (pointer keyed after fixes/C30-cache-by-pointer.diff); the model
  keys it by structural equality of the subtree, which hits at least whenever the pointer-keyed
  cache hits; `conv_memo_transparent` shows that hits never change the result.
* `mktypename` looks the name up in the fork package scope: `St.scope` maps (package path, name) to
  the fork declaration.  A found type name always has its `*Named` (`NewNamed` runs right after
  `mktypename`), so `found && typename.Type() != nil` is `found`.
* Signatures of interface methods and of methods of named types are converted by `mksignature`
  directly (not through `typ`): modelled as going through `conv` (transparent, see above).
* `TypeParam` (and anything generic) panics; `object` recovers and skips the object: `none`.  What the
  panicking conversion had already created (a type name in the scope) is NOT kept by the model:
  generic declarations are excluded by the property and never generated for the correspondence.
* fuel bounds the recursion (every recursive call is on a subterm or on the underlying type of a
  named type that was not in the scope before: at most |env| of the latter). -/
namespace Converter

inductive Lab where
  | array (n : Nat)
  | slice
  | ptr
  | chan (dir : Nat)
  | map
  | tuple
  | sig (variadic : Bool) (hasRecv : Bool) (nparams : Nat) (names : List String)
  | struct (fs : List (String × String × Bool × String))      -- name, package path, embedded, tag
  | iface (ms : List (String × String)) (nexplicit : Nat)     -- explicit method names/packages, then embedded types
  deriving DecidableEq, Repr, Inhabited

inductive CTy where
  | basic (k : Nat) (name : String)
  | named (id : Nat)
  | typeparam
  | node (lab : Lab) (cs : CTy)
  | nil
  | cons (a b : CTy)
  deriving DecidableEq, Repr, Inhabited

/-- a standard-library type name: package path, name, underlying type, declared methods (name, signature with receiver) -/
structure SDecl where
  pkg : String
  name : String
  under : CTy
  methods : List (String × CTy)
  deriving Repr, Inhabited

/-- a fork `*Named` under construction -/
structure FDecl where
  pkg : String
  name : String
  under : Option CTy               -- none until `SetUnderlying`
  methods : List (String × CTy)    -- filled by `addmethods`
  deriving Repr, Inhabited, DecidableEq

structure St where
  scope : List ((String × String) × Nat)
  fdecls : List FDecl
  cache : List (CTy × CTy)
  toadd : List (Nat × Nat)         -- `toaddmethods`: fork id, standard id
  deriving Repr, Inhabited

def St.empty : St := ⟨[], [], [], []⟩

def lookup {α} [DecidableEq α] (k : α) : List (α × β) → Option β
  | [] => none
  | (k', v) :: l => if k = k' then some v else lookup k l

def setUnder (l : List FDecl) (i : Nat) (u : CTy) : List FDecl :=
  match l, i with
  | [], _ => []
  | d :: l, 0 => { d with under := some u } :: l
  | d :: l, i + 1 => d :: setUnder l i u

def setMethods (l : List FDecl) (i : Nat) (ms : List (String × CTy)) : List FDecl :=
  match l, i with
  | [], _ => []
  | d :: l, 0 => { d with methods := ms } :: l
  | d :: l, i + 1 => d :: setMethods l i ms

/-- `c.cache.Set(g, t)` -/
def addCache (st : St) (t t' : CTy) : St := { st with cache := (t, t') :: st.cache }

/-- `mktypename` (insert a new type name in the fork scope) + `NewNamed(typename, nil, nil)` + the
    early `c.cache.Set(g, t)` of `mknamed` -/
def startNamed (st : St) (d : SDecl) (sid : Nat) : St :=
  { st with scope := ((d.pkg, d.name), st.fdecls.length) :: st.scope,
            fdecls := st.fdecls ++ [⟨d.pkg, d.name, none, []⟩],
            cache := (.named sid, .named st.fdecls.length) :: st.cache }

/-- `t.SetUnderlying(u)`, the entry in `toaddmethods`, and the final `c.cache.Set(g, t)` of `typ` -/
def finishNamed (st : St) (fid sid : Nat) (u' : CTy) (noMethods : Bool) : St :=
  let st := { st with fdecls := setUnder st.fdecls fid u' }
  let st := if noMethods then st else { st with toadd := st.toadd ++ [(fid, sid)] }
  addCache st (.named sid) (.named fid)

/-- `Converter.typ` (and `mknamed`); `useCache = false` is the converter without its memo table -/
def conv (useCache : Bool) (env : List SDecl) : Nat → St → CTy → Option (St × CTy)
  | 0, _, _ => none
  | fuel + 1, st, t =>
    match t with
    | .basic k n => some (st, .basic k n)          -- `Typ[kind]` (byte/rune keep their alias object)
    | .typeparam => none
    | .nil => some (st, .nil)
    | .cons a b =>
        match conv useCache env fuel st a with
        | none => none
        | some (st, a') =>
          match conv useCache env fuel st b with
          | none => none
          | some (st, b') => some (st, .cons a' b')
    | .node lab cs =>
        match (if useCache then lookup t st.cache else none) with
        | some t' => some (st, t')
        | none =>
          match conv useCache env fuel st cs with
          | none => none
          | some (st, cs') =>
            some (addCache st t (.node lab cs'), .node lab cs')
    | .named sid =>
        match (if useCache then lookup t st.cache else none) with
        | some t' => some (st, t')
        | none =>
          match env[sid]? with
          | none => none
          | some d =>
            match lookup (d.pkg, d.name) st.scope with
            | some fid => some (addCache st t (.named fid), .named fid)
            | none =>
              let fid := st.fdecls.length
              match conv useCache env fuel (startNamed st d sid) d.under with
              | none => none
              | some (st1, u') => some (finishNamed st1 fid sid u' d.methods.isEmpty, .named fid)

/-- `addmethods(t, g)`: convert the signatures of the declared methods, in order -/
def convMethods (useCache : Bool) (env : List SDecl) (fuel : Nat) : St → List (String × CTy) → Option (St × List (String × CTy))
  | st, [] => some (st, [])
  | st, (n, s) :: ms =>
    match conv useCache env fuel st s with
    | none => none
    | some (st, s') =>
      match convMethods useCache env fuel st ms with
      | none => none
      | some (st, ms') => some (st, (n, s') :: ms')

/-- the loop over `toaddmethods`, repeated until nothing is pending -/
def drain (useCache : Bool) (env : List SDecl) (fuel : Nat) : Nat → St → Option St
  | 0, _ => none
  | n + 1, st =>
    match st.toadd with
    | [] => some st
    | (fid, sid) :: rest =>
      match env[sid]? with
      | none => none
      | some d =>
        match convMethods useCache env fuel { st with toadd := rest } d.methods with
        | none => none
        | some (st, ms) => drain useCache env fuel n { st with fdecls := setMethods st.fdecls fid ms }

/-- an object of a package scope: kind (c const, v var, f func, t type name), name, type -/
structure Obj where
  kind : String
  name : String
  ty : CTy
  deriving Repr, Inhabited

/-- `Converter.Package`: the cache is reset, every object of the scope is converted (an object whose
    conversion panics is skipped and whatever it created stays), then the pending methods are added -/
def convObjects (useCache : Bool) (env : List SDecl) (fuel : Nat) : St → List Obj → St × List Obj
  | st, [] => (st, [])
  | st, o :: os =>
    match conv useCache env fuel st o.ty with
    | none => convObjects useCache env fuel st os
    | some (st, t') =>
      let (st, os') := convObjects useCache env fuel st os
      (st, { o with ty := t' } :: os')

def convPackage (useCache : Bool) (env : List SDecl) (fuel : Nat) (st : St) (objs : List Obj) : Option (St × List Obj) :=
  let (st, os) := convObjects useCache env fuel { st with cache := [] } objs
  match drain useCache env fuel fuel st with
  | none => none
  | some st => some (st, os)

end Converter
