/-
Model of gomacro's goroutine-local runtime state: gls.GoID, the registry `IrGlobals.gls`
(fast/global.go, fast/compile.go: glsGet, getRun4Goid, glsStore, glsDel, Run.new), the `Run`
chosen at every frame allocation (fast/compile.go: newEnv4Func, NewEnv, newEnv), the creation of
an interpreter (fast/interpreter.go: newTopInterp) and the go statement (fast/statement.go: Comp.Go).

Transcription rules
* A goroutine has a serial number `Gid` (never reused; ghost, only used to talk about "the same
  goroutine") and an identity `Id` = the value returned by gls.GoID() = address of the runtime `g`.
  `idOf g = some i` while the goroutine is live.  The identity of a goroutine never changes
  (the field is only written by `spawn`/`exit`: this is the assumption on the Go runtime) and a
  new goroutine may receive ANY identity that no live goroutine has (addresses of dead `g`s are
  reused by the runtime: `spawn i` only requires that `i` is not the identity of a live goroutine).
* A `Run` record is a number `RunId`; `owner r` is its immutable field `Run.goid`.  The frame pool
  `Run.Pool/PoolSize` is identified with the record that contains it: "goroutine g allocates from
  the pool of r" is the ghost entry `⟨g, r, viaTop⟩` of `uses` (frame recycling itself is C06).
* `reg` is the map `IrGlobals.gls`; every critical section of the spin lock is one atomic action
  (`look` = glsGet, `store` = glsStore, `del` = glsDel).  The spin lock is assumed to give mutual
  exclusion.  Steps of a goroutine between two critical sections only touch goroutine-local data
  (`pend` = the local variable `ret` of getRun4Goid) and are merged into the next action.
* `top` is `ir.env.Run`, the Run stored in the top-level / file frames of the interpreter (one
  interpreter; interpreters do not share registries).
* Function entry, newEnv4Func(outer):  `run := outer.Run; if run.goid != GoID() { run = getRun4Goid }`
    - fast path   `func g outer` with `owner outer = id g` and no pending lookup: uses `outer`;
    - slow path   `look g` (hit: pend = got r / miss: pend = missed), after a miss `store g`
                  (Run.new + glsStore: a NEW record owned by id g, pend = got r), then
                  `func g outer` consumes the pending record.
  `outer` is the Run stored in the frame where the closure was created: ANY existing record
  (closures travel through channels and globals), so `func` is enabled for every created `outer`.
* go statement: the parent allocates the hand-over frame from its own Run (`block g r`, kind
  "gopar" in the event log); the child creates a new record owned by its identity and stores it
  (`store g` with no pending lookup; `env2.Run = tg2` makes the hand-over frame point to that
  record, covered by "any outer"), marks itself `child`, runs, and finally `del g` (deferred glsDel).
* Nested block, NewEnv(outer): uses `outer.Run` unchecked.  Inside a function body `outer` is a
  frame allocated by the same goroutine (`⟨g, r, _⟩ ∈ uses`); in top-level code `outer` is the
  interpreter's file frame (`top = some r`), WHATEVER goroutine evaluates: `block g r`.
* `rebind g` is not in the code as it exists: it is the step added by the proposed repair
  (fixes/C33-toplevel-run.diff): top-level evaluation first replaces `ir.env.Run` by the record of
  the evaluating goroutine (lookup-or-create as on function entry).
-/
namespace Gls

abbrev Id := Nat
abbrev Gid := Nat
abbrev RunId := Nat

def upd {α : Type} (f : Nat → α) (k : Nat) (v : α) : Nat → α := fun x => if x = k then v else f x

/-- goroutine-local result of `glsGet` inside getRun4Goid -/
inductive Pend where
  | idle
  | missed
  | got (r : RunId)
  deriving DecidableEq, Repr

/-- ghost: goroutine `g` allocated a frame from the pool of `r`; `viaTop` = the record was
    reached through `ir.env.Run` (top-level code), not through a function entry. -/
structure Use where
  g : Gid
  r : RunId
  viaTop : Bool
  deriving DecidableEq, Repr

structure State where
  ngid : Nat
  idOf : Gid → Option Id
  nrun : Nat
  owner : RunId → Option Id
  reg : Id → Option RunId
  top : Option RunId
  pend : Gid → Pend
  child : Gid → Bool
  uses : List Use

def State.init : State :=
  { ngid := 0, idOf := fun _ => none, nrun := 0, owner := fun _ => none, reg := fun _ => none,
    top := none, pend := fun _ => .idle, child := fun _ => false, uses := [] }

inductive Action where
  | spawn (i : Id)
  | exit (g : Gid)
  | interp (g : Gid)
  | look (g : Gid)
  | store (g : Gid)
  | del (g : Gid)
  | func (g : Gid) (outer : RunId)
  | block (g : Gid) (r : RunId)
  | rebind (g : Gid)
  deriving DecidableEq, Repr

/-- no live goroutine has identity `i` -/
def idFree (s : State) (i : Id) : Bool :=
  (List.range s.ngid).all (fun g => s.idOf g != some i)

def hasUse (s : State) (g : Gid) (r : RunId) : Bool :=
  s.uses.any (fun u => u.g == g && u.r == r)

/-- a new record owned by `i`: Run.new -/
def newRun (s : State) (i : Id) : State :=
  { s with nrun := s.nrun + 1, owner := upd s.owner s.nrun (some i) }

/-- One atomic action; `none` = not enabled. -/
def step (s : State) : Action → Option State
  | .spawn i =>
    if idFree s i then
      some { s with ngid := s.ngid + 1, idOf := upd s.idOf s.ngid (some i) }
    else none
  | .exit g =>
    match s.idOf g with
    | none => none
    | some _ => some { s with idOf := upd s.idOf g none }
  | .interp g =>
    match s.idOf g, s.top, s.pend g with
    | some i, none, .idle =>
      -- run := &Run{goid: goid}; g.gls[goid] = run; ir.env.Run = run
      some { newRun s i with reg := upd s.reg i (some s.nrun), top := some s.nrun }
    | _, _, _ => none
  | .look g =>
    match s.idOf g, s.pend g with
    | some i, .idle =>
      some { s with pend := upd s.pend g (match s.reg i with | some r => .got r | none => .missed) }
    | _, _ => none
  | .store g =>
    match s.idOf g, s.pend g with
    | some i, .missed =>
      -- getRun4Goid after a miss: ret = run.new(goid); ret.glsStore()
      some { newRun s i with reg := upd s.reg i (some s.nrun), pend := upd s.pend g (.got s.nrun) }
    | some i, .idle =>
      -- child of a go statement: tg2 := tg.new(gls.GoID()); env2.Run = tg2; tg2.glsStore()
      some { newRun s i with reg := upd s.reg i (some s.nrun), child := upd s.child g true }
    | _, _ => none
  | .del g =>
    match s.idOf g, s.pend g, s.child g with
    | some i, .idle, true => some { s with reg := upd s.reg i none, child := upd s.child g false }
    | _, _, _ => none
  | .func g outer =>
    match s.idOf g, s.owner outer with
    | some i, some o =>
      if o = i then
        match s.pend g with
        | .idle => some { s with uses := ⟨g, outer, false⟩ :: s.uses }
        | _ => none
      else
        match s.pend g with
        | .got r => some { s with pend := upd s.pend g .idle, uses := ⟨g, r, false⟩ :: s.uses }
        | _ => none
    | _, _ => none
  | .block g r =>
    match s.idOf g, s.pend g with
    | some _, .idle =>
      if hasUse s g r then some s
      else if s.top = some r then some { s with uses := ⟨g, r, true⟩ :: s.uses }
      else none
    | _, _ => none
  | .rebind g =>
    match s.idOf g, s.pend g, s.top with
    | some _, .got r, some _ => some { s with top := some r, pend := upd s.pend g .idle }
    | _, _, _ => none

def runTrace (s : State) : List Action → Option State
  | [] => some s
  | a :: as => match step s a with
    | none => none
    | some s' => runTrace s' as

/-- the record used by the last allocation (for the driver) -/
def lastUse (s : State) : Option Use := s.uses.head?

/-- the live goroutine with identity `i` (searching the most recent serial numbers first) -/
def findG (s : State) (i : Id) : Option Gid :=
  ((List.range s.ngid).reverse).find? (fun g => s.idOf g == some i)

/-- owner assertion of one ghost entry: the record is owned by the identity of the goroutine -/
def ownedB (s : State) (u : Use) : Bool :=
  match s.idOf u.g with
  | none => true
  | some i => s.owner u.r == some i

/-- some OTHER live goroutine also uses record `r` -/
def sharedB (s : State) (g : Gid) (r : RunId) : Bool :=
  s.uses.any (fun u => u.r == r && u.g != g && (s.idOf u.g).isSome)

end Gls
