import Model.StmtIR
import Model.C02Arms
import Model.Pow2
/-! # C02Dispatch — hand transcription of the compile-time decisions of an assignment statement

`Comp.Assign -> assign1 -> SetPlace -> SetVar/setVar | setPlace` (fast/assignment.go, the tails of
var_ops.go and place_ops.go) and the prologues (guards and constant shortcuts) of
`var<Op>Const`, `varShl/ShrConst`, `varQuoPow2`, `place<Op>Const`, `placeShl/ShrConst`,
`placeQuoPow2`, `setPlaceShift`, `Comp.IncDec` (fast/statement.go).  The source text of these
functions / their action lists are regenerated into `Gen.C02*` (`...Src`, `...Actions`) and pinned by
the golden obligations of `Proofs/C02Tables.lean`.

The result says which statement closure is appended: none, the side-effects-only closure, or an
arm of a table, named by the function and the path labels that select it, together with the
compile-time store the arm's bindings are evaluated in.  Scope analysis (upn, depth, storage class
of a variable) is an input (`Place.var`), as in C01. -/

namespace C02Dispatch
open GoSpec ClosureIR StmtIR C02Arms

inductive AOp where
  | set | bin (op : BinOp) | inc | dec
  deriving DecidableEq, Repr

inductive Place where
  | var (upn : Nat) (arm : Upn) (ib : Bool)
  | mem          -- pointer target, array/slice element, struct field
  | map
  | blank
  deriving DecidableEq, Repr

inductive Operand where
  | const (c : Val)        -- typed constant (already converted to the place's type / uint64 for a shift count)
  | expr (k : Kind)        -- expression of kind `k`

inductive Compiled where
  | error
  | nop                     -- no statement is appended
  | sideEffects             -- `placeForSideEffects`: the place operands are evaluated, nothing is stored
  | evalRhs                 -- `_ = expr`
  | arm (fn : String) (labels : List String) (st : StmtIR.Store)

/-! ## constants -/

def isZeroF64 (b : BitVec 64) : Bool := (b &&& 0x7FFFFFFFFFFFFFFF#64) == 0#64
def isZeroF32 (b : BitVec 32) : Bool := (b &&& 0x7FFFFFFF#32) == 0#32

/-- `isLiteralNumber(val, n)` for a typed constant and `n ∈ {0, 1, -1}` -/
def isLit (c : Val) (n : Int) : Bool :=
  match c with
  | .int k v => if k.signed then v.toInt == n else v.toNat == (BitVec.ofInt 64 n).toNat
  | .f64 b => if n == 0 then isZeroF64 b else if n == 1 then b == 0x3FF0000000000000#64 else b == 0xBFF0000000000000#64
  | .f32 b => if n == 0 then isZeroF32 b else if n == 1 then b == 0x3F800000#32 else b == 0xBF800000#32
  | .c128 r i => isZeroF64 i && (if n == 0 then isZeroF64 r else if n == 1 then r == 0x3FF0000000000000#64 else r == 0xBFF0000000000000#64)
  | .c64 r i => isZeroF32 i && (if n == 0 then isZeroF32 r else if n == 1 then r == 0x3F800000#32 else r == 0xBF800000#32)
  | _ => false

def isEmptyStr : Val → Bool
  | .str [] => true
  | _ => false

def isIntCat (k : Kind) : Bool := Kind.cat k == .int || Kind.cat k == .uint
def isNumeric (k : Kind) : Bool := k.isNumeric

def oneOf (k : Kind) : Option Val :=
  match k with
  | .float32 => some (.f32 0x3F800000#32) | .float64 => some (.f64 0x3FF0000000000000#64)
  | .complex64 => some (.c64 0x3F800000#32 0#32) | .complex128 => some (.c128 0x3FF0000000000000#64 0#64)
  | k => match k.ikind? with | some ik => some (.int ik (BitVec.ofNat ik.w 1)) | none => none

/-! ## labels -/

def xrLabel : Kind → String
  | .bool => "case xr.Bool" | .int => "case xr.Int" | .int8 => "case xr.Int8" | .int16 => "case xr.Int16"
  | .int32 => "case xr.Int32" | .int64 => "case xr.Int64" | .uint => "case xr.Uint" | .uint8 => "case xr.Uint8"
  | .uint16 => "case xr.Uint16" | .uint32 => "case xr.Uint32" | .uint64 => "case xr.Uint64"
  | .uintptr => "case xr.Uintptr" | .float32 => "case xr.Float32" | .float64 => "case xr.Float64"
  | .complex64 => "case xr.Complex64" | .complex128 => "case xr.Complex128" | .string => "case xr.String"

def catLabel : Cat → String
  | .bool => "case xr.Bool" | .int => "case xr.Int" | .uint => "case xr.Uint" | .float => "case xr.Float64"
  | .complex => "case xr.Complex128" | .string => "case xr.String"

def funLabel (k : Kind) : String := "case func(*Env) " ++ k.name

def upnLabel : Upn → String
  | .u0 => "case 0" | .u1 => "case 1" | .u2 => "case 2" | .file => "case c.Depth - 1" | .loop => "default"

def storLabels (k : Kind) (ib : Bool) : List String :=
  if k == .string then [] else [if ib then "if intbinds" else "not(intbinds)"]

def opFn : BinOp → String
  | .add => "Add" | .sub => "Sub" | .mul => "Mul" | .quo => "Quo" | .rem => "Rem" | .and => "And"
  | .or => "Or" | .xor => "Xor" | .andNot => "Andnot" | .shl => "Shl" | .shr => "Shr" | _ => "?"

/-- kinds on which `var<Op>` / `place<Op>` have arms -/
def hasArm (op : BinOp) (k : Kind) : Bool :=
  match op with
  | .add => k.isNumeric || k == .string
  | .sub | .mul | .quo => k.isNumeric
  | .rem | .and | .or | .xor | .andNot | .shl | .shr => isIntCat k
  | _ => false

/-! ## closures handed to the arms

ids in the evaluation log: 1 = place operand (place closure, or the key closure of a map element),
2 = right-hand side; 0 = an operand without observable evaluation (a plain variable read). -/

structure Ids where
  place : Nat
  rhs : Nat

def absNat (v : BitVec 64) (neg : Bool) : BitVec 64 := if neg then -v else v

/-- `|c|` as uint64 and its sign, as `varQuoPow2`/`placeQuoPow2` compute them -/
def pow2Parts (c : Val) : Option (BitVec 64 × Bool) :=
  match c with
  | .int k v =>
    if k.signed then
      let sy := v.signExtend 64
      if sy.msb then some (-sy, false) else some (sy, true)
    else some (v.setWidth 64, true)
  | _ => none

/-! ## variables -/

def varStore (upn : Nat) : StmtIR.Store := [("va.Upn", .nat upn), ("va.Desc.Index()", .nat 1)]

def varLabels (k : Kind) (u : Upn) (ib : Bool) : List String := [xrLabel k, upnLabel u] ++ storLabels k ib

def varConstArm (fn : String) (k : Kind) (upn : Nat) (u : Upn) (ib : Bool) (c : Val) : Compiled :=
  .arm fn (varLabels k u ib) (("val", .iface c) :: varStore upn)

def varSetZero (k : Kind) (upn : Nat) (u : Upn) (ib : Bool) : Compiled :=
  varConstArm "varSetConst" k upn u ib (Val.zero k)

/-- `varQuoPow2`: `none` = not applicable (the caller compiles the generic division) -/
def varQuoPow2 (k : Kind) (upn : Nat) (u : Upn) (ib : Bool) (c : Val) : Option Compiled :=
  if !ib then none else
  match pow2Parts c with
  | none => none
  | some (y, ypositive) =>
    if !Pow2.isPowerOfTwo y then none else
    let st : StmtIR.Store := [("y", .val (.int ⟨64, false⟩ y)),
      ("integerLen(y)", .val (.int ⟨8, false⟩ (BitVec.ofNat 8 (Pow2.integerLen y))))] ++ varStore upn
    let ls := [xrLabel k, upnLabel u] ++
      (if Kind.cat k == .int then [if ypositive then "if ypositive" else "not(ypositive)"] else [])
    some (.arm "varQuoPow2" ls st)

def varOpConst (op : BinOp) (k : Kind) (upn : Nat) (u : Upn) (ib : Bool) (c : Val) : Compiled :=
  let generic := if hasArm op k then varConstArm ("var" ++ opFn op ++ "Const") k upn u ib c else .error
  match op with
  | .add => if isEmptyStr c || (isIntCat k && isLit c 0) then .nop else generic
  | .sub => if isLit c 0 then .nop else generic
  | .mul =>
    if !isIntCat k then generic
    else if isLit c 0 then varSetZero k upn u ib
    else if isLit c 1 then .nop else generic
  | .quo =>
    if isLit c 0 then .error
    else if isIntCat k && isLit c 1 then .nop
    else if Kind.cat k == .int && isLit c (-1) then
      -- `varMulConst(va, -1)`: -1 is neither 0 nor 1
      (if hasArm .mul k then varConstArm "varMulConst" k upn u ib c else .error)
    else match varQuoPow2 k upn u ib c with
      | some r => r
      | none => generic
  | .rem =>
    if isIntCat k && isLit c 0 then .error
    else if isIntCat k && isLit c 1 then varSetZero k upn u ib else generic
  | .and =>
    if isIntCat k && isLit c (-1) then .nop
    else if isIntCat k && isLit c 0 then varSetZero k upn u ib else generic
  | .or | .xor => if isIntCat k && isLit c 0 then .nop else generic
  | .andNot =>
    if isIntCat k && isLit c (-1) then varSetZero k upn u ib
    else if isIntCat k && isLit c 0 then .nop else generic
  | _ => .error

/-- `setVar` and what it calls -/
def compileVar (aop : AOp) (k : Kind) (upn : Nat) (u : Upn) (ib : Bool) (rhs : Operand) (ids : Ids)
    (ry : Outcome Val) : Compiled :=
  match aop, rhs with
  | .set, .const c => varConstArm "varSetConst" k upn u ib c
  | .set, .expr _ => .arm "varSetExpr" (varLabels k u ib) (("e.Fun", .clo k ids.rhs ry) :: varStore upn)
  | .bin op, .const c =>
    if op.isShift then
      -- setVar: the shifted operand must be an integer; `varShlConst`: a zero count is a no-op
      (if !isIntCat k then .error
       else if isLit c 0 then .nop
       else if isIntCat k then .arm ("var" ++ opFn op ++ "Const") (varLabels k u ib)
              (("ival", .iface c) :: ("constAsUint64(ival)", .pair (.val c) (.val (.bool true))) :: varStore upn)
       else .error)
    else varOpConst op k upn u ib c
  | .bin op, .expr _ =>
    if !hasArm op k then .error
    else if op.isShift then
      .arm ("var" ++ opFn op ++ "Expr") (varLabels k u ib) (("e.AsUint64()", .clo .uint64 ids.rhs ry) :: varStore upn)
    else .arm ("var" ++ opFn op ++ "Expr") ([funLabel k, upnLabel u] ++ storLabels k ib) (("fun", .clo k ids.rhs ry) :: varStore upn)
  | _, _ => .error

/-! ## non-variable places -/

def memFun (ids : Ids) : SV := .cloRef ids.place (.cell 1)

def placeStore (k : Kind) (isMap : Bool) (ids : Ids) : StmtIR.Store :=
  [("place.Fun", if isMap then .cloMap 0 0 else memFun ids),
   ("place.Type", .rtype k), ("t.ReflectType()", .rtype k), ("place.Type.ReflectType()", .rtype k), ("nil", .nat 0)] ++
  (if isMap then [("place.MapKey", .cloKey ids.place [0x6b])] else [])

def keyLabel (isMap : Bool) : String := if isMap then "not(keyfun == nil)" else "if keyfun == nil"

def placeConstArm (op : BinOp) (k : Kind) (isMap : Bool) (ids : Ids) (c : Val) : Compiled :=
  .arm ("place" ++ opFn op ++ "Const")
    (if isMap then [keyLabel true, xrLabel k] else [keyLabel false, catLabel (Kind.cat k)])
    (("val", .iface c) :: placeStore k isMap ids)

def placeSetConst (k : Kind) (isMap : Bool) (ids : Ids) (c : Val) : Compiled :=
  .arm "placeSetConst" (if isMap then ["if mapkey != nil"] else ["not(mapkey != nil)", catLabel (Kind.cat k)])
    (("val", .iface c) :: placeStore k isMap ids)

def placeQuoPow2 (k : Kind) (isMap : Bool) (ids : Ids) (c : Val) : Option Compiled :=
  match pow2Parts c with
  | none => none
  | some (y, ypositive) =>
    if !Pow2.isPowerOfTwo y then none
    else if !ypositive then none
    else
      let st : StmtIR.Store := [("y", .val (.int ⟨64, false⟩ y)),
        ("integerLen(y)", .val (.int ⟨8, false⟩ (BitVec.ofNat 8 (Pow2.integerLen y)))),
        ("roundup", .val (.int ⟨64, true⟩ (if Kind.cat k == .int then y - 1#64 else 0#64)))] ++ placeStore k isMap ids
      some (.arm "placeQuoPow2" [keyLabel isMap, catLabel (Kind.cat k)] st)

def placeOpConst (op : BinOp) (k : Kind) (isMap : Bool) (ids : Ids) (c : Val) : Compiled :=
  let generic := if hasArm op k then placeConstArm op k isMap ids c else .error
  let zero := placeSetConst k isMap ids (Val.zero k)
  match op with
  | .add => if isEmptyStr c || (isIntCat k && isLit c 0) then .sideEffects else generic
  | .sub => if isLit c 0 then .sideEffects else generic
  | .mul =>
    if !isIntCat k then generic
    else if isLit c 0 then zero
    else if isLit c 1 then .sideEffects else generic
  | .quo =>
    if isLit c 0 then .error
    else if isIntCat k && isLit c 1 then .sideEffects
    else if !isIntCat k then generic
    else match placeQuoPow2 k isMap ids c with
      | some r => r
      | none => generic
  | .rem =>
    if isIntCat k && isLit c 0 then .error
    else if isIntCat k && isLit c 1 then zero else generic
  | .and =>
    if isIntCat k && isLit c (-1) then .sideEffects
    else if isIntCat k && isLit c 0 then zero else generic
  | .or | .xor => if isIntCat k && isLit c 0 then .sideEffects else generic
  | .andNot =>
    if isIntCat k && isLit c (-1) then zero
    else if isIntCat k && isLit c 0 then .sideEffects else generic
  | _ => .error

/-- `setPlace` (place is not a variable) and what it calls -/
def compilePlace (aop : AOp) (k : Kind) (isMap : Bool) (rhs : Operand) (ids : Ids) (ry : Outcome Val) : Compiled :=
  match aop, rhs with
  | .set, .const c => placeSetConst k isMap ids c
  | .set, .expr _ =>
    .arm "placeSetExpr" (if isMap then ["if mapkey != nil"] else ["not(mapkey != nil)", xrLabel k])
      (("fun", .clo k ids.rhs ry) :: placeStore k isMap ids)
  | .bin op, .const c =>
    if op.isShift then
      -- setPlaceShift: the place must be an integer; placeShl/ShrConst: a zero count only evaluates the place
      (if !isIntCat k then .error
       else if isLit c 0 then .sideEffects
       else .arm ("place" ++ opFn op ++ "Const") [keyLabel isMap, catLabel (Kind.cat k)] (("val", .iface c) :: placeStore k isMap ids))
    else placeOpConst op k isMap ids c
  | .bin op, .expr _ =>
    if !hasArm op k then .error
    else if op.isShift then
      .arm ("place" ++ opFn op ++ "Expr") [keyLabel isMap, catLabel (Kind.cat k), funLabel .uint64]
        (("fun", .clo .uint64 ids.rhs ry) :: placeStore k isMap ids)
    else .arm ("place" ++ opFn op ++ "Expr") [keyLabel isMap, funLabel k] (("fun", .clo k ids.rhs ry) :: placeStore k isMap ids)
  | _, _ => .error

/-- `Comp.IncDec` + `Comp.SetPlace`: `x++` is `x += 1` with the untyped constant 1 -/
def compile (aop : AOp) (k : Kind) (pl : Place) (rhs : Operand) (ids : Ids) (ry : Outcome Val) : Compiled :=
  let (aop, rhs) : AOp × Option Operand :=
    match aop with
    | .inc => (.bin .add, (oneOf k).map .const)
    | .dec => (.bin .sub, (oneOf k).map .const)
    | a => (a, some rhs)
  match rhs with
  | none => .error        -- IncDec on a non-numeric type
  | some rhs =>
    match pl with
    | .blank =>
      (match aop, rhs with
       | .set, .const _ => .nop
       | .set, .expr _ => .evalRhs
       | _, _ => .error)
    | .var upn u ib => compileVar aop k upn u ib rhs ids ry
    | .mem => compilePlace aop k false rhs ids ry
    | .map => compilePlace aop k true rhs ids ry

/-- find the arm: the entry of function `fn` whose path carries all `labels` -/
def findArm (tables : List SEntry) (fn : String) (labels : List String) : Option SEntry :=
  tables.find? (fun e => e.fn == fn && labels.all (fun l => e.path.contains l))

end C02Dispatch
