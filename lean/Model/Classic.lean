import Model.Flow
import Model.ClassicOps
/-!
# Model/Classic.lean — statement evaluation of gomacro's `classic` interpreter (property C38)

The classic interpreter walks the AST; there is no compilation step.  Control transfers are Go panics
carrying a control value, caught by `recover()` in deferred functions at the statements that own them.

Transcribed code (cosmos72/gomacro, package classic):

* `statement.go`: `evalStatements` (a panic raised by a statement skips the rest of the list), `evalBlock`,
  `evalStatement` (dispatch; case `*ast.LabeledStmt`), `evalBranch` (`panic(eBreak{label})`,
  `panic(eContinue{label})`, `env.Errorf("unimplemented: goto")`), `evalIf`, `evalReturn` (`panic(eReturn{..})`),
  and `evalLabeled` + `labelMatches` of the repaired tree (fixes/C38-labeled-statements.diff);
* `for.go`: `evalFor`, `evalForRangeSlice`, `evalForRangeString` (both the `:=` and the `=` form),
  `evalForBodyOnce` (the deferred function turning eBreak / eContinue into the loop decision `cont`);
* `switch.go`: `evalSwitch` (first loop: scan for the first matching clause, remembering `default_i`;
  second loop from `default_i`), `caseMatches`, `evalCaseBody` (strips a trailing `fallthrough`,
  catches eBreak).

Transcription rules / abstractions

* A Go panic in flight carrying eBreak{l} / eContinue{l} / eReturn is the result `.ok (.brk l) st` /
  `.ok (.cont l) st` / `.ok .ret st` (the same `Flow.Outcome` type as the reference semantics, so the two can
  be compared with `=`); `.ok .normal st` = the Go function returned.  The panic raised by `env.Errorf`
  (`unimplemented: goto`, `misplaced case`) is `.ok (.goto l) st`: it propagates like the others and nothing
  in the classic interpreter catches it.
* `recover()` + `panic(rec)` in a deferred function = pattern match on the result and re-raise.
* `cfg.rangeNoVars = false` is the ORIGINAL tree: `for range x { }` (no iteration variables) never runs its body.
* `cfg.labels = false` is the ORIGINAL tree: `case *ast.LabeledStmt: stmt = node; goto again` never
  terminates (`.timeout` for every fuel), and the catchers ignore the label of eBreak / eContinue.
* Statements, expressions, state (`St` = frame stack + emit trace) and by-name lookup are those of
  Model/Flow.lean.  SCOPES: the classic interpreter allocates a fresh `Env` for every non-empty block, case
  body and `if`/`for`/`switch` with an init statement; an `Env` without bindings is invisible to by-name
  lookup (its `Binds` map is never created), so the model materialises a frame only for scopes that declare
  something (`hasDefs`), exactly like the reference semantics.  This abstraction is validated by the
  correspondence run (shadowing programs), not proved.
* Fuel: one unit per nested construct and per loop iteration, at the same places as `Flow.Ref` so that
  the equivalence theorem can be stated with `=` on the results, time-outs included.
* Outside the model: closures capturing loop variables, function calls, defer (harness/c38.go compares
  those with compiled Go only; defer call trees additionally with the specification `Defer.Host`).
-/

namespace Classic
open Flow

/-- decision of `evalForBodyOnce`: go on with the loop (`cont = true`), leave it (`cont = false`), or a
    panic that is not for this loop propagates -/
inductive Step where
  | next (st : St)
  | stop (st : St)
  | raise (r : XRes)

/-- the deferred function of `evalForBodyOnce(body, labels)` applied to the way the body ended -/
def catchLoop (c : Cfg) (ls : List Label) : XRes → Step
  | .ok .normal st => .next st
  | .ok (.brk l) st => if !c.labels || labelIn l ls then .stop st else .raise (.ok (.brk l) st)
  | .ok (.cont l) st => if !c.labels || labelIn l ls then .next st else .raise (.ok (.cont l) st)
  | r => .raise r

/-- one iteration of the loop of `caseMatches`: `v := env.evalExpr1(expr)` (with its side effect, the emit of
    a `g(tag, e)` call), then `v.Interface() == i` -/
def evalGuard (tagv : Int) (st : St) : Guard → Bool × St
  | .val e => (decide (e.eval st.stack = tagv), st)
  | .cond c => (c.eval st.stack, st)
  | .eff t e => (decide (e.eval st.stack = tagv), st.emit t e)

/-- `caseMatches(tag, case_.List)`: the expressions are evaluated in order, `return true` at the first one
    that equals the tag (the remaining ones are not evaluated) -/
def caseMatches (tagv : Int) (st : St) : List Guard → Bool × St
  | [] => (false, st)
  | g :: r =>
    let m := evalGuard tagv st g
    if m.1 then (true, m.2) else caseMatches tagv m.2 r

/-- first loop of `evalSwitch` up to the first clause that matches (`default:` clauses are skipped);
    the state carries the side effects of all case expressions evaluated on the way -/
def pickCase (tagv : Int) (st : St) : Stmt → Option Stmt × St
  | .clause (some gs) ft body rest =>
    let r := caseMatches tagv st gs
    if r.1 then (some (.clause (some gs) ft body rest), r.2) else pickCase tagv r.2 rest
  | .clause none _ _ rest => pickCase tagv st rest
  | _ => (none, st)

/-- `default_i` after the first loop found no match: the LAST `default:` clause of the list -/
def pickDefault (acc : Option Stmt) : Stmt → Option Stmt
  | .clause none ft body rest => pickDefault (some (.clause none ft body rest)) rest
  | .clause (some _) _ _ rest => pickDefault acc rest
  | _ => acc

mutual
/-- `evalStatement` -/
def exec (c : Cfg) : Nat → Stmt → St → XRes
  | 0, _, _ => .timeout
  | n + 1, s, st =>
    match s with
    | .skip => .ok .normal st
    | .seq a b =>                       -- evalStatements
      match exec c n a st with
      | .ok .normal st1 => exec c n b st1
      | r => r
    | .emit t e => .ok .normal (st.emit t e)
    | .assign x e => .ok .normal (st.assign x e)
    | .define x e => .ok .normal (st.define x e)
    | .block b => execBlock c n b st
    | .ite init cnd thn els =>          -- evalIf
      let loc := hasDefs init
      match exec c n init (st.pushIf loc) with
      | .ok .normal st2 =>
        match (if cnd.eval st2.stack then execBlock c n thn st2 else exec c n els st2) with
        | .ok o st3 => .ok o (st3.popIf loc)
        | .timeout => .timeout
      | .ok o st2 => .ok o (st2.popIf loc)
      | .timeout => .timeout
    | .for ls init cnd post body =>     -- [evalLabeled ->] evalFor
      if !c.labels && !ls.isEmpty then .timeout
      else
        let loc := hasDefs init
        match exec c n init (st.pushIf loc) with
        | .ok .normal st2 =>
          match execFor c n ls cnd post body st2 with
          | .ok o st3 => .ok o (st3.popIf loc)
          | .timeout => .timeout
        | .ok o st2 => .ok o (st2.popIf loc)
        | .timeout => .timeout
    | .brk l => .ok (.brk l) st          -- panic(eBreak{label})
    | .cont l => .ok (.cont l) st        -- panic(eContinue{label})
    | .ret => .ok .ret st                -- panic(eReturn{})
    | .labeled l s =>                    -- a labelled statement that is not a loop / switch
      if !c.labels then .timeout
      else
        match exec c n s st with
        | .ok (.brk (some l')) st1 => if l' == l then .ok .normal st1 else .ok (.brk (some l')) st1
        | r => r
    | .goto l => .ok (.goto l) st        -- env.Errorf("unimplemented: goto")
    | .range ls _ dfn key val keys vals body =>   -- [evalLabeled ->] evalForRange -> evalForRangeSlice/String
      if !c.labels && !ls.isEmpty then .timeout
      else if !c.rangeNoVars && key.isNone && val.isNone then
        -- `for range x {}`: node.Tok is token.ILLEGAL, neither `case token.DEFINE` nor `case token.ASSIGN`
        .ok .normal st
      else
        let sc := dfn && (key.isSome || val.isSome)
        let st1 := st.pushIf sc
        let st2 := match key with
          | some k => if dfn then st1.define k (.lit 0) else st1
          | none => st1
        let st3 := match val with
          | some v => if dfn then st2.define v (.lit 0) else st2
          | none => st2
        match execRange c n ls key val keys vals body 0 st3 with
        | .ok o st4 => .ok o (st4.popIf sc)
        | .timeout => .timeout
    | .switch ls init tag cls =>         -- [evalLabeled ->] evalSwitch
      if !c.labels && !ls.isEmpty then .timeout
      else
        let loc := hasDefs init
        match exec c n init (st.pushIf loc) with
        | .ok .normal st2 =>
          let tagv : Int := match tag with
            | some e => e.eval st2.stack
            | none => 0
          let r := pickCase tagv st2 cls
          let start := match r.1 with
            | some cl => some cl                       -- first loop found a match
            | none => pickDefault none cls             -- second loop starts at default_i
          match start with
          | none => .ok .normal (r.2.popIf loc)
          | some cl =>
            match execCases c n ls cl r.2 with
            | .ok o st3 => .ok o (st3.popIf loc)
            | .timeout => .timeout
        | .ok o st2 => .ok o (st2.popIf loc)
        | .timeout => .timeout
    | .clause _ _ _ _ => .ok (.goto 0) st   -- env.Errorf("misplaced case")

/-- `evalBlock` -/
def execBlock (c : Cfg) : Nat → Stmt → St → XRes
  | 0, _, _ => .timeout
  | n + 1, b, st =>
    let loc := hasDefs b
    match n with
    | 0 => .timeout
    | m + 1 =>
      match exec c m b (st.pushIf loc) with
      | .ok o st' => .ok o (st'.popIf loc)
      | .timeout => .timeout

/-- the loop of `evalFor` (init already executed) -/
def execFor (c : Cfg) : Nat → List Label → Option Cond → Stmt → Stmt → St → XRes
  | 0, _, _, _, _, _ => .timeout
  | n + 1, ls, cnd, post, body, st =>
    if loopGo cnd st.stack then
      match catchLoop c ls (execBlock c n body st) with
      | .next st1 =>
        match exec c n post st1 with
        | .ok .normal st2 => execFor c n ls cnd post body st2
        | r => r
      | .stop st1 => .ok .normal st1
      | .raise r => r
    else .ok .normal st

/-- the loop of `evalForRangeSlice` / `evalForRangeString` -/
def execRange (c : Cfg) : Nat → List Label → Option Var → Option Var → List Int → List Int → Stmt → Nat → St → XRes
  | 0, _, _, _, _, _, _, _, _ => .timeout
  | n + 1, ls, key, val, keys, vals, body, i, st =>
    if i < keys.length then
      let st1 := match key with
        | some k => st.assign k (.lit (keys.getD i 0))
        | none => st
      let st2 := match val with
        | some v => st1.assign v (.lit (vals.getD i 0))
        | none => st1
      match catchLoop c ls (execBlock c n body st2) with
      | .next st3 => execRange c n ls key val keys vals body (i + 1) st3
      | .stop st3 => .ok .normal st3
      | .raise r => r
    else .ok .normal st

/-- `evalCaseBody` of the selected clause and, while `isFallthrough`, of the following ones -/
def execCases (c : Cfg) : Nat → List Label → Stmt → St → XRes
  | 0, _, _, _ => .timeout
  | n + 1, ls, cl, st =>
    match cl with
    | .clause _ ft body rest =>
      match execBlock c n body st with
      | .ok .normal st1 => if ft then execCases c n ls rest st1 else .ok .normal st1
      | .ok (.brk l) st1 =>      -- case eBreak: ret, rets, isFallthrough = NoneR, nil, false
        if !c.labels || labelIn l ls then .ok .normal st1 else .ok (.brk l) st1
      | r => r
    | _ => .ok .normal st
end

/-- a function body: `evalFuncCall` turns eReturn into the results; other control panics escape -/
def run (c : Cfg) (s : Stmt) (fuel : Nat) (frame : Frame) : Res :=
  match exec c fuel s ⟨[frame], []⟩ with
  | .ok .normal st => finalOf st
  | .ok .ret st => finalOf st
  | .ok _ _ => .stuck
  | .timeout => .timeout

/-- does the program contain a label (syntactically)? -/
def hasLabels : Stmt → Bool
  | .seq a b => hasLabels a || hasLabels b
  | .block b => hasLabels b
  | .ite i _ t e => hasLabels i || hasLabels t || hasLabels e
  | .for ls i _ p b => !ls.isEmpty || hasLabels i || hasLabels p || hasLabels b
  | .brk l => l.isSome
  | .cont l => l.isSome
  | .labeled _ _ => true
  | .goto _ => true
  | .range ls _ _ _ _ _ _ b => !ls.isEmpty || hasLabels b
  | .switch ls i _ cls => !ls.isEmpty || hasLabels i || hasLabels cls
  | .clause _ _ b r => hasLabels b || hasLabels r
  | _ => false

end Classic
