/-
Model of the gomacro patch on go/scanner: go/scanner/scanner.go `Scanner.Scan` (fork of go1.13
go/scanner; the patch is kept in go/scanner/scanner_1.13_gomacro.diff) and go/etoken/token.go
`Lookup` / `LookupSpecial`.

Shape of the model
* `St`  = the mutable scanning state of `Scanner` (`ch`, `offset`, `rdOffset`, `insertSemi`) plus the
  list of error-handler calls `(offset, message)` (so `ErrorCount = errs.length`).
* `Base` = the UNPATCHED parts of the scanner as parameters: `next`, `skipWhitespace`, `isLetter`,
  the number test, `scanIdentifier`, `scanNumber`, `token.Lookup`, `findLineEnd`, `scanComment`,
  every arm of the inner `switch ch` that the patch does not touch (`plainArm`: the arms before
  `case s.macroChar`; `lateArm`: the arms after it, i.e. `case '~'`), the error reporting of the
  `default` arm, and the string formatting used by the patched arms.  The theorems quantify over
  EVERY `Base`; `Model/ScanMini.lean` instantiates it with an executable scanner of a sub-language
  for the correspondence run.
* `scan B P cfg` = `Scanner.Scan` transcribed once, with the three places the patch touches as the
  record `P : Patch`: the keyword lookup of the identifier arm, the `'/'` arm (case labels + body),
  and the extra arm `case s.macroChar`.  `basePatch` is go1.13 (`token.Lookup`, `case '/'`, no extra
  arm), `forkPatch` is the code in /repo (`etoken.Lookup`, `case '/', '#'`, `case s.macroChar`),
  each transcribed statement by statement from scanner.go / the .diff.

Transcription rules
* runes are `Int` (`-1` = eof), offsets are `Nat`, tokens are the strings printed by
  `etoken.String` ("IDENT", "+=", "func", "~quote", "#", ...).
* `goto scanAgain` (comment skipped when ScanComments is off) is a recursive call; because an
  arbitrary `Base` need not make progress, `scan` takes fuel (the driver passes `len(src)+2`).
* the inner switch is evaluated in the order `-1`, `'\n'`, the `'/'` arm, `plainArm`, the extra arm,
  `lateArm`, `default`.  In the Go source the `'/'` arm sits between plain arms; since all their
  labels are distinct constants the order among them is immaterial, while `case s.macroChar`
  (non-constant, after `'|'`, before `'~'`) keeps its place.
* `s.insertSemi && s.findLineEnd()` short-circuits: `findLineEnd` (which rewinds the state in a
  deferred function) is only run when `insertSemi` is set.
* direct field writes of the patched arm (`s.ch = '/'`, `s.offset = ...`) are record updates.
-/
namespace ScanDelta

abbrev Tok := String

/-- rune of a character literal -/
def r (c : Char) : Int := Int.ofNat c.toNat

structure St where
  ch : Int
  off : Nat
  rd : Nat
  insertSemi : Bool
  errs : List (Nat × String)
deriving Repr, DecidableEq, Inhabited

structure Cfg where
  macroChar : Int
  genericsV1 : Bool        -- etoken.GENERICS == etoken.GENERICS_V1_CXX
  scanComments : Bool      -- mode&ScanComments != 0
  dontInsertSemis : Bool   -- mode&dontInsertSemis != 0
deriving Repr, DecidableEq

/-- the unpatched parts of the scanner -/
structure Base where
  next : St → St
  skipWhitespace : St → St
  isLetter : Int → Bool
  isNumberStart : St → Bool                      -- isDecimal(ch) || ch == '.' && isDecimal(rune(s.peek()))
  scanIdentifier : St → String × St
  scanNumber : St → Tok × String × St
  lookup : String → Tok                          -- token.Lookup
  findLineEnd : St → Bool × St
  scanComment : St → String × St
  plainArm : Int → St → Option (Tok × String × Bool × St)   -- (tok, lit, insertSemi, state); state argument is after s.next()
  lateArm : Int → St → Option (Tok × String × Bool × St)
  reportIllegal : Int → Nat → St → St            -- the error reporting of the default arm
  error : Nat → String → St → St                 -- s.error(offs, msg)
  charStr : Int → String                         -- string(ch)
  illegalMsg : Int → String                      -- fmt.Sprintf("illegal character %#U", ch)
  macroMsg : Int → String → String               -- fmt.Sprintf("expecting macro-related keyword after '%c', found '%c%s'", mc, mc, lit)

/-- one call of `Scan` -/
structure Step where
  pos : Nat
  tok : Tok
  lit : String
  st : St
deriving Repr, DecidableEq

/-- how an arm of the inner switch ends -/
inductive Arm where
  | ret (tok : Tok) (lit : String) (st : St)                        -- `return pos, tok, lit`
  | again (st : St)                                                 -- `goto scanAgain`
  | tok (tok : Tok) (lit : String) (insertSemi : Bool) (st : St)    -- falls through to the end of Scan
deriving Repr, DecidableEq

/-- the three places touched by the gomacro patch -/
structure Patch where
  lookup : String → Tok
  isSlashLike : Int → Bool
  slashArm : Int → Nat → St → Arm
  extraArm : Int → Nat → St → Option Arm

/-- `switch2` -/
def switch2 (B : Base) (tok0 tok1 : Tok) (s : St) : Tok × St :=
  if s.ch == r '=' then (tok1, B.next s) else (tok0, s)

/-- end of `Scan`: `if s.mode&dontInsertSemis == 0 { s.insertSemi = insertSemi }; return` -/
def finish (c : Cfg) (pos : Nat) (tok : Tok) (lit : String) (insertSemi : Bool) (s : St) : Step :=
  ⟨pos, tok, lit, if c.dontInsertSemis then s else { s with insertSemi := insertSemi }⟩

/-- identifier arm: tokens after which a newline becomes a semicolon -/
def semiAfterWord (tok : Tok) : Bool :=
  tok == "IDENT" || tok == "break" || tok == "continue" || tok == "fallthrough" || tok == "return"

/-- `Scanner.Scan` with the patch points abstracted -/
def scan (B : Base) (P : Patch) (c : Cfg) : Nat → St → Step
  | 0, s => ⟨s.off, "EOF", "", s⟩
  | fuel + 1, s0 =>
    let s := B.skipWhitespace s0
    let pos := s.off
    let ch := s.ch
    if B.isLetter ch then
      let (lit, s) := B.scanIdentifier s
      if lit.utf8ByteSize > 1 then
        let tok := P.lookup lit
        finish c pos tok lit (semiAfterWord tok) s
      else
        finish c pos "IDENT" lit true s
    else if B.isNumberStart s then
      let (tok, lit, s) := B.scanNumber s
      finish c pos tok lit true s
    else
      let s := B.next s
      if ch == -1 then
        if s.insertSemi then ⟨pos, ";", "\n", { s with insertSemi := false }⟩
        else finish c pos "EOF" "" false s
      else if ch == r '\n' then
        ⟨pos, ";", "\n", { s with insertSemi := false }⟩
      else
        let arm : Arm :=
          if P.isSlashLike ch then P.slashArm ch pos s
          else match B.plainArm ch s with
            | some (tok, lit, ins, s) => .tok tok lit ins s
            | none =>
              match P.extraArm ch pos s with
              | some a => a
              | none =>
                match B.lateArm ch s with
                | some (tok, lit, ins, s) => .tok tok lit ins s
                | none =>
                  let s := B.reportIllegal ch pos s
                  .tok "ILLEGAL" (B.charStr ch) s.insertSemi s
        match arm with
        | .ret tok lit s => ⟨pos, tok, lit, s⟩
        | .again s => scan B P c fuel s
        | .tok tok lit ins s => finish c pos tok lit ins s

/-! ## go1.13: the unpatched arms -/

/-- the comment part shared by both `'/'` arms (text after the `if` of the arm):
```
if s.insertSemi && s.findLineEnd() { s.ch = '/'; s.offset = s.file.Offset(pos); s.rdOffset = s.offset + 1
                                     s.insertSemi = false; return pos, token.SEMICOLON, "\n" }
comment := s.scanComment()
if s.mode&ScanComments == 0 { goto scanAgain }
insertSemi = s.insertSemi; tok = token.COMMENT; lit = comment
``` -/
def commentPart (B : Base) (c : Cfg) (pos : Nat) (s : St) : Arm :=
  let (semi, s) := if s.insertSemi then B.findLineEnd s else (false, s)
  if semi then
    .ret ";" "\n" { s with ch := r '/', off := pos, rd := pos + 1, insertSemi := false }
  else
    let (comment, s) := B.scanComment s
    if !c.scanComments then .again s
    else .tok "COMMENT" comment s.insertSemi s

/-- go1.13 `case '/':` -/
def baseSlashArm (B : Base) (c : Cfg) (_ch : Int) (pos : Nat) (s : St) : Arm :=
  if s.ch == r '/' || s.ch == r '*' then commentPart B c pos s
  else
    let (tok, s) := switch2 B "/" "/=" s
    .tok tok "" false s

def basePatch (B : Base) (c : Cfg) : Patch where
  lookup := B.lookup
  isSlashLike := fun ch => ch == r '/'
  slashArm := baseSlashArm B c
  extraArm := fun _ _ _ => none

/-! ## the gomacro patch -/

/-- go/etoken/token.go `Lookup` -/
def etokenLookup (genericsV1 : Bool) (std : String → Tok) (lit : String) : Tok :=
  if lit == "macro" then "~macro"
  else if genericsV1 && lit == "template" then "template"
  else if lit == "#" then "#"
  else std lit

/-- go/etoken/token.go `LookupSpecial`: the `keywords` map built in `init()`; a missing key yields the
    zero Token = ILLEGAL -/
def specialTable : List (String × Tok) :=
  [("func", "~func"), ("lambda", "~lambda"), ("macro", "~macro"), ("quasiquote", "~quasiquote"), ("quote", "~quote"),
   ("typecase", "~typecase"), ("unquote", "~unquote"), ("unquote_splice", "~unquote_splice")]

def lookupSpecial (lit : String) : Tok :=
  match specialTable.lookup lit with
  | some t => t
  | none => "ILLEGAL"

/-- scanner.go `case '/', '#':` -/
def forkSlashArm (B : Base) (c : Cfg) (ch : Int) (pos : Nat) (s : St) : Arm :=
  if (ch == r '/' && (s.ch == r '/' || s.ch == r '*')) || (ch == r '#' && s.ch == r '!') then
    -- accept both #! and // as line comments
    let s := if s.ch == r '!' then { s with ch := r '/' } else s
    commentPart B c pos s
  else if ch == r '/' then
    let (tok, s) := switch2 B "/" "/=" s
    .tok tok "" false s
  else if ch == r '#' then
    .tok "#" "" false s
  else
    -- unreachable in Go as well (the case labels are '/' and '#'); transcribed as written
    let s := B.error pos (B.illegalMsg ch) s
    let (tok, s') := switch2 B "/" "/=" s
    .tok tok (B.charStr ch) s.insertSemi s'

/-- scanner.go `case s.macroChar:` (body) -/
def macroArm (B : Base) (c : Cfg) (pos : Nat) (s : St) : Arm :=
  if s.ch == r '\'' then .tok "~quote" "" false (B.next s)
  else if s.ch == r '`' || s.ch == r '"' then .tok "~quasiquote" "" false (B.next s)
  else if s.ch == r ',' then
    let s := B.next s
    if s.ch == r '@' then .tok "~unquote_splice" "" false (B.next s)
    else .tok "~unquote" "" false s
  else
    let (lit, s) := B.scanIdentifier s
    let tok := lookupSpecial lit
    if tok == "ILLEGAL" then
      let s := B.error pos (B.macroMsg c.macroChar lit) s
      .tok tok lit s.insertSemi s
    else .tok tok lit false s

def forkPatch (B : Base) (c : Cfg) : Patch where
  lookup := etokenLookup c.genericsV1 B.lookup
  isSlashLike := fun ch => ch == r '/' || ch == r '#'
  slashArm := forkSlashArm B c
  extraArm := fun ch pos s => if ch == c.macroChar then some (macroArm B c pos s) else none

def scanBase (B : Base) (c : Cfg) : Nat → St → Step := scan B (basePatch B c) c
def scanFork (B : Base) (c : Cfg) : Nat → St → Step := scan B (forkPatch B c) c

/-! ## token streams -/

/-- `n` consecutive calls of `Scan`: the tokens `(pos, tok, lit)` and the final state
    (`errs` of the final state = all error-handler calls) -/
def run (scanf : Nat → St → Step) (fuel : Nat) : Nat → St → List (Nat × Tok × String) × St
  | 0, s => ([], s)
  | n + 1, s =>
    let st := scanf fuel s
    let (l, s') := run scanf fuel n st.st
    ((st.pos, st.tok, st.lit) :: l, s')

/-! ## extension-freeness, stated on the run of the BASE scanner -/

/-- words for which `etoken.Lookup` differs from `token.Lookup` -/
def isExtWord (c : Cfg) (lit : String) : Bool :=
  lit == "macro" || (c.genericsV1 && lit == "template") || lit == "#"

/-- the macro character never reaches `case s.macroChar` when an earlier case of the switch takes it -/
def shadowed (B : Base) (ch : Int) (sNext : St) : Bool :=
  ch == -1 || ch == r '\n' || ch == r '/' || (B.plainArm ch sNext).isSome

/-- The token that starts at state `s` (before `skipWhitespace`) uses no extension: it is not an
    identifier spelled like an extension keyword, does not start with `'#'`, and does not start with
    the macro character (unless an unpatched arm takes that character anyway). -/
def safeAt (B : Base) (c : Cfg) (s0 : St) : Bool :=
  let s := B.skipWhitespace s0
  if B.isLetter s.ch then !isExtWord c (B.scanIdentifier s).1
  else if B.isNumberStart s then true
  else s.ch != r '#' && (s.ch != c.macroChar || shadowed B s.ch (B.next s))

/-- state at which the BASE scanner restarts (`goto scanAgain`) after skipping a comment, if it does -/
def againTarget (B : Base) (c : Cfg) (s0 : St) : Option St :=
  let s := B.skipWhitespace s0
  if B.isLetter s.ch || B.isNumberStart s || s.ch == -1 || s.ch == r '\n' || s.ch != r '/' then none
  else match baseSlashArm B c s.ch s.off (B.next s) with
    | .again s' => some s'
    | _ => none

/-- `safeAt` at the entry of one `Scan` call and at every restart after a skipped comment -/
def safeScan (B : Base) (c : Cfg) : Nat → St → Bool
  | 0, _ => true
  | fuel + 1, s =>
    safeAt B c s &&
      match againTarget B c s with
      | some s' => safeScan B c fuel s'
      | none => true

/-- `safeScan` along `n` calls of the base scanner -/
def safeRun (B : Base) (c : Cfg) (fuel : Nat) : Nat → St → Bool
  | 0, _ => true
  | n + 1, s => safeScan B c fuel s && safeRun B c fuel n (scanBase B c fuel s).st

/-! ## semiBack: Go >= 1.20 stream -> go1.13 stream

Go 1.20 (CL 429635) changed where go/scanner puts an automatically inserted semicolon when comments
follow the last token of a line: behind the comments, at the position of the newline / EOF
(before: in front of the comments, at the position of the first comment).  `semiBack` maps the new
order back.  It is the only normalisation the Go-side oracle applies to the reference stream. -/

inductive Kind where
  | tok       -- any token other than the three below
  | comment
  | autoSemi  -- SEMICOLON with literal "\n"
  | semi      -- SEMICOLON with literal ";"
deriving Repr, DecidableEq

structure Tk where
  kind : Kind
  pos : Nat
deriving Repr, DecidableEq

/-- `pend` = the run of comments that ends at the current position (already emitted in the Go
    implementation, still movable).  An automatic semicolon is placed in front of it. -/
def semiBackAux : List Tk → List Tk → List Tk
  | [], pend => pend
  | t :: rest, pend =>
    match t.kind with
    | .comment => semiBackAux rest (pend ++ [t])
    | .autoSemi =>
      match pend with
      | [] => t :: semiBackAux rest []
      | c :: _ => { t with pos := c.pos } :: semiBackAux rest pend
    | _ => pend ++ t :: semiBackAux rest []

def semiBack (l : List Tk) : List Tk := semiBackAux l []

def dropComments (l : List Tk) : List Tk := l.filter (fun t => t.kind != .comment)
def comments (l : List Tk) : List Tk := l.filter (fun t => t.kind == .comment)

/-- position erased for automatic semicolons -/
def erasePos (t : Tk) : Tk := if t.kind == .autoSemi then { t with pos := 0 } else t

end ScanDelta
