/-!
# Model of gomacro's macro expansion phase (property C20)

Transcribes, branch by branch,

* `fast/macroexpand.go`: `Comp.macroExpandCodewalk(in, quasiquoteDepth)`, `Comp.MacroExpand`,
  `Comp.MacroExpand1`, `Comp.extractMacroCall`
  (`classic/macroexpand.go` is the same code over `*Env`);
* `base/quasiquote.go`: `unwrapTrivialAst2` (`UnwrapTrivialAst`, `UnwrapTrivialAstKeepBlocks`), `MakeQuote2`;
* `go/parser/quote.go`: `MakeQuote`;
* `ast2/unwrap.go`: the conversions `ToNode ToStmt ToExpr ToBlockStmt ToExprSlice ToStmtSlice
  ToIdentSlice ToIdent ToDecl ToSpec ToField ToFieldList ToFuncType ToCallExpr ToBasicLit
  BlockStmtToExpr` that `Set(i, child)` / `Append(child)` apply.

The code modelled is the code WITH `fixes/C20-sole-macro-call.diff` applied (the walk hands the child /
quote body to the recursive call without unwrapping it first, `MacroExpand1` keeps a one-statement
block so that `MacroExpand` repeats on it and looks inside a one-statement block in which nothing
was expanded, the quote/`~macro` branches do not drop the "something was expanded" flag).
The places are marked FIX below.

Abstractions
* A syntax tree is what the `ast2.Ast` interface shows: `nil`, a node with a fixed number of
  children (`AstWithNode`, `Size/Get/Set`), or a list (`AstWithSlice`: the typed slices and
  `BlockStmt FieldList GenDecl ReturnStmt`).  `attr` holds everything `New()` copies that is not a
  position (operator, name, literal, channel direction, ellipsis/alias flag).  Each child slot carries the
  conversion its `Set` applies (= the go/ast type of the field); `cat` says whether the go/ast node
  is an `Expr`, `Stmt`, `Decl`, `Spec`, something else, or a pure slice without node.
  Positions, comments and `ast.Object`s are not modelled.
* A macro is `(arity, run : List Tree → List Tree)`: an opaque function from the argument trees to
  the returned values (a node, a list or `nil` each).  The table maps the identifier's attribute to it
  (`extractMacroCall`: the name resolves to a constant of type `Macro`).
* `panic`s (`Errorf`, failed conversions, nil dereference, failed type assertion) are `Except.error`.
* The unbounded loops (`MacroExpand`, recursion into macro results) take fuel; all theorems are about
  runs that end (`= .ok _`).
-/

namespace MacroExpand

inductive Cat | expr | stmt | decl | spec | other | slice
  deriving DecidableEq, Repr, Inhabited

inductive Slot
  | expr | stmt | block | exprs | stmts | idents
  | ident | decl | spec | field | fieldList | funcType | call | basicLit | node | any
  deriving DecidableEq, Repr, Inhabited

inductive Kind
  | parenExpr | exprStmt | declStmt | blockStmt | unaryExpr | funcLit | funcType | fieldList | field
  | ident | emptyStmt | assignStmt | callExpr | basicLit | exprSlice | stmtSlice | identSlice
  | other (name : String)
  deriving DecidableEq, Repr, Inhabited

inductive Tree
  | nil
  | node (kind : Kind) (cat : Cat) (attr : String) (slots : List Slot) (kids : List Tree)
  | list (kind : Kind) (cat : Cat) (attr : String) (eslot : Slot) (kids : List Tree)
  deriving Inhabited, Repr

inductive Err | fuel | notEnoughArgs | conversion | malformed
  deriving DecidableEq, Repr

abbrev R := Except Err

namespace Tree

/-- `Ast.Size()`; a nil tree has no children -/
def size : Tree → Nat
  | .nil => 0
  | .node _ _ _ _ ks => ks.length
  | .list _ _ _ _ ks => ks.length

def isNil : Tree → Bool
  | .nil => true
  | _ => false

def cat : Tree → Option Cat
  | .nil => none
  | .node _ c _ _ _ => some c
  | .list _ c _ _ _ => some c

def kind : Tree → Option Kind
  | .nil => none
  | .node k _ _ _ _ => some k
  | .list k _ _ _ _ => some k

end Tree
open Tree

/-! ## trivial wrappers (`base/quasiquote.go` unwrapTrivialAst2) -/

/-- the statements that keep a one-statement block alive: `DeclStmt` and `x := ...` -/
def isDeclish : Tree → Bool
  | .node .declStmt _ _ _ _ => true
  | .node .assignStmt _ a _ _ => a == ":="
  | _ => false

/-- `unwrapTrivialAst2(in, unwrapTrivialBlockStmt)`: the `for { switch }` loop recurses into the
    only child of `ParenExpr`, `ExprStmt`, `DeclStmt` and (if `blocks`) of a one-statement block
    whose statement is not a declaration. -/
def unwrap (blocks : Bool) : Tree → Tree
  | .list .blockStmt c a s [x] =>
      if blocks && !isDeclish x then unwrap blocks x else .list .blockStmt c a s [x]
  | .node .parenExpr _ _ _ [x] => unwrap blocks x
  | .node .exprStmt _ _ _ [x] => unwrap blocks x
  | .node .declStmt _ _ _ [x] => unwrap blocks x
  | t => t

/-! ## nodes the code creates -/

def mkExprStmt (x : Tree) : Tree := .node .exprStmt .stmt "-" [.expr] [x]
def mkDeclStmt (x : Tree) : Tree := .node .declStmt .stmt "-" [.decl] [x]
def identNil : Tree := .node .ident .expr "nnil" [] []
def emptyStmt : Tree := .node .emptyStmt .stmt "-" [] []
def mkBlock (xs : List Tree) : Tree := .list .blockStmt .stmt "-" .stmt xs
def mkFieldList (xs : List Tree) : Tree := .list .fieldList .other "-" .field xs

/-- `parser.MakeQuote`: `op (func() { body })` -/
def mkQuoteForm (op : String) (body : Tree) : Tree :=
  .node .unaryExpr .expr op [.expr]
    [.node .funcLit .expr "-" [.funcType, .block]
      [.node .funcType .expr "-" [.fieldList, .fieldList] [mkFieldList [], .nil], body]]

def opMacro := "~macro"
def opQuote := "~quote"
def opQuasiquote := "~quasiquote"
def opUnquote := "~unquote"
def opUnquoteSplice := "~unquote%5fsplice"   -- attribute text as serialised ('_' is escaped)

/-! ## conversions (`ast2/unwrap.go`) -/

/-- `ToNode`: fails on pure slices -/
def toNode : Tree → R Tree
  | .list _ .slice _ _ _ => .error .conversion
  | t => .ok t

/-- `ToStmt` -/
def toStmt (x : Tree) : R Tree := do
  let n ← toNode x
  match n.cat with
  | none => .ok .nil
  | some .stmt => .ok n
  | some .decl => .ok (mkDeclStmt n)
  | some .expr => .ok (mkExprStmt n)
  | _ => .error .conversion

/-- `BlockStmtToExpr` -/
def blockToExpr (blk : Tree) (ks : List Tree) : Tree :=
  match ks with
  | [] => identNil
  | [.node .exprStmt _ _ _ [x]] => x
  | [.node .emptyStmt _ _ _ _] => identNil
  | _ => mkQuoteForm opMacro blk

/-- `ToExpr` -/
def toExpr (x : Tree) : R Tree := do
  let n ← toNode x
  match n with
  | .nil => .ok .nil
  | .node _ .expr _ _ _ => .ok n
  | .list _ .expr _ _ _ => .ok n
  | .list .blockStmt _ _ _ ks => .ok (blockToExpr n ks)
  | .node .emptyStmt _ _ _ _ => .ok identNil
  | .node .exprStmt _ _ _ [y] => .ok y
  | .node _ .stmt _ _ _ => .ok (mkQuoteForm opMacro (mkBlock [n]))
  | .list _ .stmt _ _ _ => .ok (mkQuoteForm opMacro (mkBlock [n]))
  | _ => .error .conversion

/-- `ToBlockStmt` -/
def toBlock (x : Tree) : R Tree :=
  match x with
  | .nil => .ok .nil
  | .list .blockStmt _ _ _ _ => .ok x
  | _ => do
    let s ← toStmt x
    .ok (mkBlock [s])

def exactKind (k : Kind) (x : Tree) : R Tree := do
  let n ← toNode x
  match n.kind with
  | none => .ok .nil
  | some k' => if k' = k then .ok n else .error .conversion

def exactCat (c : Cat) (x : Tree) : R Tree := do
  let n ← toNode x
  match n.cat with
  | none => .ok .nil
  | some c' => if c' = c then .ok n else .error .conversion

/-- `ToFieldList`: a lone `Field` is wrapped -/
def toFieldList (x : Tree) : R Tree := do
  let n ← toNode x
  match n.kind with
  | none => .ok .nil
  | some .fieldList => .ok n
  | some .field => .ok (mkFieldList [n])
  | _ => .error .conversion

/-- `ToCallExpr` / `ToBasicLit` switch on the wrapper type -/
def exactWrapper (k : Kind) (x : Tree) : R Tree :=
  match x with
  | .nil => .ok .nil
  | .node k' _ _ _ _ => if k' = k then .ok x else .error .conversion
  | .list _ _ _ _ _ => .error .conversion

/-- conversions of a single node -/
def convOne : Slot → Tree → R Tree
  | .expr, x => toExpr x
  | .stmt, x => toStmt x
  | .block, x => toBlock x
  | .ident, x => exactKind .ident x
  | .decl, x => exactCat .decl x
  | .spec, x => exactCat .spec x
  | .field, x => exactKind .field x
  | .fieldList, x => toFieldList x
  | .funcType, x => exactKind .funcType x
  | .call, x => exactWrapper .callExpr x
  | .basicLit, x => exactWrapper .basicLit x
  | .node, x => toNode x
  | .any, x => .ok x
  | _, _ => .error .conversion

/-- `ToExprSlice` / `ToStmtSlice` / `ToIdentSlice`: the slice of that type itself,
    any other list element by element, no single node -/
def toSlice (k : Kind) (es : Slot) (x : Tree) : R Tree :=
  match x with
  | .nil => .ok .nil
  | .node _ _ _ _ _ => .error .conversion
  | .list k' _ _ _ ks =>
    if k' = k then .ok x else do
      let ks' ← ks.mapM (convOne es)
      .ok (.list k .slice "-" es ks')

/-- what `Set(i, child)` / `Append(child)` stores for a slot of the given type -/
def conv : Slot → Tree → R Tree
  | .exprs, x => toSlice .exprSlice .expr x
  | .stmts, x => toSlice .stmtSlice .stmt x
  | .idents, x => toSlice .identSlice .ident x
  | s, x => convOne s x

/-! ## macros -/

structure Macro where
  arity : Nat
  run : List Tree → List Tree

abbrev Tbl := String → Option Macro

/-- `extractMacroCall`: the element, with trivial wrappers removed, is an identifier bound to a macro -/
def macroOf (tbl : Tbl) (elt : Tree) : Option Macro :=
  match unwrap true elt with
  | .node .ident _ a _ _ => tbl a
  | _ => none

/-- the values a macro returns: a list is spliced, a node appended, nil skipped -/
def spliceResults : List Tree → List Tree
  | [] => []
  | .nil :: rs => spliceResults rs
  | .list _ _ _ _ ks :: rs => ks ++ spliceResults rs
  | t :: rs => t :: spliceResults rs

/-- the scan of `MacroExpand1` over the elements of a list whose `Append` converts with `es` -/
def scan (tbl : Tbl) (es : Slot) : List Tree → R (List Tree × Bool)
  | [] => .ok ([], false)
  | x :: rest =>
    match macroOf tbl x with
    | none => do
      let x' ← conv es x
      let (o, e) ← scan tbl es rest
      .ok (x' :: o, e)
    | some m =>
      if m.arity > rest.length then .error .notEnoughArgs
      else do
        let args ← (rest.take m.arity).mapM toNode
        let rs ← (spliceResults (m.run args)).mapM (conv es)
        let (o, _) ← scan tbl es (rest.drop m.arity)
        .ok (rs ++ o, true)
termination_by xs => xs.length
decreasing_by all_goals (simp_wf; try omega)

/-- `MacroExpand1`.  Fuel only bounds the descent through nested one-statement blocks. -/
def expand1 (tbl : Tbl) : Nat → Tree → R (Tree × Bool)
  | 0, _ => .error .fuel
  | f+1, t =>
    match unwrap false t with
    | .list k c a es kids => do
      let (o, e) ← scan tbl es kids
      if !e then
        -- FIX: `{ { foo; bar } }`: nothing to expand in the one-statement block, look inside it
        match k, kids with
        | .blockStmt, [x] =>
          if !isDeclish x then expand1 tbl f (unwrap true x) else .ok (.list k c a es kids, false)
        | _, _ => .ok (.list k c a es kids, false)
      else if o.isEmpty then .ok (emptyStmt, true)
      else .ok (unwrap false (.list k c a es o), true)    -- FIX: was `unwrap true`
    | u => .ok (u, false)

/-- `MacroExpand`: repeat `MacroExpand1` while it expands -/
def macroExpandLoop (tbl : Tbl) : Nat → Tree → Bool → R (Tree × Bool)
  | 0, _, _ => .error .fuel
  | f+1, t, ever => do
    let (t', e) ← expand1 tbl f t
    if e then macroExpandLoop tbl f t' true
    else .ok (t', ever)

def macroExpand (tbl : Tbl) (fuel : Nat) (t : Tree) : R (Tree × Bool) := macroExpandLoop tbl fuel t false

/-! ## the code walk -/

/-- is the tree `op (func() {...})` with one of the five special operators -/
def quoteOp : Tree → Option String
  | .node .unaryExpr _ a _ _ =>
    if a = opMacro ∨ a = opQuote ∨ a = opQuasiquote ∨ a = opUnquote ∨ a = opUnquoteSplice then some a else none
  | _ => none

def kidsOf : Tree → List Tree
  | .nil => []
  | .node _ _ _ _ ks => ks
  | .list _ _ _ _ ks => ks

/-- `in.Get(0).Get(1)` -/
def bodyOf (t : Tree) : R Tree :=
  match kidsOf t with
  | k0 :: _ =>
    match kidsOf k0 with
    | _ :: b :: _ => .ok b
    | _ => .error .malformed
  | _ => .error .malformed

/-- `base.MakeQuote2(form, toQuote.(AstWithNode))` -/
def makeQuote2 (op : String) (x : Tree) : R Tree :=
  match x with
  | .nil => .error .malformed
  | .list _ .slice _ _ _ => .error .malformed
  | .list .blockStmt _ _ _ _ => .ok (mkQuoteForm op x)
  | _ =>
    match x.cat with
    | some .stmt => .ok (mkQuoteForm op (mkBlock [x]))
    | some .expr => .ok (mkQuoteForm op (mkBlock [mkExprStmt x]))
    | _ => .error .malformed

def depthAfter (op : String) (d : Int) : Int :=
  if op = opQuasiquote then d + 1
  else if op = opUnquote ∨ op = opUnquoteSplice then d - 1
  else d

/-- walk the children, convert each result for its slot, collect the flags -/
def walkKids (walk : Tree → R (Tree × Bool)) : List Slot → List Tree → R (List Tree × Bool)
  | s :: ss, k :: ks => do
    let (k', e) ← walk k
    let k'' ← conv s k'
    let (rest, e') ← walkKids walk ss ks
    .ok (k'' :: rest, e || e')
  | _, _ => .ok ([], false)

def walkElems (walk : Tree → R (Tree × Bool)) (es : Slot) : List Tree → R (List Tree × Bool)
  | k :: ks => do
    let (k', e) ← walk k
    let k'' ← conv es k'
    let (rest, e') ← walkElems walk es ks
    .ok (k'' :: rest, e || e')
  | [] => .ok ([], false)

/-- `macroExpandCodewalk(in, quasiquoteDepth)` -/
def codewalk (tbl : Tbl) : Nat → Tree → Int → R (Tree × Bool)
  | 0, _, _ => .error .fuel
  | f+1, t, d =>
    if t.size = 0 then .ok (t, false) else do
    let (t1, e1) ← (if d ≤ 0 then macroExpand tbl f t else .ok (t, false))
    let t2 := unwrap true t1
    match t2 with
    | .nil => .ok (.nil, e1)
    | .node k c a ss ks =>
      match quoteOp t2 with
      | some op =>
        if op = opQuote ∧ d = 0 then .ok (t2, e1) else do
        let body ← bodyOf t2                         -- FIX: was unwrap true (bodyOf t2)
        let (oc, e) ← codewalk tbl f body (depthAfter op d)
        if op = opMacro then .ok (oc, e || e1)       -- FIX: was `e`
        else if e then do
          let q ← makeQuote2 op oc
          .ok (q, true)
        else .ok (t2, e1)                            -- FIX: the flag was `false`
      | none => do
        let (ks', e) ← walkKids (fun k => codewalk tbl f k d) ss ks   -- FIX: was unwrap true k
        .ok (.node k c a ss ks', e1 || e)
    | .list k c a es ks => do
      let (ks', e) ← walkElems (fun k => codewalk tbl f k d) es ks
      .ok (.list k c a es ks', e1 || e)

end MacroExpand
