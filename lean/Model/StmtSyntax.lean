import Model.ClosureIR
/-! # StmtSyntax — syntax of the statement closures (C02): `ClosureIR.S` plus the frame-walking loop,
and the table entry.  Kept apart from the evaluator (Model/StmtIR.lean) so that the regenerated
tables `Gen.C02*` depend on the syntax only. -/

namespace StmtIR
open ClosureIR

inductive St where
  | s (s : S)
  | forLt (i : String) (a b : E) (body : S)
  deriving DecidableEq, Repr, Inhabited

structure SEntry where
  fn : String
  path : List String
  binds : List (String × E)
  ret : Ty
  body : List St
  deriving DecidableEq, Repr, Inhabited

end StmtIR
