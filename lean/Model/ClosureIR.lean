import GoSpec.Val
/-! # ClosureIR — the small expression/statement language the specialised closures of package
`fast` are transcribed into (by `harness/closure_extract.go`), and its evaluator.

An `Entry` is one *arm*: the Go function it was found in, the path of enclosing conditions, the
`name := expr` bindings in scope that the closure uses (each with its defining Go expression), the
closure's result type and its body.  `E`/`S` cover exactly the syntax that occurs in the arms of
binary_ops.go, binary_shifts.go, binary_relops.go, binary_eqlneq.go, unary_ops.go, identifier.go,
util.go (`AsUint64`) and binary.go (`Land`, `Lor`); anything else is `.opaque src`, on which
evaluation is stuck (`none`) and which no template contains.

Evaluation is dynamically typed over `V`: Go values of basic kind (`GoSpec.Val`), untyped integer
literals, operand closures `func(*Env) T` (represented by their kind and their result on the
current `env` — the only thing an arm can do with them is to apply them to `env`), constants as
`interface{}` (`Expr.Value`) or `reflect.Value`, environments (chains of frames with unboxed
`Ints []uint64` and boxed `Vals []reflect.Value`), and pointers into `Ints` reinterpreted at a
basic type (`*(*T)(unsafe.Pointer(&env.Ints[idx]))`, little endian).

Result of evaluation: `none` = stuck (ill-typed/unsupported: cannot happen for an accepted arm —
that is part of the soundness theorems), `some (.panic p)` = Go run-time panic,
`some (.ok v)`. -/

namespace ClosureIR
open GoSpec GoSpec.Outcome

inductive Ty where
  | kind (k : Kind)
  | other (s : String)
  deriving DecidableEq, Repr, Inhabited

inductive E where
  | var (n : String)
  | int (n : Int)
  | str (s : String)
  | app (f : E)                                -- f(env)
  | bin (op : BinOp) (a b : E)
  | un (op : UnOp) (a : E)
  | conv (k : Kind) (a : E)                    -- T(a), T basic
  | sel (a : E) (f : String)                   -- a.f
  | index (a i : E)                            -- a[i]
  | addr (a : E)                               -- &a
  | deref (a : E)                              -- *a
  | ptrCast (k : Kind) (a : E)                 -- (*T)(a)
  | assertFun (a : E) (k : Kind)               -- a.(func(*Env) T)
  | assertFunX (a : E)                         -- a.(func(*Env) xr.Value)
  | assertFunXV (a : E)                        -- a.(func(*Env) (xr.Value, []xr.Value))
  | meth0 (a : E) (m : String)                 -- a.m()
  | meth1 (a : E) (m : String) (b : E)         -- a.m(b)
  | call1 (f : String) (a : E)                 -- f(a)
  | call2 (f : String) (a b : E)               -- f(a, b)
  | tuple (i : Nat) (a : E)                    -- i-th result of a multi-valued call
  | decl (t : String)                          -- `var n T` assigned elsewhere (prologue)
  | opaque (s : String)
  deriving DecidableEq, Repr, Inhabited

inductive S where
  | ret (e : E)
  | ret2 (a b : E)
  | retNamed
  | expr (e : E)
  | inc (e : E)
  | define (n : String) (e : E)
  | define2 (a b : String) (e : E)
  | assign (l r : E)
  | opAssign (l : E) (op : BinOp) (r : E)
  | ifThen (c : E) (s : S)
  | opaque (s : String)
  deriving DecidableEq, Repr, Inhabited

structure Arm where
  binds : List (String × E)
  ret : Ty
  named : Bool
  body : List S
  deriving DecidableEq, Repr, Inhabited

structure Entry where
  fn : String
  path : List String
  arm : Arm
  deriving DecidableEq, Repr, Inhabited

structure Action where
  fn : String
  path : List String
  text : String
  deriving DecidableEq, Repr, Inhabited

/-! ## values -/

structure Frame where
  ints : List (BitVec 64)
  vals : List Val

inductive V where
  | val (v : Val)
  | untyped (n : Int)
  | closure (k : Kind) (r : Outcome Val)
  | closureX (r : Outcome Val)
  | closureXV (r : Outcome Val)
  | iface (v : Val)
  | rvalue (v : Val)
  | pair (a b : V)
  | env (cur file : List Frame)
  | ints (l : List (BitVec 64))
  | vals (l : List Val)
  | slot (l : List (BitVec 64)) (i : Nat)
  | ptr (k : Kind) (l : List (BitVec 64)) (i : Nat)
  | nat (n : Nat)
  | negShiftErr

abbrev R := Option (Outcome V)
abbrev Store := List (String × V)

def lookup (ρ : Store) (n : String) : Option V :=
  match ρ with
  | [] => none
  | (m, v) :: rest => if m = n then some v else lookup rest n

def okV (v : V) : R := some (ok v)
def okVal (v : Val) : R := some (ok (.val v))

def bindR (r : R) (f : V → R) : R :=
  match r with
  | none => none
  | some (Outcome.panic p) => some (Outcome.panic p)
  | some (ok v) => f v

@[simp] theorem bindR_ok (v : V) (f : V → R) : bindR (some (ok v)) f = f v := rfl
@[simp] theorem bindR_okV (v : V) (f : V → R) : bindR (okV v) f = f v := rfl
@[simp] theorem bindR_okVal (v : Val) (f : V → R) : bindR (okVal v) f = f (.val v) := rfl
@[simp] theorem bindR_panic (p : Panic) (f : V → R) : bindR (some (Outcome.panic p)) f = some (Outcome.panic p) := rfl
@[simp] theorem bindR_none (f : V → R) : bindR none f = none := rfl

def liftVal (o : Option (Outcome Val)) : R :=
  match o with
  | none => none
  | some (ok v) => some (ok (.val v))
  | some (Outcome.panic p) => some (Outcome.panic p)

/-! ## primitive operations on values -/

/-- an untyped integer literal takes the type of the other operand -/
def coerce (like : Val) (n : Int) : Option Val :=
  match like with
  | .int k _ => some (.int k (BitVec.ofInt k.w n))
  | _ => none

def evalBin (F : FloatOps) (op : BinOp) (a b : V) : R :=
  match a, b with
  | .val x, .val y => liftVal (binop F op x y)
  | .val x, .untyped n =>
    if op.isShift then
      (if n < 0 then none else
        match x with
        | .int k v => liftVal (intShift op k v ⟨64, false⟩ (BitVec.ofInt 64 n))
        | _ => none)
    else match coerce x n with
      | some y => liftVal (binop F op x y)
      | none => none
  | .untyped n, .val y =>
    if op.isShift then none
    else match coerce y n with
      | some x => liftVal (binop F op x y)
      | none => none
  | _, _ => none

def evalUn (F : FloatOps) (op : UnOp) (a : V) : R :=
  match a with
  | .val x => liftVal (unop F op x)
  | _ => none

/-- Go conversion `T(v)` between basic kinds, as far as the arms use it -/
def convVal (F : FloatOps) (k : Kind) (v : Val) : Option Val :=
  match v, k with
  | .int ki x, k =>
    match k.ikind? with
    | some kt => some (.int kt (I.conv ki.signed x kt.w))
    | none => none
  | .f64 b, .float32 => some (.f32 (F.narrow b))
  | .f64 b, .float64 => some (.f64 b)
  | .f32 b, .float32 => some (.f32 b)
  | .c128 r i, .complex64 => some (.c64 (F.narrow r) (F.narrow i))
  | .c128 r i, .complex128 => some (.c128 r i)
  | .c64 r i, .complex64 => some (.c64 r i)
  | .bool b, .bool => some (.bool b)
  | .str s, .string => some (.str s)
  | _, _ => none

def evalConv (F : FloatOps) (k : Kind) (a : V) : R :=
  match a with
  | .val v => match convVal F k v with
    | some r => okVal r
    | none => none
  | .untyped n => match k.ikind? with
    | some kt => okVal (.int kt (BitVec.ofInt kt.w n))
    | none => none
  | _ => none

/-- `reflect.Value` getters -/
def rvalueGet (F : FloatOps) (m : String) (v : Val) : Option Val :=
  match m, v with
  | "Int", .int k x => if k.signed then some (.int ⟨64, true⟩ (I.conv true x 64)) else none
  | "Uint", .int k x => if k.signed then none else some (.int ⟨64, false⟩ (I.conv false x 64))
  | "Float", .f32 b => some (.f64 (F.widen b))
  | "Float", .f64 b => some (.f64 b)
  | "Complex", .c64 r i => some (.c128 (F.widen r) (F.widen i))
  | "Complex", .c128 r i => some (.c128 r i)
  | "Bool", .bool b => some (.bool b)
  | "String", .str s => some (.str s)
  | _, _ => none

/-- reinterpret the slot(s) at `l[i]` as a value of kind `k` (little endian) -/
def readSlot (k : Kind) (l : List (BitVec 64)) (i : Nat) : Option Val :=
  match l[i]? with
  | none => none
  | some w =>
    match k with
    | .bool => some (.bool (w.setWidth 8 != 0#8))
    | .float32 => some (.f32 (w.setWidth 32))
    | .float64 => some (.f64 w)
    | .complex64 => some (.c64 (w.setWidth 32) ((w >>> 32).setWidth 32))
    | .complex128 => match l[i+1]? with
      | some w2 => some (.c128 w w2)
      | none => none
    | .string => none
    | k => match k.ikind? with
      | some ik => some (.int ik (w.setWidth ik.w))
      | none => none

def dropFrames (n : Nat) (fs : List Frame) : Option (List Frame) :=
  match n, fs with
  | 0, fs => some fs
  | _ + 1, [] => none
  | n + 1, _ :: rest => dropFrames n rest

def evalSel (a : V) (f : String) : R :=
  match a, f with
  | .env (_ :: rest) file, "Outer" => okV (.env rest file)
  | .env _ file, "FileEnv" => okV (.env file file)
  | .env (fr :: _) _, "Ints" => okV (.ints fr.ints)
  | .env (fr :: _) _, "Vals" => okV (.vals fr.vals)
  | _, _ => none

def evalIndex (a i : V) : R :=
  match a, i with
  | .ints l, .nat n => okV (.slot l n)
  | .vals l, .nat n => match l[n]? with
    | some v => okV (.rvalue v)
    | none => none
  | _, _ => none

def evalMeth0 (F : FloatOps) (a : V) (m : String) : R :=
  match a with
  | .rvalue v => match rvalueGet F m v with
    | some r => okVal r
    | none => none
  | _ => none

def evalMeth1 (a : V) (m : String) (b : V) : R :=
  match a, m, b with
  | .env cur file, "Up", .nat n => match dropFrames n cur with
    | some fs => okV (.env fs file)
    | none => none
  | _, _, _ => none

/-- `integerLen` of util: transcribed in Model.Pow2; here only its result is needed,
    supplied through the store under the name of the call (see `evalCall1`). -/
def evalCall1 (ρ : Store) (f : String) (a : V) : R :=
  match f, a with
  | "xr.ValueOf", .iface v => okV (.rvalue v)
  | "unsafe.Pointer", .slot l i => okV (.slot l i)
  | "panic", .negShiftErr => some (Outcome.panic .negShift)
  | "integerLen", .val (.int ⟨64, false⟩ _) =>
    (match lookup ρ "integerLen(y)" with
     | some v => okV v
     | none => none)
  | "constAsUint64", .iface (.int k x) =>
    if k.signed && x.msb then okV (.pair (.val (.int ⟨64, false⟩ 0)) (.val (.bool false)))
    else okV (.pair (.val (.int ⟨64, false⟩ (I.conv k.signed x 64))) (.val (.bool true)))
  | _, _ => none

def fieldKey (a : E) (f : String) : Option String :=
  match a with
  | .var n => if n == "env" then none else some (n ++ "." ++ f)   -- `env` is a run-time value
  | _ => none

/-- compile-time getters whose result is supplied by the dispatch model through the store -/
def isCompileTimeGetter (m : String) : Bool := m == "Index" || m == "AsUint64" || m == "TryAsPred"

def methKey (a : E) (m : String) : Option String :=
  if isCompileTimeGetter m then
    match a with
    | .sel (.var o) fld => some (o ++ "." ++ fld ++ "." ++ m ++ "()")
    | .var o => some (o ++ "." ++ m ++ "()")
    | _ => none
  else none

def evalE (F : FloatOps) (ρ : Store) : E → R
  | .var n => match lookup ρ n with
    | some v => okV v
    | none => none
  | .int n => okV (.untyped n)
  | .str s => okVal (.str s.toUTF8.toList)
  | .app f => bindR (evalE F ρ f) fun
    | .closure _ r => liftVal (some r)
    | .closureX r => (match r with | ok v => okV (.rvalue v) | Outcome.panic p => some (Outcome.panic p))
    | .closureXV r => (match r with | ok v => okV (.pair (.rvalue v) (.nat 0)) | Outcome.panic p => some (Outcome.panic p))
    | _ => none
  | .bin op a b =>
    -- && and || short-circuit
    match op with
    | .land => bindR (evalE F ρ a) fun
      | .val (.bool false) => okVal (.bool false)
      | .val (.bool true) => bindR (evalE F ρ b) fun
        | .val (.bool y) => okVal (.bool y)
        | _ => none
      | _ => none
    | .lor => bindR (evalE F ρ a) fun
      | .val (.bool true) => okVal (.bool true)
      | .val (.bool false) => bindR (evalE F ρ b) fun
        | .val (.bool y) => okVal (.bool y)
        | _ => none
      | _ => none
    | op => bindR (evalE F ρ a) fun va => bindR (evalE F ρ b) fun vb => evalBin F op va vb
  | .un op a => bindR (evalE F ρ a) (evalUn F op)
  | .conv k a => bindR (evalE F ρ a) (evalConv F k)
  | .sel a f =>
    -- `xe.Fun`, `ye.Value`, `sym.Upn` ... : fields of compile-time objects are store entries "obj.field"
    match (fieldKey a f).bind (lookup ρ) with
    | some v => okV v
    | none => bindR (evalE F ρ a) fun va => evalSel va f
  | .index a i => bindR (evalE F ρ a) fun va => bindR (evalE F ρ i) fun vi => evalIndex va vi
  | .addr a => evalE F ρ a
  | .deref a => bindR (evalE F ρ a) fun
    | .ptr k l i => (match readSlot k l i with | some v => okVal v | none => none)
    | _ => none
  | .ptrCast k a => bindR (evalE F ρ a) fun
    | .slot l i => okV (.ptr k l i)
    | _ => none
  | .assertFun a k => bindR (evalE F ρ a) fun
    | .closure k' r => if k' = k then okV (.closure k' r) else none
    | _ => none
  | .assertFunX a => bindR (evalE F ρ a) fun
    | .closureX r => okV (.closureX r)
    | _ => none
  | .assertFunXV a => bindR (evalE F ρ a) fun
    | .closureXV r => okV (.closureXV r)
    | _ => none
  | .meth0 a m =>
    -- `sym.Desc.Index()` ... : results of compile-time getters are store entries "obj.field.m()"
    match (methKey a m).bind (lookup ρ) with
    | some v => okV v
    | none => bindR (evalE F ρ a) fun va => evalMeth0 F va m
  | .meth1 a m b => bindR (evalE F ρ a) fun va => bindR (evalE F ρ b) fun vb => evalMeth1 va m vb
  | .call1 f a => bindR (evalE F ρ a) (evalCall1 ρ f)
  | .call2 _ _ _ => none
  | .tuple i a => bindR (evalE F ρ a) fun
    | .pair x y => if i = 0 then okV x else if i = 1 then okV y else none
    | _ => none
  | .decl _ => none
  | .opaque _ => none

/-! ## statements -/

def update (ρ : Store) (n : String) (v : V) : Store := (n, v) :: ρ

def retVal (v : V) : Option (Outcome Val) :=
  match v with
  | .val x => some (ok x)
  -- `return env.Ints[idx]`: an element of `Ints []uint64` used as a value
  | .slot l i => (l[i]?).map (fun w => ok (.int ⟨64, false⟩ w))
  | _ => none

/-- outcome of running a statement: fall through with a new store, or finish -/
inductive Flow where
  | next (ρ : Store)
  | done (r : Option (Outcome Val))

def execS (F : FloatOps) (zero : Option Val) (ρ : Store) : S → Flow
  | .ret e => .done (match evalE F ρ e with
    | none => none
    | some (Outcome.panic p) => some (Outcome.panic p)
    | some (ok v) => retVal v)
  | .retNamed => .done (zero.map ok)
  | .expr e => match evalE F ρ e with
    | none => .done none
    | some (Outcome.panic p) => .done (some (Outcome.panic p))
    | some (ok _) => .next ρ
  | .define n e => match evalE F ρ e with
    | none => .done none
    | some (Outcome.panic p) => .done (some (Outcome.panic p))
    | some (ok v) => .next (update ρ n v)
  | .define2 a b e => match evalE F ρ e with
    | some (ok (.pair x y)) => .next (update (update ρ a x) b y)
    | some (Outcome.panic p) => .done (some (Outcome.panic p))
    | _ => .done none
  | .assign (.var n) e => match evalE F ρ e with
    | none => .done none
    | some (Outcome.panic p) => .done (some (Outcome.panic p))
    | some (ok v) => .next (update ρ n v)
  | .opAssign (.var n) op e => match evalE F ρ (.bin op (.var n) e) with
    | none => .done none
    | some (Outcome.panic p) => .done (some (Outcome.panic p))
    | some (ok v) => .next (update ρ n v)
  | .ifThen c s => match evalE F ρ c with
    | some (ok (.val (.bool true))) => execS F zero ρ s
    | some (ok (.val (.bool false))) => .next ρ
    | some (Outcome.panic p) => .done (some (Outcome.panic p))
    | _ => .done none
  | _ => .done none

def execBody (F : FloatOps) (zero : Option Val) (ρ : Store) : List S → Option (Outcome Val)
  | [] => none          -- a Go function with a result cannot fall off its end
  | s :: rest => match execS F zero ρ s with
    | .done r => r
    | .next ρ' => execBody F zero ρ' rest

/-- evaluate the bindings in source order; `decl` keeps the value assigned by the prologue -/
def evalBinds (F : FloatOps) (ρ : Store) : List (String × E) → Option Store
  | [] => some ρ
  | (n, .decl _) :: rest => if (lookup ρ n).isSome then evalBinds F ρ rest else none
  | (n, e) :: rest => match evalE F ρ e with
    | some (ok v) => evalBinds F (update ρ n v) rest
    | _ => none

/-- run an arm: bind, then execute the closure body -/
def evalArm (F : FloatOps) (ρ : Store) (a : Arm) : Option (Outcome Val) :=
  match evalBinds F ρ a.binds with
  | none => none
  | some ρ' =>
    let zero := match a.ret, a.named with
      | .kind k, true => some (Val.zero k)
      | _, _ => none
    execBody F zero ρ' a.body

def Arm.retKind? (a : Arm) : Option Kind :=
  match a.ret with
  | .kind k => some k
  | .other _ => none

end ClosureIR
