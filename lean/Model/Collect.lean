/-!
# Model of gomacro's preprocessor mode (`gomacro -m -w file.gomacro`): collection of declarations and file assembly

Transcribes (branch by branch)

* `base/global.go`  `Globals.CollectAst`, `Globals.CollectNode`      -> `collectAst`, `collectNode`
* `fast/repl.go`    `Interp.ParseEvalPrint` / `Interp.Parse` / `cmdOptForceEval`, `fast/cmd.go Interp.Cmd`
                    (`:`-prefixed chunk = evaluated, not collected; `:quit` ends the file; a panic inside a chunk is
                    trapped (`OptTrapPanic`), the chunk is abandoned, what it already appended stays)  -> `runChunk`, `runChunks`
* `cmd/cmd.go`      `Cmd.EvalFile` (the repaired one: Imports, Declarations, Statements reset per file, PackagePath kept;
                    the code as found does not reset Imports: `evalFileUnfixed`), `Cmd.EvalDir` -> `evalFile`, `evalDir`
* `base/output/write_decl.go`  `Output.WriteDeclsToStream` -> `written`  (package clause, imports, blank line when there are
                    imports, declarations, `func init() { statements }` when there are statements)

Abstractions
* A go/ast node is represented by the class `CollectNode`'s type switch distinguishes (`Node`) plus a numeric identity `id`
  (the position of the declaration in the source), so that "the same declaration, once, in order" is list equality.
  For `*ast.GenDecl` with `Tok == PACKAGE` the payload is `some name` exactly when the code's three nested tests succeed
  (one spec, a `*ast.ValueSpec`, one name).  For `:=` the flag `lhsIdents` says whether every left-hand side is an `*ast.Ident`
  (otherwise the type assertion `lhs.(*ast.Ident)` panics).
* `Ast`: `node` = `AstWithNode` (this includes `ast2.BlockStmt`, `GenDecl`, `ReturnStmt`, `FieldList`, `File`, which have both
  `Node()` and `Append`: the type switch of `CollectAst` tests `AstWithNode` first), `slice` = the pure slices
  (`NodeSlice`, `ExprSlice`, ...), `bad` = nil / any other Ast (`Errorf`).
* What is appended is an `Item`: the original node (`orig id`), the `GenDecl` wrapper built around a naked spec (`wrapSpec tok id`)
  or around a `:=` statement (`wrapDefine id`, always `var`), or the `ExprStmt` wrapper of an expression (`wrapExpr id`).
* Macro expansion is a parameter `expand : Ast -> Ast` (C20's `macroExpandCodewalk`); parsing is outside the model: a chunk IS
  its list of parsed forms.
* Printing (forked go/printer) is outside the model (C25); `written` is the sequence of sections, `reparse` reads the sections
  back as the forms a Go parser produces for such a file.
-/
namespace Collect

inductive Tok | import_ | package_ | type_ | var_ | const_ | other
  deriving DecidableEq, Repr, Inhabited

inductive SpecKind | importSpec | typeSpec | valueSpec | otherSpec
  deriving DecidableEq, Repr, Inhabited

/-- receiver of an `*ast.FuncDecl`: `Recv == nil` (function), `len(Recv.List) == 0` (gomacro's encoding of a macro
    declaration), non-empty (method). -/
inductive Recv | none | empty | nonempty
  deriving DecidableEq, Repr, Inhabited

/-- the classes of `ast.Node` that `CollectNode`'s type switch tells apart, in the order of its cases -/
inductive Node
  | genDecl (tok : Tok) (pkg : Option String) (id : Nat)
  | funcDecl (recv : Recv) (id : Nat)
  | spec (k : SpecKind) (id : Nat)
  | otherDecl (id : Nat)                       -- `*ast.BadDecl`
  | assign (define : Bool) (lhsIdents : Bool) (id : Nat)
  | stmt (id : Nat)                            -- any other `ast.Stmt`
  | pkgExpr (name : Option String) (id : Nat)  -- `*ast.UnaryExpr` with `Op == PACKAGE`; `some n` iff `X` is an `*ast.Ident`
  | unaryExpr (id : Nat)                       -- any other `*ast.UnaryExpr`
  | expr (id : Nat)                            -- any other `ast.Expr`
  | other (id : Nat)                           -- nil, `*ast.Field`, `*ast.File`, comments, ...
  deriving DecidableEq, Repr, Inhabited

inductive Ast
  | node (n : Node)
  | slice (l : List Ast)
  | bad
  deriving Repr, Inhabited

inductive Item
  | orig (id : Nat)
  | wrapSpec (tok : Tok) (id : Nat)
  | wrapDefine (id : Nat)
  | wrapExpr (id : Nat)
  deriving DecidableEq, Repr, Inhabited

structure Opts where
  decl : Bool      -- OptCollectDeclarations
  stmt : Bool      -- OptCollectStatements
  deriving DecidableEq, Repr, Inhabited

/-- `Globals.PackagePath`, `Imports`, `Declarations`, `Statements` -/
structure State where
  pkg : String
  imports : List Item
  decls : List Item
  stmts : List Item
  deriving DecidableEq, Repr, Inhabited

def State.init : State := ⟨"main", [], [], []⟩

inductive Err
  | badTok | badSpec | badNode | badAst | lhsNotIdent
  deriving DecidableEq, Repr, Inhabited

def addImport (s : State) (i : Item) : State := { s with imports := s.imports ++ [i] }
def addDecl (s : State) (i : Item) : State := { s with decls := s.decls ++ [i] }
def addStmt (s : State) (i : Item) : State := { s with stmts := s.stmts ++ [i] }

/-- the `case *ast.GenDecl:` arm; `it` is the item appended (the node itself, or the wrapper built by the `ast.Spec` arm) -/
def collectGenDecl (o : Opts) (s : State) (tok : Tok) (pkg : Option String) (it : Item) : State × Option Err :=
  if o.decl then
    match tok with
    | .import_ => (addImport s it, none)
    | .package_ => (match pkg with | some n => { s with pkg := n } | none => s, none)
    | .type_ | .var_ | .const_ => (addDecl s it, none)
    | .other => (s, some .badTok)
  else (s, none)

/-- `Globals.CollectNode` -/
def collectNode (o : Opts) (s : State) : Node → State × Option Err
  | .genDecl tok pkg id => collectGenDecl o s tok pkg (.orig id)
  | .funcDecl recv id =>
    if o.decl && recv != .empty then (addDecl s (.orig id), none) else (s, none)
  | .spec k id =>
    -- a GenDecl is built around the spec and collected; a wrapped spec never is a package clause with a name:
    -- the PACKAGE token is not reachable here
    match k with
    | .importSpec => collectGenDecl o s .import_ none (.wrapSpec .import_ id)
    | .typeSpec => collectGenDecl o s .type_ none (.wrapSpec .type_ id)
    | .valueSpec => collectGenDecl o s .var_ none (.wrapSpec .var_ id)
    | .otherSpec => (s, some .badSpec)
  | .otherDecl id => if o.decl then (addDecl s (.orig id), none) else (s, none)
  | .assign true lhsIdents id =>
    if o.decl then
      if lhsIdents then (addDecl s (.wrapDefine id), none) else (s, some .lhsNotIdent)
    else (s, none)
  | .assign false _ id => if o.stmt then (addStmt s (.orig id), none) else (s, none)
  | .stmt id => if o.stmt then (addStmt s (.orig id), none) else (s, none)
  | .pkgExpr name id =>
    match o.decl, name with
    | true, some n => ({ s with pkg := n }, none)
    | _, _ => if o.stmt then (addStmt s (.wrapExpr id), none) else (s, none)
  | .unaryExpr id => if o.stmt then (addStmt s (.wrapExpr id), none) else (s, none)
  | .expr id => if o.stmt then (addStmt s (.wrapExpr id), none) else (s, none)
  | .other _ => (s, some .badNode)

/-- `Globals.CollectAst` after its options test; an error (panic) stops the walk, earlier effects stay -/
def collectAst (o : Opts) (s : State) : Ast → State × Option Err
  | .node n => collectNode o s n
  | .bad => (s, some .badAst)
  | .slice l => go s l
where
  go (s : State) : List Ast → State × Option Err
    | [] => (s, none)
    | a :: rest =>
      match collectAst o s a with
      | (s', none) => go s' rest
      | (s', some e) => (s', some e)

/-- `Globals.CollectAst`: nothing happens unless one of the two options is set -/
def collectTop (o : Opts) (s : State) (a : Ast) : State × Option Err :=
  if o.decl || o.stmt then collectAst o s a else (s, none)

/-! ## chunks of a file -/

/-- one chunk as read by `ReadMultiline`.  `code`: parsed, macro-expanded, collected.  `forced`: starts with `:` and is not a
    REPL command: evaluated with collection and macro-expand-only switched off, contributes nothing.  `quit`: `:quit`.
    `failed`: the parser (or the macro expander) panics before anything is collected. -/
inductive Chunk
  | code (a : Ast)
  | forced (a : Ast)
  | quit
  | failed
  deriving Repr, Inhabited

/-- returns the new state and whether reading continues (`callAgain`) -/
def runChunk (expand : Ast → Ast) (o : Opts) (s : State) : Chunk → State × Bool
  | .code a => ((collectTop o s (expand a)).1, true)
  | .forced _ => (s, true)
  | .quit => (s, false)
  | .failed => (s, true)

def runChunks (expand : Ast → Ast) (o : Opts) (s : State) : List Chunk → State
  | [] => s
  | c :: rest =>
    match runChunk expand o s c with
    | (s', true) => runChunks expand o s' rest
    | (s', false) => s'

/-- `Cmd.EvalFile` up to the call of `WriteDeclsToFile`, WITH `fixes/C39-dir-imports-leak.diff`: Imports, Declarations and
    Statements are emptied before the file is read; PackagePath is kept (a file without package clause inherits it). -/
def evalFile (expand : Ast → Ast) (o : Opts) (s : State) (chunks : List Chunk) : State :=
  runChunks expand o { s with imports := [], decls := [], stmts := [] } chunks

/-- the unrepaired `Cmd.EvalFile`: `g.Imports` is not emptied (only `Cmd.Main` empties it, after a whole command-line argument) -/
def evalFileUnfixed (expand : Ast → Ast) (o : Opts) (s : State) (chunks : List Chunk) : State :=
  runChunks expand o { s with decls := [], stmts := [] } chunks

/-- `Cmd.EvalDir` under `-w`: the state written for each file, in order -/
def evalDir (evalFile : State → List Chunk → State) (s : State) : List (List Chunk) → List State
  | [] => []
  | f :: rest => let s' := evalFile s f; s' :: evalDir evalFile s' rest

/-! ## the written file -/

inductive Section
  | package_ (name : String)
  | import_ (i : Item)
  | blank
  | decl (i : Item)
  | initOpen
  | initStmt (i : Item)
  | initClose
  deriving DecidableEq, Repr, Inhabited

/-- `Output.WriteDeclsToStream` -/
def written (s : State) : List Section :=
  [.package_ s.pkg] ++ s.imports.map .import_ ++ (if s.imports.isEmpty then [] else [.blank])
    ++ s.decls.map .decl ++ (if s.stmts.isEmpty then [] else [.initOpen] ++ s.stmts.map .initStmt ++ [.initClose])

/-- what a parser makes of the written file: the package clause, one import declaration per import line, one declaration
    per declaration section, and ONE function declaration `func init()` (identity `initId`) for the whole statement block.
    Every written import/declaration is a complete `GenDecl`/`FuncDecl` text, so it reads back as an original node; we keep the
    item's identity and remember its token class through `tokOf`. -/
def itemId : Item → Nat
  | .orig id | .wrapSpec _ id | .wrapDefine id | .wrapExpr id => id

/-- `isFunc id` tells whether declaration `id` was a function/method (reads back as `FuncDecl`) or a `GenDecl` -/
def reparse1 (isFunc : Nat → Bool) (initId : Nat) : Section → List Ast
  | .package_ n => [.node (.genDecl .package_ (some n) 0)]
  | .import_ i => [.node (.genDecl .import_ none (itemId i))]
  | .decl i => [if isFunc (itemId i) then .node (.funcDecl .none (itemId i)) else .node (.genDecl .var_ none (itemId i))]
  | .initOpen => [.node (.funcDecl .none initId)]
  | .blank | .initStmt _ | .initClose => []

def reparse (isFunc : Nat → Bool) (initId : Nat) (l : List Section) : List Ast :=
  l.flatMap (reparse1 isFunc initId)

/-- identities only: a wrapper and the declaration it prints as are the same thing once written -/
def State.ids (s : State) : String × List Nat × List Nat × List Nat :=
  (s.pkg, s.imports.map itemId, s.decls.map itemId, s.stmts.map itemId)

/-! ## specification side: classification of the leaves -/

def flatten : Ast → List (Option Node)
  | .node n => [some n]
  | .bad => [none]
  | .slice l => go l
where
  go : List Ast → List (Option Node)
    | [] => []
    | a :: rest => flatten a ++ go rest

/-- a table-driven expander (used by the driver and the examples): a leaf `expr id` that has an entry in the table is a macro
    call and is replaced by its expansion; everything else is rebuilt unchanged -/
def substExpand (tbl : List (Nat × Ast)) : Ast → Ast
  | .node (.expr id) => match tbl.lookup id with | some a => a | none => .node (.expr id)
  | .node n => .node n
  | .bad => .bad
  | .slice l => .slice (go l)
where
  go : List Ast → List Ast
    | [] => []
    | a :: rest => substExpand tbl a :: go rest

end Collect
