import Model.Dep
/-!
# Model for C16: package-level declarations of one evaluation, in any order

`fast/compile.go Comp.Compile` hands the declarations of one evaluation to `dep.Sorter.All()`
(Model/Dep.lean, Model/DepScope.lean) and compiles them in the order returned; the generated code
then runs in that order.  This file adds
* an ABSTRACT evaluator (`ADecl`, `runA`): every declaration's value is a function of the values of
  the names it depends on -- the setting of the order-independence theorems (Props/C16.lean);
* a CONCRETE evaluator for the integer-valued declaration language of the correspondence run
  (harness/c16.go): constants (with iota groups), variables (optionally of a named integer type),
  named and struct types, functions, methods; expressions with calls, method calls, conversions,
  local bindings, conditionals and closures.  Compilation in sorter order fails when a declaration
  uses a name that is not declared yet (`staticOK`); otherwise initialisers are evaluated in
  that order (`evalEx`, fuel-bounded because functions may recurse).

Rendering rules shared with harness/c16.go (`toNode` mirrors the Go syntax tree in ast2 order):
`r k` = `int(xk)`, `c t e` = `int(xt(e))`, `let k a b` = `func() int { xk := a; _ = xk; return b }()`,
`ite c a b` = `func() int { if c > 0 { return a }; return b }()`, `fn e` = `func() int { return e }()`.
-/
namespace Eval
open DepScope (Name Node Top Spec Decl Kind)

/-! ## abstract evaluator -/

structure ADecl (V : Type) where
  name : Name
  deps : List Name
  val : (Name → Option V) → V

def update {V : Type} (env : Name → Option V) (n : Name) (v : V) : Name → Option V :=
  fun m => if m = n then some v else env m

/-- evaluate the declarations in the given order -/
def runA {V : Type} (ds : List (ADecl V)) (env : Name → Option V) : Name → Option V :=
  ds.foldl (fun env d => update env d.name (d.val env)) env

/-! ## concrete declaration language -/

inductive Ex where
  | lit (n : Int)
  | ref (x : Name)                       -- int(x)
  | iota                                 -- int(iota)
  | add (a b : Ex)
  | mul (a b : Ex)
  | call (f : Name) (args : List Ex)     -- f(args)
  | mcall (x m : Name) (args : List Ex)  -- x.m(args)
  | conv (t : Name) (e : Ex)             -- int(t(e))
  | letIn (x : Name) (a b : Ex)
  | ite (c a b : Ex)
  | fn (e : Ex)
  deriving Repr, Inhabited

inductive Item where
  | const (x : Name) (e : Ex)
  | group (xs : List Name) (t : List Name) (raw : Bool) (e : Ex)
      -- const ( x0 [t] = e; x1; ... ) : type and e repeated, iota counts; raw: e is written untyped (bare iota), not t(e)
  | var (x : Name) (t : List Name) (e : Ex)         -- var x [t] = e   (t: 0 or 1 names; the value is converted: t(e))
  | typ (x : Name) (u : List Name)                  -- type x int | type x u
  | struct (x : Name) (fields : List Name)          -- type x struct { f0 *t0; ... }
  | func (f : Name) (params : List Name) (e : Ex)
  | method (t r m : Name) (params : List Name) (e : Ex)
  deriving Repr, Inhabited

def intT : Node := .ident "int"
def litN : Node := .other []

mutual
/-- the syntax tree of the rendered expression, children in ast2 order -/
def toNode : Ex → Node
  | .lit _ => litN
  | .ref x => .other [intT, .other [.ident x]]
  | .iota => .other [intT, .other [.ident "iota"]]
  | .add a b => .other [toNode a, toNode b]
  | .mul a b => .other [toNode a, toNode b]
  | .call f args => .other [.ident f, .other (toNodes args)]
  | .mcall x m args => .other [.sel (.ident x) m, .other (toNodes args)]
  | .conv t e => .other [intT, .other [.other [.ident t, .other [toNode e]]]]
  | .letIn x a b =>
    .other [.funcLit [] [.field [] intT]
      [.define [.ident x] [toNode a], .other [.other [.ident "_"], .other [.ident x]], .other [toNode b]], .other []]
  | .ite c a b =>
    .other [.funcLit [] [.field [] intT]
      [.scope [.other [toNode c, litN], .scope [.other [toNode a]]], .other [toNode b]], .other []]
  | .fn e => .other [.funcLit [] [.field [] intT] [.other [toNode e]], .other []]
def toNodes : List Ex → List Node
  | [] => []
  | e :: r => toNode e :: toNodes r
end

/-- an untyped constant expression over literals and iota, written without the int(..) wrappers -/
def toNodeRaw : Ex → Node
  | .iota => .ident "iota"
  | .add a b => .other [toNodeRaw a, toNodeRaw b]
  | .mul a b => .other [toNodeRaw a, toNodeRaw b]
  | e => toNode e

def paramFields (ps : List Name) : List Node := ps.map fun p => .field [p] intT

/-- the declaration as the sorter sees it -/
def Item.toTop : Item → Top
  | .const x e => .consts [{ names := [x], type := [], values := [toNode e] }]
  | .group xs t raw e =>
    .consts (match xs with
      | [] => []
      | x :: rest => { names := [x], type := t.map .ident,
                       values := [match t with
                         | [] => toNode e
                         | tn :: _ => if raw then toNodeRaw e else .other [.ident tn, .other [toNode e]]] } ::
          rest.map fun y => { names := [y], type := [], values := [] })
  | .var x t e =>
    .vars [{ names := [x], type := t.map .ident,
             values := [match t with
               | [] => toNode e
               | tn :: _ => .other [.ident tn, .other [toNode e]]] }]
  | .typ x u => .types [(x, match u with | [] => intT | un :: _ => .ident un)]
  | .struct x fs => .types [(x, .structType (fs.mapIdx fun i t => .field ["f" ++ toString i] (.other [.ident t])))]
  | .func f ps e => .func f (paramFields ps) [.field [] intT] [.other [toNode e]]
  | .method t r m ps e => .method [.field [r] (.ident t)] m (paramFields ps) [.field [] intT] [.other [toNode e]]

/-! ## concrete evaluator -/

structure FuncDef where
  params : List Name
  body : Ex
  deriving Repr, Inhabited

/-- what has been declared (compiled) and initialised so far -/
structure Glob where
  vals : List (Name × Int) := []                 -- constants and variables
  vtype : List (Name × Name) := []               -- named type of a variable
  types : List Name := []
  funcs : List (Name × FuncDef) := []
  methods : List (Name × Name × Name × FuncDef) := []   -- type, method, receiver name, definition
  deriving Repr, Inhabited

def lookup {α : Type} (n : Name) : List (Name × α) → Option α
  | [] => none
  | (m, v) :: r => if m = n then some v else lookup n r

def Glob.method (g : Glob) (t m : Name) : Option (Name × FuncDef) :=
  match g.methods.find? (fun x => x.1 == t && x.2.1 == m) with
  | some (_, _, r, fd) => some (r, fd)
  | none => none

mutual
/-- compile-time check: every package-level name the expression uses is declared already;
    `self` is the function being declared (recursion is allowed), `loc` the local names -/
def staticOK (g : Glob) (self : List Name) (loc : List Name) : Ex → Bool
  | .lit _ => true
  | .iota => true
  | .ref x => loc.contains x || (lookup x g.vals).isSome
  | .add a b => staticOK g self loc a && staticOK g self loc b
  | .mul a b => staticOK g self loc a && staticOK g self loc b
  | .call f args => (self.contains f || (lookup f g.funcs).isSome) && !loc.contains f && staticOKs g self loc args
  | .mcall x m args =>
    (match lookup x g.vtype with
      | some t => (g.method t m).isSome
      | none => false) && !loc.contains x && staticOKs g self loc args
  | .conv t e => g.types.contains t && !loc.contains t && staticOK g self loc e
  | .letIn x a b => staticOK g self loc a && staticOK g self (x :: loc) b
  | .ite c a b => staticOK g self loc c && staticOK g self loc a && staticOK g self loc b
  | .fn e => staticOK g self loc e
def staticOKs (g : Glob) (self : List Name) (loc : List Name) : List Ex → Bool
  | [] => true
  | e :: r => staticOK g self loc e && staticOKs g self loc r
end

def bindParams : List Name → List Int → List (Name × Int)
  | p :: ps, v :: vs => (p, v) :: bindParams ps vs
  | _, _ => []

mutual
/-- value of an expression; `none` = out of fuel or use of something undeclared -/
def evalEx (g : Glob) : Nat → List (Name × Int) → Int → Ex → Option Int
  | 0, _, _, _ => none
  | _ + 1, _, _, .lit n => some n
  | _ + 1, _, io, .iota => some io
  | _ + 1, loc, _, .ref x =>
    match lookup x loc with
    | some v => some v
    | none => lookup x g.vals
  | f + 1, loc, io, .add a b => do
    let x ← evalEx g f loc io a
    let y ← evalEx g f loc io b
    pure (x + y)
  | f + 1, loc, io, .mul a b => do
    let x ← evalEx g f loc io a
    let y ← evalEx g f loc io b
    pure (x * y)
  | f + 1, loc, io, .call fn args => do
    let fd ← lookup fn g.funcs
    let vs ← evalExs g f loc io args
    evalEx g f (bindParams fd.params vs) 0 fd.body
  | f + 1, loc, io, .mcall x m args => do
    let t ← lookup x g.vtype
    let (r, fd) ← g.method t m
    let xv ← lookup x g.vals
    let vs ← evalExs g f loc io args
    evalEx g f ((r, xv) :: bindParams fd.params vs) 0 fd.body
  | f + 1, loc, io, .conv _ e => evalEx g f loc io e
  | f + 1, loc, io, .letIn x a b => do
    let v ← evalEx g f loc io a
    evalEx g f ((x, v) :: loc) io b
  | f + 1, loc, io, .ite c a b => do
    let v ← evalEx g f loc io c
    if v > 0 then evalEx g f loc io a else evalEx g f loc io b
  | f + 1, loc, io, .fn e => evalEx g f loc io e
def evalExs (g : Glob) : Nat → List (Name × Int) → Int → List Ex → Option (List Int)
  | 0, _, _, _ => none
  | _ + 1, _, _, [] => some []
  | f + 1, loc, io, e :: r => do
    let v ← evalEx g f loc io e
    let vs ← evalExs g f loc io r
    pure (v :: vs)
end

def evalFuel : Nat := 400

/-- the source declaration a sorted `Decl` stands for -/
inductive Src where
  | const (t : List Name) (e : Ex) (iota : Nat)
  | var (t : List Name) (e : Ex)
  | typ
  | func (fd : FuncDef)
  | method (t r m : Name) (fd : FuncDef)
  deriving Repr, Inhabited

/-- name in the sorter's result -> source (methods are named "T.m" by the sorter) -/
def srcTable : List Item → List (Name × Src)
  | [] => []
  | .const x e :: r => (x, .const [] e 0) :: srcTable r
  | .group xs t _ e :: r => (xs.mapIdx fun i x => (x, Src.const t e i)) ++ srcTable r
  | .var x t e :: r => (x, .var t e) :: srcTable r
  | .typ x _ :: r => (x, .typ) :: srcTable r
  | .struct x _ :: r => (x, .typ) :: srcTable r
  | .func f ps e :: r => (f, .func ⟨ps, e⟩) :: srcTable r
  | .method t rn m ps e :: r => (t ++ "." ++ m, .method t rn m ⟨ps, e⟩) :: srcTable r

/-- compile and run one declaration in the sorter's order; `none` = compile error -/
def stepDecl (tbl : List (Name × Src)) (g : Glob) (d : Decl) : Option Glob :=
  if d.kind == Kind.typeFwd then some { g with types := d.name :: g.types }
  else match lookup d.name tbl with
  | none => none
  | some (.typ) => some { g with types := d.name :: g.types }
  | some (.const t e io) =>
    if staticOK g [] [] e && t.all g.types.contains then
      match evalEx g evalFuel [] io e with
      | some v => some { g with vals := (d.name, v) :: g.vals }
      | none => none
    else none
  | some (.var t e) =>
    if staticOK g [] [] e && t.all g.types.contains then
      match evalEx g evalFuel [] 0 e with
      | some v => some { g with vals := (d.name, v) :: g.vals,
                                vtype := (match t with | [] => g.vtype | tn :: _ => (d.name, tn) :: g.vtype) }
      | none => none
    else none
  | some (.func fd) =>
    if staticOK g [d.name] fd.params fd.body then some { g with funcs := (d.name, fd) :: g.funcs } else none
  | some (.method t r m fd) =>
    if g.types.contains t && staticOK g [] (r :: fd.params) fd.body then
      some { g with methods := (t, m, r, fd) :: g.methods }
    else none

def runDecls (tbl : List (Name × Src)) : Glob → List Decl → Option Glob
  | g, [] => some g
  | g, d :: r =>
    match stepDecl tbl g d with
    | some g' => runDecls tbl g' r
    | none => none

inductive Outcome where
  | loop                          -- the sorter reports a declaration loop
  | error                         -- some declaration does not compile in the sorted order
  | values (vs : List (Name × Int))
  deriving Repr, Inhabited

/-- one evaluation of the declarations `items` written in this textual order -/
def evalItems (ord : Dep.Ord) (items : List Item) : Outcome :=
  let l := DepScope.loadTops {} (items.map Item.toTop)
  match Dep.sortDecls ord l.out with
  | none => .loop
  | some sorted =>
    match runDecls (srcTable items) {} sorted with
    | none => .error
    | some g => .values g.vals

end Eval
