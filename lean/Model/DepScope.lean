/-!
# Model of base/dep/scope.go : which names does a declaration depend on?

Transcription of `Scope.AstExpr`, `Scope.isLocal`, `Scope.selectorExpr`, `Scope.define`,
`Scope.declareParams`, `Scope.Func`, `Scope.Type`, `Scope.Vars`, `Scope.varsMultiValueExpr`,
`Scope.Consts`, `NewDecl*` (decl.go) and `sort_unique_inplace`, `remove_item_inplace` (util.go),
as they read after the repairs fixes/C17-*.diff.

Transcription rules
* A `*Scope` chain `s, s.Outer, ..., top` is a `Stack`: the list of the frames' declared names,
  innermost first, the LAST element being the top-level scope (`Outer == nil`).
  `NewScope(s)` = push `[]`; leaving the Go function that made the scope = drop the head.
  Only names matter (`s.Decls[name]` is tested for presence only).
* The ast2 tree is `Node`: one constructor per arm of the type switch in `AstExpr`, plus `other`
  for every node kind without an arm (children in ast2 order).  `scope` stands for every kind that
  only opens a scope: BlockStmt, IfStmt, ForStmt, SwitchStmt, TypeSwitchStmt, CaseClause,
  CommClause; `structType` also for InterfaceType (methods are fields).  Optional children are
  lists of length 0 or 1.
* Dependencies are lists; the intermediate `sort_unique_inplace` calls are idempotent
  normalisations and are applied once, where a `Decl` is made (`mkDecl`).
* Strings are compared as Go does (bytewise; all names are ASCII).
-/
namespace DepScope

abbrev Name := String
abbrev Frame := List Name
abbrev Stack := List Frame

inductive Node where
  | ident (n : Name)
  | sel (x : Node) (s : Name)                                   -- *ast.SelectorExpr
  | kv (key val : Node)                                         -- *ast.KeyValueExpr
  | funcLit (params results : List Node) (body : List Node)     -- *ast.FuncLit
  | funcType (params results : List Node)                       -- *ast.FuncType
  | structType (fields : List Node)                             -- *ast.StructType, *ast.InterfaceType
  | field (names : List Name) (type : Node)                     -- *ast.Field
  | scope (children : List Node)                                -- kinds that only open a scope
  | localVar (names : List Name) (type : List Node) (values : List Node) -- DeclStmt var/const, one spec
  | localType (name : Name) (type : Node)                       -- DeclStmt type
  | define (lhs rhs : List Node)                                -- AssignStmt with :=
  | range (isDef : Bool) (key val : List Node) (x : Node) (body : List Node) -- *ast.RangeStmt
  | labeled (label : Name) (stmt : Node)                        -- *ast.LabeledStmt
  | branch (label : Name)                                       -- *ast.BranchStmt
  | other (children : List Node)
  deriving Repr, Inhabited

/-- `Scope.isLocal` (repaired loop header `for ; s.Outer != nil; s = s.Outer`). -/
def isLocal (n : Name) : Stack → Bool
  | [] => false
  | [_] => false                       -- s.Outer == nil is the top-level scope: not local
  | f :: g :: rest => f.contains n || isLocal n (g :: rest)

/-- `Scope.isLocal` as it was (finding F1): `outer := s.Outer; for ; outer != nil; s = outer { test s; outer = outer.Outer }`.
    State of the loop: `s` = head of the first list, `outer` = head of the second. -/
def isLocalOld (n : Name) : Nat → Stack → Stack → Bool
  | 0, _, _ => false
  | _, _, [] => false                                  -- outer == nil
  | _, [], _ => false
  | fuel + 1, f :: _, _ :: outerRest =>                -- test s; outer = outer.Outer; s = outer
    f.contains n || isLocalOld n fuel outerRest outerRest

/-- `s.Var(ident, ...)` for each name: `s.Decls[name]` exists afterwards. -/
def declare (ns : List Name) : Stack → Stack
  | [] => []
  | f :: rest => (ns ++ f) :: rest

/-- identifiers among expressions (`if ident, ok := expr.(*ast.Ident)`). -/
def identNames : List Node → List Name
  | [] => []
  | .ident n :: r => n :: identNames r
  | _ :: r => identNames r

/-- names declared by a list of `*ast.Field`. -/
def fieldNames : List Node → List Name
  | [] => []
  | .field ns _ :: r => ns ++ fieldNames r
  | _ :: r => fieldNames r

mutual
/-- `Scope.AstExpr`: dependencies of a node, and the scope chain afterwards. -/
def walk : Node → Stack → List Name × Stack
  | .ident n, st =>
    -- `form.X.Name != "_" && !s.isLocal(form.X.Name)`
    (if n != "_" && !isLocal n st then [n] else [], st)
  | .sel x s, st =>
    -- selectorExpr: deps of X, plus "X.Sel" when X is a non-local identifier; Sel is not visited
    let (d, st1) := walk x st
    (match x with
      | .ident t => if !isLocal t st1 then d ++ [t ++ "." ++ s] else d
      | _ => d, st1)
  | .kv key val, st =>
    -- the key is ignored if it is an identifier
    let (d1, st1) := (match key with
      | .ident _ => (([] : List Name), st)
      | _ => walk key st)
    let (d2, st2) := walk val st1
    (d1 ++ d2, st2)
  | .funcLit ps rs body, st =>
    -- deps of the type (FuncType opens and leaves its own scope), then a new scope for the body
    -- in which parameters and results are declared
    let (d1, s1) := walkList ps ([] :: st)
    let (d2, _) := walkList rs s1
    let (d3, _) := walkList body (declare (fieldNames ps ++ fieldNames rs) ([] :: st))
    (d1 ++ d2 ++ d3, st)
  | .funcType ps rs, st =>
    let (d1, s1) := walkList ps ([] :: st)
    let (d2, _) := walkList rs s1
    (d1 ++ d2, st)
  | .structType fs, st =>
    let (d, _) := walkList fs ([] :: st)
    (d, st)
  | .field names t, st =>
    -- dependencies of the type, then declare the names
    let (d, s1) := walk t st
    (d, declare names s1)
  | .scope cs, st =>
    let (d, _) := walkList cs ([] :: st)
    (d, st)
  | .localVar names ty vals, st =>
    -- Vars / varsMultiValueExpr / Consts: all dependencies first, then the names are declared
    let (d1, s1) := walkList ty st
    let (d2, s2) := walkList vals s1
    (d1 ++ d2, declare names s2)
  | .localType n t, st =>
    let (d, s1) := walk t st
    (d, declare [n] s1)
  | .define lhs rhs, st =>
    let (d, s1) := walkList rhs st
    (d, declare (identNames lhs) s1)
  | .range isDef key val x body, st =>
    if isDef then
      -- new scope; define([Key, Value], [X]); the statements of the body in that scope
      let (d1, s1) := walk x ([] :: st)
      let (d2, _) := walkList body (declare (identNames key ++ identNames val) s1)
      (d1 ++ d2, st)
    else
      let (d1, s1) := walkList key ([] :: st)
      let (d2, s2) := walkList val s1
      let (d3, s3) := walk x s2
      let (d4, _) := walkList body ([] :: s3)
      (d1 ++ d2 ++ d3 ++ d4, st)
  | .labeled _ s, st => walk s st
  | .branch _, st => ([], st)
  | .other cs, st => walkList cs st

def walkList : List Node → Stack → List Name × Stack
  | [], st => ([], st)
  | c :: cs, st =>
    let (d1, s1) := walk c st
    let (d2, s2) := walkList cs s1
    (d1 ++ d2, s2)
end

/-! ## util.go -/

/-- ordered insertion without duplicates -/
def insertU (a : Name) : List Name → List Name
  | [] => [a]
  | b :: r => if a < b then a :: b :: r else if a = b then b :: r else b :: insertU a r

/-- `sort_unique_inplace` -/
def sortUnique (l : List Name) : List Name := l.foldr insertU []

/-- `remove_item_inplace` -/
def removeItem (n : Name) (l : List Name) : List Name := l.filter (· != n)

/-! ## top-level declarations (Scope.Decl on the sorter's scope) -/

inductive Kind where
  | const | expr | func | imp | method | pkg | stmt | type | typeFwd | var | varMulti
  deriving DecidableEq, Repr, Inhabited

structure Decl where
  kind : Kind
  name : Name
  pos : Nat
  deps : List Name
  deriving DecidableEq, Repr, Inhabited

/-- one `*ast.ValueSpec` -/
structure Spec where
  names : List Name
  type : List Node
  values : List Node
  deriving Repr, Inhabited

inductive Top where
  | consts (specs : List Spec)                -- GenDecl CONST
  | vars (specs : List Spec)                  -- GenDecl VAR
  | types (specs : List (Name × Node))        -- GenDecl TYPE
  | func (name : Name) (params results body : List Node)
  | method (recv : List Node) (name : Name) (params results body : List Node)  -- recv: the fields of node.Recv
  deriving Repr, Inhabited

/-- state of the sorter's scope while a run of declarations is loaded -/
structure Load where
  top : Frame := []          -- s.Decls of the top-level scope (names only)
  gensym : Nat := 0
  pos : Nat := 0             -- next source position
  out : List Decl := []      -- declarations in creation order
  deriving Repr, Inhabited

def Load.add (l : Load) (k : Kind) (n : Name) (deps : List Name) : Load :=
  { l with top := n :: l.top, pos := l.pos + 1,
           out := l.out ++ [{ kind := k, name := n, pos := l.pos, deps := deps }] }

def nthD (l : List (List Name)) (i : Nat) : List Name := (l[i]?).getD []

/-- dependencies of each expression of a list, all computed in the same scope (`Scope.Exprs`) -/
def walkEach (st : Stack) : List Node → List (List Name)
  | [] => []
  | e :: r => (walk e st).1 :: walkEach st r

def addNames (k : Kind) (l : Load) (deps : Nat → List Name) : Nat → List Name → Load
  | _, [] => l
  | i, n :: r => addNames k (l.add k n (sortUnique (deps i))) deps (i + 1) r

/-- `Scope.Consts` over the specs of one GenDecl; `dt`/`dv` are `defaults.TypeDeps`/`defaults.ValueDeps` -/
def loadConsts (l : Load) (dt : List Name) (dv : List (List Name)) : List Spec → Load
  | [] => l
  | sp :: rest =>
    let st : Stack := [l.top]
    let own := !(sp.type.isEmpty && sp.values.isEmpty)
    let dt' := if own then (walkList sp.type st).1 else dt
    let dv' := if own then walkEach st sp.values else dv
    loadConsts (addNames .const l (fun i => dt' ++ nthD dv' i) 0 sp.names) dt' dv' rest

/-- `Scope.Vars` over the specs of one GenDecl -/
def loadVars (l : Load) : List Spec → Load
  | [] => l
  | sp :: rest =>
    let st : Stack := [l.top]
    let dt := (walkList sp.type st).1
    if sp.names.length > 1 && sp.values.length == 1 then
      -- varsMultiValueExpr
      let dv := (walkList sp.values st).1
      loadVars (addNames .varMulti l (fun _ => dt ++ dv) 0 sp.names) rest
    else
      let dv := walkEach st sp.values
      loadVars (addNames .var l (fun i => dt ++ nthD dv i) 0 sp.names) rest

/-- `Scope.Type` over the specs of one GenDecl; NewDeclType removes the type's own name -/
def loadTypes (l : Load) : List (Name × Node) → Load
  | [] => l
  | (n, t) :: rest =>
    loadTypes (l.add .type n (removeItem n (sortUnique (walk t [l.top]).1))) rest

/-- `Scope.Decl` for one top-level declaration -/
def loadTop (l : Load) : Top → Load
  | .consts specs => loadConsts l [] [] specs
  | .vars specs => loadVars l specs
  | .types specs => loadTypes l specs
  | .func name ps rs body =>
    -- inner := NewScope(s); deps of the type; parameters declared in inner; body (a BlockStmt)
    let inner : Stack := [[], l.top]
    let d1 := (walk (.funcType ps rs) inner).1
    let inner := declare (fieldNames ps ++ fieldNames rs) inner
    let d2 := (walk (.scope body) inner).1
    l.add .func name (removeItem name (sortUnique (d1 ++ d2)))
  | .method recv name ps rs body =>
    let inner : Stack := [[], l.top]
    let d1 := (walk (.funcType ps rs) inner).1
    -- types := inner.Expr(node.Recv): a FieldList opens no scope, the receiver is declared in inner
    let (types, inner) := walkList recv inner
    let types := sortUnique types
    let (mname, l) := (match types with
      | [t] => (t ++ "." ++ name, l)
      | _ => (toString l.gensym ++ "." ++ name, { l with gensym := l.gensym + 1 }))
    let inner := declare (fieldNames ps ++ fieldNames rs) inner
    let d2 := (walk (.scope body) inner).1
    l.add .method mname (removeItem mname (sortUnique (d1 ++ types ++ d2)))

def loadTops (l : Load) : List Top → Load
  | [] => l
  | t :: r => loadTops (loadTop l t) r

end DepScope
