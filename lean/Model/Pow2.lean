/-! # Pow2 — the power-of-two shortcuts of fast/binary_ops.go

Hand transcription (tied to the source text by `Gen.C01BinaryOps.isPowerOfTwoSrc/integerLenSrc`
and to the closures by the regenerated tables):

```go
func isPowerOfTwo(n uint64) bool { return n != 0 && n&(n-1) == 0 }
func integerLen(n uint64) uint8 {
	var l uint8
	for n > 0xff { l += 8; n >>= 8 }
	for n != 0 { l++; n >>= 1 }
	return l
}
```

and the closures built by `mulPow2`, `quoPow2`, `remPow2` (macros `mulpow2`, `quopow2`,
`rempow2` and their `_u` variants), as width-generic `BitVec` functions:

```go
x(env) << shift                                 // mulPow2, ypositive
-(x(env) << shift)                              // mulPow2, !ypositive
n := x(env); if n < 0 { n += y_1 }; return n >> shift        // quoPow2, ypositive   (y_1 = T(y-1))
n := x(env); if n < 0 { n += y_1 }; return -(n >> shift)     // quoPow2, !ypositive
x(env) >> shift                                 // quoPow2 unsigned
n := x(env); if n >= 0 { return n & y_1 }; return -(-n & y_1) // remPow2
x(env) & y_1                                    // remPow2 unsigned
```
-/
namespace Pow2

def isPowerOfTwo (n : BitVec 64) : Bool := n != 0#64 && (n &&& (n - 1#64)) == 0#64

/-- `for n != 0 { l++; n >>= 1 }` (at most `fuel` iterations; 64 suffice for a uint64) -/
def lenLoop1 : Nat → Nat → Nat → Nat
  | 0, _, l => l
  | fuel + 1, n, l => if n != 0 then lenLoop1 fuel (n >>> 1) (l + 1) else l

/-- `for n > 0xff { l += 8; n >>= 8 }` returns the remaining `n` and `l` -/
def lenLoop8 : Nat → Nat → Nat → Nat × Nat
  | 0, n, l => (n, l)
  | fuel + 1, n, l => if n > 0xff then lenLoop8 fuel (n >>> 8) (l + 8) else (n, l)

/-- `integerLen(n)`: number of bits needed to represent `n` (as a natural number ≤ 64; the Go
    result type uint8 cannot overflow) -/
def integerLen (n : BitVec 64) : Nat :=
  let (m, l) := lenLoop8 8 n.toNat 0
  lenLoop1 8 m l

variable {w : Nat}

def mulPow2 (x : BitVec w) (shift : Nat) (ypositive : Bool) : BitVec w :=
  if ypositive then x <<< shift else -(x <<< shift)

def quoPow2 (x y_1 : BitVec w) (shift : Nat) (ypositive : Bool) : BitVec w :=
  let n := if x.slt 0#w then x + y_1 else x
  if ypositive then n.sshiftRight shift else -(n.sshiftRight shift)

def quoPow2U (x : BitVec w) (shift : Nat) : BitVec w := x >>> shift

def remPow2 (x y_1 : BitVec w) : BitVec w :=
  if x.slt 0#w then -((-x) &&& y_1) else x &&& y_1

def remPow2U (x y_1 : BitVec w) : BitVec w := x &&& y_1

end Pow2
