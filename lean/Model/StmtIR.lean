import GoSpec.Val
import Model.ClosureIR
import Model.StmtSyntax
/-! # StmtIR — statement closures of the assignment arms (C02) and their evaluator

The specialised closures of fast/var_ops.go, var_shifts.go, var_set.go, var_set_value.go,
place_ops.go, place_shifts.go, place_set.go, place_set_value.go are transcribed by
`harness/c02_extract.go` into `SEntry`s: expressions are `ClosureIR.E` (shared with C01), statements
are `ClosureIR.S` plus one extra form for the frame-walking loop
`for i := 3; i < upn; i++ { o = o.Outer }`.  Transcription rules (extractor): blocks are inlined,
`var x T` is `.define x (.decl "T")`, `if v := e; c { s }` is `.define v e` then `.ifThen c s`,
a method call with two arguments `a.m(b, c)` is `.meth1 a m (.call2 "," b c)`.

Unlike the pure evaluator of `ClosureIR` (expressions that only READ the environment), statements
WRITE: the evaluator below threads a machine state `Mach`

* `frames`   the chain `env, env.Outer, env.Outer.Outer, ...` (each with `Ints []uint64` and boxed
             `Vals []reflect.Value`), `fileIdx` = position of `env.FileEnv` in that chain (FileEnv is
             an alias of one of the outer frames: a write through it is visible through the chain);
* `ip`       `env.IP`;
* `heap`     the addressable cells a place closure may return a settable `reflect.Value` for (pointer
             targets, array/slice elements, struct fields);
* `maps`     map objects (string keys; the arms never look at the key);
* `log`      the evaluation log: every application `f(env)` of an operand closure appends the
             closure's id — this makes "evaluated exactly once, in this order" observable.

`*(*T)(unsafe.Pointer(&e.Ints[i]))` reads/writes the low `width T` bits of slot `i` (little endian)
and leaves the other bits of the slot unchanged; complex128 occupies slots `i`, `i+1`.
Result: `stuck` (ill-typed / unsupported syntax: no accepted arm gets stuck — part of the soundness
theorems), `panic p m` (Go run-time panic, with the machine state at that moment), `ok`. -/

namespace StmtIR
open GoSpec GoSpec.Outcome ClosureIR

/-! ## machine -/

inductive Ref where
  | box (h i : Nat)        -- frames[h].vals[i]
  | cell (i : Nat)         -- heap[i]
  deriving DecidableEq, Repr

abbrev GoMap := List (List UInt8 × Val)

structure Mach where
  frames : List Frame
  fileIdx : Nat
  ip : Nat
  heap : List Val
  maps : List GoMap
  log : List Nat

inductive SV where
  | val (v : Val)
  | untyped (n : Int)
  | clo (k : Kind) (id : Nat) (r : Outcome Val)   -- func(*Env) T
  | cloRef (id : Nat) (r : Ref)                   -- place closure: settable reflect.Value
  | cloNil (id : Nat)                             -- place closure returning the zero reflect.Value (nil pointer)
  | cloMap (id : Nat) (m : Nat)                   -- place closure of m[k]: the map
  | cloKey (id : Nat) (k : List UInt8)            -- key closure
  | cloXV (id : Nat) (r : Outcome Val)            -- func(*Env) xr.Value
  | envp (h : Nat)
  | ints (h : Nat)
  | vals (h : Nat)
  | slot (h i : Nat)
  | ptr (k : Kind) (h i : Nat)
  | rv (r : Ref)
  | rvMap (m : Nat)
  | rvKey (k : List UInt8)
  | rvVal (v : Val)
  | rvInvalid
  | rtype (k : Kind)
  | iface (v : Val)
  | nat (n : Nat)
  | pair (a b : SV)
  | code

abbrev Store := List (String × SV)

def lookup (ρ : Store) (n : String) : Option SV :=
  match ρ with
  | [] => none
  | (m, v) :: rest => if m = n then some v else lookup rest n

def update (ρ : Store) (n : String) (v : SV) : Store := (n, v) :: ρ

inductive Res (α : Type) where
  | stuck
  | panic (p : Panic) (m : Mach)
  | ok (a : α) (m : Mach)

def Res.bind {α β} (r : Res α) (f : α → Mach → Res β) : Res β :=
  match r with
  | .stuck => .stuck
  | .panic p m => .panic p m
  | .ok a m => f a m

@[simp] theorem Res.bind_ok {α β} (a : α) (m : Mach) (f : α → Mach → Res β) : (Res.ok a m).bind f = f a m := rfl
@[simp] theorem Res.bind_panic {α β} (p : Panic) (m : Mach) (f : α → Mach → Res β) : (Res.panic p m : Res α).bind f = .panic p m := rfl
@[simp] theorem Res.bind_stuck {α β} (f : α → Mach → Res β) : (Res.stuck : Res α).bind f = .stuck := rfl

/-! ## slots -/

def kindOfVal : Val → Option Kind
  | .bool _ => some .bool
  | .f32 _ => some .float32 | .f64 _ => some .float64
  | .c64 _ _ => some .complex64 | .c128 _ _ => some .complex128
  | .str _ => some .string
  | .int _ _ => none      -- int / int64 (and uint / uint64 / uintptr) share an IKind

/-- the low `w` bits of `old` replaced by `v` -/
def patch (w : Nat) (old : BitVec 64) (v : BitVec w) : BitVec 64 :=
  if w ≥ 64 then v.setWidth 64
  else ((old >>> w) <<< w) ||| v.setWidth 64

/-- write a value of kind `k` at `l[i]` (complex128: `l[i]`, `l[i+1]`) -/
def writeSlot (k : Kind) (l : List (BitVec 64)) (i : Nat) (v : Val) : Option (List (BitVec 64)) :=
  match l[i]? with
  | none => none
  | some old =>
    match k, v with
    | .bool, .bool b => some (l.set i (patch 8 old (if b then 1#8 else 0#8)))
    | .float32, .f32 x => some (l.set i (patch 32 old x))
    | .float64, .f64 x => some (l.set i x)
    | .complex64, .c64 r im => some (l.set i (patch 64 old ((im.setWidth 64 <<< 32) ||| r.setWidth 64)))
    | .complex128, .c128 r im => if i + 1 < l.length then some ((l.set i r).set (i + 1) im) else none
    | k, .int ik x => if k.ikind? = some ik then some (l.set i (patch ik.w old x)) else none
    | _, _ => none

def frameAt (m : Mach) (h : Nat) : Option Frame := m.frames[h]?

def setFrame (m : Mach) (h : Nat) (f : Frame) : Mach := { m with frames := m.frames.set h f }

def readRef (m : Mach) : Ref → Option Val
  | .box h i => (m.frames[h]?).bind (fun f => f.vals[i]?)
  | .cell i => m.heap[i]?

def writeRef (m : Mach) (r : Ref) (v : Val) : Option Mach :=
  match r with
  | .box h i => match m.frames[h]? with
    | some f => if i < f.vals.length then some (setFrame m h { f with vals := f.vals.set i v }) else none
    | none => none
  | .cell i => if i < m.heap.length then some { m with heap := m.heap.set i v } else none

/-! ## reflect.Value getters / setters -/

/-- `Value.SetInt(x)` etc.: the argument is the wide value, the target keeps its own kind
    (`old` = current content, which fixes the kind) -/
def narrowTo (F : FloatOps) (old : Val) (m : String) (x : Val) : Option Val :=
  match m, old, x with
  | "SetInt", .int k _, .int ⟨64, true⟩ v => if k.signed then some (.int k (v.setWidth k.w)) else none
  | "SetUint", .int k _, .int ⟨64, false⟩ v => if k.signed then none else some (.int k (v.setWidth k.w))
  | "SetFloat", .f32 _, .f64 v => some (.f32 (F.narrow v))
  | "SetFloat", .f64 _, .f64 v => some (.f64 v)
  | "SetComplex", .c64 _ _, .c128 r i => some (.c64 (F.narrow r) (F.narrow i))
  | "SetComplex", .c128 _ _, .c128 r i => some (.c128 r i)
  | "SetBool", .bool _, .bool b => some (.bool b)
  | "SetString", .str _, .str s => some (.str s)
  | _, _, _ => none

def sameKind : Val → Val → Bool
  | .bool _, .bool _ => true
  | .int k _, .int k' _ => k == k'
  | .f32 _, .f32 _ => true | .f64 _, .f64 _ => true
  | .c64 _ _, .c64 _ _ => true | .c128 _ _, .c128 _ _ => true
  | .str _, .str _ => true
  | _, _ => false

def isSetter (m : String) : Bool :=
  m == "SetInt" || m == "SetUint" || m == "SetFloat" || m == "SetComplex" || m == "SetBool" || m == "SetString"

def mapGet (mp : GoMap) (k : List UInt8) : Option Val :=
  match mp with
  | [] => none
  | (k', v) :: rest => if k' = k then some v else mapGet rest k

def mapSet (mp : GoMap) (k : List UInt8) (v : Val) : GoMap :=
  match mp with
  | [] => [(k, v)]
  | (k', v') :: rest => if k' = k then (k, v) :: rest else (k', v') :: mapSet rest k v

/-- kind named by a Go type name (`var result int8`) -/
def zeroOfTypeName (t : String) : Option Val := (Kind.ofName t).map Val.zero

/-! ## expressions -/

def coerceLike (like : Val) (n : Int) : Option Val :=
  match like with
  | .int k _ => some (.int k (BitVec.ofInt k.w n))
  | _ => none

def liftB (m : Mach) (o : Option (Outcome Val)) : Res SV :=
  match o with
  | none => .stuck
  | some (Outcome.ok v) => .ok (.val v) m
  | some (Outcome.panic p) => .panic p m

def evalBinSV (F : FloatOps) (m : Mach) (op : BinOp) (a b : SV) : Res SV :=
  match a, b with
  | .val x, .val y => liftB m (binop F op x y)
  | .val x, .untyped n =>
    if op.isShift then
      (if n < 0 then .stuck else
        match x with
        | .int k v => liftB m (intShift op k v ⟨64, false⟩ (BitVec.ofInt 64 n))
        | _ => .stuck)
    else match coerceLike x n with
      | some y => liftB m (binop F op x y)
      | none => .stuck
  | .rtype k, .rtype k' =>
    (match op with
     | .neq => .ok (.val (.bool (k != k'))) m
     | .eql => .ok (.val (.bool (k == k'))) m
     | _ => .stuck)
  | _, _ => .stuck

def envHop (m : Mach) (h : Nat) : Res SV := if h < m.frames.length then .ok (.envp h) m else .stuck

def evalSelSV (m : Mach) (a : SV) (f : String) : Res SV :=
  match a, f with
  | .envp h, "Outer" => envHop m (h + 1)
  | .envp _, "FileEnv" => envHop m m.fileIdx
  | .envp h, "Ints" => if h < m.frames.length then .ok (.ints h) m else .stuck
  | .envp h, "Vals" => if h < m.frames.length then .ok (.vals h) m else .stuck
  | .envp 0, "IP" => .ok (.nat m.ip) m
  | .envp 0, "Code" => .ok .code m
  | _, _ => .stuck

def readPtr (m : Mach) (k : Kind) (h i : Nat) : Option Val :=
  (m.frames[h]?).bind (fun f => readSlot k f.ints i)

def writePtr (m : Mach) (k : Kind) (h i : Nat) (v : Val) : Option Mach :=
  match m.frames[h]? with
  | none => none
  | some f => (writeSlot k f.ints i v).map (fun l => setFrame m h { f with ints := l })

def rvOf (m : Mach) : SV → Option Val
  | .rv r => readRef m r
  | .rvVal v => some v
  | _ => none

/-- `Value.Type()` as far as the arms use it: on the result of `Int()`/`Uint()` arithmetic (a 64-bit
    integer is reported as int64 / uint64: values do not carry the int/int64 distinction) -/
def typeKind (v : Val) : Option Kind :=
  match v with
  | .int k _ =>
    if k = ⟨64, true⟩ then some .int64 else if k = ⟨64, false⟩ then some .uint64
    else if k = ⟨8, true⟩ then some .int8 else if k = ⟨16, true⟩ then some .int16
    else if k = ⟨32, true⟩ then some .int32 else if k = ⟨8, false⟩ then some .uint8
    else if k = ⟨16, false⟩ then some .uint16 else if k = ⟨32, false⟩ then some .uint32 else none
  | v => kindOfVal v

def applyClosure (m : Mach) (c : SV) : Res SV :=
  match c with
  | .clo _ id r => let m' := { m with log := m.log ++ [id] }
    (match r with | Outcome.ok v => .ok (.val v) m' | Outcome.panic p => .panic p m')
  | .cloRef id r => .ok (.rv r) { m with log := m.log ++ [id] }
  | .cloNil id => .ok .rvInvalid { m with log := m.log ++ [id] }
  | .cloMap id mp => .ok (.rvMap mp) { m with log := m.log ++ [id] }
  | .cloKey id k => .ok (.rvKey k) { m with log := m.log ++ [id] }
  | .cloXV id r => let m' := { m with log := m.log ++ [id] }
    (match r with | Outcome.ok v => .ok (.rvVal v) m' | Outcome.panic p => .panic p m')
  | _ => .stuck

def evalMeth0SV (F : FloatOps) (m : Mach) (a : SV) (meth : String) : Res SV :=
  match meth with
  | "IsValid" => (match a with
      | .rvInvalid => .ok (.val (.bool false)) m
      | .rv _ => .ok (.val (.bool true)) m
      | .rvVal _ => .ok (.val (.bool true)) m
      | _ => .stuck)
  | "Type" => (match rvOf m a with
      | some v => (match typeKind v with | some k => .ok (.rtype k) m | none => .stuck)
      | none => .stuck)
  | g => match rvOf m a with
    | some v => (match rvalueGet F g v with | some r => .ok (.val r) m | none => .stuck)
    | none => .stuck

def evalMeth1SV (F : FloatOps) (m : Mach) (a : SV) (meth : String) (b : SV) : Res SV :=
  if isSetter meth then
    match a, b with
    | .rv r, .val x =>
      (match readRef m r with
       | some old => (match narrowTo F old meth x with
          | some v => (match writeRef m r v with | some m' => .ok (.nat 0) m' | none => .stuck)
          | none => .stuck)
       | none => .stuck)
    | _, _ => .stuck
  else match meth, a, b with
    | "Set", .rv r, .rvVal v =>
      (match readRef m r with
       | some old => if sameKind old v then (match writeRef m r v with | some m' => .ok (.nat 0) m' | none => .stuck) else .stuck
       | none => .stuck)
    | "MapIndex", .rvMap mp, .rvKey k =>
      (match m.maps[mp]? with
       | some g => (match mapGet g k with | some v => .ok (.rvVal v) m | none => .ok .rvInvalid m)
       | none => .stuck)
    | "SetMapIndex", .rvMap mp, .pair (.rvKey k) (.rvVal v) =>
      (match m.maps[mp]? with
       | some g => .ok (.nat 0) { m with maps := m.maps.set mp (mapSet g k v) }
       | none => .stuck)
    | _, _, _ => .stuck

/-- Go conversion between basic kinds: `ClosureIR.convVal` plus the widening conversions
    float32 -> float64 and complex64 -> complex128 (`float64(val)` in the boxed arms) -/
def convValW (F : FloatOps) (k : Kind) (v : Val) : Option Val :=
  match v, k with
  | .f32 b, .float64 => some (.f64 (F.widen b))
  | .c64 r i, .complex128 => some (.c128 (F.widen r) (F.widen i))
  | v, k => convVal F k v

def evalConvSV (F : FloatOps) (m : Mach) (k : Kind) (a : SV) : Res SV :=
  match a with
  | .val v => (match convValW F k v with | some r => .ok (.val r) m | none => .stuck)
  | .untyped n => (match k.ikind? with | some kt => .ok (.val (.int kt (BitVec.ofInt kt.w n))) m | none => .stuck)
  | _ => .stuck

/-- results of compile-time getters (`va.Desc.Index()`, `e.AsUint64()`, `integerLen(y)` ...) are
    supplied by the dispatch model through the store under their source text -/
def ctKey : E → Option String
  | .meth0 (.sel (.var o) fld) mth => some (o ++ "." ++ fld ++ "." ++ mth ++ "()")
  | .meth0 (.var o) mth => some (o ++ "." ++ mth ++ "()")
  | .sel (.var o) fld => if o == "env" || o == "o" then none else some (o ++ "." ++ fld)
  | .call1 f (.var a) => if f == "integerLen" || f == "constAsUint64" || f == "funAsX1" then some (f ++ "(" ++ a ++ ")") else none
  | _ => none

def evalE (F : FloatOps) (ρ : Store) (m : Mach) : E → Res SV
  | .var n => (match lookup ρ n with | some v => .ok v m | none => .stuck)
  | .int n => .ok (.untyped n) m
  | .str s => .ok (.val (.str s.toUTF8.toList)) m
  | .app f => (evalE F ρ m f).bind fun c m1 => applyClosure m1 c
  | .bin op a b => (evalE F ρ m a).bind fun va m1 => (evalE F ρ m1 b).bind fun vb m2 => evalBinSV F m2 op va vb
  | .un op a => (evalE F ρ m a).bind fun va m1 =>
      (match va with | .val x => liftB m1 (unop F op x) | _ => .stuck)
  | .conv k a => (evalE F ρ m a).bind fun va m1 => evalConvSV F m1 k va
  | .sel a f =>
    (match (ctKey (.sel a f)).bind (lookup ρ) with
     | some v => .ok v m
     | none => (evalE F ρ m a).bind fun va m1 => evalSelSV m1 va f)
  | .index a i => (evalE F ρ m a).bind fun va m1 => (evalE F ρ m1 i).bind fun vi m2 =>
      (match va, vi with
       | .ints h, .nat n => .ok (.slot h n) m2
       | .vals h, .nat n => (match readRef m2 (.box h n) with | some _ => .ok (.rv (.box h n)) m2 | none => .stuck)
       | .code, .nat _ => .ok .code m2
       | _, _ => .stuck)
  | .addr a => evalE F ρ m a
  | .deref a => (evalE F ρ m a).bind fun va m1 =>
      (match va with
       | .ptr k h i => (match readPtr m1 k h i with | some v => .ok (.val v) m1 | none => .stuck)
       | _ => .stuck)
  | .ptrCast k a => (evalE F ρ m a).bind fun va m1 =>
      (match va with | .slot h i => .ok (.ptr k h i) m1 | _ => .stuck)
  | .assertFun a k => (evalE F ρ m a).bind fun va m1 =>
      (match va with | .clo k' id r => if k' = k then .ok (.clo k' id r) m1 else .stuck | _ => .stuck)
  | .meth0 a meth =>
    (match (ctKey (.meth0 a meth)).bind (lookup ρ) with
     | some v => .ok v m
     | none => (evalE F ρ m a).bind fun va m1 => evalMeth0SV F m1 va meth)
  | .meth1 a meth b => (evalE F ρ m a).bind fun va m1 => (evalE F ρ m1 b).bind fun vb m2 => evalMeth1SV F m2 va meth vb
  | .call1 f a =>
    (match (ctKey (.call1 f a)).bind (lookup ρ) with
     | some v => .ok v m
     | none => (evalE F ρ m a).bind fun va m1 =>
      (match f, va with
       | "unsafe.Pointer", .slot h i => .ok (.slot h i) m1
       | "xr.ValueOf", .iface v => .ok (.rvVal v) m1
       | "xr.ValueOf", .val v => .ok (.rvVal v) m1
       | "xr.Zero", .rtype k => .ok (.rvVal (Val.zero k)) m1
       | _, _ => .stuck))
  | .call2 f a b => (evalE F ρ m a).bind fun va m1 => (evalE F ρ m1 b).bind fun vb m2 =>
      (match f, va, vb with
       | ",", x, y => .ok (.pair x y) m2
       | "funAsX1", .clo _ id r, _ => .ok (.cloXV id r) m2
       | "convert", .rvVal v, .rtype k => (match convValW F k v with | some r => .ok (.rvVal r) m2 | none => .stuck)
       | _, _, _ => .stuck)
  | .tuple i a => (evalE F ρ m a).bind fun va m1 =>
      (match va with
       | .pair x y => if i = 0 then .ok x m1 else if i = 1 then .ok y m1 else .stuck
       | _ => .stuck)
  | .assertFunX _ => .stuck
  | .assertFunXV _ => .stuck
  | .decl _ => .stuck
  | .opaque _ => .stuck

/-! ## statements -/

inductive Flow where
  | next (ρ : Store) (m : Mach)
  | done (m : Mach)                 -- `return env.Code[env.IP], env`
  | panic (p : Panic) (m : Mach)
  | stuck

/-- store `v` into the location denoted by the left-hand side `l` -/
def assignTo (F : FloatOps) (ρ : Store) (m : Mach) (l : E) (v : SV) : Flow :=
  match l with
  | .var n => .next (update ρ n v) m
  | .deref a =>
    (match evalE F ρ m a with
     | .ok (.ptr k h i) m1 =>
       (match v with
        | .val x => (match writePtr m1 k h i x with | some m2 => .next ρ m2 | none => .stuck)
        | _ => .stuck)
     | .panic p m1 => .panic p m1
     | _ => .stuck)
  | .index a i =>
    -- `e.Ints[i] = v`: an element of `Ints []uint64`
    (match evalE F ρ m (.index a i) with
     | .ok (.slot h j) m1 =>
       (match v with
        | .val x => (match writePtr m1 .uint64 h j x with | some m2 => .next ρ m2 | none => .stuck)
        | _ => .stuck)
     | .panic p m1 => .panic p m1
     | _ => .stuck)
  | _ => .stuck

/-- current value of a left-hand side (for `l op= r`) -/
def loadFrom (F : FloatOps) (ρ : Store) (m : Mach) (l : E) : Res SV :=
  match l with
  | .var n => (match lookup ρ n with | some v => .ok v m | none => .stuck)
  | .deref a => evalE F ρ m (.deref a)
  | .index a i => (evalE F ρ m (.index a i)).bind fun s m1 =>
      (match s with
       | .slot h j => (match readPtr m1 .uint64 h j with | some v => .ok (.val v) m1 | none => .stuck)
       | _ => .stuck)
  | _ => .stuck

def execS (F : FloatOps) (ρ : Store) (m : Mach) : S → Flow
  | .expr e => (match evalE F ρ m e with
      | .ok _ m1 => .next ρ m1 | .panic p m1 => .panic p m1 | .stuck => .stuck)
  | .define n (.decl t) => (match zeroOfTypeName t with
      | some z => .next (update ρ n (.val z)) m | none => .stuck)
  | .define n e => (match evalE F ρ m e with
      | .ok v m1 => .next (update ρ n v) m1 | .panic p m1 => .panic p m1 | .stuck => .stuck)
  | .assign l e => (match evalE F ρ m e with
      | .ok v m1 => assignTo F ρ m1 l v | .panic p m1 => .panic p m1 | .stuck => .stuck)
  | .opAssign l op e =>
      -- Go: operands are evaluated, then the operation, then the store (a panic stores nothing)
      (match evalE F ρ m e with
       | .ok y m1 => (match loadFrom F ρ m1 l with
          | .ok x m2 => (match evalBinSV F m2 op x y with
             | .ok v m3 => assignTo F ρ m3 l v
             | .panic p m3 => .panic p m3
             | .stuck => .stuck)
          | .panic p m2 => .panic p m2
          | .stuck => .stuck)
       | .panic p m1 => .panic p m1
       | .stuck => .stuck)
  | .inc (.sel (.var "env") "IP") => .next ρ { m with ip := m.ip + 1 }
  | .ret2 a b => (match evalE F ρ m a with
      | .ok .code m1 => (match evalE F ρ m1 b with
         | .ok (.envp 0) m2 => .done m2
         | _ => .stuck)
      | _ => .stuck)
  | .ifThen c s => (match evalE F ρ m c with
      | .ok (.val (.bool true)) m1 => execS F ρ m1 s
      | .ok (.val (.bool false)) m1 => .next ρ m1
      | .panic p m1 => .panic p m1
      | _ => .stuck)
  | _ => .stuck

/-- `for i := a; i < b; i++ { body }` with `n` iterations left -/
def loopS (F : FloatOps) (body : S) : Nat → Store → Mach → Flow
  | 0, ρ, m => .next ρ m
  | n + 1, ρ, m => match execS F ρ m body with
    | .next ρ' m' => loopS F body n ρ' m'
    | r => r

def execSt (F : FloatOps) (ρ : Store) (m : Mach) : St → Flow
  | .s s => execS F ρ m s
  | .forLt _ a b body =>
    match evalE F ρ m a, evalE F ρ m b with
    | .ok (.untyped lo) _, .ok (.nat hi) _ => if lo < 0 then .stuck else loopS F body (hi - lo.toNat) ρ m
    | _, _ => .stuck

def execBody (F : FloatOps) : List St → Store → Mach → Flow
  | [], ρ, m => .next ρ m
  | s :: rest, ρ, m => match execSt F ρ m s with
    | .next ρ' m' => execBody F rest ρ' m'
    | r => r

/-- bindings are evaluated in source order on the compile-time store; `decl` keeps the value
    assigned by the prologue (supplied by the dispatch model) -/
def evalBinds (F : FloatOps) (m : Mach) : Store → List (String × E) → Option Store
  | ρ, [] => some ρ
  | ρ, (n, .decl _) :: rest => if (lookup ρ n).isSome then evalBinds F m ρ rest else none
  | ρ, (n, e) :: rest => match evalE F ρ m e with
    | .ok v _ => evalBinds F m (update ρ n v) rest
    | _ => none

/-- run one arm as a statement: `stuck`, a panic (machine at that moment), or the machine after
    `return env.Code[env.IP], env` -/
inductive Out where
  | stuck
  | panic (p : Panic) (m : Mach)
  | done (m : Mach)

def runArm (F : FloatOps) (ρ : Store) (m : Mach) (e : SEntry) : Out :=
  match evalBinds F m ρ e.binds with
  | none => .stuck
  | some ρ' => match execBody F e.body (update ρ' "env" (.envp 0)) m with
    | .done m' => .done m'
    | .panic p m' => .panic p m'
    | _ => .stuck

end StmtIR
