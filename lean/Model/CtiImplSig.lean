import Model.CtiSig
/-! # CtiImplSig — do the reflect signatures of the container-method implementations
(`xreflect/cti_method.go addTypeMethodsCTI`: the `r.FuncOf(in, out, variadic)` of every `case "M"`)
agree with the signatures the type checker declares (`go/types/cti_method.go make*Methods`)?

Both sides are regenerated symbolically by `harness/c34_extract.go` (`Gen.CtiSigs.implSigs`,
`Gen.CtiSigs.{array,slice,map,chan}Rules`), with the conditions of the source kept as text.  This
file supplies the truth of those conditions for each shape of UNNAMED container type and compares
the resolved signatures, up to the identity `self = []elem` of an unnamed slice type.  A mismatch
means: the call type-checks against one signature and `reflect.Value.Call` is made with another —
a run-time panic for every element type (defect `Copy` on arrays). -/
namespace CtiImplSig
open CtiSig

inductive CK where
  | array | slice | byteSlice | map | chanBoth | chanRecv | chanSend
  deriving DecidableEq, Repr

def CK.all : List CK := [.array, .slice, .byteSlice, .map, .chanBoth, .chanRecv, .chanSend]

/-- truth of the textual conditions of `make*Methods` and of `addTypeMethodsCTI` for an unnamed
    container type of the given shape, generics v2 enabled -/
def conds (ck : CK) : TextConds := fun t =>
  if t = "!etoken.GENERICS.V2_CTI()" then some false
  else if t = "k == r.Array" then some (ck == .array)
  else if t = "k == r.Map" then some (ck == .map)
  else if t = "k == r.Array || k == r.Chan || k == r.Map || k == r.Slice" then some true
  else if t = "k == r.String" then some false
  else if t = "elem == Typ[Uint8] || elem == Universe.Lookup(\"byte\").Type()" then some (ck == .byteSlice)
  else if t = "_, ok := t.(*Slice); !ok" then some false
  else if t = "dir == SendRecv || dir == RecvOnly" then some (ck == .chanBoth || ck == .chanRecv)
  else if t = "dir == SendRecv || dir == SendOnly" then some (ck == .chanBoth || ck == .chanSend)
  else none

def elemOf (ck : CK) : Ty := if ck == .byteSlice then .basic "Uint8" else .elem

/-- normal form of a type: an unnamed slice type IS `[]elem`; the element of a byte slice is uint8 -/
def norm (ck : CK) : Ty → Ty
  | .self => if ck == .slice || ck == .byteSlice then .slice (elemOf ck) else .self
  | .elem => elemOf ck
  | .ptr t => .ptr (norm ck t)
  | .slice t => .slice (norm ck t)
  | t => t

def normSig (ck : CK) (s : Sig) : Sig :=
  { recv := norm ck s.recv, params := s.params.map (norm ck), results := s.results.map (norm ck), variadic := s.variadic }

/-- every method declared for the shape has an implementation whose reflect signature is the
    declared signature -/
def sigsOk (ck : CK) (rules : List Rule) (impl : List (String × Sig)) : Bool :=
  match declared [] [] (conds ck) rules with
  | none => false
  | some decl => !decl.isEmpty && decl.all (fun d =>
      match impl.lookup d.1 with
      | some is => (resolveSig (conds ck) is).map (normSig ck) == some (normSig ck d.2)
      | none => false)

end CtiImplSig
