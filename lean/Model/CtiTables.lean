import Model.Cti
import Gen.CtiBasic
/-! The regenerated arm table of each basic kind (`lean/Gen/CtiBasic.lean`, one definition per
    `case r.K:` of `addBasicTypeMethodsCTI`). -/
namespace Cti
open GoSpec ClosureIR

def tableOf : Kind → List Entry
  | .bool => Gen.CtiBasic.arms_bool | .int => Gen.CtiBasic.arms_int | .int8 => Gen.CtiBasic.arms_int8
  | .int16 => Gen.CtiBasic.arms_int16 | .int32 => Gen.CtiBasic.arms_int32 | .int64 => Gen.CtiBasic.arms_int64
  | .uint => Gen.CtiBasic.arms_uint | .uint8 => Gen.CtiBasic.arms_uint8 | .uint16 => Gen.CtiBasic.arms_uint16
  | .uint32 => Gen.CtiBasic.arms_uint32 | .uint64 => Gen.CtiBasic.arms_uint64 | .uintptr => Gen.CtiBasic.arms_uintptr
  | .float32 => Gen.CtiBasic.arms_float32 | .float64 => Gen.CtiBasic.arms_float64
  | .complex64 => Gen.CtiBasic.arms_complex64 | .complex128 => Gen.CtiBasic.arms_complex128
  | .string => Gen.CtiBasic.arms_string

/-- the arm the interpreter installs for (kind, method name): looked up by the two case labels -/
def findArm (k : Kind) (meth : String) : Option Arm :=
  ((tableOf k).find? (fun e => e.path.contains (caseOf k) && e.path.contains ("case \"" ++ meth ++ "\""))).map (·.arm)

end Cti
