/-! # CtiContainer — the CTI methods of slices, arrays, maps and channels (xreflect/cti_method.go)

`addTypeMethodsCTI` implements every container method by ONE reflection call
(`ctiLen = reflect.Indirect(v[0]).Len()`, `ctiAppend = reflect.AppendSlice(v[0], v[1])`,
`ctiSlice = Indirect(v[0]).Slice(int(v[1].Int()), int(v[2].Int()))`, `ctiCopy = reflect.Copy(..)`,
`MapIndex/SetMapIndex`, `Send/Recv/TrySend/TryRecv/Close`), `reflect.Indirect` turning the
pointer-to-array receiver into the array.  The model below is the meaning of those reflection
calls = Go's builtins on a small heap model (reflection itself is TRUSTED to implement the
builtins; what the model pins down is which builtin, on which operands, in which order, with
which zero/`ok` conventions):

* a slice is the view `(arr, len)` of its backing array from the slice's start to its capacity
  end (`cap = arr.length`); an array `*[N]T` is the view with `len = cap = N`;
* a map is an association list with unique keys (`none` = nil map);
* a channel is `(queue, cap, closed)`; only non-blocking histories are considered.

Elements are integers.  Run-time panics: `index`, `slice`, `nilmap`, `closed`. -/
namespace CtiContainer

inductive CPanic where
  | index | slice | nilmap | closed
  deriving DecidableEq, Repr

def CPanic.show : CPanic → String
  | .index => "P:index" | .slice => "P:slice" | .nilmap => "P:nilmap" | .closed => "P:closed"

/-- a slice / array view -/
structure View where
  arr : List Int
  len : Nat
  deriving DecidableEq, Repr

namespace View
def cap (s : View) : Nat := s.arr.length
def wf (s : View) : Prop := s.len ≤ s.arr.length

/-- the elements `s[0:len]` -/
def elems (s : View) : List Int := s.arr.take s.len

/-- `s[i]` -/
def index (s : View) (i : Int) : Except CPanic Int :=
  if i < 0 then .error .index
  else if i.toNat < s.len then
    match s.arr[i.toNat]? with
    | some v => .ok v
    | none => .error .index
  else .error .index

/-- `s[i] = v` / `*(&s[i]) = v` -/
def setIndex (s : View) (i v : Int) : Except CPanic View :=
  if i < 0 then .error .index
  else if i.toNat < s.len then .ok { s with arr := s.arr.set i.toNat v }
  else .error .index

/-- `s[i:j]`: `0 ≤ i ≤ j ≤ cap(s)`; the result shares the backing array -/
def slice (s : View) (i j : Int) : Except CPanic View :=
  if i < 0 || j < 0 then .error .slice
  else if s.cap < j.toNat then .error .slice
  else if j.toNat < i.toNat then .error .slice
  else .ok { arr := s.arr.drop i.toNat, len := j.toNat - i.toNat }

/-- `s[i:j:k]`: `0 ≤ i ≤ j ≤ k ≤ cap(s)` -/
def slice3 (s : View) (i j k : Int) : Except CPanic View :=
  if i < 0 || j < 0 || k < 0 then .error .slice
  else if s.cap < k.toNat then .error .slice
  else if k.toNat < j.toNat then .error .slice
  else if j.toNat < i.toNat then .error .slice
  else .ok { arr := (s.arr.drop i.toNat).take (k.toNat - i.toNat), len := j.toNat - i.toNat }

/-- `append(s, xs...)`: (result, receiver's backing array afterwards).  In place when the
    capacity suffices, otherwise a new array (whose capacity is unspecified: modelled as exact) -/
def append (s : View) (xs : List Int) : View × List Int :=
  if s.len + xs.length ≤ s.cap then
    let arr' := s.arr.take s.len ++ xs ++ s.arr.drop (s.len + xs.length)
    ({ arr := arr', len := s.len + xs.length }, arr')
  else ({ arr := s.arr.take s.len ++ xs, len := s.len + xs.length }, s.arr)

/-- `copy(s, xs)` -/
def copy (s : View) (xs : List Int) : View :=
  let n := min s.len xs.length
  { s with arr := xs.take n ++ s.arr.drop n }
end View

/-! ## maps -/
abbrev GoMap := Option (List (Int × Int))

def mapGet (m : GoMap) (k : Int) : Option Int :=
  match m with
  | none => none
  | some l => (l.find? (fun e => e.1 == k)).map (·.2)

def mapLen (m : GoMap) : Nat := match m with | none => 0 | some l => l.length

def mapSet (m : GoMap) (k v : Int) : Except CPanic GoMap :=
  match m with
  | none => .error .nilmap
  | some l => .ok (some (if l.any (fun e => e.1 == k) then l.map (fun e => if e.1 == k then (k, v) else e) else l ++ [(k, v)]))

def mapDel (m : GoMap) (k : Int) : GoMap := m.map (fun l => l.filter (fun e => e.1 != k))

/-! ## channels -/
structure Chan where
  q : List Int
  cap : Nat
  closed : Bool
  deriving DecidableEq, Repr

inductive ChanOp where
  | send (v : Int) | trySend (v : Int) | recv | tryRecv | close | len | cap
  deriving DecidableEq, Repr

inductive ChanOut where
  | ok | panicClosed | flag (b : Bool) | val (v : Int) (more : Bool) | num (n : Nat) | block
  deriving DecidableEq, Repr

def ChanOut.show : ChanOut → String
  | .ok => "ok" | .panicClosed => "P:closed"
  | .flag b => if b then "t" else "f"
  | .val v more => toString v ++ (if more then ",t" else ",f")
  | .num n => toString n
  | .block => "BLOCK"

/-- one channel operation: (result, new state); `block` = the operation would block (such
    histories are never generated) -/
def chanStep (c : Chan) : ChanOp → ChanOut × Chan
  | .send v => if c.closed then (.panicClosed, c) else if c.q.length < c.cap then (.ok, { c with q := c.q ++ [v] }) else (.block, c)
  | .trySend v => if c.closed then (.panicClosed, c) else if c.q.length < c.cap then (.flag true, { c with q := c.q ++ [v] }) else (.flag false, c)
  | .recv => match c.q with
    | v :: rest => (.val v true, { c with q := rest })
    | [] => if c.closed then (.val 0 false, c) else (.block, c)
  | .tryRecv => match c.q with
    | v :: rest => (.val v true, { c with q := rest })
    | [] => (.val 0 false, c)                 -- the zero value and `false`, closed or not
  | .close => if c.closed then (.panicClosed, c) else (.ok, { c with closed := true })
  | .len => (.num c.q.length, c)
  | .cap => (.num c.cap, c)

def chanRun (c : Chan) : List ChanOp → List ChanOut
  | [] => []
  | op :: rest => (chanStep c op).1 :: chanRun (chanStep c op).2 rest

/-! ## the line protocol of the correspondence (harness/c34_container.go) -/

def parseInt (s : String) : Option Int := s.toInt?

def parseInts (s : String) : Option (List Int) :=
  if s == "-" || s == "nil" then some [] else (s.splitOn ",").mapM parseInt

def showInts (l : List Int) : String := if l.isEmpty then "-" else ",".intercalate (l.map toString)

def showView (v : View) : String := toString v.len ++ ":" ++ toString v.cap ++ ":" ++ showInts v.arr

def hexDigit (c : Char) : Option Nat :=
  if '0' ≤ c ∧ c ≤ '9' then some (c.toNat - '0'.toNat)
  else if 'a' ≤ c ∧ c ≤ 'f' then some (c.toNat - 'a'.toNat + 10)
  else none

def hexInts : List Char → Option (List Int)
  | [] => some []
  | a :: b :: rest => do
    let x ← hexDigit a
    let y ← hexDigit b
    let r ← hexInts rest
    pure (Int.ofNat (x * 16 + y) :: r)
  | _ => none

def parseStr (s : String) : Option (List Int) :=
  match s.toList with
  | 's' :: rest => hexInts rest
  | _ => none

def res (r : Except CPanic String) (after : String) : String :=
  match r with
  | .ok s => s ++ " | " ++ after
  | .error p => p.show ++ " | " ++ after

/-- slice and array methods on a view; `args` as on the op line -/
def viewOp (meth : String) (s : View) (args : List String) : Option String :=
  let b := showInts s.arr
  match meth, args with
  | "Len", [] => some (toString s.len ++ " | " ++ b)
  | "Cap", [] => some (toString s.cap ++ " | " ++ b)
  | "Index", [i] => do
    let i ← parseInt i
    pure (res ((s.index i).map toString) b)
  | "SetIndex", [i, v] | "AddrIndex", [i, v] => do
    let i ← parseInt i
    let v ← parseInt v
    match s.setIndex i v with
    | .ok s' => pure ("ok | " ++ showInts s'.arr)
    | .error p => pure (p.show ++ " | " ++ b)
  | "Slice", [i, j] => do
    let i ← parseInt i
    let j ← parseInt j
    pure (res ((s.slice i j).map showView) b)
  | "Slice3", [i, j, k] => do
    let i ← parseInt i
    let j ← parseInt j
    let k ← parseInt k
    pure (res ((s.slice3 i j k).map showView) b)
  | "Append", [xs] => do
    let xs ← parseInts xs
    let (r, arr') := s.append xs
    pure (toString r.len ++ ":" ++ showInts r.elems ++ " | " ++ showInts arr')
  | "Append2", [x, y] => do
    let x ← parseInt x
    let y ← parseInt y
    let (r, arr') := s.append [x, y]
    pure (toString r.len ++ ":" ++ showInts r.elems ++ " | " ++ showInts arr')
  | "Copy", [xs] => do
    let xs ← parseInts xs
    pure ("ok | " ++ showInts (s.copy xs).arr)
  | _, _ => none

def bytesOp (meth : String) (s : View) (str : List Int) : Option String :=
  let b := showInts s.arr
  match meth with
  | "Len" => some (toString s.len ++ " | " ++ b)
  | "Index" => some (res ((s.index (Int.ofNat str.length)).map toString) b)
  | "AppendString" | "Append" =>
    let (r, arr') := s.append str
    some (toString r.len ++ ":" ++ showInts r.elems ++ " | " ++ showInts arr')
  | "CopyString" => some ("ok | " ++ showInts (s.copy str).arr)
  | _ => none

def parseMap (s : String) : Option GoMap :=
  if s == "nil" then some none
  else if s == "-" then some (some [])
  else ((s.splitOn ",").mapM (fun (kv : String) => match kv.splitOn ":" with
    | [k, v] => do
      let k ← parseInt k
      let v ← parseInt v
      pure (k, v)
    | _ => none)).map some

def insertSorted (e : Int × Int) : List (Int × Int) → List (Int × Int)
  | [] => [e]
  | x :: xs => if e.1 < x.1 then e :: x :: xs else x :: insertSorted e xs

def showMap (m : GoMap) : String :=
  match m with
  | none => "nil"
  | some [] => "-"
  | some l => ",".intercalate ((l.foldr insertSorted []).map (fun e => toString e.1 ++ ":" ++ toString e.2))

def mapOp (meth : String) (m : GoMap) (args : List String) : Option String :=
  match meth, args with
  | "Len", [] => some (toString (mapLen m) ++ " | " ++ showMap m)
  | "Index", [k] => do
    let k ← parseInt k
    pure (toString ((mapGet m k).getD 0) ++ " | " ++ showMap m)
  | "TryIndex", [k] => do
    let k ← parseInt k
    pure ((match mapGet m k with
      | some v => toString v ++ ",true"
      | none => "0,false") ++ " | " ++ showMap m)
  | "SetIndex", [k, v] => do
    let k ← parseInt k
    let v ← parseInt v
    match mapSet m k v with
    | .ok m' => pure ("ok | " ++ showMap m')
    | .error p => pure (p.show ++ " | " ++ showMap m)
  | "DelIndex", [k] => do
    let k ← parseInt k
    pure ("ok | " ++ showMap (mapDel m k))
  | _, _ => none

def parseChanOp (s : String) : Option ChanOp :=
  match s.toList with
  | 'S' :: rest => (String.ofList rest).toInt?.map .send
  | 'T' :: rest => (String.ofList rest).toInt?.map .trySend
  | ['R'] => some .recv
  | ['Y'] => some .tryRecv
  | ['C'] => some .close
  | ['L'] => some .len
  | ['P'] => some .cap
  | _ => none

def stepLine (f : List String) : String :=
  let r : Option String :=
    match f with
    | "slice" :: meth :: _route :: backing :: len :: args => do
      let arr ← parseInts backing
      let n ← len.toNat?
      viewOp meth { arr := arr, len := n } args
    | "array" :: meth :: _route :: elems :: args => do
      let arr ← parseInts elems
      viewOp meth { arr := arr, len := arr.length } args
    | ["bytes", meth, _route, backing, len, str] => do
      let arr ← parseInts backing
      let n ← len.toNat?
      let s ← parseStr str
      bytesOp meth { arr := arr, len := n } s
    | "map" :: meth :: _route :: contents :: args => do
      let m ← parseMap contents
      mapOp meth m args
    | "chan" :: _dir :: _route :: cap :: ops => do
      let c ← cap.toNat?
      let ops ← ops.mapM parseChanOp
      pure (" ".intercalate ((chanRun { q := [], cap := c, closed := false } ops).map ChanOut.show))
    | _ => none
  r.getD "bad-op"

end CtiContainer
