/-!
# Model of gomacro's field / method lookup through embedded fields (property C09)

Transcribed from (repaired tree, see fixes/C09-ambiguous-depth.diff):

* `xreflect/lookup.go`
  `depthMap.visited`                       → `DepthMap.visited`
  `fieldByName`                            → `scanFields`, `fieldByName`
  `xtype.FieldByName` (loop + cache)       → `fieldLevel`, `fieldLoop`, `fieldBFS`, `FieldByName`
  `cacheFieldByName`                       → the `cache` update inside `FieldByName`
  `anonymousFields`                        → `anonymousFields`
  `methodByName` (package function)        → `scanMethods`, `methodByName1`
  `xtype.methodByName` (loop + cache)      → `methodLevel`, `methodLoop`, `methodBFS`, `MethodByName`
  `cacheMethodByName`                      → the `-count` marker inside `MethodByName`
* `fast/selector.go`  `Comp.TryLookupFieldOrMethod` → `tryLookupFieldOrMethod`
* `fast/switch_type.go` dispatch order of `Comp.TypeSwitch` (`typeswitchCase` sequential tests,
  default executed last, `typeswitchGotoMap` jump table over the initial segment of concrete
  types, rule of `typecaseHelper.add`) → `tsSequential`, `clauseTest`, `tsTable`, `tsDispatch`

Transcription rules / abstractions
* A universe is a list of named types.  A named type is a struct (its underlying struct type is
  an index `body` into `bodies`; two named types with *identical* underlying struct share the
  same `body` – this is the key `typeutil.Map` uses in `depthMap`), an interface (its `methods`
  are ALL its methods, embedded interfaces flattened, as `xtype.NumMethod` returns for
  interfaces) or another named type (`type N int`).
* Struct fields are named (`emb = false`, type irrelevant for lookup) or embedded (`emb = true`;
  `name` is the name of the embedded type, `typ` its index, `ptr` = embedded as `*T`).
* All names live in one package, so `QName` equality is name equality and `matchFieldByName`
  is `f.name = name` (an embedded field's go/types name IS its type name).
* `StructField` is abstracted to its `Index` (`Option (List Nat)`, `none` = zero StructField);
  byte offsets are not modelled.  `Method` is abstracted to `Index : Int` (position in the
  receiver type's method list, or `-count` = ambiguity marker) and `FieldIndex`.
* `for` loops over slices are structural recursion over lists; the breadth-first `for count == 0
  && len(tovisit) != 0` loop takes fuel (`none` = out of fuel).  `Props.C09` proves fuel
  `maxDepth+1` suffices for ranked (acyclic) universes and that for EVERY universe (cyclic ones
  too) any returned answer is the right one.
* The Universe lock, `debugf`, generics (`canHaveMethods` is true for every named type) and
  the pointer-to-pointer arm of `methodByName` (not reachable from an embedded field) are omitted.
-/
namespace Lookup

structure Field where
  name : String
  emb  : Bool
  ptr  : Bool
  typ  : Nat
deriving Repr, DecidableEq, Inhabited

structure MethodDecl where
  name    : String
  ptrRecv : Bool
deriving Repr, DecidableEq, Inhabited

inductive Kind | struct | iface | other
deriving Repr, DecidableEq, Inhabited

structure TypeDecl where
  kind    : Kind
  body    : Nat
  methods : List MethodDecl
deriving Repr, Inhabited

structure Universe where
  types  : List TypeDecl
  bodies : List (List Field)
deriving Repr, Inhabited

def Universe.kindOf (U : Universe) (t : Nat) : Option Kind := (U.types[t]?).map (·.kind)

/-- `derefStruct`: the underlying struct (its identity) of `T` or `*T`, if any -/
def Universe.bodyOf (U : Universe) (t : Nat) : Option Nat :=
  match U.types[t]? with
  | some d => if d.kind = Kind.struct then some d.body else none
  | none => none

def Universe.fieldsOf (U : Universe) (b : Nat) : List Field := (U.bodies[b]?).getD []

def Universe.methodsOf (U : Universe) (t : Nat) : List MethodDecl :=
  match U.types[t]? with
  | some d => d.methods
  | none => []

/-- an element of `tovisit`: an embedded field reached through `index` -/
structure Entry where
  index : List Nat
  typ   : Nat
  ptr   : Bool
deriving Repr, DecidableEq, Inhabited

/-! ## depthMap -/

abbrev DepthMap := List (Nat × Nat)

/-- `depthMap.visited(gtype, depth)` -/
def DepthMap.visited (m : DepthMap) (b depth : Nat) : Bool × DepthMap :=
  match m.lookup b with
  | some at_ => if at_ < depth then (true, m) else (false, (b, depth) :: m)
  | none => (false, (b, depth) :: m)

/-! ## fields -/

structure Scan where
  first   : Option (List Nat)
  count   : Nat
  tovisit : List Entry
deriving Repr

/-- the `for i := 0; i < n; i++` loop of `fieldByName` -/
def scanFields (name : String) (index : List Nat) : List Field → Nat → Scan → Scan
  | [], _, s => s
  | f :: fs, i, s =>
    if f.name = name then
      scanFields name index fs (i+1)
        { s with first := if s.count = 0 then some (index ++ [i]) else s.first, count := s.count + 1 }
    else if s.count = 0 ∧ f.emb = true then
      scanFields name index fs (i+1) { s with tovisit := s.tovisit ++ [⟨index ++ [i], f.typ, f.ptr⟩] }
    else scanFields name index fs (i+1) s

/-- `fieldByName(t, qname, offset, index, m)` -/
def fieldByName (U : Universe) (name : String) (e : Entry) (m : DepthMap) : Scan × DepthMap :=
  match U.bodyOf e.typ with
  | none => (⟨none, 0, []⟩, m)
  | some b =>
    let r := m.visited b e.index.length
    if r.1 then (⟨none, 0, []⟩, r.2)
    else (scanFields name e.index (U.fieldsOf b) 0 ⟨none, 0, []⟩, r.2)

structure FState where
  field : Option (List Nat)
  count : Nat
  next  : List Entry
  vis   : DepthMap
deriving Repr

/-- body of `for _, f := range tovisit` in `xtype.FieldByName` -/
def fieldLevel (U : Universe) (name : String) : List Entry → FState → FState
  | [], st => st
  | f :: fs, st =>
    let r := fieldByName U name f st.vis
    let s := r.1
    fieldLevel U name fs
      { field := if st.count = 0 then (if s.count > 0 then s.first else st.field) else st.field
        count := st.count + s.count
        next  := if st.count = 0 then (if s.count > 0 then st.next else st.next ++ s.tovisit) else st.next
        vis   := r.2 }

/-- `for count == 0 && len(tovisit) != 0 { ... }`; result `(field.Index, count)` -/
def fieldLoop (U : Universe) (name : String) : Nat → FState → Option (Option (List Nat) × Nat)
  | 0, st => if st.count = 0 ∧ st.next ≠ [] then none else some (st.field, st.count)
  | fuel+1, st =>
    if st.count = 0 ∧ st.next ≠ [] then
      fieldLoop U name fuel (fieldLevel U name st.next { st with next := [] })
    else some (st.field, st.count)

def rootEntry (root : Nat) : Entry := ⟨[], root, false⟩

/-- the uncached part of `xtype.FieldByName` -/
def fieldBFS (U : Universe) (root : Nat) (name : String) (fuel : Nat) : Option (Option (List Nat) × Nat) :=
  let r := fieldByName U name (rootEntry root) []
  fieldLoop U name fuel ⟨r.1.first, r.1.count, r.1.tovisit, r.2⟩

/-- `t.cache.field` (repaired tree): `map[QName]cachedField{field, count}` per type -/
abbrev FCache := List ((Nat × String) × (Option (List Nat) × Nat))

/-- `xtype.FieldByName(name, pkgpath)` -/
def FieldByName (U : Universe) (fuel : Nat) (c : FCache) (t : Nat) (name : String) :
    Option ((Option (List Nat) × Nat) × FCache) :=
  if name = "_" ∨ U.kindOf t ≠ some Kind.struct then some ((none, 0), c)
  else match c.lookup (t, name) with
    | some r => some (r, c)
    | none =>
      match fieldBFS U t name fuel with
      | none => none
      | some r => if r.2 > 0 then some (r, ((t, name), r) :: c) else some (r, c)

/-! ## methods -/

structure MRes where
  index      : Int
  fieldIndex : List Nat
deriving Repr, DecidableEq, Inhabited

/-- the `for i := 0; i < n; i++` loop of `methodByName` -/
def scanMethods (name : String) (index : List Nat) : List MethodDecl → Nat → Option MRes × Nat → Option MRes × Nat
  | [], _, s => s
  | m :: ms, i, s =>
    if m.name = name then
      scanMethods name index ms (i+1) (if s.2 = 0 then some ⟨(i : Int), index⟩ else s.1, s.2 + 1)
    else scanMethods name index ms (i+1) s

/-- `methodByName(t, qname, index)`: a pointer to interface has no methods -/
def methodByName1 (U : Universe) (name : String) (e : Entry) : Option MRes × Nat :=
  if e.ptr = true ∧ U.kindOf e.typ = some Kind.iface then (none, 0)
  else scanMethods name e.index (U.methodsOf e.typ) 0 (none, 0)

def embEntries (index : List Nat) : List Field → Nat → List Entry
  | [], _ => []
  | f :: fs, i =>
    if f.emb = true then ⟨index ++ [i], f.typ, f.ptr⟩ :: embEntries index fs (i+1)
    else embEntries index fs (i+1)

/-- `anonymousFields(t, offset, index, m)` -/
def anonymousFields (U : Universe) (e : Entry) (m : DepthMap) : List Entry × DepthMap :=
  match U.bodyOf e.typ with
  | none => ([], m)
  | some b =>
    let r := m.visited b e.index.length
    if r.1 then ([], r.2) else (embEntries e.index (U.fieldsOf b) 0, r.2)

structure MState where
  method : Option MRes
  count  : Nat
  next   : List Entry
  vis    : DepthMap
deriving Repr

/-- body of `for _, f := range tovisit` in `xtype.methodByName` -/
def methodLevel (U : Universe) (name : String) : List Entry → MState → MState
  | [], st => st
  | f :: fs, st =>
    let r := methodByName1 U name f
    if st.count = 0 then
      if r.2 > 0 then
        methodLevel U name fs { st with method := r.1, count := st.count + r.2 }
      else
        let a := anonymousFields U f st.vis
        methodLevel U name fs { st with next := st.next ++ a.1, count := st.count + r.2, vis := a.2 }
    else methodLevel U name fs { st with count := st.count + r.2 }

def methodLoop (U : Universe) (name : String) : Nat → MState → Option (Option MRes × Nat)
  | 0, st => if st.count = 0 ∧ st.next ≠ [] then none else some (st.method, st.count)
  | fuel+1, st =>
    if st.count = 0 ∧ st.next ≠ [] then
      methodLoop U name fuel (methodLevel U name st.next { st with next := [] })
    else some (st.method, st.count)

/-- the uncached part of `xtype.methodByName` -/
def methodBFS (U : Universe) (root : Nat) (name : String) (fuel : Nat) : Option (Option MRes × Nat) :=
  let r := methodByName1 U name (rootEntry root)
  if r.2 = 0 then
    let a := anonymousFields U (rootEntry root) []
    methodLoop U name fuel ⟨r.1, r.2, a.1, a.2⟩
  else some r

abbrev MCache := List ((Nat × String) × MRes)

/-- `cacheMethodByName`: `method.Index = -count` marks an ambiguous name -/
def markMethod (m : MRes) (count : Nat) : MRes :=
  if count > 1 then { m with index := -(count : Int) } else m

/-- `xtype.methodByName(name, pkgpath)` -/
def MethodByName (U : Universe) (fuel : Nat) (c : MCache) (t : Nat) (name : String) :
    Option ((Option MRes × Nat) × MCache) :=
  if name = "_" then some ((none, 0), c)
  else match c.lookup (t, name) with
    | some m => some ((some m, if m.index < 0 then (-m.index).toNat else 1), c)
    | none =>
      match methodBFS U t name fuel with
      | none => none
      | some (some m, count) =>
        if count > 0 then some ((some (markMethod m count), count), ((t, name), markMethod m count) :: c)
        else some ((some m, count), c)
      | some (none, count) => some ((none, count), c)

/-! ## fast/selector.go -/

inductive Sel
  | field (index : List Nat)
  | method (fieldIndex : List Nat) (index : Int)
  | none
  | err
deriving Repr, DecidableEq

/-- `Comp.TryLookupFieldOrMethod` on the two lookup results; `err` = the returned error ≠ nil -/
def tryLookupFieldOrMethod (fr : Option (List Nat) × Nat) (mr : Option MRes × Nat) : Sel :=
  let fielddepth := (fr.1.getD []).length
  let mtddepth := ((mr.1.map (·.fieldIndex)).getD []).length + 1
  let both := fr.2 ≠ 0 ∧ mr.2 ≠ 0
  let mtdn := if both ∧ fielddepth < mtddepth then 0 else mr.2
  let fieldn := if both ∧ ¬ fielddepth < mtddepth ∧ fielddepth > mtddepth then 0 else fr.2
  let err1 := both ∧ ¬ fielddepth < mtddepth ∧ ¬ fielddepth > mtddepth
  if fieldn > 1 ∨ mtdn > 1 ∨ err1 then Sel.err
  else if fieldn = 1 then Sel.field (fr.1.getD [])
  else if mtdn = 1 then Sel.method ((mr.1.map (·.fieldIndex)).getD []) ((mr.1.map (·.index)).getD 0)
  else Sel.none

/-! ## fast/switch_type.go: dispatch order -/

/-- one `case T1, T2, ...:` clause; `none` in the list = `case nil`; `isDefault` = `default:` -/
structure Clause where
  types     : List (Option Nat)
  isDefault : Bool
deriving Repr

/-- sequential part: clauses are tested in source order, `default` clauses are skipped
    (their header "never matches"); the default body runs last if nothing matched.
    `ct c` = the run-time test compiled by `typeswitchCase` for clause `c` (it differs for
    one-type and several-type clauses, see `clauseTest`). -/
def tsSequential (ct : Clause → Bool) : List Clause → Nat → Option Nat
  | [], _ => none
  | c :: cs, i =>
    if c.isDefault = false ∧ ct c = true then some i else tsSequential ct cs (i+1)

/-- `typeswitchCase`: `switch len(node.List)`: one type → the exact test `mt1` (reflect type and,
    when the tag carries an xr.Type, identity / Implements on it); several types → `mtN`
    (reflect types only) -/
def clauseTest (mt1 mtN : Option Nat → Bool) (c : Clause) : Bool :=
  if c.types.length = 1 then c.types.any mt1 else c.types.any mtN

/-- the tests `typeswitchCase` compiles when the tag is an `interface{}` (the operand carries no
    xr.Type): a concrete case type is compared by reflect type; `im ty` = outcome of the test of
    an interface case type -/
def mtEmpty (rt : Option Nat → Nat) (conc im : Option Nat → Bool) (dyn : Option Nat) (ty : Option Nat) : Bool :=
  if conc ty then rt ty == rt dyn else im ty

def tsDefault : List Clause → Nat → Option Nat
  | [], _ => none
  | c :: cs, i => if c.isDefault then some i else tsDefault cs (i+1)

/-- `typecaseHelper.add` as written (`else if seen.AllConcrete`): `ConcreteMap` holds the initial
    run of concrete case types (`conc ty`), in source order, up to the first interface case. -/
def tsConcretePrefix (conc : Option Nat → Bool) : List Clause → Nat → List (Option Nat × Nat)
  | [], _ => []
  | c :: cs, i =>
    if c.isDefault then tsConcretePrefix conc cs (i+1)
    else if c.types.all conc then c.types.map (·, i) ++ tsConcretePrefix conc cs (i+1)
    else (c.types.takeWhile conc).map (·, i)

/-- the table if the `seen.AllConcrete` guard were missing: every concrete case type -/
def tsAllConcrete (conc : Option Nat → Bool) : List Clause → Nat → List (Option Nat × Nat)
  | [], _ => []
  | c :: cs, i =>
    if c.isDefault then tsAllConcrete conc cs (i+1)
    else (c.types.filter conc).map (·, i) ++ tsAllConcrete conc cs (i+1)

/-- `guard` = "the `ConcreteMap.Set` in `typecaseHelper.add` is guarded by `seen.AllConcrete`";
    extracted from fast/switch_type.go into `Gen/C09Switch.lean` on every run -/
def tsTable (guard : Bool) (conc : Option Nat → Bool) (cs : List Clause) : List (Option Nat × Nat) :=
  if guard then tsConcretePrefix conc cs 0 else tsAllConcrete conc cs 0

/-- full dispatch: jump table first, else sequential tests, else default.
    `rt ty` = the `reflect.Type` of case type `ty` (interpreted named types are emulated, so two
    distinct types may share it).  The jump table (`typeswitchGotoMap`) maps
    `entry.Type.ReflectType()` to the clause body and is dropped when two keys collide
    (`len(m) != seen.ConcreteMap.Len()`), it contains `case nil`, or it has at most one entry; it is consulted with the
    reflect type of the extracted operand BEFORE any sequential test. -/
def tsDispatch (guard : Bool) (rt : Option Nat → Nat) (conc : Option Nat → Bool) (ct : Clause → Bool)
    (dyn : Option Nat) (cs : List Clause) : Option Nat :=
  let tbl := tsTable guard conc cs
  let m := tbl.map (fun e => (rt e.1, e.2))
  -- `case nil` in the table: typeutil.Map counts the nil key in Len() but Iterate skips it (a nil
  -- key marks a deleted entry), so `len(m) != seen.ConcreteMap.Len()` and the table is dropped
  let hit := if m.length > 1 ∧ tbl.all (fun e => e.1.isSome) = true ∧ (m.map (·.1)).Nodup
             then m.lookup (rt dyn) else none
  match hit with
  | some i => some i
  | none =>
    match tsSequential ct cs 0 with
    | some i => some i
    | none => tsDefault cs 0

end Lookup
