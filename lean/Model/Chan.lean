/-
Go channel semantics as a transition system, a scheduler-parametrised runner, and the
deterministic-by-construction program families emitted by the C10 generator (harness/c10.go).

What is transcribed.  gomacro delegates every channel operation to the Go runtime through `reflect`
(fast/channel.go: `Send`, `Recv`, `close`; fast/select.go: `reflect.Select`; fast/range.go: range over a
channel = repeated `Recv` until `!ok`), so the specification side is the Go language specification:

* `Ch` : a channel of ints with capacity `cap`, FIFO buffer `buf`, `closed`; ghost histories `sent`, `rcvd`.
  - `Ch.send v`   : closed → panic; room → append to the buffer; otherwise block.
  - `Ch.recv`     : buffer non-empty → head; empty and closed → (zero, ok=false); otherwise block.
  - `Ch.close`    : closed → panic; otherwise closed := true (buffered values stay receivable).
  - `Ch.handoff v`: rendezvous (a sender meets a waiting receiver on an empty open channel): the value
                    goes directly to the receiver.  This is the only way to pass a value through a
                    channel with `cap = 0`.
* `Sys` : a labelled transition system (`en s` = enabled actions, `step`), `Sys.run sched fuel` = the run
  determined by a scheduler stream `sched : Nat → Nat` (at step i the `sched i mod n`-th of the n enabled
  actions is taken; select statements with several ready cases are scheduler choices as well).
* Program families (each goroutine of the Go program is one group of actions; statements that touch
  only goroutine-local data are merged into the next shared action):
  - `FanIn`  : k producers send their lists on ONE channel, a closer goroutine does `wg.Wait(); close(c)`,
               the main goroutine reduces with `+` over `range c`.
  - `Pipe2`  : source → c0 → stage f → c1 → stage g → c2 → sink appending to a slice (ranges + closes).
  - `Mutex`  : k workers add their deltas to a shared counter, `cnt += d` split into read and write,
               inside `mu.Lock()/mu.Unlock()` (`locked = true`) or without the mutex (`locked = false`:
               the racy variant, for which a lost update is exhibited).
  - `SelN`   : n goroutines execute the SAME select statement `rounds` times, each on its own pre-filled
               channel (`case v := <-first(id)` with a second case that is never ready).  Executing a select
               is two steps: `eval i` evaluates the case operands into the case list OF THAT EXECUTION
               (Go: the operands are evaluated exactly once, on entering the select statement, and belong to
               that execution), `sel i` performs the communication of that list.  `shared = true` is the
               variant with ONE case list per statement shared by all its executions (not Go): it is in the
               model only to show that the model can tell the difference (`shared_cases_witness`).
  - `Merge`  : two producers on two channels, main goroutine `select`s over both (optionally with a
               `default` branch that only yields) until both are closed, summing.
  In the families an unbuffered channel (`cap = 0`) is run with one buffer slot (`effCap`) and the
  sender is not made to wait for the receiver.  Every rendezvous of Go is the pair "enqueue, dequeue" of
  the model, so the model has all of Go's interleavings and more (a sender may run ahead by one message):
  "the result is the same for every schedule" transfers to Go; deadlock freedom of an unbuffered
  program does not (it is observed on the real runs).
-/
namespace Chan

/-! ## channels -/

structure Ch where
  cap : Nat
  buf : List Int
  closed : Bool
  sent : List Int
  rcvd : List Int
  deriving Repr, DecidableEq

def Ch.make (cap : Nat) : Ch := { cap := cap, buf := [], closed := false, sent := [], rcvd := [] }

inductive SendRes where
  | ok (c : Ch)
  | block
  | panic
  deriving Repr, DecidableEq

inductive RecvRes where
  | val (v : Int) (c : Ch)
  | closedEmpty            -- (0, false)
  | block
  deriving Repr, DecidableEq

inductive CloseRes where
  | ok (c : Ch)
  | panic
  deriving Repr, DecidableEq

def Ch.send (c : Ch) (v : Int) : SendRes :=
  if c.closed then .panic
  else if c.buf.length < c.cap then .ok { c with buf := c.buf ++ [v], sent := c.sent ++ [v] }
  else .block

def Ch.recv (c : Ch) : RecvRes :=
  match c.buf with
  | v :: rest => .val v { c with buf := rest, rcvd := c.rcvd ++ [v] }
  | [] => if c.closed then .closedEmpty else .block

def Ch.close (c : Ch) : CloseRes :=
  if c.closed then .panic else .ok { c with closed := true }

/-- rendezvous: sender and receiver meet on an open channel with an empty buffer -/
def Ch.handoff (c : Ch) (v : Int) : Option Ch :=
  if c.closed || !c.buf.isEmpty then none
  else some { c with sent := c.sent ++ [v], rcvd := c.rcvd ++ [v] }

/-- one operation applied to a channel by some goroutine -/
inductive ChOp where
  | send (v : Int)
  | recv
  | close
  | handoff (v : Int)
  deriving Repr, DecidableEq

/-- operations that block or panic leave the channel unchanged -/
def Ch.apply (c : Ch) : ChOp → Ch
  | .send v => match c.send v with | .ok c' => c' | _ => c
  | .recv => match c.recv with | .val _ c' => c' | _ => c
  | .close => match c.close with | .ok c' => c' | _ => c
  | .handoff v => match c.handoff v with | some c' => c' | none => c

def Ch.applyAll (c : Ch) : List ChOp → Ch
  | [] => c
  | o :: os => (c.apply o).applyAll os

/-- capacity used by the program families (see header) -/
def Ch.effCap (c : Ch) : Nat := max c.cap 1

/-- enqueue as used by the families: room w.r.t. `effCap` -/
def Ch.push (c : Ch) (v : Int) : Ch := { c with buf := c.buf ++ [v], sent := c.sent ++ [v] }
def Ch.hasRoom (c : Ch) : Bool := c.buf.length < c.effCap

/-! ## transition systems and schedulers -/

structure Sys (σ α : Type) where
  en : σ → List α
  step : σ → α → σ

def Sys.run {σ α : Type} (S : Sys σ α) (sched : Nat → Nat) : Nat → Nat → σ → σ
  | 0, _, s => s
  | fuel + 1, i, s =>
    match S.en s with
    | [] => s
    | a :: as => S.run sched fuel (i + 1) (S.step s ((a :: as).getD (sched i % (a :: as).length) a))

inductive Sys.Reach {σ α : Type} (S : Sys σ α) (s0 : σ) : σ → Prop where
  | refl : Sys.Reach S s0 s0
  | step {s : σ} (a : α) : Sys.Reach S s0 s → a ∈ S.en s → Sys.Reach S s0 (S.step s a)

def sumL (l : List Int) : Int := l.foldr (· + ·) 0
def sumLL (l : List (List Int)) : Int := l.foldr (fun x acc => sumL x + acc) 0
def lenLL (l : List (List Int)) : Nat := l.foldr (fun x acc => x.length + acc) 0

/-! ## fan-in with commutative reduction -/
namespace FanIn

inductive Act where
  | send (i : Nat)     -- producer i: c <- v
  | fin (i : Nat)      -- producer i: its loop is over, deferred wg.Done()
  | close              -- closer goroutine: wg.Wait() returned; close(c)
  | recv               -- main: v := <-c (range); acc += v
  | stop               -- main: range ends (closed and drained)
  deriving Repr, DecidableEq

structure St where
  prods : List (List Int)
  done : List Bool
  ch : Ch
  acc : Int
  fin : Bool
  panicked : Bool
  deriving Repr

def init (cap : Nat) (lists : List (List Int)) : St :=
  { prods := lists, done := lists.map (fun _ => false), ch := Ch.make cap, acc := 0, fin := false, panicked := false }

def enB (s : St) : Act → Bool
  | .send i => (match s.prods[i]? with | some (_ :: _) => true | _ => false) && s.ch.hasRoom
  | .fin i => (match s.prods[i]? with | some [] => true | _ => false) && s.done[i]? == some false
  | .close => s.done.all id && !s.ch.closed
  | .recv => !s.fin && !s.ch.buf.isEmpty
  | .stop => !s.fin && s.ch.closed && s.ch.buf.isEmpty

def acts (s : St) : List Act :=
  (List.range s.prods.length).map .send ++ (List.range s.prods.length).map .fin ++ [.close, .recv, .stop]

def step (s : St) : Act → St
  | .send i =>
    match s.prods[i]? with
    | some (v :: rest) =>
      if s.ch.closed then { s with panicked := true }
      else { s with prods := s.prods.set i rest, ch := s.ch.push v }
    | _ => s
  | .fin i => { s with done := s.done.set i true }
  | .close => if s.ch.closed then { s with panicked := true } else { s with ch := { s.ch with closed := true } }
  | .recv =>
    match s.ch.recv with
    | .val v c => { s with ch := c, acc := s.acc + v }
    | _ => s
  | .stop => { s with fin := true }

def sys : Sys St Act := { en := fun s => (acts s).filter (enB s), step := step }

def result (s : St) : Option Int := if s.fin && !s.panicked then some s.acc else none

end FanIn

/-! ## two-stage pipeline -/
namespace Pipe2

/-- stage functions: v ↦ a*v + b -/
structure Fn where
  a : Int
  b : Int
  deriving Repr, DecidableEq

def Fn.app (f : Fn) (v : Int) : Int := f.a * v + f.b

inductive Act where
  | srcSend | srcClose
  | s1Recv | s1Send | s1Close
  | s2Recv | s2Send | s2Close
  | sinkRecv | sinkStop
  deriving Repr, DecidableEq

structure St where
  f : Fn
  g : Fn
  src : List Int
  c0 : Ch
  h1 : Option Int      -- stage 1 holds f(v), about to send it on c1
  c1 : Ch
  h2 : Option Int
  c2 : Ch
  out : List Int
  fin : Bool
  panicked : Bool
  deriving Repr

def init (f g : Fn) (k0 k1 k2 : Nat) (vals : List Int) : St :=
  { f := f, g := g, src := vals, c0 := Ch.make k0, h1 := none, c1 := Ch.make k1, h2 := none, c2 := Ch.make k2,
    out := [], fin := false, panicked := false }

def enB (s : St) : Act → Bool
  | .srcSend => !s.src.isEmpty && s.c0.hasRoom
  | .srcClose => s.src.isEmpty && !s.c0.closed
  | .s1Recv => s.h1.isNone && !s.c0.buf.isEmpty
  | .s1Send => s.h1.isSome && s.c1.hasRoom
  | .s1Close => s.h1.isNone && s.c0.closed && s.c0.buf.isEmpty && !s.c1.closed
  | .s2Recv => s.h2.isNone && !s.c1.buf.isEmpty
  | .s2Send => s.h2.isSome && s.c2.hasRoom
  | .s2Close => s.h2.isNone && s.c1.closed && s.c1.buf.isEmpty && !s.c2.closed
  | .sinkRecv => !s.fin && !s.c2.buf.isEmpty
  | .sinkStop => !s.fin && s.c2.closed && s.c2.buf.isEmpty

def acts : List Act :=
  [.srcSend, .srcClose, .s1Recv, .s1Send, .s1Close, .s2Recv, .s2Send, .s2Close, .sinkRecv, .sinkStop]

def sendOn (c : Ch) (v : Int) : Ch × Bool := if c.closed then (c, true) else (c.push v, false)

def step (s : St) : Act → St
  | .srcSend =>
    match s.src with
    | v :: rest => let (c, p) := sendOn s.c0 v; { s with src := rest, c0 := c, panicked := s.panicked || p }
    | [] => s
  | .srcClose => if s.c0.closed then { s with panicked := true } else { s with c0 := { s.c0 with closed := true } }
  | .s1Recv =>
    match s.c0.recv with
    | .val v c => { s with c0 := c, h1 := some (s.f.app v) }
    | _ => s
  | .s1Send =>
    match s.h1 with
    | some v => let (c, p) := sendOn s.c1 v; { s with h1 := none, c1 := c, panicked := s.panicked || p }
    | none => s
  | .s1Close => if s.c1.closed then { s with panicked := true } else { s with c1 := { s.c1 with closed := true } }
  | .s2Recv =>
    match s.c1.recv with
    | .val v c => { s with c1 := c, h2 := some (s.g.app v) }
    | _ => s
  | .s2Send =>
    match s.h2 with
    | some v => let (c, p) := sendOn s.c2 v; { s with h2 := none, c2 := c, panicked := s.panicked || p }
    | none => s
  | .s2Close => if s.c2.closed then { s with panicked := true } else { s with c2 := { s.c2 with closed := true } }
  | .sinkRecv =>
    match s.c2.recv with
    | .val v c => { s with c2 := c, out := s.out ++ [v] }
    | _ => s
  | .sinkStop => { s with fin := true }

def sys : Sys St Act := { en := fun s => acts.filter (enB s), step := step }

def result (s : St) : Option (List Int) := if s.fin && !s.panicked then some s.out else none

end Pipe2

/-! ## counter shared by k workers, with or without a mutex -/
namespace Mutex

inductive Pc where
  | idle                 -- before mu.Lock()
  | locked               -- holds the mutex (or, racy variant: about to read)
  | read (t : Int)       -- has read cnt into a temporary
  | written              -- has written cnt, about to unlock
  deriving Repr, DecidableEq

inductive Act where
  | lock (i : Nat) | read (i : Nat) | write (i : Nat) | unlock (i : Nat)
  deriving Repr, DecidableEq

structure W where
  ds : List Int
  pc : Pc
  deriving Repr

structure St where
  useMutex : Bool
  ws : List W
  holder : Option Nat
  cnt : Int
  deriving Repr

def init (useMutex : Bool) (lists : List (List Int)) : St :=
  { useMutex := useMutex, ws := lists.map (fun l => { ds := l, pc := .idle }), holder := none, cnt := 0 }

def enB (s : St) : Act → Bool
  | .lock i => (match s.ws[i]? with | some { ds := _ :: _, pc := .idle } => true | _ => false)
                && (!s.useMutex || s.holder.isNone)
  | .read i => (match s.ws[i]? with | some { ds := _, pc := .locked } => true | _ => false)
  | .write i => (match s.ws[i]? with | some { ds := _, pc := .read _ } => true | _ => false)
  | .unlock i => (match s.ws[i]? with | some { ds := _, pc := .written } => true | _ => false)

def acts (s : St) : List Act :=
  (List.range s.ws.length).flatMap (fun i => [.lock i, .read i, .write i, .unlock i])

def step (s : St) : Act → St
  | .lock i =>
    match s.ws[i]? with
    | some w => { s with ws := s.ws.set i { w with pc := .locked }, holder := if s.useMutex then some i else s.holder }
    | none => s
  | .read i =>
    match s.ws[i]? with
    | some w => { s with ws := s.ws.set i { w with pc := .read s.cnt } }
    | none => s
  | .write i =>
    match s.ws[i]? with
    | some { ds := d :: rest, pc := .read t } => { s with ws := s.ws.set i { ds := rest, pc := .written }, cnt := t + d }
    | _ => s
  | .unlock i =>
    match s.ws[i]? with
    | some w => { s with ws := s.ws.set i { w with pc := .idle }, holder := if s.useMutex then none else s.holder }
    | none => s

def sys : Sys St Act := { en := fun s => (acts s).filter (enB s), step := step }

def finished (s : St) : Bool := s.ws.all (fun w => w.ds.isEmpty && w.pc == .idle)
def result (s : St) : Option Int := if finished s then some s.cnt else none

end Mutex

/-! ## select over two channels -/
namespace Merge

inductive Act where
  | sendA | closeA | sendB | closeB
  | selA        -- select: case v, ok := <-a  (ready: value, or closed → a = nil)
  | selB
  | selDefault  -- select: default: runtime.Gosched()
  | stop
  deriving Repr, DecidableEq

structure St where
  withDefault : Bool
  la : List Int
  lb : List Int
  a : Ch
  b : Ch
  nilA : Bool     -- main has set a = nil after seeing it closed
  nilB : Bool
  acc : Int
  polls : Nat     -- number of default branches taken (not part of the result)
  fin : Bool
  panicked : Bool
  deriving Repr

def init (withDefault : Bool) (ka kb : Nat) (la lb : List Int) : St :=
  { withDefault := withDefault, la := la, lb := lb, a := Ch.make ka, b := Ch.make kb, nilA := false, nilB := false,
    acc := 0, polls := 0, fin := false, panicked := false }

def readyA (s : St) : Bool := !s.nilA && (!s.a.buf.isEmpty || s.a.closed)
def readyB (s : St) : Bool := !s.nilB && (!s.b.buf.isEmpty || s.b.closed)
def looping (s : St) : Bool := !s.fin && !(s.nilA && s.nilB)

def enB (s : St) : Act → Bool
  | .sendA => !s.la.isEmpty && s.a.hasRoom
  | .closeA => s.la.isEmpty && !s.a.closed
  | .sendB => !s.lb.isEmpty && s.b.hasRoom
  | .closeB => s.lb.isEmpty && !s.b.closed
  | .selA => looping s && readyA s
  | .selB => looping s && readyB s
  | .selDefault => s.withDefault && looping s && !readyA s && !readyB s
  | .stop => !s.fin && s.nilA && s.nilB

def acts : List Act := [.sendA, .closeA, .sendB, .closeB, .selA, .selB, .selDefault, .stop]

def step (s : St) : Act → St
  | .sendA =>
    match s.la with
    | v :: rest => if s.a.closed then { s with panicked := true } else { s with la := rest, a := s.a.push v }
    | [] => s
  | .closeA => if s.a.closed then { s with panicked := true } else { s with a := { s.a with closed := true } }
  | .sendB =>
    match s.lb with
    | v :: rest => if s.b.closed then { s with panicked := true } else { s with lb := rest, b := s.b.push v }
    | [] => s
  | .closeB => if s.b.closed then { s with panicked := true } else { s with b := { s.b with closed := true } }
  | .selA =>
    match s.a.recv with
    | .val v c => { s with a := c, acc := s.acc + v }
    | .closedEmpty => { s with nilA := true }
    | .block => s
  | .selB =>
    match s.b.recv with
    | .val v c => { s with b := c, acc := s.acc + v }
    | .closedEmpty => { s with nilB := true }
    | .block => s
  | .selDefault => { s with polls := s.polls + 1 }
  | .stop => { s with fin := true }

def sys : Sys St Act := { en := fun s => acts.filter (enB s), step := step }

def result (s : St) : Option Int := if s.fin && !s.panicked then some s.acc else none

end Merge

/-! ## n goroutines inside the same select statement -/
namespace SelN

structure G where
  ch : List Int          -- the goroutine's own channel (pre-filled, nobody sends)
  rounds : Nat           -- executions of the select still to do
  ev : Option Nat        -- case list of the current execution: index of the channel of case 0
  got : List Int
  deriving Repr, DecidableEq

inductive Act where
  | eval (i : Nat)       -- goroutine i enters the select: evaluates its operands
  | sel (i : Nat)        -- goroutine i: the communication
  deriving Repr, DecidableEq

structure St where
  shared : Bool
  sharedCase : Option Nat
  gs : List G
  deriving Repr

def init (shared : Bool) (r : Nat) (lists : List (List Int)) : St :=
  { shared := shared, sharedCase := none, gs := lists.map (fun l => { ch := l, rounds := r, ev := none, got := [] }) }

/-- the channel the communication of goroutine i uses -/
def chanOf (s : St) (own : Nat) : Nat := if s.shared then s.sharedCase.getD own else own

def enB (s : St) : Act → Bool
  | .eval i => match s.gs[i]? with
    | some g => decide (0 < g.rounds) && g.ev.isNone
    | none => false
  | .sel i => match s.gs[i]? with
    | some g => match g.ev with
      | some c => match s.gs[chanOf s c]? with
        | some h => !h.ch.isEmpty
        | none => false
      | none => false
    | none => false

def acts (s : St) : List Act := (List.range s.gs.length).flatMap (fun i => [.eval i, .sel i])

def step (s : St) : Act → St
  | .eval i =>
    match s.gs[i]? with
    | some g => { s with gs := s.gs.set i { g with ev := some i }, sharedCase := some i }
    | none => s
  | .sel i =>
    match s.gs[i]? with
    | some g =>
      match g.ev with
      | some c =>
        let k := chanOf s c
        match s.gs[k]? with
        | some h =>
          match h.ch with
          | v :: rest =>
            -- pop from channel k, deliver to goroutine i
            let gs1 := s.gs.set k { h with ch := rest }
            match gs1[i]? with
            | some g1 => { s with gs := gs1.set i { g1 with rounds := g1.rounds - 1, ev := none, got := g1.got ++ [v] } }
            | none => s
          | [] => s
        | none => s
      | none => s
    | none => s

def sys : Sys St Act := { en := fun s => (acts s).filter (enB s), step := step }

def finished (s : St) : Bool := s.gs.all (fun g => g.rounds == 0)
def result (s : St) : Option (List (List Int)) := if finished s then some (s.gs.map (·.got)) else none

end SelN

end Chan
