/-!
# Model of the interpreted-function side of the compiled/interpreted boundary (C11)

Transcribed: `fast/function.go funcGeneric` (the `reflect.MakeFunc` body every interpreted function
that escapes to compiled code runs through) and the frame selection of `fast/compile.go newEnv4Func`.

    return xr.MakeFunc(t, func(args []xr.Value) []xr.Value {
        env := newEnv4Func(env, nbinds, nintbinds, debugC)     -- a frame of nbinds slots taken from the
                                                               --   CALLING goroutine's pool (recycled,
                                                               --   `env.Vals[0:nbind]`: old contents!)
        for i, decl := range paramdecls {                      -- paramdecls[i] == nil when parameter i
            if decl != nil { decl(env, args[i]) }              --   is `_` (bind.Desc.Index()==NoIndex)
        }
        funcbody(env)                                          -- the body works on the frame (and on the
                                                               --   captured outer environments = state σ)
        rets := make([]xr.Value, len(resultexprs))
        for i, expr := range resultexprs { rets[i] = expr(env) }   -- result j is read from its bind
        env.freeEnv4Func()
        return rets })

Abstractions: a frame is a `List V` of length `nbinds` (the separate `Ints` array for integer binds
is folded into the same index space: `DeclBindRuntimeValue` picks the array by bind class, the index
discipline is the same); `reflect.MakeFunc`'s own argument/result marshalling is trusted; captured
variables, package state and everything else the body can touch is the state `σ`; a variadic
parameter is one value (the slice).  Goroutine identity (`gls.GoID`) is a `Nat`.
-/
namespace Interop

/-- compile-time description of a function: frame size, bind index of every parameter (`none` =
    `NoIndex`: the parameter is `_`), bind index every result is read from -/
structure FuncMaker where
  nbinds : Nat
  params : List (Option Nat)
  results : List Nat
  deriving Repr, Inhabited, DecidableEq

/-- `for i, decl := range paramdecls { if decl != nil { decl(env, args[i]) } }` -/
def declParams {V : Type} : List (Option Nat) → List V → List V → List V
  | some k :: ps, a :: as, fr => declParams ps as (fr.set k a)
  | none :: ps, _ :: as, fr => declParams ps as fr
  | _, _, fr => fr

/-- `rets[i] = resultexprs[i](env)` -/
def readResults {V : Type} (dflt : V) (results : List Nat) (fr : List V) : List V :=
  results.map (fun k => fr.getD k dflt)

/-- the `MakeFunc` body: `fr0` is the recycled frame handed out by `newEnv4Func`, `body` the compiled
    function body acting on the frame and on the captured state -/
def callGeneric {V σ : Type} (m : FuncMaker) (dflt : V) (body : List V → σ → List V × σ)
    (fr0 : List V) (args : List V) (s : σ) : List V × σ :=
  let env := declParams m.params args fr0
  let (env', s') := body env s
  (readResults dflt m.results env', s')

/-- the frame shows argument `i` in the bind of parameter `i` -/
def FrameHolds {V : Type} (m : FuncMaker) (fr : List V) (args : List V) : Prop :=
  ∀ (i k : Nat), m.params[i]? = some (some k) → ∃ a, args[i]? = some a ∧ fr[k]? = some a

/-- `body` implements the Go function `f` with respect to the layout `m`: whenever the frame holds the
    arguments in the parameter binds, running the body leaves result `j` of `f` in result bind `j`
    and changes the captured state like `f` -/
def Implements {V σ : Type} (m : FuncMaker) (dflt : V) (body : List V → σ → List V × σ)
    (f : List V → σ → List V × σ) : Prop :=
  ∀ fr args s, fr.length = m.nbinds → args.length = m.params.length → FrameHolds m fr args →
    readResults dflt m.results (body fr s).1 = (f args s).1 ∧ (body fr s).2 = (f args s).2

/-- well-formed layout (what `funcMaker` establishes): parameter binds are distinct and inside the frame -/
def LayoutOk (m : FuncMaker) : Prop :=
  (m.params.filterMap id).Nodup ∧ ∀ k ∈ m.params.filterMap id, k < m.nbinds

/-! ## goroutine ownership of the frame (`newEnv4Func`) -/

structure Run where
  goid : Nat
  id : Nat          -- identity of the run record
  deriving Repr, DecidableEq, Inhabited

/-- `run := outer.Run; if run.goid != goid { run = run.getRun4Goid(goid) }` -/
def selectRun (outerRun : Run) (goid : Nat) (registry : Nat → Run) : Run :=
  if outerRun.goid = goid then outerRun else registry goid

/-! ## executable form used by the correspondence driver

A parameter pattern (`u` used / `_` blank / `v` variadic, used) and a result selection build the
layout the compiler would choose (parameters in order, then results) and the body `r_j = a_sel(j)`. -/

def layoutOf (pat : List Char) (nres : Nat) : FuncMaker :=
  let rec go : List Char → Nat → List (Option Nat) × Nat
    | [], n => ([], n)
    | c :: cs, n =>
      if c == '_' then let (l, n') := go cs n; (none :: l, n')
      else let (l, n') := go cs (n + 1); (some n :: l, n')
  let (ps, n) := go pat 0
  { nbinds := n + nres, params := ps, results := (List.range nres).map (· + n) }

/-- body of `func(...) (r0, r1, ...) { r0 = a_sel0; r1 = a_sel1; ...; return }` on the frame -/
def selBody {V : Type} (m : FuncMaker) (sel : List Nat) (dflt : V) (fr : List V) (s : Unit) : List V × Unit :=
  let step (acc : List V × Nat) (p : Nat) : List V × Nat :=
    let src := match m.params[p]? with
      | some (some k) => acc.1.getD k dflt
      | _ => dflt
    (acc.1.set (m.results.getD acc.2 0) src, acc.2 + 1)
  ((sel.foldl step (fr, 0)).1, s)

end Interop
