/-!
# Model/Composite.lean — gomacro's own logic for index, slice and composite-literal expressions (C08)

Hand transcription of the decisions gomacro itself takes in

* `fast/index.go`   `vectorIndex` (l. 68-78: every index is converted to `int` with `Comp.convert`),
                    `stringIndex` (constant string + constant index is folded at compile time, the
                    panic is recovered and turned into a compile error), `vectorPlace`,
                    `vectorPtrPlace` (repaired: same conversion as `vectorIndex`; the unrepaired form
                    is kept as `indexToIntStrict`), `fast/convert.go` `Comp.convert` of a typed constant
                    (with / without the representability check of `convertNumericConst`),
* `fast/slice.go`   `SliceExpr`, `sliceIndex` (REPAIRED form, same diff), `slice2`, `sliceString`, `slice3`,
* `fast/compositelit.go` `compositeLitElements` (running index, duplicate / negative / out-of-bounds
                    checks, size = max index + 1) and the placement loops of `compositeLitArray` /
                    `compositeLitSlice`,
* the per-element-kind arms of `vectorIndex` / `mapIndex1` (the arm table itself is REGENERATED from
  `fast/index.go` into `Gen/IndexArms.lean`; here are its entry type and the reading semantics).

Transcription rules / abstractions
* `reflect` is NOT modelled, its documented contracts are used:
  `Value.Index(i)` panics iff `i < 0 || i >= Len()`; `Value.Slice(i,j)` panics iff
  `i < 0 || j < i || j > cap` where cap = `Cap()` for a slice and `Len()` for an (addressable) array;
  `Value.Slice3(i,j,k)` panics iff `i < 0 || j < i || k < j || k > cap`; `Value.Convert` between
  integer kinds wraps (two's complement); a nil `*[N]T` dereferenced with `Elem()` gives the zero
  Value on which `Index`/`Slice` panic.  Native `string[i]`, `string[i:j]` are Go itself.
* integers are mathematical `Int`s; `int` is 64 bit.  `wrapInt` is the conversion to `int`.
* an index/bound argument is (kind, constant?, value); only integer kinds (the harness never sends
  floats); `untyped` is an untyped integer constant.
* compile-time failure (`c.Errorf`, or a Go panic while compiling: constant folding of a constant
  string slice) is outcome `cerr`; a run-time panic is `panic`.
-/

namespace Composite

def minInt : Int := -9223372036854775808
def maxInt : Int := 9223372036854775807

/-- integer kinds an index can have -/
inductive IKind where
  | int | int8 | int16 | int32 | int64 | uint | uint8 | uint16 | uint32 | uint64 | uintptr | untyped
  deriving DecidableEq, Repr, Inhabited

def IKind.lo : IKind → Int
  | .int | .int64 => -9223372036854775808
  | .int8 => -128
  | .int16 => -32768
  | .int32 => -2147483648
  | _ => 0

def IKind.hi : IKind → Int
  | .int | .int64 => 9223372036854775807
  | .int8 => 127
  | .int16 => 32767
  | .int32 => 2147483647
  | .uint8 => 255
  | .uint16 => 65535
  | .uint32 => 4294967295
  | _ => 18446744073709551615

/-- value representable in the kind (an untyped constant is unbounded) -/
def IKind.fits (k : IKind) (v : Int) : Prop :=
  k = .untyped ∨ (k.lo ≤ v ∧ v ≤ k.hi)

instance (k : IKind) (v : Int) : Decidable (k.fits v) := by unfold IKind.fits; exact inferInstance

/-- `reflect.Value.Convert` integer kind -> `int`: two's complement wrap to 64 bit -/
def wrapInt (v : Int) : Int :=
  (v + 9223372036854775808) % 18446744073709551616 - 9223372036854775808

/-- an index / bound argument -/
structure Arg where
  kind : IKind
  const : Bool
  val : Int
  deriving Repr, Inhabited

inductive Outcome (α : Type) where
  | ok (a : α)
  | panic
  | cerr
  deriving Repr, DecidableEq

/-- which form of the code is running (read off the source by the extractor):
    `converts`    : the call site converts an index of any integer kind with `Comp.convert(idx, int)`
                    (`vectorIndex` always; `vectorPlace`, `vectorPtrPlace`, `sliceIndex` since the repair);
    `constChecks` : `Comp.convert` of a typed CONSTANT checks that the value is representable in the
                    target type (`convertNumericConst`, /repo 457e90b) instead of wrapping it. -/
structure Conv where
  converts : Bool
  constChecks : Bool
  deriving Repr, DecidableEq

/-- `Comp.convert(idx, int)` as used by `vectorIndex` (and, repaired, by `vectorPlace`,
    `vectorPtrPlace`, `sliceIndex`): an untyped constant goes through `ConstTo(int)` (overflow =
    compile error); a typed constant is converted at compile time -- with `constChecks` it must be
    representable as `int` (else compile error), without it is wrapped by `reflect.Value.Convert`;
    a variable is converted at run time = wrap.  Result = the `int` the run-time code indexes with. -/
def indexToInt (constChecks : Bool) (a : Arg) : Option Int :=
  match a.kind with
  | .untyped => if minInt ≤ a.val ∧ a.val ≤ maxInt then some a.val else none
  | _ =>
    if a.const ∧ constChecks then
      (if minInt ≤ a.val ∧ a.val ≤ maxInt then some a.val else none)
    else some (wrapInt a.val)

/-- the UNREPAIRED form of `vectorPlace` / `vectorPtrPlace` / `sliceIndex`: a constant goes through
    `ConstTo(int)` (a typed constant of another type is an error), a variable must be assignable to
    `int`.  Selected by the flags the extractor reads off the source (`Gen.IndexArms.*Converts`). -/
def indexToIntStrict (a : Arg) : Option Int :=
  match a.kind with
  | .untyped => if minInt ≤ a.val ∧ a.val ≤ maxInt then some a.val else none
  | .int => some (wrapInt a.val)
  | _ => none

def indexConv (cv : Conv) (a : Arg) : Option Int :=
  if cv.converts then indexToInt cv.constChecks a else indexToIntStrict a

/-- `reflect.Value.Index(i)` / native `str[i]` -/
def indexRun (len : Nat) (i : Int) : Option Nat :=
  if 0 ≤ i ∧ i < len then some i.toNat else none

/-- containers -/
inductive Cont where
  | slice | array | parray | nilparray | str | cstr
  deriving DecidableEq, Repr, Inhabited

/-- `Comp.indexExpr` -> `vectorIndex`/`stringIndex` (reads) and `IndexPlace` -> `vectorPlace` /
    `vectorPtrPlace` (writes, `write = true`): the element position read or written. -/
def indexOutcome (cv : Conv) (c : Cont) (len : Nat) (write : Bool) (a : Arg) : Outcome Nat :=
  match indexConv cv a with
  | none => .cerr
  | some i =>
    match c with
    | .str | .cstr =>
      if write then .cerr                       -- IndexPlace: "cannot assign to a byte in a string"
      else if c = .cstr ∧ a.const then          -- stringIndex: EvalConst under recover -> Errorf
        match indexRun len i with
        | some k => .ok k
        | none => .cerr
      else match indexRun len i with
        | some k => .ok k
        | none => .panic
    | .nilparray => .panic                      -- objfun(env).Elem() is the zero Value: Index panics
    | _ => match indexRun len i with
      | some k => .ok k
      | none => .panic

/-! ## SliceExpr -/

/-- `sliceIndex` (repaired): constant -> `int` (overflow: error), negative constant: error;
    variable of any integer kind -> converted at run time. -/
def sliceIndexConv (cv : Conv) (a : Arg) : Option Int :=
  match indexConv cv a with
  | none => none
  | some v => if a.const ∧ v < 0 then none else some v

/-- result of a slice expression: offset into the operand, length, capacity -/
structure SliceRes where
  off : Nat
  len : Nat
  cap : Nat
  deriving Repr, DecidableEq

/-- `reflect.Value.Slice(i, j)` with the operand's capacity `cap`; native string slicing is the
    same test with cap = len -/
def reflSlice (cap : Nat) (i j : Int) : Option SliceRes :=
  if i < 0 ∨ j < i ∨ j > cap then none
  else some ⟨i.toNat, (j - i).toNat, (cap - i).toNat⟩

/-- `reflect.Value.Slice3(i, j, k)` -/
def reflSlice3 (cap : Nat) (i j k : Int) : Option SliceRes :=
  if i < 0 ∨ j < i ∨ k < j ∨ k > cap then none
  else some ⟨i.toNat, (j - i).toNat, (k - i).toNat⟩

/-- capacity the run-time check uses: `Cap()` for slices, the length for arrays and strings -/
def capOf (c : Cont) (len cap : Nat) : Nat :=
  match c with
  | .slice => cap
  | _ => len

structure SliceIn where
  cont : Cont
  len : Nat
  cap : Nat
  lo : Option Arg
  hi : Option Arg
  max : Option Arg
  three : Bool
  deriving Repr

def optConv (cv : Conv) : Option Arg → Option (Option Int)
  | none => some none
  | some a => (sliceIndexConv cv a).map some

def allConst : Option Arg → Bool
  | none => true
  | some a => a.const

/-- run-time part of `slice2` / `sliceString` (2-index) and `slice3`, bounds already `int`s;
    omitted low = 0 (`lo = c.exprValue(int, 0)`), omitted high = `obj.Len()` -/
def sliceRun (c : Cont) (len cap : Nat) (three : Bool) (lo hi max : Option Int) : Option SliceRes :=
  if c = .nilparray then none
  else
    let i := lo.getD 0
    let j := hi.getD len
    if three then
      match max with
      | some k => reflSlice3 (capOf c len cap) i j k
      | none => none
    else reflSlice (capOf c len cap) i j

/-- `Comp.SliceExpr` -/
def sliceOutcome (cv : Conv) (s : SliceIn) : Outcome SliceRes :=
  match optConv cv s.lo, optConv cv s.hi, optConv cv s.max with
  | some lo, some hi, some max =>
    if s.three ∧ (s.hi.isNone ∨ s.max.isNone) then .cerr      -- "final index required in 3-index slice"
    else if s.three ∧ (s.cont = .str ∨ s.cont = .cstr) then .cerr  -- "3-index slice of string"
    else
      match sliceRun s.cont s.len s.cap s.three lo hi max with
      | some r => .ok r
      | none =>
        -- constant operand and constant bounds: EvalConst inside Compile, the panic is not recovered
        if s.cont = .cstr ∧ allConst s.lo ∧ allConst s.hi ∧ allConst s.max then .cerr else .panic
  | _, _, _ => .cerr

/-! ## composite literals of array / slice type: `compositeLitElements` -/

/-- one element of the literal: positional, or with a constant integer key of some kind
    (`nonconst` = the key is not a constant) -/
inductive Elt where
  | pos
  | keyed (k : IKind) (key : Int)
  | nonconst
  deriving Repr, DecidableEq, Inhabited

inductive LitErr where
  | nonconst | overflow | negative | oob | dup | toolarge
  deriving Repr, DecidableEq

structure LitState where
  size : Int := 0
  lastkey : Int := -1
  seen : List Int := []
  keys : List Int := []      -- in source order
  deriving Repr

/-- `idx` of one element: explicit key converted to `int`
    (untyped: `ConstTo(int)`; typed: `ConvertLiteralCheckOverflow(value, int)`), else lastkey+1 -/
def eltKey (lastkey : Int) : Elt → Except LitErr Int
  | .nonconst => .error .nonconst
  | .keyed _ key => if minInt ≤ key ∧ key ≤ maxInt then .ok key else .error .overflow
  | .pos => .ok (lastkey + 1)

/-- `!ellipsis && t.Kind() == r.Array && lastkey >= t.Len()` -/
def oobArr (arrLen : Option Nat) (k : Int) : Bool :=
  match arrLen with
  | some n => decide ((n : Int) ≤ k)
  | none => false

/-- the checks and updates after `lastkey` is known -/
def litCheck (arrLen : Option Nat) (st : LitState) (lastkey : Int) : Except LitErr LitState :=
  if lastkey < 0 then .error .negative
  else if oobArr arrLen lastkey then .error .oob
  else if st.seen.contains lastkey then .error .dup
  else if st.size ≤ lastkey ∧ lastkey = maxInt then .error .toolarge
  else
    .ok { size := if st.size ≤ lastkey then lastkey + 1 else st.size,
          lastkey := lastkey, seen := lastkey :: st.seen, keys := st.keys ++ [lastkey] }

/-- one iteration of the `for i, el := range node.Elts` loop.
    `arrLen = some n` for `[n]T{...}`, `none` for `[]T{...}` and `[...]T{...}` -/
def litStep (arrLen : Option Nat) (st : LitState) (e : Elt) : Except LitErr LitState :=
  match eltKey st.lastkey e with
  | .error x => .error x
  | .ok k => litCheck arrLen st k

def litLoop (arrLen : Option Nat) : LitState → List Elt → Except LitErr LitState
  | st, [] => .ok st
  | st, e :: es =>
    match litStep arrLen st e with
    | .error x => .error x
    | .ok st' => litLoop arrLen st' es

/-- `compositeLitElements`: (size, keys) or the compile error -/
def litElements (arrLen : Option Nat) (elts : List Elt) : Except LitErr (Int × List Int) :=
  match litLoop arrLen {} elts with
  | .error e => .error e
  | .ok st => .ok (st.size, st.keys)

/-- length of the value built by `compositeLitArray` / `compositeLitSlice`:
    `[n]T` keeps n, `[...]T` and `[]T` use `size` -/
def litLen (arrLen : Option Nat) (size : Int) : Nat :=
  match arrLen with
  | some n => n
  | none => size.toNat

/-- the placement loop `obj.Index(keys[i]).Set(val)` over a zeroed object of length n -/
def place : List Int → List Int → List Int → List Int
  | obj, k :: ks, v :: vs => place (obj.set k.toNat v) ks vs
  | obj, _, _ => obj

def litValue (arrLen : Option Nat) (elts : List Elt) (vals : List Int) : Except LitErr (List Int) :=
  match litElements arrLen elts with
  | .error e => .error e
  | .ok (size, keys) => .ok (place (List.replicate (litLen arrLen size) 0) keys vals)

/-! ## per-kind arms of `vectorIndex` / `mapIndex1` (table regenerated into Gen/IndexArms.lean) -/

/-- element kinds with an arm of their own; `other` = the `default:` arm (xr.Value);
    `opaque` = text the extractor could not classify (never satisfies an obligation) -/
inductive EKind where
  | bool | int | int8 | int16 | int32 | int64 | uint | uint8 | uint16 | uint32 | uint64 | uintptr
  | float32 | float64 | complex64 | complex128 | string | other | opaque
  deriving DecidableEq, Repr, Inhabited

/-- `reflect.Value` accessor used by an arm -/
inductive Acc where
  | bool | int | uint | float | complex | string | none | opaque
  deriving DecidableEq, Repr, Inhabited

/-- which function / variant an arm belongs to -/
inductive ArmFn where
  | vecConst | vecVar | mapConst | mapVar
  deriving DecidableEq, Repr, Inhabited

structure Arm where
  fn : ArmFn
  kind : EKind      -- `case xr.K:`
  ret : EKind       -- result type of the closure `func(env *Env) K`
  acc : Acc         -- accessor called on the element Value
  conv : EKind      -- conversion wrapped around the accessor (`other` = none)
  usesIdx : Bool    -- the element is `objv.Index(i)` / `obj.MapIndex(key)` with the converted index / key
  deriving Repr, DecidableEq, Inhabited

/-- the accessor `reflect` accepts for a value of kind K (any other accessor panics) -/
def accOf : EKind → Acc
  | .bool => .bool
  | .int | .int8 | .int16 | .int32 | .int64 => .int
  | .uint | .uint8 | .uint16 | .uint32 | .uint64 | .uintptr => .uint
  | .float32 | .float64 => .float
  | .complex64 | .complex128 => .complex
  | .string => .string
  | .other => .none
  | .opaque => .opaque

/-- type the accessor returns -/
def accType : Acc → EKind
  | .bool => .bool
  | .int => .int64
  | .uint => .uint64
  | .float => .float64
  | .complex => .complex128
  | .string => .string
  | .none => .other
  | .opaque => .opaque

/-- integer element kinds: (signed, bits) -/
def EKind.intInfo : EKind → Option (Bool × Nat)
  | .int | .int64 => some (true, 64)
  | .int8 => some (true, 8)
  | .int16 => some (true, 16)
  | .int32 => some (true, 32)
  | .uint | .uint64 | .uintptr => some (false, 64)
  | .uint8 => some (false, 8)
  | .uint16 => some (false, 16)
  | .uint32 => some (false, 32)
  | _ => none

/-- Go integer conversion to a kind: wrap to the width -/
def wrapTo (k : EKind) (v : Int) : Int :=
  match k.intInfo with
  | some (true, b) => (v + 2 ^ (b - 1)) % 2 ^ b - 2 ^ (b - 1)
  | some (false, b) => v % 2 ^ b
  | none => v

def EKind.fitsInt (k : EKind) (v : Int) : Prop :=
  match k.intInfo with
  | some (true, b) => -(2 ^ (b - 1)) ≤ v ∧ v < 2 ^ (b - 1)
  | some (false, b) => 0 ≤ v ∧ v < 2 ^ b
  | none => True

/-- obligation on one arm: it reads the element selected by the converted index with the accessor
    of its kind, converts to its kind (or not at all when the accessor already has that type) and
    returns its kind -/
def Arm.sound (a : Arm) : Bool :=
  a.kind != .opaque && a.ret == a.kind && a.acc == accOf a.kind && a.usesIdx &&
  (a.conv == a.kind || (a.conv == .other && accType a.acc == a.kind) || (a.kind == .other && a.conv == .other))

/-- what an arm returns for an integer element `v` of kind `a.kind` (none = reflect panics:
    wrong accessor for the kind) -/
def Arm.readInt (a : Arm) (v : Int) : Option Int :=
  if a.acc = accOf a.kind ∧ a.usesIdx then
    some (wrapTo a.ret (wrapTo (if a.conv = .other then accType a.acc else a.conv) v))
  else none

def findArm (arms : List Arm) (fn : ArmFn) (k : EKind) : Option Arm :=
  match arms.find? (fun a => a.fn == fn && a.kind == k) with
  | some a => some a
  | none => arms.find? (fun a => a.fn == fn && a.kind == .other)

def allKinds : List EKind :=
  [.bool, .int, .int8, .int16, .int32, .int64, .uint, .uint8, .uint16, .uint32, .uint64, .uintptr,
   .float32, .float64, .complex64, .complex128, .string, .other]

def allFns : List ArmFn := [.vecConst, .vecVar, .mapConst, .mapVar]

/-- table obligation: every arm sound, and for every function variant every kind has exactly one arm -/
def tableSound (arms : List Arm) : Bool :=
  arms.all Arm.sound &&
  allFns.all (fun fn => allKinds.all (fun k => (arms.filter (fun a => a.fn == fn && a.kind == k)).length == 1))

end Composite
