/-!
# Model of base/untyped/val.go : Marshal / Unmarshal / unmarshalFloat  (property C32)

Transcription rules
* A Go string is a list of byte values (`Bytes = List Nat`, every element < 256 in practice;
  nothing in the model depends on the bound).
* An untyped constant is `Val`: its gomacro `Kind` together with the go/constant value.  The
  go/constant representations are kept apart where `ExactString` distinguishes them:
  `Flt.rat n d`  = int64Val / intVal (d = 1) or ratVal (lowest terms, d > 0),
  `Flt.big neg m e` = floatVal, the 512-bit `*big.Float` (-1)^neg * m * 2^e (m odd, or the
  constant +0 written `big false 0 0`).  int64Val/intVal/ratVal{n/1} are identified: they print the
  same `ExactString` and go/constant converts freely between them.
* `natToDec`, `parseDigits`, `hexDigits`, `parseHex` are this model's own decimal/hex printer and
  parser (strconv / math/big conversions are not assumed; the round trip is proved in Proofs/Marshal).
* `exactString` transcribes go/constant `ExactString` (value.go): decimal integer, `n/d` for a
  non-integral ratVal, `Text('p',0)` = `0x.<hex mantissa>p±<exp>` for a floatVal (ftoa.go fmtP).
* `marshal` = val.go `Marshal`, `unmarshal` = val.go `Unmarshal`, `unmarshalFloat` = val.go
  `unmarshalFloat`, branch by branch.  `constant.MakeFromLiteral` is modelled on the literal grammar
      INT   : [+-]? ( 0 | [1-9][0-9]* )
      FLOAT : [+-]? [0-9]+   |   [+-]? 0x.[0-9a-f]+ p [+-]? [0-9]{1,9}   (<= 128 hex digits)
  which contains everything `Marshal` emits.  A literal outside the grammar is `unknown` (go/constant
  returns unknownVal) when it is empty or contains a byte that no Go literal can contain, otherwise the
  model abstains (`Lit.abstain`: prefixed/underscored/exponent forms of the Go literal syntax that
  the model does not transcribe); the correspondence run prints `abstain` on both sides for those.
* makeFloatFromLiteral: the literal is first read as a 512-bit big.Float (round to nearest even,
  `roundRat`); if its binary exponent is in (-4096, 4096) the literal is re-read exactly as a
  big.Rat, else the rounded float is kept.  makeRat: a fraction whose numerator or denominator has
  4096 bits or more becomes a 512-bit float.  BinaryOp QUO / ADD as in go/constant (match()
  promotes ratVal to floatVal through SetRat = correctly rounded quotient).
* big.Float exponent overflow (|exp| > 2^31) is not modelled (the grammar limits exponents to 9 digits, below the int32 range of big.Float).
-/
namespace Marshal

abbrev Bytes := List Nat

/-! ## characters and tags -/
def cColon : Nat := 58
def cSlash : Nat := 47
def cMinus : Nat := 45
def cPlus : Nat := 43
def cZero : Nat := 48

def kNil : Bytes := [110, 105, 108]                     -- "nil"
def kBool : Bytes := [98, 111, 111, 108]                -- "bool"
def kInt : Bytes := [105, 110, 116]                     -- "int"
def kRune : Bytes := [114, 117, 110, 101]               -- "rune"
def kFloat : Bytes := [102, 108, 111, 97, 116]          -- "float"
def kComplex : Bytes := [99, 111, 109, 112, 108, 101, 120] -- "complex"
def kString : Bytes := [115, 116, 114, 105, 110, 103]   -- "string"
def sTrue : Bytes := [116, 114, 117, 101]               -- "true"
def sFalse : Bytes := [102, 97, 108, 115, 101]          -- "false"
def sHexDot : Bytes := [48, 120, 46]                    -- "0x."
def cP : Nat := 112                                     -- 'p'

/-! ## values -/
inductive Kind where
  | none | bool | int | rune | float | complex | string
  deriving DecidableEq, Repr

inductive Flt where
  | rat (num : Int) (den : Nat)
  | big (neg : Bool) (mant : Nat) (exp : Int)
  deriving DecidableEq, Repr

inductive Val where
  | bool (b : Bool)
  | int (i : Int)
  | rune (i : Int)
  | float (f : Flt)
  | complex (re im : Flt)
  | str (s : Bytes)
  | nil
  deriving DecidableEq, Repr

def Val.kind : Val → Kind
  | .bool _ => .bool
  | .int _ => .int
  | .rune _ => .rune
  | .float _ => .float
  | .complex _ _ => .complex
  | .str _ => .string
  | .nil => .none

/-! ## own decimal printer / parser -/
def natToDecAux : Nat → Nat → Bytes → Bytes
  | 0, _, acc => acc
  | f + 1, n, acc =>
    if n < 10 then (48 + n) :: acc else natToDecAux f (n / 10) ((48 + n % 10) :: acc)

/-- decimal digits of `n`, most significant first (fuel `n+1` always suffices) -/
def natToDec (n : Nat) : Bytes := natToDecAux (n + 1) n []

def intToDec (i : Int) : Bytes :=
  if i < 0 then cMinus :: natToDec i.natAbs else natToDec i.natAbs

def isDigit (c : Nat) : Bool := 48 ≤ c && c ≤ 57

/-- value of a string of decimal digits (none if a byte is not a digit) -/
def parseDigits (acc : Nat) : Bytes → Option Nat
  | [] => some acc
  | c :: cs => if isDigit c then parseDigits (acc * 10 + (c - 48)) cs else none

/-! ## hex printer / parser (mantissa of Text('p', 0)) -/
def hexChar (d : Nat) : Nat := if d < 10 then 48 + d else 87 + d   -- '0'..'9','a'..'f'

def hexDigitsAux : Nat → Nat → Bytes → Bytes
  | 0, _, acc => acc
  | f + 1, n, acc =>
    if n < 16 then hexChar n :: acc else hexDigitsAux f (n / 16) (hexChar (n % 16) :: acc)

def hexDigits (n : Nat) : Bytes := hexDigitsAux (n + 1) n []

def hexVal (c : Nat) : Option Nat :=
  if 48 ≤ c && c ≤ 57 then some (c - 48)
  else if 97 ≤ c && c ≤ 102 then some (c - 87)
  else none

def parseHex (acc : Nat) : Bytes → Option Nat
  | [] => some acc
  | c :: cs => match hexVal c with
    | some d => parseHex (acc * 16 + d) cs
    | none => none

/-! ## bit lengths, rounding to 512 bits -/
def bitlen (n : Nat) : Nat := if n = 0 then 0 else n.log2 + 1

def prec : Nat := 512
def maxExp : Nat := 4096

/-- remove factors of two: value `m * 2^e` is preserved, result mantissa odd (for m > 0) -/
def stripTwos : Nat → Nat → Int → Nat × Int
  | 0, m, e => (m, e)
  | f + 1, m, e => if m % 2 = 0 ∧ m ≠ 0 then stripTwos f (m / 2) (e + 1) else (m, e)

def mkBig (neg : Bool) (m : Nat) (e : Int) : Flt :=
  if m = 0 then .big false 0 0
  else let (m', e') := stripTwos (bitlen m) m e; .big neg m' e'

/-- `n / d` (n, d > 0) correctly rounded (nearest, ties to even) to a 512-bit mantissa:
    result `(q, s)` meaning `q * 2^s` with `2^511 ≤ q ≤ 2^512`. -/
def roundRat (n d : Nat) : Nat × Int :=
  let k : Int := 515 + (bitlen d : Int) - (bitlen n : Int)
  let n' := if k ≥ 0 then n <<< k.toNat else n
  let d' := if k ≥ 0 then d else d <<< (-k).toNat
  let q0 := n' / d'
  let sticky := n' % d' ≠ 0
  let s := bitlen q0 - prec
  let q := q0 >>> s
  let rem := q0 % 2 ^ s
  let half := 2 ^ (s - 1)
  let up := rem > half ∨ (rem = half ∧ (sticky ∨ q % 2 = 1))
  ((if up then q + 1 else q), (s : Int) - k)

/-- binary exponent as reported by big.Float.MantExp: value in [2^(e-1), 2^e) -/
def expOf (q : Nat) (s : Int) : Int := (bitlen q : Int) + s

def smallExp (e : Int) : Bool := -(maxExp : Int) < e && e < (maxExp : Int)

/-- big.Float.SetRat / SetInt at precision 512 followed by makeFloat -/
def bigOfRat (neg : Bool) (n d : Nat) : Flt :=
  if n = 0 then .big false 0 0
  else let (q, s) := roundRat n d; mkBig neg q s

/-- lowest terms -/
def mkRat (n : Int) (d : Nat) : Flt :=
  let g := Nat.gcd n.natAbs d
  .rat (n / (g : Int)) (d / g)

def smallInt (n : Nat) : Bool := bitlen n < maxExp

/-- go/constant makeRat applied to the fraction n/d in lowest terms -/
def makeRat (n : Int) (d : Nat) : Flt :=
  if smallInt n.natAbs && smallInt d then .rat n d
  else bigOfRat (decide (n < 0)) n.natAbs d

/-! ## ExactString -/
def expToDec (x : Int) : Bytes :=
  if x ≥ 0 then cPlus :: natToDec x.natAbs else cMinus :: natToDec x.natAbs

/-- mantissa hex digits of fmtP: the bits of odd `m`, left aligned, in groups of four -/
def mantHex (m : Nat) : Bytes :=
  hexDigits (m <<< ((4 - bitlen m % 4) % 4))

def exactString : Flt → Bytes
  | .rat n d => if d = 1 then intToDec n else intToDec n ++ cSlash :: natToDec d
  | .big neg m e =>
    if m = 0 then [cZero]
    else (if neg then [cMinus] else []) ++ sHexDot ++ mantHex m ++ cP :: expToDec (e + (bitlen m : Int))

/-! ## Marshal (val.go:63) -/
def marshal : Val → Bytes
  | .nil => kNil
  | .bool true => kBool ++ cColon :: sTrue
  | .bool false => kBool ++ cColon :: sFalse
  | .int i => kInt ++ cColon :: intToDec i
  | .rune i => kRune ++ cColon :: intToDec i
  | .float f => kFloat ++ cColon :: exactString f
  | .complex re im => kComplex ++ cColon :: (exactString re ++ cColon :: exactString im)
  | .str s => kString ++ cColon :: s

/-! ## literals -/
inductive Lit (α : Type) where
  | val (a : α)
  | unknown
  | abstain
  deriving Repr

def inIntAlphabet (c : Nat) : Bool :=
  isDigit c || (97 ≤ c && c ≤ 102) || (65 ≤ c && c ≤ 70) ||
  c = 120 || c = 88 || c = 111 || c = 79 || c = 98 || c = 66 || c = 95 || c = 43 || c = 45

def inFloatAlphabet (c : Nat) : Bool :=
  isDigit c || (97 ≤ c && c ≤ 122) || (65 ≤ c && c ≤ 90) || c = 95 || c = 46 || c = 43 || c = 45

/-- strip one leading sign -/
def splitSign : Bytes → Bool × Bytes
  | [] => (false, [])
  | c :: r => if c = 45 then (true, r) else if c = 43 then (false, r) else (false, c :: r)

def applySign (neg : Bool) (n : Nat) : Int := if neg then -(n : Int) else (n : Int)

/-- decimal without leading zero -/
def isDecimal : Bytes → Bool
  | [] => false
  | [c] => isDigit c
  | c :: cs => isDigit c && c != 48 && cs.all isDigit

/-- constant.MakeFromLiteral(s, token.INT, 0) -/
def parseIntLit (s : Bytes) : Lit Int :=
  let (neg, body) := splitSign s
  if isDecimal body then
    match parseDigits 0 body with
    | some n => .val (applySign neg n)
    | none => .unknown
  else if s.isEmpty || !(s.all inIntAlphabet) then .unknown
  else .abstain

/-- exact value `±m * 2^sh` as a fraction in lowest terms (big.Rat.SetString) -/
def ratOfShift (neg : Bool) (m : Nat) (sh : Int) : Flt :=
  if sh ≥ 0 then .rat (applySign neg (m <<< sh.toNat)) 1
  else mkRat (applySign neg m) (2 ^ (-sh).toNat)

/-- makeFloatFromLiteral for the exact value `±m * 2^sh` (m > 0) -/
def floatOfShift (neg : Bool) (m : Nat) (sh : Int) : Flt :=
  if m = 0 then .rat 0 1
  else
    let (q, s) := roundRat m 1
    if smallExp (expOf q (s + sh)) then ratOfShift neg m sh
    else mkBig neg q (s + sh)

/-- `0x.<hex>p[+-]<dec>` -/
def parseHexP (body : Bytes) : Option (Nat × Int) :=
  match body with
  | 48 :: 120 :: 46 :: rest =>
    let hd := rest.takeWhile (fun c => (hexVal c).isSome)
    let rest := rest.dropWhile (fun c => (hexVal c).isSome)
    match rest with
    | 112 :: er =>
      let (eneg, ed) := splitSign er
      if hd.isEmpty || hd.length > 128 || ed.isEmpty || ed.length > 9 || !(ed.all isDigit) then none
      else match parseHex 0 hd, parseDigits 0 ed with
        | some m, some e => some (m, applySign eneg e - 4 * (hd.length : Int))
        | _, _ => none
    | _ => none
  | _ => none

/-- constant.ToFloat(constant.Make(i)) for the big.Int `±n`: exact below 4096 bits, else itof -/
def decimalIntToFloat (neg : Bool) (n : Nat) : Flt :=
  if smallInt n then .rat (applySign neg n) 1 else bigOfRat neg n 1

/-- The literal reader of unmarshalFloat.  `exactInt = false`: val.go as found,
    constant.MakeFromLiteral(s, token.FLOAT, 0) = makeFloatFromLiteral.  `exactInt = true`: val.go
    with fixes/C32-unmarshalfloat-exact-int.diff (`unmarshalFloatLit`): a signed decimal integer is read
    with big.Int.SetString(s, 10) and converted by constant.ToFloat, everything else as before.
    Which of the two the checkout under test contains is extracted into Gen/MarshalCfg.lean. -/
def parseFloatLit (exactInt : Bool) (s : Bytes) : Lit Flt :=
  let (neg, body) := splitSign s
  if !body.isEmpty && body.all isDigit then
    match parseDigits 0 body with
    | some n => .val (if exactInt then decimalIntToFloat neg n else floatOfShift neg n 0)
    | none => .unknown
  else match parseHexP body with
    | some (m, sh) => .val (floatOfShift neg m sh)
    | none =>
      if s.isEmpty || !(s.all inFloatAlphabet) then .unknown
      else .abstain

/-! ## go/constant arithmetic used by Unmarshal -/
inductive QRes where
  | val (f : Flt)
  | unknown
  | panic
  deriving Repr

def Flt.isZero : Flt → Bool
  | .rat n _ => n == 0
  | .big _ m _ => m == 0

/-- rtof / identity: promote to the float representation `(neg, m, e)` -/
def toBig : Flt → Bool × Nat × Int
  | .rat n d => match bigOfRat (decide (n < 0)) n.natAbs d with
    | .big neg m e => (neg, m, e)
    | .rat _ _ => (false, 0, 0)
  | .big neg m e => (neg, m, e)

/-- constant.BinaryOp(x, token.QUO, y) on Float-kind operands -/
def quo (x y : Flt) : QRes :=
  match x, y with
  | .rat n1 d1, .rat n2 d2 =>
    if n2 = 0 then .panic      -- big.Rat.Quo: division by zero
    else
      let num : Int := n1 * (d2 : Int) * (if n2 < 0 then -1 else 1)
      let den : Nat := d1 * n2.natAbs
      match mkRat num den with
      | .rat n d => .val (makeRat n d)
      | f => .val f
  | _, _ =>
    let (xn, xm, xe) := toBig x
    let (yn, ym, ye) := toBig y
    if ym = 0 then (if xm = 0 then .panic else .unknown)   -- x/0 = Inf -> unknown ; 0/0 -> ErrNaN panic
    else if xm = 0 then .val (.big false 0 0)
    else
      let (q, s) := roundRat xm ym
      .val (mkBig (xn != yn) q (s + xe - ye))

/-- constant.BinaryOp(x, token.ADD, int64Val(0)) as used for the parts of a complex -/
def addZero : Flt → Flt
  | .rat n d => makeRat n d
  | .big neg m e => .big neg m e

/-! ## unmarshalFloat (val.go:144) -/
def splitFirst (c : Nat) : Bytes → Option (Bytes × Bytes)
  | [] => none
  | b :: bs =>
    if b = c then some ([], bs)
    else match splitFirst c bs with
      | none => none
      | some (l, r) => some (b :: l, r)

inductive FRes where
  | val (f : Flt)
  | unknown
  | panic
  | abstain
  deriving Repr

def ofLit : Lit Flt → FRes
  | .val f => .val f
  | .unknown => .unknown
  | .abstain => .abstain

def unmarshalFloat (exactInt : Bool) (str : Bytes) : FRes :=
  match splitFirst cSlash str with
  | some (a, b) =>
    match parseFloatLit exactInt a, parseFloatLit exactInt b with
    | .abstain, _ => .abstain
    | _, .abstain => .abstain
    | .unknown, _ => .unknown        -- match(unknown, y) -> unknown
    | _, .unknown => .unknown
    | .val x, .val y =>
      match quo x y with
      | .val f => .val f
      | .unknown => .unknown
      | .panic => .panic
  | none => ofLit (parseFloatLit exactInt str)

/-! ## Unmarshal (val.go:94) -/
inductive Res where
  | ok (v : Val)
  | unknown (k : Kind)     -- constant.Value of kind Unknown
  | panic
  | abstain
  deriving DecidableEq, Repr

def ofIntLit (k : Kind) (mk : Int → Val) : Lit Int → Res
  | .val i => .ok (mk i)
  | .unknown => .unknown k
  | .abstain => .abstain

def unmarshal (exactInt : Bool) (marshalled : Bytes) : Res :=
  let (skind, str) := match splitFirst cColon marshalled with
    | some (k, r) => (k, r)
    | none => (marshalled, [])
  if skind = kBool then .ok (.bool (decide (str = sTrue)))
  else if skind = kInt then ofIntLit .int .int (parseIntLit str)
  else if skind = kRune then ofIntLit .rune .rune (parseIntLit str)
  else if skind = kFloat then
    match unmarshalFloat exactInt str with
    | .val f => .ok (.float f)
    | .unknown => .unknown .float
    | .panic => .panic
    | .abstain => .abstain
  else if skind = kComplex then
    match splitFirst cColon str with
    | some (a, b) =>
      match unmarshalFloat exactInt a, unmarshalFloat exactInt b with
      | .abstain, _ => .abstain
      | _, .abstain => .abstain
      | .panic, _ => .panic
      | _, .panic => .panic
      | .unknown, _ => .unknown .complex
      | _, .unknown => .unknown .complex
      | .val re, .val im => .ok (.complex (addZero re) (addZero im))
    | none =>
      match unmarshalFloat exactInt str with
      | .val f => .ok (.complex f (.rat 0 1))       -- ToComplex(x) = complexVal{x, int64Val(0)}
      | .unknown => .unknown .complex
      | .panic => .panic
      | .abstain => .abstain
  else if skind = kString then .ok (.str str)
  else .ok .nil      -- "nil" and every unrecognised kind tag

end Marshal
