/-
Model of gomacro's code completion:
  fast/repl.go      Interp.CompleteWords, Comp.CompleteWords, Comp.completeWords,
                    Comp.completeWord, Comp.completeLastWord, sortUnique, keywords
  fast/selector.go  Comp.listFieldsAndMethods (+ collectMethods), Comp.TryLookupFieldOrMethod
  xreflect/lookup.go Universe.VisitFields, derefStruct, FieldByName/fieldByName,
                    MethodByName/methodByName/anonymousFields, depthMap
  imports/util/util.go TailIdentifier

Transcription rules
* A Go string is the list of its Unicode code points (`Str = List Nat`); the code assumes valid
  UTF-8 (the line comes from liner as []rune).  Go's `<` on strings (bytewise) coincides with the
  lexicographic order of code points for valid UTF-8 (`ltS`).  The cursor `pos` of
  `Interp.CompleteWords` is an index in runes (the loop over `utf8.DecodeRuneInString` converts it
  to a byte offset on a rune boundary): `head = line.take pos`, `tail = line.drop pos`; a negative
  `pos` leaves the loop at once (offset 0), a `pos` past the end stops at `len(line)`.
  Byte lengths appear only in the driver, which reports `len(head)`/`len(tail)` (`utf8Len`).
  Inside, `len(a) != len(b)` and `pos >= fixed` compare a string with one of its own suffixes /
  two offsets in the same string, so comparing code point counts is equivalent.
* `unicode.IsLetter/IsDigit/IsSpace` for code points >= 0x80 are parameters (`Classes`).
* Go maps (`Comp.Binds`, `Comp.Types`, `Import.Binds`, `Import.Types`) are association lists with
  replace-on-insert; iteration order of a map is unspecified in Go and is the list order here --
  `sortUnique` makes the result independent of it (theorem `sortUnique_canonical`).
* `sort.Strings` is insertion sort (`sortS`): the sorted permutation of a list of strings is unique.
  The compaction loop of `sortUnique` is transcribed with its in-place writes (`List.set`).
* Types: every struct type is a named type `Ty.named id` (index into the type table `tbl`);
  `Ty.basic` stands for every type without fields and methods (int, func, slice, ...);
  `Ty.iface ms` is an unnamed interface type; `Ty.invalid` is the nil `xr.Type` of the bind `nil`
  (`if t == nil { return nil }` in listFieldsAndMethods and completeWords; a pointer to it does not
  exist in Go -- the model keeps `none` = panic there, `Interp.CompleteWords` would recover and
  return "", nil, "").
  For a named interface type `TypeDef.under = .iface ms` holds the full method set.
  `acc` on a field/method = "visible from package main" (exported, or declared in main): this is
  what the QName comparison of matchFieldByName/matchMethodByName decides.
* Loops over indices become structural recursion; the breadth-first loops take fuel
  (`tbl.length + 1`, sufficient: theorem `visitFields_complete`).  The two-list BFS of VisitFields
  (`curr`/`tovisit`) is a single FIFO queue: same visiting order.
* Generics are off (etoken.GENERICS_NONE, the library default): no CTI methods.
-/
namespace Complete

abbrev Str := List Nat

/-! ## strings -/

/-- lexicographic `<` on code points (Go string comparison on valid UTF-8). -/
def ltS : Str → Str → Bool
  | [], [] => false
  | [], _ :: _ => true
  | _ :: _, [] => false
  | a :: as, b :: bs => if a < b then true else if b < a then false else ltS as bs

/-- `len(name) >= size && name[:size] == word` -/
def hasPrefix (word name : Str) : Bool :=
  decide (name.length ≥ word.length) && name.take word.length == word

structure Classes where
  letter : Nat → Bool   -- unicode.IsLetter, used for ch >= 0x80
  digit : Nat → Bool    -- unicode.IsDigit, used for ch >= 0x80
  space : Nat → Bool    -- unicode.IsSpace, used for ch >= 0x80

def isLetterCh (cl : Classes) (ch : Nat) : Bool :=
  if ch < 0x80 then (65 ≤ ch && ch ≤ 90) || ch == 95 || (97 ≤ ch && ch ≤ 122) else cl.letter ch

def isDigitCh (cl : Classes) (ch : Nat) : Bool :=
  if ch < 0x80 then (48 ≤ ch && ch ≤ 57) else cl.digit ch

/-- unicode.IsSpace: '\t' '\n' '\v' '\f' '\r' ' ' in ASCII -/
def isSpaceCh (cl : Classes) (ch : Nat) : Bool :=
  if ch < 0x80 then ch == 32 || (9 ≤ ch && ch ≤ 13) else cl.space ch

/-- the loop of TailIdentifier on the reversed string.  `k` = characters scanned so far (n-1-i),
    `m` = n - start: length of the suffix beginning at the leftmost letter seen so far. -/
def tailLoop (cl : Classes) : Str → Nat → Nat → Nat
  | [], _, m => m
  | ch :: rest, k, m =>
    if isLetterCh cl ch then tailLoop cl rest (k + 1) (k + 1)   -- start = i
    else if isDigitCh cl ch then tailLoop cl rest (k + 1) m     -- an identifier cannot start with a digit
    else m

/-- util.TailIdentifier: `return string(chars[start:])` -/
def tailIdentifier (cl : Classes) (s : Str) : Str :=
  if s.isEmpty then s
  else s.drop (s.length - tailLoop cl s.reverse 0 0)

/-- strings.Split(s, sep) for a one-character separator -/
def splitOn (sep : Nat) : Str → List Str
  | [] => [[]]
  | c :: cs =>
    if c == sep then [] :: splitOn sep cs
    else match splitOn sep cs with
      | w :: ws => (c :: w) :: ws
      | [] => [[c]]

/-- strings.TrimLeftFunc(s, unicode.IsSpace) -/
def trimLeft (cl : Classes) (s : Str) : Str := s.dropWhile (isSpaceCh cl)

/-- strings.TrimSpace -/
def trimSpace (cl : Classes) (s : Str) : Str :=
  ((trimLeft cl s).reverse.dropWhile (isSpaceCh cl)).reverse

/-- strings.LastIndexByte(s, c): scan keeping the last hit -/
def lastIndexFrom (c : Nat) : Str → Nat → Option Nat → Option Nat
  | [], _, acc => acc
  | x :: xs, i, acc => lastIndexFrom c xs (i + 1) (if x == c then some i else acc)

def lastIndex (c : Nat) (s : Str) : Option Nat := lastIndexFrom c s 0 none

/-! ## sortUnique -/

def insertS (x : Str) : List Str → List Str
  | [] => [x]
  | y :: ys => if ltS y x then y :: insertS x ys else x :: y :: ys

/-- sort.Strings -/
def sortS : List Str → List Str
  | [] => []
  | x :: xs => insertS x (sortS xs)

/-- the compaction loop `for i := 1; i < n; i++ { if s := vec[i]; s != prev { vec[j] = s; prev = s; j++ } }`
    (`k` = n - i iterations left) -/
def compact (vec : List Str) (prev : Str) (j i : Nat) : Nat → List Str × Nat
  | 0 => (vec, j)
  | k + 1 =>
    let s := vec.getD i []
    if s != prev then compact (vec.set j s) s (j + 1) (i + 1) k
    else compact vec prev j (i + 1) k

def sortUnique (vec : List Str) : List Str :=
  let n := vec.length
  if n > 1 then
    let vec := sortS vec
    let prev := vec.getD 0 []
    let r := compact vec prev 1 1 (n - 1)
    r.1.take r.2
  else vec

/-! ## types -/

inductive Ty where
  | basic
  | named (id : Nat)
  | ptr (elem : Ty)
  | iface (ms : List Str)
  | invalid
  deriving DecidableEq, Repr, Inhabited

structure Field where
  name : Str
  anon : Bool
  ty : Ty
  acc : Bool
  deriving DecidableEq, Repr, Inhabited

structure Method where
  name : Str
  acc : Bool
  deriving DecidableEq, Repr, Inhabited

inductive Under where
  | basic
  | struct (fs : List Field)
  | iface (ms : List Str)
  deriving Repr, Inhabited

structure TypeDef where
  under : Under
  methods : List Method      -- explicitly declared methods (value and pointer receivers)
  deriving Repr, Inhabited

abbrev Table := List TypeDef

inductive Kind where
  | ptr | struct | iface | other | invalid
  deriving DecidableEq, Repr

def kindOf (tbl : Table) : Ty → Kind
  | .basic => .other
  | .ptr _ => .ptr
  | .iface _ => .iface
  | .invalid => .invalid
  | .named id =>
    match tbl[id]? with
    | some ⟨.struct _, _⟩ => .struct
    | some ⟨.iface _, _⟩ => .iface
    | _ => .other

def elemOf : Ty → Ty
  | .ptr e => e
  | t => t

/-- names of `typ.Method(i)` for i < typ.NumMethod():
    interfaces: the whole method set; other named types: the explicitly declared methods; else none. -/
def methodNames (tbl : Table) : Ty → List Str
  | .iface ms => ms
  | .named id =>
    match tbl[id]? with
    | some ⟨.iface ms, _⟩ => ms
    | some ⟨_, ms⟩ => ms.map (·.name)
    | none => []
  | _ => []

/-- derefStruct: a struct type, or a pointer to one -/
def structOf (tbl : Table) : Ty → Option (Nat × List Field)
  | .named id =>
    match tbl[id]? with
    | some ⟨.struct fs, _⟩ => some (id, fs)
    | _ => none
  | .ptr (.named id) =>
    match tbl[id]? with
    | some ⟨.struct fs, _⟩ => some (id, fs)
    | _ => none
  | _ => none

/-- the closure `collectMethods` of listFieldsAndMethods -/
def collectMethods (tbl : Table) (pre : Str) (typ : Ty) : List Str :=
  let go (typ : Ty) : List Str := (methodNames tbl typ).filter (hasPrefix pre)
  if kindOf tbl typ == .ptr then
    let typ := elemOf typ
    if kindOf tbl typ == .iface then [] else go typ
  else go typ

/-- the visitor passed to VisitFields, applied to all fields of one struct -/
def emitFields (tbl : Table) (pre : Str) : List Field → List Str
  | [] => []
  | f :: fs =>
    (if hasPrefix pre f.name then [f.name] else []) ++
    (if f.anon then collectMethods tbl pre f.ty else []) ++ emitFields tbl pre fs

def anonTypes (fs : List Field) : List Ty := (fs.filter (·.anon)).map (·.ty)

/-- skip queue entries that are not (pointers to) structs or were seen already -/
def nextUnseen (tbl : Table) (seen : List Nat) : List Ty → Option (Nat × List Field × List Ty)
  | [] => none
  | t :: rest =>
    match structOf tbl t with
    | none => nextUnseen tbl seen rest
    | some (id, fs) => if id ∈ seen then nextUnseen tbl seen rest else some (id, fs, rest)

/-- Universe.VisitFields: breadth first over embedded fields, each struct type once.
    Fuel is consumed only when a new struct type is visited. -/
def visitFields (tbl : Table) (pre : Str) : Nat → List Ty → List Nat → List Str
  | 0, _, _ => []
  | fuel + 1, queue, seen =>
    match nextUnseen tbl seen queue with
    | none => []
    | some (id, fs, rest) =>
      emitFields tbl pre fs ++ visitFields tbl pre fuel (rest ++ anonTypes fs) (id :: seen)

/-- Comp.listFieldsAndMethods; `none` = panic -/
def listFieldsAndMethods (tbl : Table) (t : Ty) (pre : Str) : Option (List Str) :=
  if kindOf tbl t == .invalid then some []      -- if t == nil { return nil }
  else
    let t1 := if kindOf tbl t == .ptr then elemOf t else t
    if kindOf tbl t == .ptr && kindOf tbl t1 == .iface then some []
    else if kindOf tbl t1 == .invalid then none
    else
      some (collectMethods tbl pre t1 ++
        (if kindOf tbl t1 == .struct then visitFields tbl pre (tbl.length + 1) [t1] [] else []))

/-! ## field / method lookup (xreflect FieldByName, MethodByName; fast TryLookupFieldOrMethod) -/

abbrev DepthMap := List (Nat × Nat)

/-- depthMap.visited -/
def dmVisited (m : DepthMap) (id depth : Nat) : Bool × DepthMap :=
  match m.lookup id with
  | some at' => if at' < depth then (true, m) else (false, (id, depth) :: m)
  | none => (false, (id, depth) :: m)

/-- one call of fieldByName: (first match, count, tovisit, visited map) -/
def fieldByName1 (tbl : Table) (t : Ty) (w : Str) (depth : Nat) (m : DepthMap) :
    Option Field × Nat × List Field × DepthMap :=
  match structOf tbl t with
  | none => (none, 0, [], m)
  | some (id, fs) =>
    let (vis, m) := dmVisited m id depth
    if vis then (none, 0, [], m)
    else
      let r := fs.foldl (fun (acc : Option Field × Nat × List Field) f =>
        let (fld, count, tv) := acc
        if f.name == w && f.acc then (if count == 0 then some f else fld, count + 1, tv)
        else if count == 0 && f.anon then (fld, count, tv ++ [f])
        else acc) (none, 0, [])
      (r.1, r.2.1, r.2.2, m)

/-- one level of the breadth-first loop of FieldByName -/
def fieldLevel (tbl : Table) (w : Str) (depth : Nat) :
    List Field → Option Field → Nat → List Field → DepthMap → Option Field × Nat × List Field × DepthMap
  | [], fld, count, next, m => (fld, count, next, m)
  | f :: rest, fld, count, next, m =>
    let (efld, ecount, etv, m) := fieldByName1 tbl f.ty w depth m
    let (fld, next) :=
      if count == 0 then (if ecount > 0 then (efld, next) else (fld, next ++ etv)) else (fld, next)
    fieldLevel tbl w depth rest fld (count + ecount) next m

def fieldLevels (tbl : Table) (w : Str) : Nat → Nat → List Field → DepthMap → Option Field × Nat × Nat
  | 0, depth, _, _ => (none, 0, depth)
  | fuel + 1, depth, tovisit, m =>
    if tovisit.isEmpty then (none, 0, depth)
    else
      let (fld, count, next, m) := fieldLevel tbl w depth tovisit none 0 [] m
      if count != 0 then (fld, count, depth) else fieldLevels tbl w fuel (depth + 1) next m

/-- xtype.FieldByName: (field, count, depth of the match; top level fields have depth 0) -/
def fieldByName (tbl : Table) (t : Ty) (w : Str) : Option Field × Nat × Nat :=
  if w == [95] || kindOf tbl t != .struct then (none, 0, 0)
  else
    let (fld, count, tv, m) := fieldByName1 tbl t w 0 []
    if count != 0 then (fld, count, 0) else fieldLevels tbl w (tbl.length + 1) 1 tv m

/-- xreflect methodByName (one type): number of matching methods -/
def methodCount1 (tbl : Table) (t : Ty) (w : Str) : Nat :=
  let cnt (t : Ty) : Nat :=
    match t with
    | .iface ms => (ms.filter (· == w)).length
    | .named id =>
      match tbl[id]? with
      | some ⟨.iface ms, _⟩ => (ms.filter (· == w)).length
      | some ⟨_, ms⟩ => (ms.filter (fun m => m.name == w && m.acc)).length
      | none => 0
    | _ => 0
  match t with
  | .ptr te => if kindOf tbl te == .iface || kindOf tbl te == .ptr then 0 else cnt te
  | t => cnt t

/-- anonymousFields -/
def anonymousFields (tbl : Table) (t : Ty) (depth : Nat) (m : DepthMap) : List Field × DepthMap :=
  match structOf tbl t with
  | none => ([], m)
  | some (id, fs) =>
    let (vis, m) := dmVisited m id depth
    if vis then ([], m) else (fs.filter (·.anon), m)

def methodLevel (tbl : Table) (w : Str) (depth : Nat) :
    List Field → Nat → List Field → DepthMap → Nat × List Field × DepthMap
  | [], count, next, m => (count, next, m)
  | f :: rest, count, next, m =>
    let ecount := methodCount1 tbl f.ty w
    if count == 0 && ecount == 0 then
      let (a, m) := anonymousFields tbl f.ty depth m
      methodLevel tbl w depth rest (count + ecount) (next ++ a) m
    else methodLevel tbl w depth rest (count + ecount) next m

def methodLevels (tbl : Table) (w : Str) : Nat → Nat → List Field → DepthMap → Nat × Nat
  | 0, depth, _, _ => (0, depth)
  | fuel + 1, depth, tovisit, m =>
    if tovisit.isEmpty then (0, depth)
    else
      let (count, next, m) := methodLevel tbl w depth tovisit 0 [] m
      if count != 0 then (count, depth) else methodLevels tbl w fuel (depth + 1) next m

/-- canHaveMethods with generics off -/
def canHaveMethods (tbl : Table) (t : Ty) : Bool :=
  if kindOf tbl t == .iface then true
  else
    let t := if kindOf tbl t == .ptr then elemOf t else t
    kindOf tbl t == .struct || (match t with | .named _ => true | _ => false)

/-- xtype.MethodByName: (count, number of embedded fields traversed) -/
def methodByName (tbl : Table) (t : Ty) (w : Str) : Nat × Nat :=
  if w == [95] || !canHaveMethods tbl t then (0, 0)
  else
    let count := methodCount1 tbl t w
    if count != 0 then (count, 0)
    else
      let (tv, m) := anonymousFields tbl t 0 []
      methodLevels tbl w (tbl.length + 1) 1 tv m

inductive Lookup where
  | err
  | field (f : Field)
  | other            -- a method, or nothing
  deriving Repr

/-- Comp.TryLookupFieldOrMethod, reduced to what completeWords uses (err / fieldok + field) -/
def tryLookupFieldOrMethod (tbl : Table) (t : Ty) (w : Str) : Lookup :=
  let (fld, fieldn, fdepth) := fieldByName tbl t w
  let (mtdn, mdepth) := methodByName tbl t w
  -- fielddepth = len(field.Index) ; mtddepth = len(mtd.FieldIndex) + 1
  let fielddepth := if fieldn != 0 then fdepth + 1 else 0
  let mtddepth := (if mtdn != 0 then mdepth else 0) + 1
  let (fieldn, mtdn, err) :=
    if fieldn != 0 && mtdn != 0 then
      if fielddepth < mtddepth then (fieldn, 0, false)
      else if fielddepth > mtddepth then (0, mtdn, false)
      else (fieldn, mtdn, true)
    else (fieldn, mtdn, false)
  let err := if fieldn > 1 then true else if mtdn > 1 then true else err
  if err then .err
  else if fieldn == 1 then (match fld with | some f => .field f | none => .other)
  else .other

/-! ## scopes -/

inductive BindV where
  | imp (idx : Nat)      -- constant bind whose value is an *Import
  | val (t : Ty)         -- any other bind: variable, function, constant
  deriving Repr, Inhabited

structure Scope where
  binds : List (Str × BindV)
  types : List (Str × Ty)
  deriving Repr, Inhabited

structure Import where
  binds : List (Str × Ty)
  types : List (Str × Ty)
  deriving Repr, Inhabited

structure State where
  chain : List Scope        -- innermost first (`Comp.Outer` links)
  imports : List Import
  tbl : Table
  deriving Repr, Inhabited

def prefixed (word : Str) (names : List Str) : List Str := names.filter (hasPrefix word)

/-- the loop over `co := c; co != nil; co = co.Outer` of completeWord -/
def scopeNames (word : Str) : List Scope → List Str
  | [] => []
  | co :: outer =>
    prefixed word (co.binds.map (·.1)) ++ prefixed word (co.types.map (·.1)) ++ scopeNames word outer

/-- Comp.completeWord -/
def completeWord (kw : List Str) (chain : List Scope) (word : Str) : List Str :=
  let completions :=
    if word.length != 0 then scopeNames word chain ++ prefixed word kw else []
  sortUnique completions

/-- Comp.TryResolve -/
def tryResolve (name : Str) : List Scope → Option BindV
  | [] => none
  | c :: outer =>
    match c.binds.lookup name with
    | some b => some b
    | none => tryResolve name outer

/-- Comp.TryResolveType -/
def tryResolveType (name : Str) : List Scope → Option Ty
  | [] => none
  | c :: outer =>
    match c.types.lookup name with
    | some t => some t
    | none => tryResolveType name outer

inductive Node where
  | imp (im : Import)
  | typ (t : Ty)
  deriving Repr

/-- the `case *Bind` arm of both loops: an import constant, or the type of the symbol -/
def unbind (st : State) : BindV → Node
  | .imp idx => .imp (st.imports.getD idx ⟨[], []⟩)
  | .val t => .typ t

inductive Out where
  | panic
  | ok (completions : List Str)
  deriving Repr

/-- Comp.completeLastWord -/
def completeLastWord (st : State) (node : Node) (word : Str) : Out :=
  match node with
  | .imp im =>
    .ok (sortUnique (prefixed word (im.binds.map (·.1)) ++ prefixed word (im.types.map (·.1))))
  | .typ t =>
    match listFieldsAndMethods st.tbl t word with
    | none => .panic
    | some l => .ok (sortUnique l)

/-- Comp.completeWords: the loop `for i+1 < n`; `words` = words[i:] -/
def completeWords (st : State) : Node → Nat → List Str → Out
  | _, _, [] => .ok []                         -- not reached: called with n >= 1
  | node, _, [w] => completeLastWord st node w
  | .imp im, i, w :: w2 :: ws =>
    if i != 0 then .ok []
    else match im.binds.lookup w with
      | some t => completeWords st (.typ t) (i + 1) (w2 :: ws)
      | none =>
        match im.types.lookup w with
        | some t => completeWords st (.typ t) (i + 1) (w2 :: ws)
        | none => .ok []
  | .typ t, i, w :: w2 :: ws =>
    if kindOf st.tbl t == .invalid then .ok []      -- if obj == nil { return nil }
    else
      let obj := if kindOf st.tbl t == .ptr && kindOf st.tbl (elemOf t) == .struct then elemOf t else t
      match tryLookupFieldOrMethod st.tbl obj w with
      | .err => .ok []
      | .field f => completeWords st (.typ f.ty) (i + 1) (w2 :: ws)
      | .other => .ok []

/-- Comp.CompleteWords -/
def compCompleteWords (kw : List Str) (st : State) (words : List Str) : Out :=
  match words with
  | [] => .ok []
  | [w] => .ok (completeWord kw st.chain w)
  | w :: rest =>
    match tryResolve w st.chain with
    | some b => completeWords st (unbind st b) 0 rest
    | none =>
      match tryResolveType w st.chain with
      | some t => completeWords st (.typ t) 0 rest
      | none => .ok []

/-! ## Interp.CompleteWords -/

/-- the loop `for i := n-1; i >= 0; i--` ; the argument counts i+1 -/
def scanWords (cl : Classes) (n : Nat) (words : List Str) : Nat → List Str
  | 0 => words
  | i + 1 =>
    let w := words.getD i []
    let w := if i == n - 1 then trimLeft cl w else trimSpace cl w
    let words := words.set i w
    if i == n - 1 && w.length == 0 then scanWords cl n words i
    else
      let word := tailIdentifier cl w
      if word.length != w.length then
        if word.length != 0 then (words.set i word).drop i else words.drop (i + 1)
      else scanWords cl n words i

structure Result where
  head : Str
  completions : List Str
  tail : Str
  deriving Repr, DecidableEq

/-- the part of Interp.CompleteWords after `head = line[:pos]; tail = line[pos:]`;
    `none` = a panic was recovered (the function then returns "", nil, "") -/
def completeAt (cl : Classes) (kw : List Str) (st : State) (head tail : Str) : Option Result :=
  let words := splitOn 46 head
  let n := words.length
  let words := scanWords cl n words n
  match compCompleteWords kw st words with
  | .panic => none
  | .ok completions =>
    let head :=
      if completions.length != 0 then
        let fixed := head.length - (tailIdentifier cl head).length
        match lastIndex 46 head with
        | some pos => if pos ≥ fixed then head.take (pos + 1) else head.take fixed
        | none => head.take fixed
      else head
    some ⟨head, completions, tail⟩

/-- number of UTF-8 bytes of a code point -/
def utf8Len (c : Nat) : Nat :=
  if c < 0x80 then 1 else if c < 0x800 then 2 else if c < 0x10000 then 3 else 4

def byteLen (s : Str) : Nat := (s.map utf8Len).foldl (· + ·) 0

inductive Answer where
  | panic
  | ok (headLen : Nat) (completions : List Str) (tailLen : Nat)
  deriving Repr

/-- the loop `for i := 0; i < pos && bytepos < len(line); i++` : the number of runes before the cut -/
def cutIndex (line : Str) (pos : Int) : Nat := min pos.toNat line.length

/-- Interp.CompleteWords(line, pos): `none` = a panic was recovered -/
def interpComplete (cl : Classes) (kw : List Str) (st : State) (line : Str) (pos : Int) : Option Result :=
  completeAt cl kw st (line.take (cutIndex line pos)) (line.drop (cutIndex line pos))

/-- observed as (len(head), completions, len(tail)) in bytes -/
def interpCompleteWords (cl : Classes) (kw : List Str) (st : State) (line : Str) (pos : Int) : Answer :=
  match interpComplete cl kw st line pos with
  | none => .panic
  | some r => .ok (byteLen r.head) r.completions (byteLen r.tail)

end Complete
