import GoSpec.Val
/-!
# Model/ClassicOps.lean — operators of gomacro's `classic` interpreter (property C38)

Transcribed code (cosmos72/gomacro, package classic):

* `binaryexpr.go`: `evalBinaryExpr` (dispatch on the kind categories of the two operands),
  `evalBinaryExprBoolBool`, `evalBinaryExprIntInt`, `evalBinaryExprUintUint`, `evalBinaryExprFloat`,
  `evalBinaryExprString`, `binaryResultType` (only the case "same type"), and — in the repaired tree
  (fixes/C38-shift-count.diff) — `evalShift`;
* `unaryexpr.go`: `evalUnaryExpr` (unary `+`, then the `switch xv.Kind()` with one clause per kind);
* `assignment.go`: `assignPlace` for `a OP= b` on a variable;
* `type.go`: `valueToType` = `reflect.Value.Convert` between integer kinds.

Transcription rules

* The clauses of every `switch op { ... }` are NOT written here: they are regenerated from the Go source
  (`lean/Gen/ClassicBinary.lean`, `Classic.Arm` = token names + statements of the clause as text) and
  *interpreted*: `rhsInt`, `rhsFloat`, `rhsString`, `rhsBool` give the meaning of every right-hand side
  that may occur, as the host Go compiler computes it on `int64` / `uint64` / `float64` / `string` / `bool`
  operands.  `golden*` below is the accepted copy of the tables and of the statements around the switches
  (`*Frame`); Props/C38.lean proves `Gen = golden` by `decide` and all theorems about `golden`.
* `reflect.Value.Int()` sign-extends to int64, `Uint()` zero-extends to uint64, `Convert` to an integer
  kind truncates: `BitVec.signExtend 64`, `BitVec.setWidth 64`, `I.conv`.
* Floating point arithmetic is the parameter `F : FloatOps`; float32 operands are computed in float64
  (`xv.Float()`) and rounded back (`float32(ret)`): `F.widen`, `F.narrow`.
* Operand = Go kind + value (`Opnd`); the kind distinguishes `int` from `int64` (same `IKind`).
* Outside the model: complex numbers, mixed operand kinds other than shift counts (the approximation of
  untyped constants, documented as inaccurate in classic/README.md), `evalBinaryExprMisc`.
-/

namespace Classic
open GoSpec GoSpec.Outcome

/-- one clause of a `switch op`: the names of its tokens (`["default"]` for default) and its statements -/
structure Arm where
  toks : List String
  body : List String
  deriving DecidableEq, Repr, Inhabited

/-- one clause of the `switch xv.Kind()` of evalUnaryExpr -/
structure UArm where
  kinds : List String
  pre : List String
  ops : List Arm
  deriving DecidableEq, Repr, Inhabited

/-- which code is transcribed: the original or the repaired one (probed by the harness) -/
structure Cfg where
  labels : Bool      -- fixes/C38-labeled-statements.diff applied
  shift : Bool       -- fixes/C38-shift-count.diff applied
  rangeNoVars : Bool -- fixes/C38-range-without-variables.diff applied
  deriving DecidableEq, Repr, Inhabited

def fixedCfg : Cfg := ⟨true, true, true⟩
def origCfg : Cfg := ⟨false, false, false⟩

/-- all regenerated tables -/
structure Tables where
  boolBool : List Arm
  intInt : List Arm
  uintUint : List Arm
  float : List Arm
  string : List Arm
  unary : List UArm
  deriving DecidableEq, Repr

structure Opnd where
  k : Kind
  v : Val

/-- first clause naming the token -/
def findArm (tbl : List Arm) (tok : String) : Option Arm := tbl.find? (fun a => a.toks.contains tok)

def keepX (a : Arm) : Bool := a.body.contains "t = xv.Type()"

/-- wide result of one clause: a number (`ret`) or a truth value (`b`) -/
inductive WRes where
  | num (v : BitVec 64)
  | bool (b : Bool)
  deriving DecidableEq, Repr

/-- meaning of the right-hand sides on `int64` (`signed`) resp. `uint64` operands -/
def rhsInt (signed : Bool) (stmt : String) (x y : BitVec 64) : Option (Outcome WRes) :=
  match stmt with
  | "ret = x + y" => some (ok (.num (I.add x y)))
  | "ret = x - y" => some (ok (.num (I.sub x y)))
  | "ret = x * y" => some (ok (.num (I.mul x y)))
  | "ret = x / y" => some ((I.quo signed x y).map .num)
  | "ret = x % y" => some ((I.rem signed x y).map .num)
  | "ret = x & y" => some (ok (.num (I.and x y)))
  | "ret = x | y" => some (ok (.num (I.or x y)))
  | "ret = x ^ y" => some (ok (.num (I.xor x y)))
  | "ret = x &^ y" => some (ok (.num (I.andNot x y)))
  | "ret = x << uint64(y)" => some (ok (.num (I.shl x y.toNat)))
  | "ret = x >> uint64(y)" => some (ok (.num (I.shr signed x y.toNat)))
  | "ret = x << y" => if signed then none else some (ok (.num (I.shl x y.toNat)))
  | "ret = x >> y" => if signed then none else some (ok (.num (I.shr false x y.toNat)))
  | "b = x == y" => some (ok (.bool (I.eq x y)))
  | "b = x != y" => some (ok (.bool (I.ne x y)))
  | "b = x < y" => some (ok (.bool (I.lt signed x y)))
  | "b = x <= y" => some (ok (.bool (I.le signed x y)))
  | "b = x > y" => some (ok (.bool (I.gt signed x y)))
  | "b = x >= y" => some (ok (.bool (I.ge signed x y)))
  | _ => none

inductive FRes where
  | num (v : BitVec 64)
  | bool (b : Bool)

def rhsFloat (F : FloatOps) (stmt : String) (x y : BitVec 64) : Option FRes :=
  match stmt with
  | "ret = x + y" => some (.num (F.add64 x y))
  | "ret = x - y" => some (.num (F.sub64 x y))
  | "ret = x * y" => some (.num (F.mul64 x y))
  | "ret = x / y" => some (.num (F.div64 x y))
  | "b = x == y" => some (.bool (F.eq64 x y))
  | "b = x != y" => some (.bool (!F.eq64 x y))
  | "b = x < y" => some (.bool (F.lt64 x y))
  | "b = x <= y" => some (.bool (F.le64 x y))
  | "b = x > y" => some (.bool (F.lt64 y x))
  | "b = x >= y" => some (.bool (F.le64 y x))
  | _ => none

def rhsString (stmt : String) (x y : List UInt8) : Option Bool :=
  match stmt with
  | "b = x == y" => some (strEq x y)
  | "b = x != y" => some (!strEq x y)
  | "b = x < y" => some (strLt x y)
  | "b = x <= y" => some (!strLt y x)
  | "b = x > y" => some (strLt y x)
  | "b = x >= y" => some (!strLt x y)
  | _ => none

def rhsBool (stmt : String) (x y : Bool) : Option Bool :=
  match stmt with
  | "b = x && y" => some (x && y)
  | "b = x || y" => some (x || y)
  | "b = x == y" => some (x == y)
  | "b = x != y" => some (x != y)
  | _ => none

/-- Go token name of the operator: `a OP b` or `a OP= b` -/
def tokOf (op : BinOp) (assign : Bool) : String := if assign then op.name ++ "_ASSIGN" else op.name

def headStmt (a : Arm) : String := a.body.headD ""

/-- `evalBinaryExprIntInt(xv, op, yv)` with `xv` of kind `kx` (`ik`), both operands already widened by
    `.Int()`; `sameType`: `xv.Type() == yv.Type()` (then `binaryResultType` is that type) -/
def evalIntInt (T : Tables) (tok : String) (kx : Kind) (ik : IKind) (x y : BitVec 64) (sameType : Bool) :
    Option (Outcome Opnd) := do
  let a ← findArm T.intInt tok
  let r ← rhsInt true (headStmt a) x y
  match r with
  | .panic p => some (.panic p)
  | .ok (.bool b) => some (.ok ⟨.bool, .bool b⟩)
  | .ok (.num v) => if keepX a || sameType then some (.ok ⟨kx, .int ik (I.conv true v ik.w)⟩) else none

/-- `evalBinaryExprUintUint` -/
def evalUintUint (T : Tables) (tok : String) (kx : Kind) (ik : IKind) (x y : BitVec 64) (sameType : Bool) :
    Option (Outcome Opnd) := do
  let a ← findArm T.uintUint tok
  let r ← rhsInt false (headStmt a) x y
  match r with
  | .panic p => some (.panic p)
  | .ok (.bool b) => some (.ok ⟨.bool, .bool b⟩)
  | .ok (.num v) => if keepX a || sameType then some (.ok ⟨kx, .int ik (I.conv false v ik.w)⟩) else none

def int64K : IKind := ⟨64, true⟩

/-- `xv.Int()` / `xv.Uint()` as 64 bits -/
def widen (ik : IKind) (x : BitVec ik.w) : BitVec 64 := if ik.signed then x.signExtend 64 else x.setWidth 64

/-- `evalShift` of the repaired tree -/
def evalShift (shl : Bool) (kx : Kind) (ikx : IKind) (x : BitVec ikx.w) (iky : IKind) (y : BitVec iky.w) : Outcome Opnd :=
  if iky.signed && (y.signExtend 64).msb then .panic .negShift
  else
    let cnt := (widen iky y).toNat
    let x64 := widen ikx x
    let r := if shl then I.shl x64 cnt else I.shr ikx.signed x64 cnt
    .ok ⟨kx, .int ikx (I.conv ikx.signed r ikx.w)⟩

/-- `evalBinaryExpr(xv, op, yv)` -/
def binary (c : Cfg) (T : Tables) (F : FloatOps) (op : BinOp) (assign : Bool) (a b : Opnd) : Option (Outcome Opnd) :=
  let tok := tokOf op assign
  match a.v, b.v with
  | .int ikx x, .int iky y =>
    if c.shift && op.isShift then some (evalShift (op == .shl) a.k ikx x iky y)
    else if ikx.signed then
      if iky.signed then evalIntInt T tok a.k ikx (x.signExtend 64) (y.signExtend 64) (a.k == b.k)
      else evalIntInt T tok a.k ikx (x.signExtend 64) (y.setWidth 64) (a.k == .int64)
    else
      if iky.signed then
        if (y.signExtend 64).msb then evalIntInt T tok .int64 int64K (x.setWidth 64) (y.signExtend 64) (b.k == .int64)
        else evalUintUint T tok a.k ikx (x.setWidth 64) (y.signExtend 64) (a.k == .uint64)
      else evalUintUint T tok a.k ikx (x.setWidth 64) (y.setWidth 64) (a.k == b.k)
  | .bool x, .bool y => do
    let arm ← findArm T.boolBool tok
    let r ← rhsBool (headStmt arm) x y
    pure (.ok ⟨.bool, .bool r⟩)
  | .str x, .str y =>
    -- `if op == token.ADD || op == token.ADD_ASSIGN { return r.ValueOf(x + y) }` (stringFrame)
    if op == .add then some (.ok ⟨.string, .str (x ++ y)⟩)
    else do
      let arm ← findArm T.string tok
      let r ← rhsString (headStmt arm) x y
      pure (.ok ⟨.bool, .bool r⟩)
  | .f64 x, .f64 y => do
    let arm ← findArm T.float tok
    match ← rhsFloat F (headStmt arm) x y with
    | .num v => pure (.ok ⟨.float64, .f64 v⟩)
    | .bool r => pure (.ok ⟨.bool, .bool r⟩)
  | .f32 x, .f32 y => do
    let arm ← findArm T.float tok
    match ← rhsFloat F (headStmt arm) (F.widen x) (F.widen y) with
    | .num v => pure (.ok ⟨.float32, .f32 (F.narrow v)⟩)
    | .bool r => pure (.ok ⟨.bool, .bool r⟩)
  | _, _ => none

/-- `evalExpr`, case `*ast.BinaryExpr`: `&&` / `||` short-circuit before evalBinaryExpr -/
def binaryExpr (c : Cfg) (T : Tables) (F : FloatOps) (op : BinOp) (a b : Opnd) : Option (Outcome Opnd) :=
  match op, a.v, b.v with
  | .land, .bool x, .bool y => some (.ok ⟨.bool, .bool (if x then y else x)⟩)
  | .lor, .bool x, .bool y => some (.ok ⟨.bool, .bool (if x then x else y)⟩)
  | .land, _, _ => none
  | .lor, _, _ => none
  | _, _, _ => binary c T F op false a b

/-- `valueToType(value, t)` between integer kinds -/
def convertTo (k : Kind) (ik : IKind) (b : Opnd) : Option Opnd :=
  match b.v with
  | .int iky y => some ⟨k, .int ik (I.conv iky.signed y ik.w)⟩
  | _ => none

/-- `a OP= b` on a variable (`assignPlace` with `place.mapkey == NilR`); result: the value stored in `a` -/
def assignOp (c : Cfg) (T : Tables) (F : FloatOps) (op : BinOp) (a b : Opnd) : Option (Outcome Opnd) :=
  if op.isComparison || op == .land || op == .lor then none
  else if op.isShift then
    match a.v with
    | .int ikx _ =>
      if c.shift then binary c T F op true a b                -- the count keeps its type
      else do
        let b' ← convertTo a.k ikx b                          -- value = env.valueToType(value, t)
        binary c T F op true a b'
    | _ => none
  else binary c T F op true a b

/-! ## unary operators -/

def Kind.rname : Kind → String
  | .bool => "Bool" | .int => "Int" | .int8 => "Int8" | .int16 => "Int16" | .int32 => "Int32"
  | .int64 => "Int64" | .uint => "Uint" | .uint8 => "Uint8" | .uint16 => "Uint16" | .uint32 => "Uint32"
  | .uint64 => "Uint64" | .uintptr => "Uintptr" | .float32 => "Float32" | .float64 => "Float64"
  | .complex64 => "Complex64" | .complex128 => "Complex128" | .string => "String"

/-- the conversion `x := T(xv.Int())` at the head of a clause: width and signedness of `T` -/
def convOf : String → Option IKind
  | "x := int(xv.Int())" => some ⟨64, true⟩
  | "x := int8(xv.Int())" => some ⟨8, true⟩
  | "x := int16(xv.Int())" => some ⟨16, true⟩
  | "x := int32(xv.Int())" => some ⟨32, true⟩
  | "x := xv.Int()" => some ⟨64, true⟩
  | "x := uint(xv.Uint())" => some ⟨64, false⟩
  | "x := uint8(xv.Uint())" => some ⟨8, false⟩
  | "x := uint16(xv.Uint())" => some ⟨16, false⟩
  | "x := uint32(xv.Uint())" => some ⟨32, false⟩
  | "x := xv.Uint()" => some ⟨64, false⟩
  | "x := uintptr(xv.Uint())" => some ⟨64, false⟩
  | _ => none

def tokOfUn : UnOp → String
  | .plus => "ADD" | .neg => "SUB" | .not => "NOT" | .xor => "XOR"

/-- `evalUnaryExpr` on an already evaluated operand -/
def unary (T : Tables) (F : FloatOps) (op : UnOp) (a : Opnd) : Option (Outcome Opnd) :=
  if op == .plus then
    -- `if op == token.ADD { switch xv.Kind() { case <numeric kinds>: return xv, nil ...` (unaryFrame)
    if a.k.isNumeric then some (.ok a) else none
  else do
    let ua ← T.unary.find? (fun u => u.kinds.contains (Kind.rname a.k))
    match a.v with
    | .bool b =>
      if op == .not && ua.pre.contains "if op == token.NOT { ret = !xv.Bool() }" then some (.ok ⟨.bool, .bool (!b)⟩) else none
    | .int ik x =>
      let ck ← convOf (ua.pre.headD "")
      -- x := T(xv.Int()): widen, then truncate to T
      let xk : BitVec ck.w := I.conv ik.signed (widen ik x) ck.w
      let arm ← findArm ua.ops (tokOfUn op)
      let r : BitVec ck.w ← (match headStmt arm with
        | "ret = -x" => some (I.neg xk)
        | "ret = ^x" => some (I.not xk)
        | _ => none)
      -- retv.Convert(xt)
      pure (.ok ⟨a.k, .int ik (I.conv ck.signed r ik.w)⟩)
    | .f64 x =>
      let arm ← findArm ua.ops (tokOfUn op)
      if headStmt arm == "ret = -x" && ua.pre.headD "" == "x := xv.Float()" then some (.ok ⟨a.k, .f64 (F.neg64 x)⟩) else none
    | .f32 x =>
      let arm ← findArm ua.ops (tokOfUn op)
      if headStmt arm == "ret = -x" && ua.pre.headD "" == "x := float32(xv.Float())" then
        some (.ok ⟨a.k, .f32 (F.neg32 (F.narrow (F.widen x)))⟩) else none
    | _ => none

/-! ## golden copy of the regenerated tables (accepted arms) -/

def arith : List Arm := [
  ⟨["ADD", "ADD_ASSIGN"], ["ret = x + y"]⟩,
  ⟨["SUB", "SUB_ASSIGN"], ["ret = x - y"]⟩,
  ⟨["MUL", "MUL_ASSIGN"], ["ret = x * y"]⟩,
  ⟨["QUO", "QUO_ASSIGN"], ["ret = x / y"]⟩,
  ⟨["REM", "REM_ASSIGN"], ["ret = x % y"]⟩,
  ⟨["AND", "AND_ASSIGN"], ["ret = x & y"]⟩,
  ⟨["OR", "OR_ASSIGN"], ["ret = x | y"]⟩,
  ⟨["XOR", "XOR_ASSIGN"], ["ret = x ^ y"]⟩]

def cmpArms (last : String) : List Arm := [
  ⟨["EQL"], ["b = x == y"]⟩,
  ⟨["LSS"], ["b = x < y"]⟩,
  ⟨["GTR"], ["b = x > y"]⟩,
  ⟨["NEQ"], ["b = x != y"]⟩,
  ⟨["LEQ"], ["b = x <= y"]⟩,
  ⟨["GEQ"], ["b = x >= y"]⟩,
  ⟨["default"], [last]⟩]

def goldenIntInt : List Arm := arith ++ [
  ⟨["SHL", "SHL_ASSIGN"], ["ret = x << uint64(y)", "t = xv.Type()"]⟩,
  ⟨["SHR", "SHR_ASSIGN"], ["ret = x >> uint64(y)", "t = xv.Type()"]⟩,
  ⟨["AND_NOT", "AND_NOT_ASSIGN"], ["ret = x &^ y"]⟩,
  ⟨["default"], ["goto PART2"]⟩] ++ cmpArms "return env.unsupportedBinaryExpr(r.ValueOf(x), op, r.ValueOf(y))"

def goldenUintUint : List Arm := arith ++ [
  ⟨["SHL", "SHL_ASSIGN"], ["ret = x << y", "t = xv.Type()"]⟩,
  ⟨["SHR", "SHR_ASSIGN"], ["ret = x >> y", "t = xv.Type()"]⟩,
  ⟨["AND_NOT", "AND_NOT_ASSIGN"], ["ret = x &^ y"]⟩,
  ⟨["default"], ["goto PART2"]⟩] ++ cmpArms "return env.unsupportedBinaryExpr(xv, op, yv)"

def goldenFloat : List Arm := [
  ⟨["ADD", "ADD_ASSIGN"], ["ret = x + y"]⟩,
  ⟨["SUB", "SUB_ASSIGN"], ["ret = x - y"]⟩,
  ⟨["MUL", "MUL_ASSIGN"], ["ret = x * y"]⟩,
  ⟨["QUO", "QUO_ASSIGN"], ["ret = x / y"]⟩,
  ⟨["default"], ["goto PART2"]⟩] ++ cmpArms "return env.unsupportedBinaryExpr(xv, op, yv)"

def goldenString : List Arm := cmpArms "return env.unsupportedBinaryExpr(xv, op, yv)"

def goldenBoolBool : List Arm := [
  ⟨["LAND"], ["b = x && y"]⟩,
  ⟨["LOR"], ["b = x || y"]⟩,
  ⟨["EQL"], ["b = x == y"]⟩,
  ⟨["NEQ"], ["b = x != y"]⟩,
  ⟨["default"], ["return env.unsupportedBinaryExpr(xv, op, yv)"]⟩]

def signedUn (conv : String) : List String × List Arm :=
  ([conv], [⟨["SUB"], ["ret = -x", "if x == -x && x != 0 { env.warnOverflowSignedMinus(x, ret) }"]⟩, ⟨["XOR"], ["ret = ^x"]⟩])
def unsignedUn (conv : String) : List String × List Arm :=
  ([conv], [⟨["SUB"], ["ret = -x", "if x != 0 { env.warnUnderflowUnsignedMinus(x, ret) }"]⟩, ⟨["XOR"], ["ret = ^x"]⟩])
def mkU (kind : String) (p : List String × List Arm) : UArm := ⟨[kind], p.1, p.2⟩

def goldenUnary : List UArm := [
  ⟨["Bool"], ["if op == token.NOT { ret = !xv.Bool() }"], []⟩,
  mkU "Int" (signedUn "x := int(xv.Int())"),
  mkU "Int8" (signedUn "x := int8(xv.Int())"),
  mkU "Int16" (signedUn "x := int16(xv.Int())"),
  mkU "Int32" (signedUn "x := int32(xv.Int())"),
  mkU "Int64" (signedUn "x := xv.Int()"),
  mkU "Uint" (unsignedUn "x := uint(xv.Uint())"),
  mkU "Uint8" (unsignedUn "x := uint8(xv.Uint())"),
  mkU "Uint16" (unsignedUn "x := uint16(xv.Uint())"),
  mkU "Uint32" (unsignedUn "x := uint32(xv.Uint())"),
  mkU "Uint64" (unsignedUn "x := xv.Uint()"),
  mkU "Uintptr" (unsignedUn "x := uintptr(xv.Uint())"),
  ⟨["Float32"], ["x := float32(xv.Float())"], [⟨["SUB"], ["ret = -x"]⟩]⟩,
  ⟨["Float64"], ["x := xv.Float()"], [⟨["SUB"], ["ret = -x"]⟩]⟩,
  ⟨["Complex64"], ["x := complex64(xv.Complex())"], [⟨["SUB"], ["ret = -x"]⟩]⟩,
  ⟨["Complex128"], ["x := xv.Complex()"], [⟨["SUB"], ["ret = -x"]⟩]⟩,
  ⟨["Chan"], [], [⟨["ARROW"], ["ret, ok := xv.Recv()", "return ret, []r.Value{ret, r.ValueOf(ok)}"]⟩]⟩]

def golden : Tables :=
  { boolBool := goldenBoolBool, intInt := goldenIntInt, uintUint := goldenUintUint,
    float := goldenFloat, string := goldenString, unary := goldenUnary }

/-! ### the statements around the switches (accepted text) -/

def goldenIntIntFrame : List String := [
  "x := xv.Int()", "y := yv.Int()", "var ret int64", "var t r.Type", "switch op {...}",
  "if t == nil { t = binaryResultType(xv.Type(), yv.Type()) }",
  "return env.valueToType(r.ValueOf(ret), t)",
  "PART2:", "var b bool", "switch op {...}", "return r.ValueOf(b)"]

def goldenUintUintFrame : List String := [
  "x := xv.Uint()", "y := yv.Uint()", "var ret uint64", "var t r.Type", "switch op {...}",
  "if t == nil { t = binaryResultType(xv.Type(), yv.Type()) }",
  "return env.valueToType(r.ValueOf(ret), t)",
  "PART2:", "var b bool", "switch op {...}", "return r.ValueOf(b)"]

def goldenBoolBoolFrame : List String := [
  "x := xv.Bool()", "y := yv.Bool()", "var b bool", "switch op {...}", "return r.ValueOf(b)"]

def goldenFloatFrame : List String := [
  "x := xv.Float()", "y, ok := env.toFloat(yv)", "if ok {",
  "var ret float64", "switch op {...}",
  "if xv.Kind() == r.Float32 { return r.ValueOf(float32(ret)) }", "return r.ValueOf(ret)",
  "PART2:", "var b bool", "switch op {...}", "return r.ValueOf(b)", "}",
  "if yv.Kind() == r.Complex64 || yv.Kind() == r.Complex128 { xv = r.ValueOf(complex(x, 0.0)).Convert(yv.Type()) return env.evalBinaryExprComplex(xv, op, yv) }",
  "return env.unsupportedBinaryExpr(xv, op, yv)"]

def goldenStringFrame : List String := [
  "if xv.Kind() != r.String || yv.Kind() != r.String { return env.unsupportedBinaryExpr(xv, op, yv) }",
  "x, y := xv.String(), yv.String()",
  "if op == token.ADD || op == token.ADD_ASSIGN { return r.ValueOf(x + y) }",
  "var b bool", "switch op {...}",
  "if b { return base.True } else { return base.False }"]

/-- the kind dispatch of evalBinaryExpr: (kinds of the clause, its statements) -/
def goldenDispatch : List (List String × List String) := [
  (["Bool"], ["switch yv.Kind() { case r.Bool: return env.evalBinaryExprBoolBool(xv, op, yv) }"]),
  (["Int", "Int8", "Int16", "Int32", "Int64"], ["x := xv.Int()",
    "switch yv.Kind() { case r.Int, r.Int8, r.Int16, r.Int32, r.Int64: return env.evalBinaryExprIntInt(xv, op, yv) case r.Uint, r.Uint8, r.Uint16, r.Uint32, r.Uint64, r.Uintptr: return env.evalBinaryExprIntInt(xv, op, r.ValueOf(int64(yv.Uint()))) case r.Float32, r.Float64: xv = r.ValueOf(float64(x)).Convert(yv.Type()) return env.evalBinaryExprFloat(xv, op, yv) case r.Complex64, r.Complex128: xv = r.ValueOf(complex(float64(x), 0.0)).Convert(yv.Type()) return env.evalBinaryExprComplex(xv, op, yv) }"]),
  (["Uint", "Uint8", "Uint16", "Uint32", "Uint64", "Uintptr"], ["x := xv.Uint()",
    "switch yv.Kind() { case r.Int, r.Int8, r.Int16, r.Int32, r.Int64: if yv.Int() < 0 { return env.evalBinaryExprIntInt(r.ValueOf(int64(x)), op, yv) } else { return env.evalBinaryExprUintUint(xv, op, r.ValueOf(uint64(yv.Int()))) } case r.Uint, r.Uint8, r.Uint16, r.Uint32, r.Uint64, r.Uintptr: return env.evalBinaryExprUintUint(xv, op, yv) case r.Float32, r.Float64: xv = r.ValueOf(float64(x)).Convert(yv.Type()) return env.evalBinaryExprFloat(xv, op, yv) case r.Complex64, r.Complex128: xv = r.ValueOf(complex(float64(x), 0.0)).Convert(yv.Type()) return env.evalBinaryExprComplex(xv, op, yv) }"]),
  (["Float32", "Float64"], ["return env.evalBinaryExprFloat(xv, op, yv)"]),
  (["Complex64", "Complex128"], ["return env.evalBinaryExprComplex(xv, op, yv)"]),
  (["String"], ["return env.evalBinaryExprString(xv, op, yv)"]),
  (["default"], ["return r.ValueOf(env.evalBinaryExprMisc(xv, op, yv))"])]

/-- statements of evalBinaryExpr around the kind switch: original tree -/
def goldenDispatchFrameOrig : List String := [
  "switch xv.Kind() {...}", "return env.unsupportedBinaryExpr(xv, op, yv)"]

/-- ... and with fixes/C38-shift-count.diff + fixes/C38-compare-with-nil.diff -/
def goldenDispatchFrameFixed : List String := [
  "switch op { case token.SHL, token.SHL_ASSIGN, token.SHR, token.SHR_ASSIGN: return env.evalShift(xv, op, yv) case token.EQL, token.NEQ: if xv == base.NilR || yv == base.NilR { return r.ValueOf(env.evalBinaryExprMisc(xv, op, yv)) } }",
  "switch xv.Kind() {...}", "return env.unsupportedBinaryExpr(xv, op, yv)"]

/-- ... with fixes/C38-3-shift-count.diff only -/
def goldenDispatchFrameShift : List String := [
  "switch op { case token.SHL, token.SHL_ASSIGN, token.SHR, token.SHR_ASSIGN: return env.evalShift(xv, op, yv) }",
  "switch xv.Kind() {...}", "return env.unsupportedBinaryExpr(xv, op, yv)"]

/-- statements of evalUnaryExpr around its kind switch -/
def goldenUnaryFrame : List String := [
  "op := node.Op",
  "switch op {AND;MACRO;QUOTE;QUASIQUOTE;UNQUOTE,UNQUOTE_SPLICE}",
  "xv, _ := env.EvalNode(node.X)",
  "if op == token.ADD { switch xv.Kind() { case r.Int, r.Int8, r.Int16, r.Int32, r.Int64, r.Uint, r.Uint8, r.Uint16, r.Uint32, r.Uint64, r.Uintptr, r.Float32, r.Float64, r.Complex64, r.Complex128: return xv, nil default: return env.unsupportedUnaryExpr(xv, op) } }",
  "var ret interface{}",
  "switch xv.Kind() {...}",
  "if ret == nil { return env.unsupportedUnaryExpr(xv, op) }",
  "retv := r.ValueOf(ret)",
  "xt := xv.Type()",
  "if retv.Type() != xt { retv = retv.Convert(xt) }",
  "return retv, nil"]

/-- body of evalShift (repaired tree only; `[]` in the original tree) -/
def goldenShiftFrame : List String := [
  "var y uint64",
  "switch yv.Kind() { case r.Int, r.Int8, r.Int16, r.Int32, r.Int64: n := yv.Int() if n < 0 { var one uint8 = 1 return r.ValueOf(one << n) } y = uint64(n) case r.Uint, r.Uint8, r.Uint16, r.Uint32, r.Uint64, r.Uintptr: y = yv.Uint() default: return env.unsupportedBinaryExpr(xv, op, yv) }",
  "shl := op == token.SHL || op == token.SHL_ASSIGN",
  "switch xv.Kind() { case r.Int, r.Int8, r.Int16, r.Int32, r.Int64: x := xv.Int() if shl { x = x << y } else { x = x >> y } return env.valueToType(r.ValueOf(x), xv.Type()) case r.Uint, r.Uint8, r.Uint16, r.Uint32, r.Uint64, r.Uintptr: x := xv.Uint() if shl { x = x << y } else { x = x >> y } return env.valueToType(r.ValueOf(x), xv.Type()) }",
  "return env.unsupportedBinaryExpr(xv, op, yv)"]

end Classic
