import Model.DepScope
/-!
# Model of base/dep/graph.go and base/dep/sorter.go : the dependency sorter

Transcription of `graph.Sort`, `RemoveNodesNoDeps`, `RemoveUnresolvableDeps`, `RemoveDepsFor`,
`RemoveTypeFwd`, `visit` (graph.go), `DeclMap.add/depMap/RemoveUnresolvableDeps`, `SortByPos`
(decl.go) and `Sorter.Some/All/pop*` (sorter.go), as they read after the repairs fixes/C17-*.diff.

Transcription rules
* `graph{Nodes DeclMap, Edges depMap}` (two Go maps with the same key set) is a `Graph`: an
  association list of `Entry{name, decls, edges}` with distinct names, kept in a fixed
  representation order (first declaration).  `edges` is a duplicate-free list (a Go `set`).
* EVERY `for ... := range <map>` whose body is not a pointwise update iterates over
  `ord.sh k <list>`: an arbitrary rearrangement chosen by the parameter `ord` (a fresh index `k`
  per iteration site and round).  Pointwise updates (`delete(edges, edge)` for every key) are
  list maps.  `sort_deterministic` (Props/C17.lean) shows the result does not depend on `ord`.
* `SortByPos` (sort.Slice by Pos) is insertion sort; positions of distinct declarations are distinct.
* The recursive `visit` is an explicit work list (`enter`/`leave` items) driven by fuel; `Sort`'s
  `for len(g.Nodes) != 0` loop takes fuel; `sortFuel`/`dfsFuel` are proved sufficient.
* `circularDependencyError` (a panic) is the result `none`.
-/
namespace Dep
open DepScope (Name Kind Decl)

structure Entry where
  name : Name
  decls : List Decl
  edges : List Name
  deriving Repr, Inhabited

abbrev Graph := List Entry

/-- the iteration order of Go maps: any rearrangement, possibly different at every iteration site `k` -/
structure Ord where
  sh : {α : Type} → Nat → List α → List α

def Ord.id : Ord := ⟨fun _ l => l⟩

/-! ## building the graph (Sorter.popDecls) -/

def addEdges (es : List Name) : List Name → List Name
  | [] => es
  | d :: r => addEdges (if es.contains d then es else es ++ [d]) r

/-- `DeclMap.add` followed by `depSet` of `depMap` -/
def addDecl (d : Decl) : Graph → Graph
  | [] => [{ name := d.name, decls := [d], edges := addEdges [] d.deps }]
  | e :: rest =>
    if e.name = d.name then { e with decls := e.decls ++ [d], edges := addEdges e.edges d.deps } :: rest
    else e :: addDecl d rest

def declared (ds : List Decl) (n : Name) : Bool := ds.any (·.name == n)

/-- `Decls.RemoveUnresolvableDeps()` -/
def resolve (ds : List Decl) : List Decl :=
  ds.map fun d => { d with deps := d.deps.filter (declared ds) }

def build (ds : List Decl) : Graph := ds.foldl (fun g d => addDecl d g) []

/-! ## graph.go -/

def hasNode (g : Graph) (n : Name) : Bool := g.any (·.name == n)

/-- `RemoveUnresolvableDeps`: drop the edges to names that are not nodes -/
def removeUnresolvable (g : Graph) : Graph :=
  g.map fun e => { e with edges := e.edges.filter (hasNode g) }

/-- inner loop of RemoveNodesNoDeps over the declarations of one name: the position that makes
    this name the new candidate (`ret == nil || decl.Pos < pos`), if any -/
def scanDecls (cur : Option Nat) : List Decl → Option Nat
  | [] => none
  | d :: ds =>
    match cur with
    | none => some d.pos
    | some p => if d.pos < p then some d.pos else scanDecls cur ds

def pickStep (best : Option (Entry × Nat)) (e : Entry) : Option (Entry × Nat) :=
  if e.edges.isEmpty then
    match scanDecls (best.map (·.2)) e.decls with
    | some p => some (e, p)
    | none => best
  else best

/-- `RemoveNodesNoDeps`: among the nodes without dependencies the one with the smallest Pos;
    `order` is the order in which `range g.Nodes` yields the nodes -/
def pickNoDeps (order : Graph) : Option Entry := (order.foldl pickStep none).map (·.1)

def removeNode (g : Graph) (n : Name) : Graph := g.filter (·.name != n)

def insertByPos (d : Decl) : List Decl → List Decl
  | [] => [d]
  | e :: r => if d.pos < e.pos then d :: e :: r else e :: insertByPos d r

/-- `DeclList.SortByPos` -/
def sortByPos (l : List Decl) : List Decl := l.foldr insertByPos []

def allDecls (g : Graph) : List Decl := g.flatMap (·.decls)

def declsOf (g : Graph) (n : Name) : List Decl :=
  match g.find? (·.name == n) with
  | some e => e.decls
  | none => []

def edgesOf (g : Graph) (n : Name) : List Name :=
  match g.find? (·.name == n) with
  | some e => e.edges
  | none => []

def isTypeEntry (e : Entry) : Bool := e.decls.any (·.kind == .type)

/-! ### visit -/

structure Ctx where
  visiting : List (Name × Nat) := []
  visited : List (Name × Nat) := []
  deriving Repr, Inhabited

inductive Item where
  | enter (n : Name)
  | leave (n : Name)
  deriving Repr

def bump (n : Name) : List (Name × Nat) → List (Name × Nat)
  | [] => []
  | (m, c) :: r => if m = n then (m, c + 1) :: r else (m, c) :: bump n r

def count (n : Name) (l : List (Name × Nat)) : Nat :=
  match l.find? (·.1 == n) with
  | some (_, c) => c
  | none => 0

/-- `g.visit` with `cycleFunc = visiting[name]++`; `children n` = the declarations of the
    dependencies of `n` in source order (repaired: `deps.SortByPos()`), by name -/
def dfs (children : Name → List Name) : Nat → List Item → Ctx → Ctx
  | 0, _, c => c
  | _, [], c => c
  | fuel + 1, .enter n :: rest, c =>
    if c.visited.any (·.1 == n) then dfs children fuel rest c
    else if c.visiting.any (·.1 == n) then
      dfs children fuel rest { c with visiting := bump n c.visiting }       -- cycleFunc
    else
      dfs children fuel ((children n).map .enter ++ .leave n :: rest)
        { c with visiting := (n, 0) :: c.visiting }
  | fuel + 1, .leave n :: rest, c =>
    dfs children fuel rest
      { visiting := c.visiting.filter (·.1 != n), visited := c.visited ++ [(n, count n c.visiting)] }

/-- the loop over the roots in RemoveTypeFwd -/
def visitRoots (children : Name → List Name) (nnodes fuel : Nat) : List Name → Ctx → Ctx
  | [], c => c
  | r :: rs, c =>
    if c.visited.length == nnodes then c
    else visitRoots children nnodes fuel rs (dfs children fuel [.enter r] c)

/-- children of a node: `for name := range g.Edges[name] { deps = append(deps, g.Nodes[name]...) }; deps.SortByPos()`;
    `edges` is the iteration order of `g.Edges[name]` -/
def childrenOf (g : Graph) (edges : List Name) : List Name :=
  (sortByPos (edges.flatMap (declsOf g))).map (·.name)

/-- the candidate loop of RemoveTypeFwd over `range ctx.visited` -/
def candStep (g : Graph) (used : List Name) (acc : Nat × List Decl) (nc : Name × Nat) : Nat × List Decl :=
  if !used.contains nc.1 then acc
  else (declsOf g nc.1).foldl (fun (acc : Nat × List Decl) d =>
    if d.kind != .type || nc.2 < acc.1 then acc
    else ((nc.2 : Nat), (if nc.2 > acc.1 then [] else acc.2) ++ [d])) acc

/-- names some type depends on: `for name, list := range g.Nodes { if a decl is a Type { used += g.Edges[name] } }` -/
def usedByTypes (g : Graph) : List Name :=
  (g.filter isTypeEntry).flatMap (·.edges)

def dfsFuel (g : Graph) : Nat := 2 * ((allDecls g).length * (allDecls g).length + (allDecls g).length + g.length) + 4

/-- `RemoveTypeFwd`: the forward declarations (unsorted) and the graph without the dependencies
    of types on them; `k` numbers the iteration sites for `ord` -/
def removeTypeFwd (ord : Ord) (k : Nat) (g : Graph) : List Decl × Graph :=
  let roots := (sortByPos (allDecls (ord.sh k g))).reverse.map (·.name)
  let children := fun n => childrenOf g (ord.sh (k + 1) (edgesOf g n))
  let ctx := visitRoots children g.length (dfsFuel g) roots {}
  let used := usedByTypes g
  let list := ((ord.sh (k + 2) ctx.visited).foldl (candStep g used) (1, [])).2
  let fwd := list.map fun d => { d with kind := Kind.typeFwd }
  -- RemoveDepsFor(Type, list.Map())
  let g' := g.map fun e =>
    if isTypeEntry e then { e with edges := e.edges.filter (fun n => !list.any (·.name == n)) } else e
  (fwd, g')

/-- `graph.Sort`'s loop; `none` = circularDependencyError -/
def sortLoop (ord : Ord) : Nat → Nat → Graph → List Decl → Option (List Decl)
  | 0, _, _, _ => none
  | fuel + 1, round, g, acc =>
    if g.isEmpty then some acc
    else
      match pickNoDeps (ord.sh (4 * round) g) with
      | some e =>
        sortLoop ord fuel (round + 1) (removeUnresolvable (removeNode g e.name)) (acc ++ sortByPos e.decls)
      | none =>
        let (fwd, g') := removeTypeFwd ord (4 * round + 1) g
        if fwd.isEmpty then none
        else sortLoop ord fuel (round + 1) (removeUnresolvable g') (acc ++ sortByPos fwd)

def edgeCount (g : Graph) : Nat := (g.map (·.edges.length)).sum

def sortFuel (g : Graph) : Nat := g.length + edgeCount g + 1

/-- `graph.Sort` -/
def sortGraph (ord : Ord) (g : Graph) : Option (List Decl) :=
  let g := removeUnresolvable g
  sortLoop ord (sortFuel g) 0 g []

/-- `Sorter.popDecls` after the scope has produced the declarations `ds` -/
def sortDecls (ord : Ord) (ds : List Decl) : Option (List Decl) :=
  sortGraph ord (build (resolve ds))

/-! ## sorter.go -/

inductive Item2 where
  | pkg
  | imp (name : Name)
  | stmt
  | expr
  | decl (t : DepScope.Top)
  deriving Repr, Inhabited

inductive Class where
  | pkg | imp | decl | stmt
  deriving DecidableEq, Repr

def Item2.cls : Item2 → Class
  | .pkg => .pkg
  | .imp _ => .imp
  | .stmt => .stmt
  | .expr => .stmt
  | .decl _ => .decl

/-- the longest prefix of the queue of class `c` (pop*), and the rest -/
def popRun (c : Class) : List Item2 → List Item2 × List Item2
  | [] => ([], [])
  | i :: r => if i.cls = c then let (a, b) := popRun c r; (i :: a, b) else ([], i :: r)

structure SState where
  gensym : Nat := 0
  pos : Nat := 0
  deriving Repr, Inhabited

def tops : List Item2 → List DepScope.Top
  | [] => []
  | .decl t :: r => t :: tops r
  | _ :: r => tops r

/-- declarations for a run of packages / imports / statements (SortByPos is the identity on them) -/
def simpleRun : SState → List Item2 → SState × List Decl
  | s, [] => (s, [])
  | s, i :: r =>
    let (s1, d) : SState × Decl := (match i with
      | .pkg => ({ gensym := s.gensym + 1, pos := s.pos + 1 },
                 ({ kind := .pkg, name := "<package" ++ toString s.gensym ++ ">", pos := s.pos, deps := [] } : Decl))
      | .imp n => ({ s with pos := s.pos + 1 }, { kind := .imp, name := n, pos := s.pos, deps := [] })
      | .stmt => ({ gensym := s.gensym + 1, pos := s.pos + 1 },
                  { kind := .stmt, name := "<stmt" ++ toString s.gensym ++ ">", pos := s.pos, deps := [] })
      | .expr => ({ gensym := s.gensym + 1, pos := s.pos + 1 },
                  { kind := .expr, name := "<expr" ++ toString s.gensym ++ ">", pos := s.pos, deps := [] })
      | .decl _ => (s, default))
    let (s2, ds) := simpleRun s1 r
    (s2, d :: ds)

/-- `Sorter.Some`: the next run and the remaining queue; `none` = declaration loop -/
def some1 (ord : Ord) (s : SState) (q : List Item2) : Option (SState × List Decl × List Item2) :=
  match q with
  | [] => some (s, [], [])
  | i :: _ =>
    let (run, rest) := popRun i.cls q
    if i.cls = .decl then
      let l := DepScope.loadTops { gensym := s.gensym, pos := s.pos } (tops run)
      match sortDecls ord l.out with
      | some ds => some ({ gensym := l.gensym, pos := l.pos }, ds, rest)
      | none => none
    else
      let (s', ds) := simpleRun s run
      some (s', ds, rest)

/-- `Sorter.All` (fuel = length of the queue: every call of Some consumes at least one node) -/
def all (ord : Ord) : Nat → SState → List Item2 → Option (List Decl)
  | 0, _, _ => some []
  | fuel + 1, s, q =>
    if q.isEmpty then some []
    else match some1 ord s q with
      | none => none
      | some (s', ds, rest) =>
        match all ord fuel s' rest with
        | none => none
        | some more => some (ds ++ more)

end Dep
