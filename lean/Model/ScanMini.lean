import Model.ScanDelta
/-
An executable instance of `ScanDelta.Base` for a sub-language of Go's lexical grammar, used by the
correspondence run (`Drv/C23.lean`): the model's patched scanner `scanFork (miniBase src)` is run on the
same bytes as the real fork scanner, in the four modes, and must produce the same tokens and errors.

Sub-language (checked on the Go side by `c23miniOK`): bytes 0x20..0x7e plus '\n' and '\t', no
backslash; a run of letters/digits that starts with a digit is all digits and is not followed by
'.'; '.' is not followed by a digit; no comment starts with "line ".  Within it the helpers below
are statement-by-statement transcriptions of go/scanner/scanner.go (`next` without the NUL / UTF-8
branches, `scanNumber` without prefixes, fractions, exponents, `scanString`/`scanRune` without
escapes, `scanComment` without '\r' stripping and line directives, `findLineEnd` in full).
Loops take fuel `len(src)+2` (every iteration consumes a byte).
-/
namespace ScanMini
open ScanDelta

abbrev Src := Array Nat

def chAt (src : Src) (i : Nat) : Int := Int.ofNat (src.getD i 0)

/-- `Scanner.next` (ASCII, non-NUL input) -/
def next (src : Src) (s : St) : St :=
  if s.rd < src.size then { s with off := s.rd, ch := chAt src s.rd, rd := s.rd + 1 }
  else { s with off := src.size, ch := -1 }

/-- `Scanner.peek` -/
def peek (src : Src) (s : St) : Int := if s.rd < src.size then chAt src s.rd else 0

def error (offs : Nat) (msg : String) (s : St) : St := { s with errs := s.errs ++ [(offs, msg)] }

def lower (ch : Int) : Int := if r 'A' ≤ ch && ch ≤ r 'Z' then ch + 32 else ch
def isLetter (ch : Int) : Bool := (r 'a' ≤ lower ch && lower ch ≤ r 'z') || ch == r '_'
def isDecimal (ch : Int) : Bool := r '0' ≤ ch && ch ≤ r '9'
def isDigit (ch : Int) : Bool := isDecimal ch

def slice (src : Src) (a b : Nat) : String :=
  String.ofList ((src.extract a b).toList.map (fun n => Char.ofNat n))

/-- `for cond { s.next() }` -/
def while_ (src : Src) (cond : St → Bool) : Nat → St → St
  | 0, s => s
  | f + 1, s => if cond s then while_ src cond f (next src s) else s

def fuelOf (src : Src) : Nat := src.size + 2

def skipWhitespace (src : Src) (s : St) : St :=
  while_ src (fun s => s.ch == r ' ' || s.ch == r '\t' || (s.ch == r '\n' && !s.insertSemi) || s.ch == r '\r') (fuelOf src) s

def scanIdentifier (src : Src) (s : St) : String × St :=
  let offs := s.off
  let s := while_ src (fun s => isLetter s.ch || isDigit s.ch) (fuelOf src) s
  (slice src offs s.off, s)

def isNumberStart (src : Src) (s : St) : Bool :=
  isDecimal s.ch || (s.ch == r '.' && isDecimal (peek src s))

/-- `digits(base, &invalid)` for base <= 10 without '_': returns the state and the offset of the first digit >= base -/
def digits (src : Src) (base : Int) : Nat → St → Option Nat → St × Option Nat
  | 0, s, inv => (s, inv)
  | f + 1, s, inv =>
    if isDecimal s.ch then
      let inv := if s.ch ≥ r '0' + base && inv.isNone then some s.off else inv
      digits src base f (next src s) inv
    else (s, inv)

/-- `scanNumber` restricted to digit runs: decimal, or "0"-prefixed (octal, with the invalid-digit error) -/
def scanNumber (src : Src) (s : St) : Tok × String × St :=
  let offs := s.off
  let (base, s) := if s.ch == r '0' then ((8 : Int), next src s) else ((10 : Int), s)
  let (s, invalid) := digits src base (fuelOf src) s none
  let lit := slice src offs s.off
  match invalid with
  | some i =>
    let d := String.ofList [Char.ofNat (src.getD i 0)]
    ("INT", lit, error i ("invalid digit '" ++ d ++ "' in octal literal") s)
  | none => ("INT", lit, s)

/-- body loop of scanString / scanRune / scanRawString: returns (terminated, chars before the closing quote, state) -/
def quoted (src : Src) (q : Int) (stopAtNewline : Bool) : Nat → St → Nat → Bool × Nat × St
  | 0, s, n => (false, n, s)
  | f + 1, s, n =>
    let ch := s.ch
    if (stopAtNewline && ch == r '\n') || ch < 0 then (false, n, s)
    else
      let s := next src s
      if ch == q then (true, n, s) else quoted src q stopAtNewline f s (n + 1)

def scanString (src : Src) (s : St) : String × St :=
  let offs := s.off - 1
  let (ok, _, s) := quoted src (r '"') true (fuelOf src) s 0
  let s := if ok then s else error offs "string literal not terminated" s
  (slice src offs s.off, s)

def scanRune (src : Src) (s : St) : String × St :=
  let offs := s.off - 1
  let (ok, n, s) := quoted src (r '\'') true (fuelOf src) s 0
  let s := if !ok then error offs "rune literal not terminated" s
           else if n != 1 then error offs "illegal rune literal" s else s
  (slice src offs s.off, s)

def scanRawString (src : Src) (s : St) : String × St :=
  let offs := s.off - 1
  let (ok, _, s) := quoted src (r '`') false (fuelOf src) s 0
  let s := if ok then s else error offs "raw string literal not terminated" s
  (slice src offs s.off, s)

/-- the `/*`-style loop of scanComment: `for s.ch >= 0 { ch := s.ch; s.next(); if ch == '*' && s.ch == '/' { s.next(); goto exit } }` -/
def blockBody (src : Src) : Nat → St → Bool × St
  | 0, s => (false, s)
  | f + 1, s =>
    if s.ch ≥ 0 then
      let ch := s.ch
      let s := next src s
      if ch == r '*' && s.ch == r '/' then (true, next src s) else blockBody src f s
    else (false, s)

def scanComment (src : Src) (s : St) : String × St :=
  let offs := s.off - 1
  if s.ch == r '/' then
    let s := next src s
    let s := while_ src (fun s => s.ch != r '\n' && s.ch ≥ 0) (fuelOf src) s
    (slice src offs s.off, s)
  else
    let s := next src s
    let (ok, s) := blockBody src (fuelOf src) s
    let s := if ok then s else error offs "comment not terminated" s
    (slice src offs s.off, s)

/-- inner loop of findLineEnd: `for s.ch >= 0 { ch := s.ch; if ch == '\n' { return true }; s.next(); if ch == '*' && s.ch == '/' { s.next(); break } }` -/
def lineEndBlock (src : Src) : Nat → St → Bool × St
  | 0, s => (false, s)
  | f + 1, s =>
    if s.ch ≥ 0 then
      let ch := s.ch
      if ch == r '\n' then (true, s)
      else
        let s := next src s
        if ch == r '*' && s.ch == r '/' then (false, next src s) else lineEndBlock src f s
    else (false, s)

/-- outer loop of findLineEnd -/
def lineEndLoop (src : Src) : Nat → St → Bool
  | 0, _ => false
  | f + 1, s =>
    if s.ch == r '/' || s.ch == r '*' then
      if s.ch == r '/' then true
      else
        let s := next src s
        let (nl, s) := lineEndBlock src (fuelOf src) s
        if nl then true
        else
          let s := skipWhitespace src s
          if s.ch < 0 || s.ch == r '\n' then true
          else if s.ch != r '/' then false
          else lineEndLoop src f (next src s)
    else false

/-- `findLineEnd`: the result, and the state rewound by the deferred function
    (`s.ch = '/'; s.offset = offs; s.rdOffset = offs + 1; s.next()`) -/
def findLineEnd (src : Src) (s : St) : Bool × St :=
  let offs := s.off - 1
  let res := lineEndLoop src (fuelOf src) s
  (res, next src { s with ch := r '/', off := offs, rd := offs + 1 })

def switch2 (src : Src) (tok0 tok1 : Tok) (s : St) : Tok × St :=
  if s.ch == r '=' then (tok1, next src s) else (tok0, s)

def switch3 (src : Src) (tok0 tok1 : Tok) (ch2 : Int) (tok2 : Tok) (s : St) : Tok × St :=
  if s.ch == r '=' then (tok1, next src s)
  else if s.ch == ch2 then (tok2, next src s)
  else (tok0, s)

def switch4 (src : Src) (tok0 tok1 : Tok) (ch2 : Int) (tok2 tok3 : Tok) (s : St) : Tok × St :=
  if s.ch == r '=' then (tok1, next src s)
  else if s.ch == ch2 then
    let s := next src s
    if s.ch == r '=' then (tok3, next src s) else (tok2, s)
  else (tok0, s)

/-- the arms of the inner switch between `case '"'` and `case '|'`, except `'/'` -/
def plainArm (src : Src) (ch : Int) (s : St) : Option (Tok × String × Bool × St) :=
  let op (p : Tok × St) (ins : Bool) : Option (Tok × String × Bool × St) := some (p.1, "", ins, p.2)
  if ch == r '"' then let (lit, s) := scanString src s; some ("STRING", lit, true, s)
  else if ch == r '\'' then let (lit, s) := scanRune src s; some ("CHAR", lit, true, s)
  else if ch == r '`' then let (lit, s) := scanRawString src s; some ("STRING", lit, true, s)
  else if ch == r ':' then op (switch2 src ":" ":=" s) false
  else if ch == r '.' then
    if s.ch == r '.' && peek src s == r '.' then some ("...", "", false, next src (next src s))
    else some (".", "", false, s)
  else if ch == r ',' then some (",", "", false, s)
  else if ch == r ';' then some (";", ";", false, s)
  else if ch == r '(' then some ("(", "", false, s)
  else if ch == r ')' then some (")", "", true, s)
  else if ch == r '[' then some ("[", "", false, s)
  else if ch == r ']' then some ("]", "", true, s)
  else if ch == r '{' then some ("{", "", false, s)
  else if ch == r '}' then some ("}", "", true, s)
  else if ch == r '+' then let p := switch3 src "+" "+=" (r '+') "++" s; op p (p.1 == "++")
  else if ch == r '-' then let p := switch3 src "-" "-=" (r '-') "--" s; op p (p.1 == "--")
  else if ch == r '*' then op (switch2 src "*" "*=" s) false
  else if ch == r '%' then op (switch2 src "%" "%=" s) false
  else if ch == r '^' then op (switch2 src "^" "^=" s) false
  else if ch == r '<' then
    if s.ch == r '-' then some ("<-", "", false, next src s)
    else op (switch4 src "<" "<=" (r '<') "<<" "<<=" s) false
  else if ch == r '>' then op (switch4 src ">" ">=" (r '>') ">>" ">>=" s) false
  else if ch == r '=' then op (switch2 src "=" "==" s) false
  else if ch == r '!' then op (switch2 src "!" "!=" s) false
  else if ch == r '&' then
    if s.ch == r '^' then op (switch2 src "&^" "&^=" (next src s)) false
    else op (switch3 src "&" "&=" (r '&') "&&" s) false
  else if ch == r '|' then op (switch3 src "|" "|=" (r '|') "||" s) false
  else none

/-- `case '~': tok = token.TILDE` (after `case s.macroChar`) -/
def lateArm (ch : Int) (s : St) : Option (Tok × String × Bool × St) :=
  if ch == r '~' then some ("~", "", false, s) else none

def hexDigit (n : Nat) : Char := if n < 10 then Char.ofNat (48 + n) else Char.ofNat (55 + n)
def hex4 (n : Nat) : String :=
  String.ofList [hexDigit (n / 4096 % 16), hexDigit (n / 256 % 16), hexDigit (n / 16 % 16), hexDigit (n % 16)]

def charStr (ch : Int) : String := String.ofList [Char.ofNat ch.toNat]

/-- `fmt.Sprintf("illegal character %#U", ch)` for a printable character -/
def illegalMsg (ch : Int) : String := "illegal character U+" ++ hex4 ch.toNat ++ " '" ++ charStr ch ++ "'"

def macroMsg (mc : Int) (lit : String) : String :=
  "expecting macro-related keyword after '" ++ charStr mc ++ "', found '" ++ charStr mc ++ lit ++ "'"

/-- the 25 Go keywords (token.Lookup); `Props/C23.lean` checks the list against the regenerated table -/
def goKeywords : List String :=
  ["break", "case", "chan", "const", "continue", "default", "defer", "else", "fallthrough", "for", "func", "go", "goto", "if",
   "import", "interface", "map", "package", "range", "return", "select", "struct", "switch", "type", "var"]

def tokenLookup (lit : String) : Tok := if goKeywords.contains lit then lit else "IDENT"

def miniBase (src : Src) : Base where
  next := next src
  skipWhitespace := skipWhitespace src
  isLetter := isLetter
  isNumberStart := isNumberStart src
  scanIdentifier := scanIdentifier src
  scanNumber := scanNumber src
  lookup := tokenLookup
  findLineEnd := findLineEnd src
  scanComment := scanComment src
  plainArm := plainArm src
  lateArm := lateArm
  reportIllegal := fun ch pos s => error pos (illegalMsg ch) s
  error := error
  charStr := charStr
  illegalMsg := illegalMsg
  macroMsg := macroMsg

/-- `Scanner.Init` -/
def initSt (src : Src) : St :=
  next src { ch := r ' ', off := 0, rd := 0, insertSemi := false, errs := [] }

/-- all tokens up to and including EOF (at most `limit` calls of Scan) -/
def scanAll (scanf : Nat → St → Step) (fuel : Nat) : Nat → St → List (Nat × Tok × String) × St
  | 0, s => ([], s)
  | n + 1, s =>
    let st := scanf fuel s
    if st.tok == "EOF" then ([(st.pos, st.tok, st.lit)], st.st)
    else
      let (l, s') := scanAll scanf fuel n st.st
      ((st.pos, st.tok, st.lit) :: l, s')

end ScanMini
