/-! # Model of go/typeutil: type identity and type hashing        (property C28)

Transcription of `/repo/go/typeutil/predicates.go` (`sameName`, `sameVarName`, `sameFuncName`,
`identicalVar`, `identical`) and of `/repo/go/typeutil/map.go` (`hashString`, `hashNamed`,
`hashTuple`, `hashVar`, `hashFor`), together with the part of `/repo/go/types/type.go` that builds
the representation the two functions read (`NewInterfaceType`, `Interface.Complete`, `types.Id`).

Transcription rules / abstractions
* A `types.Type` is a finite tree `Ty`.  `*types.Named` is a leaf `named id` (`id` stands for the
  `*TypeName` object `t.Obj()`): the code compares / hashes named types by that object only, so all
  cycles through named types are cut exactly where the code cuts them.
* Selectors are kept apart, exactly as the code reads them: an interface node carries the three
  slices of `types.Interface`: `all` (= `allMethods`, read by `x.NumMethods()/x.Method(i)` in
  `identical`), `expl` (= `methods`, read by `NumExplicitMethods()/ExplicitMethod(i)` in `hashFor`)
  and `emb` (= `embeddeds`, all `*Named`, read by both).  `mkIface` is `NewInterface` + `Complete`.
* Index loops `for i := 0; i < n(x); i++ { .. y.sel(i) .. }` become a walk down the x-list that
  *panics* (`Res.panic` = Go "index out of range") when the y-list is exhausted first and ignores
  surplus y-elements — the same accesses the Go loop performs.  The length guards in front of the
  loops are transcribed separately, so a guard that compares the wrong lengths shows up as `panic`.
* Pointer shortcuts `x == y`, `v == w` are dropped: on trees pointer-equal implies structurally
  equal, and `identical_refl` shows that the structural comparison then answers `true` too.  The
  only place where the shortcut is the sole source of `true` is the nil type (`Ty.nil`).
* Receiver of an interface method (`Recv`): `none` (nil `*Var`), `ty t` (an explicit receiver, or
  the receiver of a method copied by `Complete` from an embedded interface: its type is the
  embedded interface's underlying literal), `self` = the variable `NewInterfaceType` creates, whose
  type is the enclosing interface itself.  `self` against `self` is where the code finds the pair
  on the `ifacePair` stack (`q` was pushed just before the method loop) and answers `true`.
  `self` against `ty t` (an explicit receiver that is a *different* anonymous interface object) is
  answered `false` by the model; the code would recurse into the two interfaces.  Such receivers
  cannot be produced by `NewInterface`/`Complete` from nil receivers; cyclic anonymous interfaces
  are exercised by the Go-side oracle only (op `cyc`).
* `Hasher.memo` is a cache keyed by pointer: `Hash t = hashFor t`.
* `hashNamed` folds the address of the `*TypeName`; the model takes it as a parameter `nh : Nat → UInt32`.
* Array lengths are `Nat` (negative = "unknown length" does not occur in the interpreter).
* `ast.IsExported` is restricted to ASCII names.
-/
namespace TypeId

/-- result of a Go function that may fail with an index-out-of-range panic -/
inductive Res where
  | ok (b : Bool)
  | panic
  deriving DecidableEq, Repr, Inhabited

/-- `a && b` of Go, with panics propagating (b is evaluated only if a is true) -/
@[inline] def Res.andThen (a : Res) (b : Unit → Res) : Res :=
  match a with
  | .ok true => b ()
  | r => r

mutual
inductive Ty where
  | basic (kind : Nat)
  | array (len : Nat) (elem : Ty)
  | slice (elem : Ty)
  | struct (fields : List Field)
  | pointer (elem : Ty)
  | tuple (elems : List Ty)
  | sig (variadic : Bool) (recv : Option Ty) (params results : List Ty)
  | iface (all expl : List Method) (emb : List Nat)
  | map (key elem : Ty)
  | chan (dir : Nat) (elem : Ty)
  | named (id : Nat)
  | nil
/-- `*types.Var` as a struct field: name, package path (none = nil package), Anonymous(), tag, type -/
inductive Field where
  | mk (name : String) (pkg : Option String) (anon : Bool) (tag : String) (ty : Ty)
/-- receiver variable of an interface method -/
inductive Recv where
  | none
  | self
  | ty (t : Ty)
/-- `*types.Func` of an interface: name, package path, and its `*types.Signature` -/
inductive Method where
  | mk (name : String) (pkg : Option String) (variadic : Bool) (recv : Recv) (params results : List Ty)
end

instance : Inhabited Ty := ⟨.nil⟩

def Method.name : Method → String | .mk n _ _ _ _ _ => n
def Method.pkg : Method → Option String | .mk _ p _ _ _ _ => p
def Method.recv : Method → Recv | .mk _ _ _ r _ _ => r

/-- `ast.IsExported` (ASCII) -/
def isExported (name : String) : Bool :=
  match name.toList with
  | c :: _ => c.isUpper
  | [] => false

/-- `sameName(xname, xpkg, yname, ypkg)` -/
def sameName (xname : String) (xpkg : Option String) (yname : String) (ypkg : Option String) : Bool :=
  if xname != yname then false
  else if isExported xname then true
  else match xpkg, ypkg with
    | some p, some q => p == q          -- xpkg.Path() == ypkg.Path()
    | none, none => true                -- xpkg == ypkg (both nil)
    | _, _ => false

/-- `types.Id(pkg, name)` : the sort key of methods -/
def objId (pkg : Option String) (name : String) : String :=
  if isExported name then name
  else (match pkg with | some p => if p != "" then p else "_" | none => "_") ++ "." ++ name

def Method.id (m : Method) : String := objId m.pkg m.name

/-- second interface loop: `for i := 0; i < ne; i++ { if x.Embedded(i).Obj() != y.Embedded(i).Obj() {return false} }` -/
def embLoop : List Nat → List Nat → Res
  | [], _ => .ok true
  | _ :: _, [] => .panic
  | e :: es, f :: fs => if e != f then .ok false else embLoop es fs

mutual
/-- `identical(x, y, cmpTags, p)` -/
def identR (cmpTags : Bool) : Ty → Ty → Res
  | .basic k, .basic k' => .ok (k == k')
  | .array n e, .array n' e' => if n == n' then identR cmpTags e e' else .ok false
  | .slice e, .slice e' => identR cmpTags e e'
  | .struct fs, .struct gs =>
      if fs.length == gs.length then identFields cmpTags fs gs else .ok false
  | .pointer e, .pointer e' => identR cmpTags e e'
  | .tuple ts, .tuple us =>
      if ts.length == us.length then identList cmpTags ts us else .ok false
  | .sig v r ps rs, .sig v' r' ps' rs' =>
      if v != v' then .ok false else
      (identOpt cmpTags r r').andThen fun _ =>
      (if ps.length == ps'.length then identList cmpTags ps ps' else .ok false).andThen fun _ =>
      (if rs.length == rs'.length then identList cmpTags rs rs' else .ok false)
  | .iface xa _ xe, .iface ya _ ye =>
      -- na := x.NumMethods(); nb := y.NumMethods(); ne := x.NumEmbeddeds(); nf := y.NumEmbeddeds()
      if xa.length == ya.length && xe.length == ye.length then
        (identMethods cmpTags xa ya).andThen fun _ => embLoop xe ye
      else .ok false
  | .map k e, .map k' e' => (identR cmpTags k k').andThen fun _ => identR cmpTags e e'
  | .chan d e, .chan d' e' => if d == d' then identR cmpTags e e' else .ok false
  | .named i, .named j => .ok (i == j)
  | .nil, .nil => .ok true            -- only via the `x == y` shortcut
  | _, _ => .ok false
/-- `identicalVar(x.Recv(), y.Recv(), ..)` on plain signatures -/
def identOpt (cmpTags : Bool) : Option Ty → Option Ty → Res
  | none, none => .ok true
  | some a, some b => identR cmpTags a b
  | _, _ => .ok false
/-- tuple loop: `for i, n := 0, x.Len(); i < n; i++ { .. y.At(i) .. }` -/
def identList (cmpTags : Bool) : List Ty → List Ty → Res
  | [], _ => .ok true
  | _ :: _, [] => .panic
  | t :: ts, u :: us => (identR cmpTags t u).andThen fun _ => identList cmpTags ts us
/-- struct loop: `for i, n := 0, x.NumFields(); i < n; i++ { f := x.Field(i); g := y.Field(i) .. }` -/
def identFields (cmpTags : Bool) : List Field → List Field → Res
  | [], _ => .ok true
  | _ :: _, [] => .panic
  | .mk n p a tg t :: fs, .mk n' p' a' tg' t' :: gs =>
      if a != a' || (cmpTags && tg != tg') || !sameName n p n' p' then .ok false
      else (identR cmpTags t t').andThen fun _ => identFields cmpTags fs gs
/-- first interface loop: `for i := 0; i < na; i++ { a := x.Method(i); b := y.Method(i);
    if !sameFuncName(a, b) || !identical(a.Type(), b.Type(), cmpTags, q) { return false } }`
    with the `*types.Signature` arm of `identical` inlined for `a.Type()`, `b.Type()`. -/
def identMethods (cmpTags : Bool) : List Method → List Method → Res
  | [], _ => .ok true
  | _ :: _, [] => .panic
  | .mk n p v r ps rs :: ms, .mk n' p' v' r' ps' rs' :: ms' =>
      if !sameName n p n' p' then .ok false
      else if v != v' then .ok false
      else
        (identRecv cmpTags r r').andThen fun _ =>
        (if ps.length == ps'.length then identList cmpTags ps ps' else .ok false).andThen fun _ =>
        (if rs.length == rs'.length then identList cmpTags rs rs' else .ok false).andThen fun _ =>
        identMethods cmpTags ms ms'
/-- `identicalVar(x.Recv(), y.Recv(), cmpTags, q)` for interface methods -/
def identRecv (cmpTags : Bool) : Recv → Recv → Res
  | .none, .none => .ok true
  | .self, .self => .ok true          -- the pair (x, y) is `q`, found on the ifacePair stack
  | .ty a, .ty b => identR cmpTags a b
  | _, _ => .ok false
end

/-- `typeutil.Identical` / `typeutil.IdenticalIgnoreTags` as observed by a caller:
    `none` = the call panicked -/
def Identical (x y : Ty) : Res := identR true x y
def IdenticalIgnoreTags (x y : Ty) : Res := identR false x y
/-- the boolean a caller of `Identical` sees when the call returns -/
def identB (x y : Ty) : Bool := identR true x y == .ok true

/-! ## the hash -/

/-- `hashString`: 32-bit FNV-1 over the bytes of s -/
def hashString (s : String) : UInt32 :=
  s.toUTF8.toList.foldl (fun h b => (h ^^^ b.toUInt32) * 16777619) 2166136261

/-- `hash<<5 | hash>>27` -/
@[inline] def rot5 (h : UInt32) : UInt32 := (h <<< 5) ||| (h >>> 27)

mutual
/-- `Hasher.hashFor` (= `Hasher.Hash`, the memo is a cache) -/
def hash (nh : Nat → UInt32) : Ty → UInt32
  | .basic k => UInt32.ofNat k
  | .array n e => 9043 + 2 * UInt32.ofNat n + 3 * hash nh e
  | .slice e => 9049 + 2 * hash nh e
  | .struct fs => hashFields nh 9059 fs
  | .pointer e => 9067 + 2 * hash nh e
  | .sig v r ps rs =>
      (if v then 9091 * 8863 else 9091) + 3 * hashTuple nh (9137 + 2 * UInt32.ofNat ps.length) ps
        + 5 * hashTuple nh (9137 + 2 * UInt32.ofNat rs.length) rs + 7 * hashOpt nh r
  | .iface _ expl emb => hashMethods nh (emb.foldl (fun h e => rot5 h + 2 * nh e) 9103) expl
  | .map k e => 9109 + 2 * hash nh k + 3 * hash nh e
  | .chan d e => 9127 + 2 * UInt32.ofNat d + 3 * hash nh e
  | .named i => nh i
  | .tuple ts => hashTuple nh (9137 + 2 * UInt32.ofNat ts.length) ts
  | .nil => 9133
/-- `hashVar` -/
def hashOpt (nh : Nat → UInt32) : Option Ty → UInt32
  | none => 0
  | some t => hash nh t
/-- loop of `hashTuple`, `acc` = hash so far -/
def hashTuple (nh : Nat → UInt32) (acc : UInt32) : List Ty → UInt32
  | [] => acc
  | t :: ts => hashTuple nh (rot5 acc + 3 * hash nh t) ts
/-- struct loop of `hashFor` -/
def hashFields (nh : Nat → UInt32) (acc : UInt32) : List Field → UInt32
  | [] => acc
  | .mk n _ a tg t :: fs =>
      let h := if a then acc + 8861 else acc
      let h := rot5 h
      hashFields nh (h + hashString tg + hashString n + hash nh t) fs
/-- explicit-method loop of `hashFor` -/
def hashMethods (nh : Nat → UInt32) (acc : UInt32) : List Method → UInt32
  | [] => acc
  | .mk n _ v _ ps rs :: ms =>
      let h := rot5 acc + 7 * hashString n
      let h := if v then h * 8863 else h
      hashMethods nh (h + 3 * hashTuple nh (9137 + 2 * UInt32.ofNat ps.length) ps
                        + 5 * hashTuple nh (9137 + 2 * UInt32.ofNat rs.length) rs) ms
end

/-! ## the representation invariant of completed interfaces

`Complete` computes `allMethods` as the sorted union of the explicit methods and the method sets of
the embedded interfaces; method names are unique in a method set.  Hence the explicit methods are
exactly the members of `all` that are not inherited.  `env i` = the ids (`types.Id`) of the complete
method set of the named interface `i`.  `mkIface_wf` (Proofs) shows that `mkIface` establishes it. -/

def inheritedIds (env : Nat → List String) (emb : List Nat) : List String := emb.flatMap env

mutual
def WF (env : Nat → List String) : Ty → Prop
  | .basic _ => True
  | .array _ e => WF env e
  | .slice e => WF env e
  | .struct fs => WFFs env fs
  | .pointer e => WF env e
  | .tuple ts => WFL env ts
  | .sig _ r ps rs => WFO env r ∧ WFL env ps ∧ WFL env rs
  | .iface all expl emb =>
      expl = all.filter (fun m => !(inheritedIds env emb).contains m.id) ∧ WFMs env all
  | .map k e => WF env k ∧ WF env e
  | .chan _ e => WF env e
  | .named _ => True
  | .nil => True
def WFO (env : Nat → List String) : Option Ty → Prop
  | none => True
  | some t => WF env t
def WFL (env : Nat → List String) : List Ty → Prop
  | [] => True
  | t :: ts => WF env t ∧ WFL env ts
def WFFs (env : Nat → List String) : List Field → Prop
  | [] => True
  | .mk _ _ _ _ t :: fs => WF env t ∧ WFFs env fs
def WFMs (env : Nat → List String) : List Method → Prop
  | [] => True
  | .mk _ _ _ _ ps rs :: ms => WFL env ps ∧ WFL env rs ∧ WFMs env ms
end

/-! ## construction of interfaces: `types.NewInterface` + `Interface.Complete` -/

/-- ordered insertion by key (what `sort.Sort` / `sort.Stable` return for distinct keys) -/
def insertBy {α} (key : α → String) (a : α) : List α → List α
  | [] => [a]
  | b :: bs => if key a < key b then a :: b :: bs else b :: insertBy key a bs

def sortBy {α} (key : α → String) (l : List α) : List α := l.foldr (insertBy key) []

def insertNat (a : Nat) : List Nat → List Nat
  | [] => [a]
  | b :: bs => if a < b then a :: b :: bs else b :: insertNat a bs

/-- a method copied by `Complete` out of the embedded interface `u` keeps its receiver variable,
    whose type is `u` when `NewInterfaceType` created it (`self` inside `u`) -/
def rebind (u : Ty) : Method → Method
  | .mk n p v .self ps rs => .mk n p v (.ty u) ps rs
  | m => m

def allOf : Ty → List Method
  | .iface all _ _ => all
  | _ => []

/-- `NewInterface(methods, embeddeds).Complete()`; `embs` = the embedded named types as
    (id of the type name, underlying completed interface).  Embedded type names are ordered like
    their ids. -/
def mkIface (methods : List Method) (embs : List (Nat × Ty)) : Ty :=
  let expl := sortBy Method.id methods
  let embs := embs.foldr (fun e acc => match acc.span (fun f => f.1 < e.1) with | (a, b) => a ++ e :: b) []
  let inherited := embs.flatMap fun (_, u) => (allOf u).map (rebind u)
  .iface (sortBy Method.id (expl ++ inherited)) expl (embs.map (·.1))

end TypeId
