import Model.StmtSyntax
/-! # C02Arms — the arm templates of the assignment closures, and the acceptance test

Every regenerated entry (`Gen.C02*`) is *classified* from the function it was found in and the
labels on its path (kind case, `switch upn` case, `if intbinds` / `not(intbinds)`, `if keyfun == nil`,
`if ypositive`) into an `ArmSpec`; it is *accepted* when its body is exactly the template body of that
spec.  The soundness theorems (Props/C02.lean) are about template bodies, generic in the kind; the
kernel-checked obligations say that every regenerated entry of the modelled functions is accepted.

So the statement "an entry whose path is under `case 2` / `if intbinds` / `case xr.Int8` walks two
frames up, touches `Ints` and nothing else, at width 8" is: classification reads the PATH, the
template fixes the BODY, acceptance ties the two for the real code.  In particular an arm that
touches `Ints` without being under `if intbinds` (DESIGN F3) cannot be accepted. -/

namespace C02Arms
open GoSpec ClosureIR StmtIR

inductive Upn where
  | u0 | u1 | u2 | file | loop
  deriving DecidableEq, Repr

inductive Rhs where
  | const   -- `val`
  | expr    -- `fun(env)`
  deriving DecidableEq, Repr

def envV : E := .var "env"

/-- the frame expression of a `switch upn` case -/
def envE : Upn → E
  | .u0 => envV
  | .u1 => .sel envV "Outer"
  | .u2 => .sel (.sel envV "Outer") "Outer"
  | .file => .sel envV "FileEnv"
  | .loop => .var "o"

/-- `o := env.Outer.Outer.Outer; for i := 3; i < upn; i++ { o = o.Outer }` -/
def pre : Upn → List St
  | .loop => [.s (.define "o" (.sel (.sel (.sel envV "Outer") "Outer") "Outer")),
              .forLt "i" (.int 3) (.var "upn") (.assign (.var "o") (.sel (.var "o") "Outer"))]
  | _ => []

/-- `env.IP++; return env.Code[env.IP], env` -/
def tail : List St :=
  [.s (.inc (.sel envV "IP")), .s (.ret2 (.index (.sel envV "Code") (.sel envV "IP")) envV)]

def rhsE : Rhs → E
  | .const => .var "val"
  | .expr => .app (.var "fun")

def intsIx (u : Upn) : E := .index (.sel (envE u) "Ints") (.var "index")
def boxLhs (u : Upn) : E := .index (.sel (envE u) "Vals") (.var "index")

/-- `*(*T)(unsafe.Pointer(&e.Ints[index]))`, for uint64 simply `e.Ints[index]` -/
def slotLhs (k : Kind) (u : Upn) : E :=
  if k = .uint64 then intsIx u else .deref (.ptrCast k (.call1 "unsafe.Pointer" (.addr (intsIx u))))

inductive Cat where
  | bool | int | uint | float | complex | string
  deriving DecidableEq, Repr

def Kind.cat : Kind → Cat
  | .bool => .bool
  | .int | .int8 | .int16 | .int32 | .int64 => .int
  | .uint | .uint8 | .uint16 | .uint32 | .uint64 | .uintptr => .uint
  | .float32 | .float64 => .float
  | .complex64 | .complex128 => .complex
  | .string => .string

def Cat.getter : Cat → String
  | .bool => "Bool" | .int => "Int" | .uint => "Uint" | .float => "Float" | .complex => "Complex" | .string => "String"
def Cat.setter : Cat → String
  | .bool => "SetBool" | .int => "SetInt" | .uint => "SetUint" | .float => "SetFloat"
  | .complex => "SetComplex" | .string => "SetString"
/-- the kind reflect's getters return / setters take -/
def Cat.wide : Cat → Option Kind
  | .int => some .int64 | .uint => some .uint64 | .float => some .float64 | .complex => some .complex128
  | _ => none

/-- `W(e)`: conversion to the wide kind, written for every numeric kind -/
def convAlways (c : Cat) (e : E) : E :=
  match c.wide with | some w => .conv w e | none => e
/-- conversion to the wide kind, written only when the kind is not already wide -/
def convNarrow (k : Kind) (e : E) : E :=
  match (Kind.cat k).wide with | some w => if k = w then e else .conv w e | none => e
/-- `T(v.Get())`: conversion from the wide kind, written only when needed -/
def convFromWide (k : Kind) (e : E) : E :=
  match (Kind.cat k).wide with | some w => if k = w then e else .conv k e | none => e

/-! ## variables -/

def varOpBody (op : BinOp) (k : Kind) (u : Upn) (ib : Bool) (r : Rhs) : List St :=
  let c := Kind.cat k
  pre u ++
  (if ib then [.s (.opAssign (slotLhs k u) op (rhsE r))]
   else [.s (.define "lhs" (boxLhs u)),
         .s (.expr (.meth1 (.var "lhs") c.setter
              (.bin op (.meth0 (.var "lhs") c.getter) (if op.isShift then rhsE r else convAlways c (rhsE r)))))]) ++
  tail

def varSetBody (k : Kind) (u : Upn) (ib : Bool) (r : Rhs) : List St :=
  pre u ++
  (if ib then [.s (.assign (slotLhs k u) (rhsE r))]
   else [.s (.expr (.meth1 (boxLhs u) (Kind.cat k).setter (convNarrow k (rhsE r))))]) ++
  tail

/-- `x /= ±2^shift` on an int-slot variable -/
def varQuoPow2Body (k : Kind) (u : Upn) (ypositive : Bool) : List St :=
  pre u ++
  (if Kind.cat k = .int then
    [.s (.define "addr" (.ptrCast k (.call1 "unsafe.Pointer" (.addr (intsIx u))))),
     .s (.define "n" (.deref (.var "addr"))),
     .s (.ifThen (.bin .lss (.var "n") (.int 0)) (.opAssign (.var "n") .add (.var "y_1"))),
     .s (.assign (.deref (.var "addr"))
          (if ypositive then .bin .shr (.var "n") (.var "shift") else .un .neg (.bin .shr (.var "n") (.var "shift"))))]
   else [.s (.opAssign (slotLhs k u) .shr (.var "shift"))]) ++
  tail

/-! ## non-variable places -/

def lhsDef : St := .s (.define "lhs" (.app (.var "lhsfun")))
def keyDef : St := .s (.define "key" (.app (.var "keyfun")))

/-- `place op= const` (not a map element): one arm per category -/
def placeOpConstBody (op : BinOp) (c : Cat) : List St :=
  [lhsDef,
   .s (.expr (.meth1 (.var "lhs") c.setter (.bin op (.meth0 (.var "lhs") c.getter)
      (if c = .int ∨ c = .uint then convAlways c (.var "val") else .var "val"))))] ++ tail

/-- `place op= fun(env)` (not a map element): one arm per operand kind -/
def placeOpExprBody (op : BinOp) (k : Kind) : List St :=
  [lhsDef,
   .s (.expr (.meth1 (.var "lhs") (Kind.cat k).setter (.bin op (.meth0 (.var "lhs") (Kind.cat k).getter)
      (convNarrow k (.app (.var "fun"))))))] ++ tail

/-- `m[key] op= rhs`: read (a missing key reads as zero), operate at the element kind, store -/
def mapOpBody (op : BinOp) (k : Kind) (r : Rhs) : List St :=
  [lhsDef, keyDef,
   .s (.define "result" (.decl k.name)),
   .s (.define "v" (.meth1 (.var "lhs") "MapIndex" (.var "key"))),
   .s (.ifThen (.meth0 (.var "v") "IsValid") (.assign (.var "result") (convFromWide k (.meth0 (.var "v") (Kind.cat k).getter)))),
   .s (.opAssign (.var "result") op (rhsE r)),
   .s (.expr (.meth1 (.var "lhs") "SetMapIndex" (.call2 "," (.var "key") (.call1 "xr.ValueOf" (.var "result")))))] ++ tail

/-- `place <<= n`, `place >>= n`, and the power-of-two division (`roundup`), not a map element -/
def placeShiftBody (op : BinOp) (c : Cat) (r : Rhs) (roundup : Bool) : List St :=
  [lhsDef, .s (.define "result" (.meth0 (.var "lhs") c.getter))] ++
  (if roundup then [.s (.ifThen (.bin .lss (.var "result") (.int 0)) (.opAssign (.var "result") .add (.var "roundup")))] else []) ++
  [.s (.expr (.meth1 (.var "lhs") c.setter (.bin op (.var "result") (rhsE r))))] ++ tail

def mapShiftBody (op : BinOp) (c : Cat) (r : Rhs) (roundup : Bool) : List St :=
  [lhsDef, keyDef,
   .s (.define "result" (.decl (match c.wide with | some w => w.name | none => ""))),
   .s (.define "v" (.meth1 (.var "lhs") "MapIndex" (.var "key"))),
   .s (.ifThen (.meth0 (.var "v") "IsValid") (.assign (.var "result") (.meth0 (.var "v") c.getter)))] ++
  (if roundup then [.s (.ifThen (.bin .lss (.var "result") (.int 0)) (.opAssign (.var "result") .add (.var "roundup")))] else []) ++
  [.s (.define "v" (.call1 "xr.ValueOf" (.bin op (.var "result") (rhsE r)))),
   .s (.ifThen (.bin .neq (.meth0 (.var "v") "Type") (.var "rt")) (.assign (.var "v") (.call2 "convert" (.var "v") (.var "rt")))),
   .s (.expr (.meth1 (.var "lhs") "SetMapIndex" (.call2 "," (.var "key") (.var "v"))))] ++ tail

/-! ## classification -/

inductive ArmSpec where
  | varOp (op : BinOp) (k : Kind) (u : Upn) (ib : Bool) (r : Rhs)
  | varSet (k : Kind) (u : Upn) (ib : Bool) (r : Rhs)
  | varQuoPow2 (k : Kind) (u : Upn) (ypositive : Bool)
  | placeOpConst (op : BinOp) (c : Cat)
  | placeOpExpr (op : BinOp) (k : Kind)
  | mapOp (op : BinOp) (k : Kind) (r : Rhs)
  | placeShift (op : BinOp) (c : Cat) (r : Rhs) (roundup : Bool)
  | mapShift (op : BinOp) (c : Cat) (r : Rhs) (roundup : Bool)
  | outOfScope            -- an arm for a non-basic kind (`default:` of the kind switch)
  deriving DecidableEq, Repr

def ArmSpec.body : ArmSpec → List St
  | .varOp op k u ib r => varOpBody op k u ib r
  | .varSet k u ib r => varSetBody k u ib r
  | .varQuoPow2 k u yp => varQuoPow2Body k u yp
  | .placeOpConst op c => placeOpConstBody op c
  | .placeOpExpr op k => placeOpExprBody op k
  | .mapOp op k r => mapOpBody op k r
  | .placeShift op c r ru => placeShiftBody op c r ru
  | .mapShift op c r ru => mapShiftBody op c r ru
  | .outOfScope => []

/-- the label that follows `tag` on the path -/
def after (tag : String) : List String → Option String
  | a :: b :: rest => if a = tag then some b else after tag (b :: rest)
  | _ => none

def kindOfXr (s : String) : Option Kind :=
  [("case xr.Bool", Kind.bool), ("case xr.Int", .int), ("case xr.Int8", .int8), ("case xr.Int16", .int16),
   ("case xr.Int32", .int32), ("case xr.Int64", .int64), ("case xr.Uint", .uint), ("case xr.Uint8", .uint8),
   ("case xr.Uint16", .uint16), ("case xr.Uint32", .uint32), ("case xr.Uint64", .uint64), ("case xr.Uintptr", .uintptr),
   ("case xr.Float32", .float32), ("case xr.Float64", .float64), ("case xr.Complex64", .complex64),
   ("case xr.Complex128", .complex128), ("case xr.String", .string)].lookup s

def kindOfFun (s : String) : Option Kind :=
  [("case func(*Env) bool", Kind.bool), ("case func(*Env) int", .int), ("case func(*Env) int8", .int8),
   ("case func(*Env) int16", .int16), ("case func(*Env) int32", .int32), ("case func(*Env) int64", .int64),
   ("case func(*Env) uint", .uint), ("case func(*Env) uint8", .uint8), ("case func(*Env) uint16", .uint16),
   ("case func(*Env) uint32", .uint32), ("case func(*Env) uint64", .uint64), ("case func(*Env) uintptr", .uintptr),
   ("case func(*Env) float32", .float32), ("case func(*Env) float64", .float64),
   ("case func(*Env) complex64", .complex64), ("case func(*Env) complex128", .complex128),
   ("case func(*Env) string", .string)].lookup s

def catOfXr (s : String) : Option Cat :=
  [("case xr.Bool", Cat.bool), ("case xr.Int", .int), ("case xr.Uint", .uint), ("case xr.Float64", .float),
   ("case xr.Complex128", .complex), ("case xr.String", .string)].lookup s

def upnOf (p : List String) : Option Upn :=
  match after "switch upn" p with
  | some "case 0" => some .u0 | some "case 1" => some .u1 | some "case 2" => some .u2
  | some "case c.Depth - 1" => some .file | some "default" => some .loop
  | _ => none

/-- storage class from the path: under `if intbinds` the arm uses `Ints`, under `not(intbinds)`
    `Vals`; arms without the test exist only for strings (never int-slot) -/
def storOf (p : List String) (k : Kind) : Option Bool :=
  if p.contains "if intbinds" then some true
  else if p.contains "not(intbinds)" then some false
  else if k = .string then some false else none

/-- `varAddConst` -> (add, const) ... (explicit tables: only string equality is used, which the
    kernel evaluates) -/
def varFns : List (String × (BinOp × Rhs)) :=
  [("varAddConst", (.add, .const)), ("varAddExpr", (.add, .expr)), ("varSubConst", (.sub, .const)), ("varSubExpr", (.sub, .expr)),
   ("varMulConst", (.mul, .const)), ("varMulExpr", (.mul, .expr)), ("varQuoConst", (.quo, .const)), ("varQuoExpr", (.quo, .expr)),
   ("varRemConst", (.rem, .const)), ("varRemExpr", (.rem, .expr)), ("varAndConst", (.and, .const)), ("varAndExpr", (.and, .expr)),
   ("varOrConst", (.or, .const)), ("varOrExpr", (.or, .expr)), ("varXorConst", (.xor, .const)), ("varXorExpr", (.xor, .expr)),
   ("varAndnotConst", (.andNot, .const)), ("varAndnotExpr", (.andNot, .expr)),
   ("varShlConst", (.shl, .const)), ("varShlExpr", (.shl, .expr)), ("varShrConst", (.shr, .const)), ("varShrExpr", (.shr, .expr))]

def placeFns : List (String × (BinOp × Rhs)) :=
  [("placeAddConst", (.add, .const)), ("placeAddExpr", (.add, .expr)), ("placeSubConst", (.sub, .const)), ("placeSubExpr", (.sub, .expr)),
   ("placeMulConst", (.mul, .const)), ("placeMulExpr", (.mul, .expr)), ("placeQuoConst", (.quo, .const)), ("placeQuoExpr", (.quo, .expr)),
   ("placeRemConst", (.rem, .const)), ("placeRemExpr", (.rem, .expr)), ("placeAndConst", (.and, .const)), ("placeAndExpr", (.and, .expr)),
   ("placeOrConst", (.or, .const)), ("placeOrExpr", (.or, .expr)), ("placeXorConst", (.xor, .const)), ("placeXorExpr", (.xor, .expr)),
   ("placeAndnotConst", (.andNot, .const)), ("placeAndnotExpr", (.andNot, .expr)),
   ("placeShlConst", (.shl, .const)), ("placeShlExpr", (.shl, .expr)), ("placeShrConst", (.shr, .const)), ("placeShrExpr", (.shr, .expr))]

def kindLabel (p : List String) : Option Kind :=
  match (after "switch t.Kind()" p).bind kindOfXr with
  | some k => some k
  | none => (after "typeswitch fun := fun.(type)" p).bind kindOfFun

def classify (e : SEntry) : Option ArmSpec :=
  let p := e.path
  if e.fn = "varQuoPow2" then do
    let k ← kindLabel p
    let u ← upnOf p
    if Kind.cat k = .int then
      (if p.contains "if ypositive" then some (.varQuoPow2 k u true)
       else if p.contains "not(ypositive)" then some (.varQuoPow2 k u false) else none)
    else some (.varQuoPow2 k u true)
  else if e.fn = "varSetConst" ∨ e.fn = "varSetExpr" then
    let r := if e.fn = "varSetConst" then Rhs.const else Rhs.expr
    match after "switch t.Kind()" p with
    | some "default" => some .outOfScope
    | some l => do
      let k ← kindOfXr l
      let u ← upnOf p
      let ib ← storOf p k
      some (.varSet k u ib r)
    | none => none
  else if e.fn = "placeQuoPow2" then do
    let c ← (after "switch cat" p).bind catOfXr
    if p.contains "if keyfun == nil" then some (.placeShift .shr c .const (c = .int))
    else if p.contains "not(keyfun == nil)" then some (.mapShift .shr c .const (c = .int)) else none
  else match varFns.lookup e.fn with
  | some (op, r) => do
    let k ← kindLabel p
    let u ← upnOf p
    let ib ← storOf p k
    some (.varOp op k u ib r)
  | none => match placeFns.lookup e.fn with
    | some (op, r) =>
      if op.isShift then do
        let c ← (after "switch cat" p).bind catOfXr
        if p.contains "if keyfun == nil" then some (.placeShift op c r false)
        else if p.contains "not(keyfun == nil)" then some (.mapShift op c r false) else none
      else if p.contains "if keyfun == nil" then
        (match r with
         | .const => ((after "switch reflect.Category(place.Type.Kind())" p).bind catOfXr).map (.placeOpConst op ·)
         | .expr => ((after "typeswitch fun := fun.(type)" p).bind kindOfFun).map (.placeOpExpr op ·))
      else if p.contains "not(keyfun == nil)" then
        (match r with
         | .const => ((after "switch place.Type.Kind()" p).bind kindOfXr).map (.mapOp op · .const)
         | .expr => ((after "typeswitch fun := fun.(type)" p).bind kindOfFun).map (.mapOp op · .expr))
      else none
    | none => none

/-- the acceptance test: the path classifies, and the body is the template of the class -/
def accept (e : SEntry) : Bool :=
  match classify e with
  | some .outOfScope => true
  | some sp => e.body == sp.body && e.ret == .other "(Stmt, *Env)"
  | none => false

def acceptAll (l : List SEntry) : Bool := l.all accept

/-- the specs a table must contain (coverage) -/
def specsOf (l : List SEntry) : List ArmSpec := l.filterMap classify

end C02Arms
