/-!
# C24 — the top-level loop of the forked parser versus go/parser's parseFile

Transcribed code
* /repo/go/parser/global.go `Parser.Parse` (48-89): `for p.tok != EOF && p.errors.Len() < 10 { list = append(list,
  p.parseAny()); if p.pos == lastpos1 { error "skipping ..."; p.next() } else { lastpos1 = lastpos2; lastpos2 = p.pos } }`
* global.go `parseAny` (91-123): `if p.tok == COMMENT { p.next() }`, then `switch p.tok`: PACKAGE -> parsePackage,
  IMPORT -> parseGenDecl(IMPORT, parseImportSpec), CONST/TYPE/VAR/FUNC/MACRO/FUNCTION/TEMPLATE -> parseDecl(syncDecl),
  default -> parseStmt with an ExprStmt unwrapped.  (The arms are regenerated into Gen/ParseDispatch.lean and compared
  with `dispatch` by `decide`.)
* GOROOT go/parser `parseFile` (go1.23 2843-2911): package clause (`expect(PACKAGE)`, `parseIdent`, `expectSemi`;
  `return nil` on an error), `for p.tok == IMPORT { parseGenDecl(IMPORT, parseImportSpec) }`, then
  `prev := IMPORT; for p.tok != EOF { if p.tok == IMPORT && prev != IMPORT { error }; prev = p.tok; parseDecl(declStart) }`
  where parseDecl's IMPORT arm is again parseGenDecl(IMPORT, parseImportSpec).

Abstractions.  The productions are PARAMETERS (`Parsers`): a production maps the remaining input to a node, the
remaining input after it and the number of errors it reported ("given equal declaration parsers": both loops are run
over the same `Parsers`).  The input is the list of tokens up to, not including, EOF; `p.tok == EOF` is `[]`.
A position `p.pos` is represented by the number of remaining tokens (a bijection on one input), `token.NoPos` by `none`.
`p.next()` drops one token.  Loops take fuel.
-/
namespace ParseTop

/-- token kinds the two loops look at -/
inductive TK where
  | package | import_ | const_ | type_ | var_ | func_ | macro | function | template | comment | other
  deriving DecidableEq, Repr

/-- production chosen by parseAny -/
inductive Prod where
  | pkg | imp | decl | stmt
  deriving DecidableEq, Repr

/-- the switch of parseAny (global.go 97-121) -/
def dispatch : TK → Prod
  | .package => .pkg
  | .import_ => .imp
  | .const_ | .type_ | .var_ | .func_ | .macro | .function | .template => .decl
  | .comment | .other => .stmt

/-- result of one production: node, remaining input, number of errors reported -/
structure Res (τ ν : Type) where
  node : ν
  rest : List τ
  errs : Nat

structure Parsers (τ ν : Type) where
  kind : τ → TK
  pkg  : List τ → Res τ ν     -- fork: parsePackage; reference: the package clause
  imp  : List τ → Res τ ν     -- parseGenDecl(IMPORT, parseImportSpec)
  decl : List τ → Res τ ν     -- parseDecl
  stmt : List τ → Res τ ν     -- parseStmt (+ unwrapping of an ExprStmt)

variable {τ ν : Type}

def Parsers.run (P : Parsers τ ν) : Prod → List τ → Res τ ν
  | .pkg => P.pkg
  | .imp => P.imp
  | .decl => P.decl
  | .stmt => P.stmt

/-- parseAny: the COMMENT prelude, then the dispatch on the current token.  Returns the production too. -/
def parseAny (P : Parsers τ ν) (toks : List τ) : Prod × Res τ ν :=
  let toks1 := match toks with
    | t :: ts => if P.kind t = .comment then ts else toks
    | [] => toks
  match toks1 with
  | [] => (.stmt, P.stmt [])              -- p.tok == EOF: default arm
  | t :: _ => (dispatch (P.kind t), P.run (dispatch (P.kind t)) toks1)

/-- state of Parser.Parse's loop -/
structure St (τ ν : Type) where
  toks : List τ
  errs : Nat
  last1 : Option Nat
  last2 : Option Nat
  out : List ν
  prods : List Prod      -- trace of the productions chosen (ghost)

/-- the `for` loop of Parser.Parse -/
def forkLoop (P : Parsers τ ν) : Nat → St τ ν → St τ ν
  | 0, s => s
  | f+1, s =>
    match s.toks with
    | [] => s
    | _ :: _ =>
      if 10 ≤ s.errs then s
      else
        let (pr, r) := parseAny P s.toks
        if some r.rest.length = s.last1 then
          -- p.error(p.pos, "skipping ..."); p.next()
          forkLoop P f { toks := r.rest.drop 1, errs := s.errs + r.errs + 1, last1 := s.last1, last2 := s.last2,
                         out := s.out ++ [r.node], prods := s.prods ++ [pr] }
        else
          forkLoop P f { toks := r.rest, errs := s.errs + r.errs, last1 := s.last2, last2 := some r.rest.length,
                         out := s.out ++ [r.node], prods := s.prods ++ [pr] }

def forkInit (toks : List τ) : St τ ν :=
  { toks := toks, errs := 0, last1 := none, last2 := none, out := [], prods := [] }

/-- Parser.Parse: at most `3 * length + 3` iterations (an iteration without progress is followed by a skip). -/
def forkParse (P : Parsers τ ν) (toks : List τ) : St τ ν :=
  forkLoop P (3 * toks.length + 3) (forkInit toks)

/-- reference: `for p.tok == IMPORT { decls = append(decls, parseGenDecl(IMPORT, parseImportSpec)) }` -/
def stdImports (P : Parsers τ ν) : Nat → List τ → List ν × List τ × Nat
  | 0, toks => ([], toks, 0)
  | _+1, [] => ([], [], 0)
  | f+1, t :: ts =>
    if P.kind t = .import_ then
      let r := P.imp (t :: ts)
      let (ns, rest, e) := stdImports P f r.rest
      (r.node :: ns, rest, r.errs + e)
    else ([], t :: ts, 0)

/-- reference: the declaration loop; `prevImport` is `prev == token.IMPORT` -/
def stdDecls (P : Parsers τ ν) : Nat → Bool → List τ → List ν × Nat
  | 0, _, _ => ([], 0)
  | _+1, _, [] => ([], 0)
  | f+1, prevImport, t :: ts =>
    if P.kind t = .import_ then
      let e0 := if prevImport then 0 else 1          -- "imports must appear before other declarations"
      let r := P.imp (t :: ts)                         -- parseDecl, IMPORT arm
      let (ns, e) := stdDecls P f true r.rest
      (r.node :: ns, e0 + r.errs + e)
    else
      let r := P.decl (t :: ts)
      let (ns, e) := stdDecls P f false r.rest
      (r.node :: ns, r.errs + e)

/-- reference parseFile: `none` = `return nil`; otherwise package clause node, Decls, number of errors -/
def stdFile (P : Parsers τ ν) (toks : List τ) : Option (ν × List ν × Nat) :=
  let r := P.pkg toks
  if r.errs ≠ 0 then none
  else
    let (is, rest, e1) := stdImports P (toks.length + 1) r.rest
    let (ds, e2) := stdDecls P (toks.length + 1) true rest
    some (r.node, is ++ ds, e1 + e2)

/-- names of go/token / etoken constants -/
def TK.ofName : String → TK
  | "PACKAGE" => .package | "IMPORT" => .import_ | "CONST" => .const_ | "TYPE" => .type_ | "VAR" => .var_
  | "FUNC" => .func_ | "MACRO" => .macro | "FUNCTION" => .function | "TEMPLATE" => .template | "COMMENT" => .comment
  | _ => .other

def Prod.name : Prod → String
  | .pkg => "package" | .imp => "import" | .decl => "decl" | .stmt => "stmt"

/-- the production an arm body of the regenerated switch calls -/
def prodOfBody (body : String) : Option Prod :=
  if body = "node = p . parsePackage ( )" then some .pkg
  else if body = "node = p . parseGenDecl ( token . IMPORT , p . parseImportSpec )" then some .imp
  else if body = "node = p . parseDecl ( syncDecl )" then some .decl
  else none

/-- lookup in the regenerated arm list -/
def tableDispatch (arms : List (List String × String)) (name : String) : Option Prod :=
  match arms.find? (fun a => a.1.contains name) with
  | some a => prodOfBody a.2
  | none => some .stmt

end ParseTop
