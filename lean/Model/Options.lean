/-!
# Model/Options.lean — mechanism model for C18 (results do not depend on neutral options)

Transcribes the places where gomacro's `fast` interpreter consults `base.Options`
(`Globals.Options & OptXxx`) on the REPL path

  fast/repl.go   ParseEvalPrint, beforeEval, afterEval, cmdOptForceEval, Parse, CompileAst,
                 RunExpr, PrepareEnv
  fast/cmd.go    Interp.Cmd (the ":<code>" forced-evaluation prefix)
  base/global.go CollectAst / CollectNode, Print
  fast/function.go funcGeneric + funcXretY (debugC), fast/statement.go pushEnvIfFlag (debugC),
                 fast/debug.go breakpoint (reads env.DebugComp through the Debugger callback)
  fast/util.go   exprList/funList (final untyped constant of a statement list)

around a small statement machine (integer globals, one-argument functions, blocks, counted loops,
panics, division by zero).  Transcription rules / abstractions:

* `g.Options` is mutable interpreter state.  The bits are split into the two *semantic* bits the
  statement pipeline reads to decide what to compute (`OptMacroExpandOnly`, `OptKeepUntyped`;
  record `Sem`) and the *neutral* bits (`NOpts`, kept in `Obs`).  Nothing in Lean's types stops a
  transition from reading a neutral bit and writing a semantic field: that this never happens is
  exactly theorem `options_neutral`, and it fails for the pre-fix `cmdOptForceEval`
  (`forceEndBuggy`, theorem `forceEval_buggy_not_neutral`).
* Observation-only fields (`Obs`): the neutral option bits, collected declaration/statement
  counts (`Globals.Declarations/Statements`), `DebugComp` of the current frame (`Ctx.dbg`) and the
  `debugC` captured by each compiled function (`funcDbg`), the log of what the Debugger saw at
  breakpoints, the extra lines printed on Stdout by `OptShowEval/OptShowEvalType/OptShowTime`, and
  whether a panic was trapped / printed with a stack trace.
* Go `int` is 64-bit two's complement (`wrap`); literals are rendered by the harness as calls of an
  identity function, so there is no constant folding except for the final untyped constant of a
  chunk (`Fin.kint/krune/kbool`), which is what `OptKeepUntyped` is about.
* Loops and calls take fuel (`run`), written with open recursion (`step`) so that the
  non-interference proof is one case analysis plus an induction on fuel.
* Compile errors are panics raised before anything of the chunk runs (`compileChunk`).
-/
namespace Options

/-! ## Options -/

/-- neutral option bits (observation only) -/
structure NOpts where
  debugger : Bool := false      -- OptDebugger
  collectDecl : Bool := false   -- OptCollectDeclarations
  collectStmt : Bool := false   -- OptCollectStatements
  trapPanic : Bool := false     -- OptTrapPanic
  stackTrace : Bool := false    -- OptPanicStackTrace
  showEval : Bool := false      -- OptShowEval
  showEvalType : Bool := false  -- OptShowEvalType
  showTime : Bool := false      -- OptShowTime
  deriving DecidableEq, Repr, Inhabited

/-! ## Syntax -/

inductive BinOp | add | sub | mul | quo | rem
  deriving DecidableEq, Repr, Inhabited

inductive Expr
  | lit (c : Int)
  | glob (k : Nat)
  | par
  | loc
  | bin (op : BinOp) (a b : Expr)
  | call (k : Nat) (a : Expr)
  deriving Repr, Inhabited

inductive Stmt
  | set (k : Nat) (e : Expr)
  | emit (e : Expr)
  | ifs (c : Expr) (t e : List Stmt)
  | loop (n : Nat) (body : List Stmt)
  | panic (e : Expr)
  | blk (e : Expr) (body : List Stmt)
  | brk
  deriving Repr, Inhabited

/-- what `run` executes -/
inductive Code
  | e (e : Expr)
  | s (s : Stmt)
  | l (l : List Stmt)
  | rep (n : Nat) (body : List Stmt)
  deriving Inhabited

/-- final expression of a chunk -/
inductive Fin
  | none
  | expr (e : Expr)
  | kint (c : Int)    -- untyped integer constant
  | krune (c : Int)   -- untyped rune constant
  | kbool (b : Bool)  -- untyped boolean constant
  deriving Repr, Inhabited

inductive Chunk
  | tog (f : NOpts → NOpts) (bits : Nat)               -- the embedder flips neutral option bits
  | defn (forced : Bool) (k : Nat) (body : List Stmt) (ret : Expr)
  | code (forced : Bool) (stmts : List Stmt) (fin : Fin)
  deriving Inhabited

/-! ## State -/

structure FuncDef where
  body : List Stmt
  ret : Expr
  deriving Repr, Inhabited

/-- values shown by `Print` -/
inductive Val
  | int (v : Int) | i32 (v : Int) | bool (b : Bool)
  | uint (v : Int) | urune (v : Int) | ubool (b : Bool)   -- untyped.Lit
  | form                                                 -- the AST itself (OptMacroExpandOnly)
  deriving DecidableEq, Repr, Inhabited

/-- semantic state: everything a program result can depend on -/
structure Sem where
  globals : List Int := [0, 0, 0, 0]
  funcs : List (Option FuncDef) := []
  line : Nat := 0
  out : List Int := []          -- values passed to emit()
  meo : Bool := false           -- OptMacroExpandOnly
  keep : Bool := false          -- OptKeepUntyped
  deriving Inhabited

/-- observation-only state -/
structure Obs where
  n : NOpts := {}
  decls : Nat := 0
  stmts : Nat := 0
  funcDbg : List Bool := []     -- debugC != nil captured by function k
  brkLog : List Bool := []      -- env.DebugComp != nil seen by Debugger.Breakpoint
  stdout : List String := []    -- lines added by Show* options
  trapped : List Bool := []     -- per panic: recovered by afterEval?
  stack : List Bool := []       -- per trapped panic: printed with stack trace?
  deriving Inhabited

structure St where
  sem : Sem := {}
  obs : Obs := {}
  deriving Inhabited

structure Ctx where
  p : Int := 0
  l : Int := 0
  dbg : Bool := false           -- env.DebugComp != nil
  deriving Inhabited

inductive Res (α : Type)
  | ok (a : α)
  | panic (msg : String)
  | oof                         -- out of fuel (never for the driver's fuel)
  deriving Repr, Inhabited

abbrev M (α : Type) := St → Res α × St

def ret {α} (a : α) : M α := fun s => (.ok a, s)

def bnd {α β} (m : M α) (f : α → M β) : M β := fun s =>
  match m s with
  | (.ok a, s1) => f a s1
  | (.panic msg, s1) => (.panic msg, s1)
  | (.oof, s1) => (.oof, s1)

def throwP {α} (msg : String) : M α := fun s => (.panic msg, s)

/-! ## Integer semantics -/

def two63 : Int := 9223372036854775808
def two64 : Int := 18446744073709551616

/-- Go `int` wrap-around -/
def wrap (x : Int) : Int := (x + two63) % two64 - two63

def divZero : String := "runtime error: integer divide by zero"

def binop (op : BinOp) (x y : Int) : M Int :=
  match op with
  | .add => ret (wrap (x + y))
  | .sub => ret (wrap (x - y))
  | .mul => ret (wrap (x * y))
  | .quo => if y = 0 then throwP divZero else ret (wrap (Int.tdiv x y))
  | .rem => if y = 0 then throwP divZero else ret (wrap (Int.tmod x y))

/-! ## Primitive transitions -/

/-- a transition that touches only the semantic part -/
def semUpd (F : Sem → Sem) : M Unit := fun s => (.ok (), { s with sem := F s.sem })

/-- a transition that touches only the observation part -/
def obsUpd (F : Obs → Obs) : M Unit := fun s => (.ok (), { s with obs := F s.obs })

def getG (k : Nat) : M Int := fun s => (.ok (s.sem.globals.getD k 0), s)

def setG (k : Nat) (v : Int) : M Int :=
  bnd (semUpd fun m => { m with globals := m.globals.set k v }) fun _ => ret 0

def emitO (v : Int) : M Int :=
  bnd (semUpd fun m => { m with out := m.out ++ [v] }) fun _ => ret 0

/-- fast/debug.go `breakpoint()`: the Debugger callback receives the executing env; the harness'
    debugger records `env.DebugComp != nil` and answers DebugOpContinue -/
def logBrk (b : Bool) : M Int :=
  bnd (obsUpd fun o => { o with brkLog := o.brkLog ++ [b] }) fun _ => ret 0

/-- read the neutral options (a site `g.Options & OptXxx`) -/
def withN {α} (f : NOpts → M α) : M α := fun s => f s.obs.n s

/-- read the semantic state -/
def withSem {α} (f : Sem → M α) : M α := fun s => f s.sem s

/-- the function bound to `fk`, with the `debugC` its closure captured -/
def withFunc {α} (k : Nat) (f : Option FuncDef → Bool → M α) : M α := fun s =>
  f ((s.sem.funcs.getD k none)) (s.obs.funcDbg.getD k false) s

/-! ## The statement machine (open recursion) -/

abbrev Rec := Bool → Ctx → Code → M Int

def undefMsg : String := "cerr-undef"

/-- one level of evaluation; `cd` = the `debugC != nil` of the code being executed
    (function.go:419, statement.go:745: captured when the code was compiled) -/
def step (rec : Rec) (cd : Bool) (cx : Ctx) : Code → M Int
  | .e (.lit c) => ret (wrap c)
  | .e (.glob k) => getG k
  | .e .par => ret cx.p
  | .e .loc => ret cx.l
  | .e (.bin op a b) =>
    bnd (rec cd cx (.e a)) fun x => bnd (rec cd cx (.e b)) fun y => binop op x y
  | .e (.call k a) =>
    bnd (rec cd cx (.e a)) fun x =>
      withFunc k fun fd d =>
        match fd with
        | none => throwP undefMsg
        | some fd =>
          -- newEnv4Func(env, nbinds, nintbinds, debugC): the callee frame gets the callee's debugC
          let cx' : Ctx := { p := x, l := 0, dbg := d }
          bnd (rec d cx' (.l fd.body)) fun _ => rec d cx' (.e fd.ret)
  | .s (.set k e) => bnd (rec cd cx (.e e)) fun v => setG k v
  | .s (.emit e) => bnd (rec cd cx (.e e)) fun v => emitO v
  | .s (.ifs c t e) =>
    bnd (rec cd cx (.e c)) fun v => if v ≠ 0 then rec cd cx (.l t) else rec cd cx (.l e)
  | .s (.loop n body) =>
    -- `for i := 0; ...` pushes an env: inner.DebugComp = debugC (statement.go pushEnvIfFlag)
    rec cd { cx with dbg := cd } (.rep n body)
  | .s (.panic e) => bnd (rec cd cx (.e e)) fun v => throwP (toString v)
  | .s (.blk e body) =>
    bnd (rec cd cx (.e e)) fun v => rec cd { cx with l := v, dbg := cd } (.l body)
  | .s .brk => logBrk cx.dbg
  | .l [] => ret 0
  | .l (s :: rest) => bnd (rec cd cx (.s s)) fun _ => rec cd cx (.l rest)
  | .rep 0 _ => ret 0
  | .rep (n + 1) body => bnd (rec cd cx (.l body)) fun _ => rec cd cx (.rep n body)

def run : Nat → Rec
  | 0 => fun _ _ _ s => (.oof, s)
  | f + 1 => step (run f)

/-! ## Compile-time checks -/

def Expr.calls : Expr → List Nat
  | .lit _ | .glob _ | .par | .loc => []
  | .bin _ a b => a.calls ++ b.calls
  | .call k a => k :: a.calls

def callsFuel : Nat → List Stmt → List Nat
  | 0, _ => []
  | _ + 1, [] => []
  | f + 1, s :: rest =>
    (match s with
     | .set _ e | .emit e | .panic e => e.calls
     | .ifs c t e => c.calls ++ callsFuel f t ++ callsFuel f e
     | .loop _ b => callsFuel f b
     | .blk e b => e.calls ++ callsFuel f b
     | .brk => []) ++ callsFuel f rest

def depthBound : Nat := 64

def Fin.calls : Fin → List Nat
  | .expr e => e.calls
  | _ => []

def definedAll (funcs : List (Option FuncDef)) (ks : List Nat) : Bool :=
  ks.all fun k => (funcs.getD k none).isSome

def fitsInt (c : Int) : Bool := decide (-two63 ≤ c ∧ c < two63)
def fitsI32 (c : Int) : Bool := decide (-2147483648 ≤ c ∧ c < 2147483648)

def overflowMsg : String := "cerr-overflow"

/-- value of the final expression once the statements have run.
    `keep = false`: CompileAst / exprList convert an untyped constant to its default type -/
def finConst (keep : Bool) : Fin → Option Val
  | .kint c => some (if keep then .uint c else .int c)
  | .krune c => some (if keep then .urune c else .i32 c)
  | .kbool b => some (if keep then .ubool b else .bool b)
  | _ => none

def finOverflows (keep : Bool) : Fin → Bool
  | .kint c => !keep && !fitsInt c
  | .krune c => !keep && !fitsI32 c
  | _ => false

/-! ## base/global.go CollectAst / CollectNode -/

def collectObs (isDecl : Bool) (count : Nat) (o : Obs) : Obs :=
  if isDecl then (if o.n.collectDecl then { o with decls := o.decls + count } else o)
  else (if o.n.collectStmt then { o with stmts := o.stmts + count } else o)

def collect (isDecl : Bool) (count : Nat) : M Unit := obsUpd (collectObs isDecl count)

/-! ## base/global.go Print (OptShowEval / OptShowEvalType) -/

def runeChar (c : Int) : String := String.singleton (Char.ofNat c.toNat)

def Val.show : Val → String
  | .int v | .i32 v => toString v
  | .bool b => toString b
  | .uint v => "{int " ++ toString v ++ "}"
  | .urune v => "{rune '" ++ runeChar v ++ "'}"
  | .ubool b => "{bool " ++ toString b ++ "}"
  | .form => "FORM"

def Val.typeName : Val → String
  | .int _ => "int" | .i32 _ => "int32" | .bool _ => "bool"
  | .uint _ | .urune _ | .ubool _ => "untyped.Lit"
  | .form => "FORM"

def printObs (vals : List Val) (o : Obs) : Obs :=
  if o.n.showEval then
    { o with stdout := o.stdout ++ vals.map fun v =>
        if o.n.showEvalType then v.show ++ "\t// " ++ v.typeName else v.show }
  else o

def printVals (vals : List Val) : M Unit := obsUpd (printObs vals)

/-! ## fast/repl.go cmdOptForceEval and its deferred restore -/

/-- what the deferred `g.Options |= toenable` will switch on again -/
structure Saved where
  meo : Bool := false
  cd : Bool := false
  cs : Bool := false
  deriving DecidableEq, Repr, Inhabited

/-- `if g.Options&todisable != 0 { g.Options &^= todisable; return ... }; return 0`:
    when none of the three bits is set, clearing them changes nothing and the saved bits are all
    false, so the test is not transcribed -/
def forceBegin (forced : Bool) : M Saved := fun s =>
  if forced then
    (.ok ⟨s.sem.meo, s.obs.n.collectDecl, s.obs.n.collectStmt⟩,
     { sem := { s.sem with meo := false },
       obs := { s.obs with n := { s.obs.n with collectDecl := false, collectStmt := false } } })
  else (.ok {}, s)

/-- repaired code: only the bits that were set come back -/
def forceEnd (sv : Saved) : M Unit := fun s =>
  (.ok (), { sem := { s.sem with meo := s.sem.meo || sv.meo },
             obs := { s.obs with n := { s.obs.n with collectDecl := s.obs.n.collectDecl || sv.cd,
                                                      collectStmt := s.obs.n.collectStmt || sv.cs } } })

/-- code as found (`return todisable`): all three bits are switched on if any was set -/
def forceEndBuggy (sv : Saved) : M Unit := fun s =>
  let any := sv.meo || sv.cd || sv.cs
  (.ok (), { sem := { s.sem with meo := s.sem.meo || any },
             obs := { s.obs with n := { s.obs.n with collectDecl := s.obs.n.collectDecl || any,
                                                      collectStmt := s.obs.n.collectStmt || any } } })

/-! ## One REPL chunk: fast/repl.go ParseEvalPrint -/

/-- semantic outcome of one chunk -/
structure ChunkRes where
  vals : List Val := []
  panic : Option String := none
  deriving DecidableEq, Repr, Inhabited

/-- turns a panic into a value: the `recover()` of afterEval or of the embedder -/
def attempt (m : M (List Val)) : M ChunkRes := fun s =>
  match m s with
  | (.ok v, s1) => (.ok ⟨v, none⟩, s1)
  | (.panic msg, s1) => (.ok ⟨[], some msg⟩, s1)
  | (.oof, s1) => (.oof, s1)

def padTo {α} (l : List α) (n : Nat) (x : α) : List α := l ++ List.replicate (n - l.length) x

def defineFunc (k : Nat) (fd : FuncDef) : M Unit :=
  bnd (semUpd fun m => { m with funcs := (padTo m.funcs (k + 1) none).set k (some fd) }) fun _ =>
  -- function.go: `if c.Globals.Options&base.OptDebugger != 0 { debugC = c }`
  obsUpd fun o => { o with funcDbg := (padTo o.funcDbg (k + 1) false).set k o.n.debugger }

def finCount : Fin → Nat
  | .none => 0
  | _ => 1

/-- RunExpr on a compiled statement list: PrepareEnv sets env.DebugComp iff OptDebugger; the
    top-level code has just been compiled under the same options -/
def runTop (fuel : Nat) (keep : Bool) (stmts : List Stmt) (fin : Fin) : M (List Val) :=
  withN fun o =>
    let cx : Ctx := { p := 0, l := 0, dbg := o.debugger }
    bnd (run fuel o.debugger cx (.l stmts)) fun _ =>
      match fin with
      | .none => ret []
      | .expr e => bnd (run fuel o.debugger cx (.e e)) fun v => ret [Val.int v]
      | f => ret (finConst keep f).toList

/-- Parse (collect) + CompileAst + RunExpr -/
def evalChunk (fuel : Nat) : Chunk → M (List Val)
  | .tog _ _ => ret []
  | .defn _ k body r =>
    bnd (collect true 1) fun _ =>        -- repl.go Parse: g.CollectAst(form); a FuncDecl is a declaration
    withSem fun m =>
      if m.meo then ret [.form]            -- CompileAst: OptMacroExpandOnly returns the form itself
      else if !definedAll m.funcs (callsFuel depthBound body ++ r.calls) then throwP undefMsg
      else bnd (defineFunc k ⟨body, r⟩) fun _ => ret []
  | .code _ stmts fin =>
    bnd (collect false (stmts.length + finCount fin)) fun _ =>
    withSem fun m =>
      if m.meo then ret [.form]
      else if !definedAll m.funcs (callsFuel depthBound stmts ++ fin.calls) then throwP undefMsg
      else if finOverflows m.keep fin then throwP overflowMsg
      else runTop fuel m.keep stmts fin

def incLine : M Unit := semUpd fun m => { m with line := m.line + 1 }

def afterObs (trap duration : Bool) (r : Option String) (o : Obs) : Obs :=
  let o1 := match r with
    | none => o
    | some _ => { o with trapped := o.trapped ++ [trap],
                         stack := if trap then o.stack ++ [o.n.stackTrace] else o.stack }
  -- afterEval is a deferred call: the eval time is printed even while a panic propagates
  if duration then { o1 with stdout := o1.stdout ++ ["TIME"] } else o1

/-- afterEval: report a trapped panic (OptTrapPanic captured by beforeEval, OptPanicStackTrace read now),
    then the eval time (OptShowTime captured by beforeEval) -/
def afterEval (trap duration : Bool) (r : Option String) : M Unit := obsUpd (afterObs trap duration r)

def Chunk.forced : Chunk → Bool
  | .tog _ _ => false
  | .defn f _ _ _ => f
  | .code f _ _ => f

/-- `fixed = true`: cmdOptForceEval as repaired; `false`: as found -/
def parseEvalPrint (fixed : Bool) (fuel : Nat) (ch : Chunk) : M ChunkRes :=
  match ch with
  | .tog f _ => bnd (obsUpd fun o => { o with n := f o.n }) fun _ => ret {}
  | ch =>
    withN fun o =>                                   -- beforeEval: trap, duration
    bnd (forceBegin ch.forced) fun sv =>             -- Cmd + cmdOptForceEval
    bnd (attempt (bnd (evalChunk fuel ch) fun vals => bnd (printVals vals) fun _ => ret vals)) fun r =>
    bnd (if fixed then forceEnd sv else forceEndBuggy sv) fun _ =>   -- deferred g.Options |= toenable
    bnd incLine fun _ =>                             -- afterEval: g.IncLine(src)
    bnd (afterEval o.trapPanic o.showTime r.panic) fun _ => ret r

/-- the embedder evaluates the chunks one by one and recovers panics itself -/
def runChunks (fixed : Bool) (fuel : Nat) : List Chunk → St → List ChunkRes × St
  | [], s => ([], s)
  | ch :: rest, s =>
    match parseEvalPrint fixed fuel ch s with
    | (.ok r, s1) => let (rs, s2) := runChunks fixed fuel rest s1; (r :: rs, s2)
    | (_, s1) => let (rs, s2) := runChunks fixed fuel rest s1; ({ panic := some "oof" } :: rs, s2)

/-- `Interp.Repl`: a panic that afterEval did not trap ends the loop -/
def repl (fixed : Bool) (fuel : Nat) : List Chunk → St → List ChunkRes × St
  | [], s => ([], s)
  | ch :: rest, s =>
    let trap := s.obs.n.trapPanic
    match parseEvalPrint fixed fuel ch s with
    | (.ok r, s1) =>
      if r.panic.isSome && !trap then ([r], s1)
      else let (rs, s2) := repl fixed fuel rest s1; (r :: rs, s2)
    | (_, s1) => ([{ panic := some "oof" }], s1)

/-- untyped result -> the value CompileAst would have produced without OptKeepUntyped -/
def Val.toDefault : Val → Val
  | .uint v => .int v
  | .urune v => .i32 v
  | .ubool b => .bool b
  | v => v

end Options
