import Model.ClosureIR
/-! # C01Arms — the arm templates of the specialised binary/unary/identifier closures

For every Go function of the C01 anchors the table of arms it is *expected* to contain, written
once as a function of the kind (and of the operand shape): `binTable`, `shiftTable`, `unTable`,
`mulPow2Table`, ...  `Props/C01.lean` checks by kernel evaluation that the table regenerated from
the Go source **equals** the expected table (entry for entry: enclosing-condition path, bindings
with their defining expressions, result type, body), and proves once, generically in the kind,
that an expected arm computes the Go operator.  So a wrong operator, operand order, result type,
constant conversion, a missing or additional arm, or a changed guard in one of the ~1500 arms
breaks an obligation. -/
namespace C01Arms
open ClosureIR GoSpec

def goName : Kind → String
  | .bool => "Bool" | .int => "Int" | .int8 => "Int8" | .int16 => "Int16" | .int32 => "Int32"
  | .int64 => "Int64" | .uint => "Uint" | .uint8 => "Uint8" | .uint16 => "Uint16" | .uint32 => "Uint32"
  | .uint64 => "Uint64" | .uintptr => "Uintptr" | .float32 => "Float32" | .float64 => "Float64"
  | .complex64 => "Complex64" | .complex128 => "Complex128" | .string => "String"

def caseK (k : Kind) : String := "case xr." ++ goName k
def caseF (k : Kind) : String := "case func(env *Env) " ++ k.name
def caseF' (k : Kind) : String := "case func(*Env) " ++ k.name

/-- the `reflect.Value` getter used for constants of the kind, and whether its result is converted -/
def getter : Kind → String
  | .bool => "Bool" | .string => "String"
  | .float32 | .float64 => "Float"
  | .complex64 | .complex128 => "Complex"
  | .uint | .uint8 | .uint16 | .uint32 | .uint64 | .uintptr => "Uint"
  | _ => "Int"

def needsConv : Kind → Bool
  | .bool | .string | .int64 | .uint64 | .float64 | .complex128 => false
  | _ => true

/-- `T(rv.Int())` resp. `rv.Int()`: a constant held in a reflect.Value, at kind `k` -/
def constOf (k : Kind) (rv : E) : E :=
  if needsConv k then .conv k (.meth0 rv (getter k)) else .meth0 rv (getter k)

def sintKinds : List Kind := [.int, .int8, .int16, .int32, .int64]
def uintKinds : List Kind := [.uint, .uint8, .uint16, .uint32, .uint64, .uintptr]
def intKinds : List Kind := sintKinds ++ uintKinds
def numKinds : List Kind := intKinds ++ [.float32, .float64, .complex64, .complex128]
def addKinds : List Kind := numKinds ++ [.string]
def ordKinds : List Kind := intKinds ++ [.float32, .float64, .string]
def eqKinds : List Kind := [.bool] ++ numKinds ++ [.string]
def allKinds : List Kind := eqKinds

def xFun : String × E := ("x", .sel (.var "xe") "Fun")
def yFun : String × E := ("y", .sel (.var "ye") "Fun")
def xVal : String × E := ("x", .sel (.var "xe") "Value")
def yVal : String × E := ("y", .sel (.var "ye") "Value")
def xAssert (k : Kind) : String × E := ("x", .assertFun (.var "x") k)
def yAssert (k : Kind) : String × E := ("y", .assertFun (.var "y") k)
def xApp : E := .app (.var "x")
def yApp : E := .app (.var "y")

inductive Shape where | vv | vc | cv
  deriving DecidableEq, Repr

/-- how an arm obtains its constant operand -/
inductive ConstStyle where
  | inline     -- y := T(xr.ValueOf(y).Int())           (binary_ops.go)
  | viaVar     -- yv := xr.ValueOf(ye.Value); y := T(yv.Int())   (binary_relops.go, binary_eqlneq.go)
  deriving DecidableEq, Repr

def binBinds (st : ConstStyle) (sh : Shape) (k : Kind) : List (String × E) :=
  match sh, st with
  | .vv, _ => [xFun, yFun, xAssert k, yAssert k]
  | .vc, .inline => [xFun, yVal, xAssert k, ("y", constOf k (.call1 "xr.ValueOf" (.var "y")))]
  | .cv, .inline => [xVal, yFun, ("x", constOf k (.call1 "xr.ValueOf" (.var "x"))), yAssert k]
  | .vc, .viaVar => [xFun, ("yv", .call1 "xr.ValueOf" (.sel (.var "ye") "Value")), xAssert k, ("y", constOf k (.var "yv"))]
  | .cv, .viaVar => [("xv", .call1 "xr.ValueOf" (.sel (.var "xe") "Value")), yFun, ("x", constOf k (.var "xv")), yAssert k]

def binBody (op : BinOp) (sh : Shape) : List S :=
  match sh with
  | .vv => [.ret (.bin op xApp yApp)]
  | .vc => [.ret (.bin op xApp (.var "y"))]
  | .cv => [.ret (.bin op (.var "x") yApp)]

/-- description of one of `Comp.Add .. Comp.Andnot, Lss .. Geq, Eql, Neq` -/
structure BinFn where
  fn : String
  op : BinOp
  kinds : List Kind
  style : ConstStyle
  pre : Shape → List String        -- enclosing conditions in front of `switch k`

def binArm (f : BinFn) (sh : Shape) (k : Kind) : Arm :=
  { binds := binBinds f.style sh k, ret := .kind (f.op.resultKind k), named := false, body := binBody f.op sh }

def binEntry (f : BinFn) (sh : Shape) (k : Kind) : Entry :=
  { fn := f.fn, path := f.pre sh ++ ["switch k", caseK k], arm := binArm f sh k }

def binTable (f : BinFn) : List Entry :=
  f.kinds.map (binEntry f .vv) ++ f.kinds.map (binEntry f .vc) ++ f.kinds.map (binEntry f .cv)

def nxy : String := "not(xc == yc)"
def gInt : String := "not(!reflect.IsCategory(k, xr.Int, xr.Uint))"

def addFn : BinFn := { fn := "Add", op := .add, kinds := addKinds, style := .inline, pre := fun
  | .vv => ["if xc == yc"]
  | .vc => [nxy, "if yc", "not(y == \"\" || isLiteralNumber(y, 0) && reflect.IsCategory(k, xr.Int, xr.Uint))"]
  | .cv => [nxy, "not(yc)", "not(x == \"\" || isLiteralNumber(x, 0) && reflect.IsCategory(k, xr.Int, xr.Uint))"] }
def subFn : BinFn := { fn := "Sub", op := .sub, kinds := numKinds, style := .inline, pre := fun
  | .vv => ["if xc == yc"]
  | .vc => [nxy, "if yc", "not(isLiteralNumber(y, 0))"]
  | .cv => [nxy, "not(yc)"] }
def mulFn : BinFn := { fn := "Mul", op := .mul, kinds := numKinds, style := .inline, pre := fun
  | .vv => ["if xc == yc"]
  | .vc => [nxy, "if yc", "init ze := c.mulPow2(node, xe, ye)", "not(ze != nil)"]
  | .cv => [nxy, "not(yc)", "init ze := c.mulPow2(node, xe, ye)", "not(ze != nil)"] }
def quoFn : BinFn := { fn := "Quo", op := .quo, kinds := numKinds, style := .inline, pre := fun
  | .vv => ["if xc == yc"]
  | .vc => [nxy, "if yc", "not(isLiteralNumber(y, 0))", "init ze := c.quoPow2(node, xe, ye)", "not(ze != nil)"]
  | .cv => [nxy, "not(yc)"] }
def remFn : BinFn := { fn := "Rem", op := .rem, kinds := intKinds, style := .inline, pre := fun
  | .vv => [gInt, "if xc == yc"]
  | .vc => [gInt, nxy, "if yc", "not(isLiteralNumber(y, 0))", "init ze := c.remPow2(node, xe, ye)", "not(ze != nil)"]
  | .cv => [gInt, nxy, "not(yc)"] }
def andFn : BinFn := { fn := "And", op := .and, kinds := intKinds, style := .inline, pre := fun
  | .vv => [gInt, "if xc == yc"]
  | .vc => [gInt, nxy, "if yc", "not(isLiteralNumber(y, 0))", "not(isLiteralNumber(y, -1))"]
  | .cv => [gInt, nxy, "not(yc)", "not(isLiteralNumber(x, 0))", "not(isLiteralNumber(x, -1))"] }
def orFn : BinFn := { fn := "Or", op := .or, kinds := intKinds, style := .inline, pre := fun
  | .vv => [gInt, "if xc == yc"]
  | .vc => [gInt, nxy, "if yc", "not(isLiteralNumber(y, 0))"]
  | .cv => [gInt, nxy, "not(yc)", "not(isLiteralNumber(x, 0))"] }
def xorFn : BinFn := { fn := "Xor", op := .xor, kinds := intKinds, style := .inline, pre := fun
  | .vv => [gInt, "if xc == yc"]
  | .vc => [gInt, nxy, "if yc", "not(isLiteralNumber(y, 0))"]
  | .cv => [gInt, nxy, "not(yc)", "not(isLiteralNumber(x, 0))"] }
def andnotFn : BinFn := { fn := "Andnot", op := .andNot, kinds := intKinds, style := .inline, pre := fun
  | .vv => [gInt, "if xc == yc"]
  | .vc => [gInt, nxy, "if yc", "not(isLiteralNumber(y, -1))", "not(isLiteralNumber(y, 0))"]
  | .cv => [gInt, nxy, "not(yc)", "not(isLiteralNumber(x, 0))"] }

def relFn (fn : String) (op : BinOp) : BinFn := { fn := fn, op := op, kinds := ordKinds, style := .viaVar, pre := fun
  | .vv => ["if xc == yc"]
  | .vc => [nxy, "if yc"]
  | .cv => [nxy, "not(yc)"] }
def lssFn := relFn "Lss" .lss
def gtrFn := relFn "Gtr" .gtr
def leqFn := relFn "Leq" .leq
def geqFn := relFn "Geq" .geq

def eqPre : List String :=
  ["not(xe.IsNil())", "not(ye.IsNil())", "not(!xe.Type.Comparable() || !xe.Type.Comparable())", "not(k != yk)"]
def eqlFn : BinFn := { fn := "Eql", op := .eql, kinds := eqKinds, style := .viaVar, pre := fun
  | .vv => eqPre ++ ["if xc == yc"]
  | .vc => eqPre ++ [nxy, "if yc", "not(k == xr.Bool && yv.Bool())"]
  | .cv => eqPre ++ [nxy, "not(yc)", "not(k == xr.Bool && xv.Bool())"] }
/-- `Neq` has no `case xr.Bool`: `x != y` on booleans is served by the generic `eqlneqMisc` -/
def neqFn : BinFn := { fn := "Neq", op := .neq, kinds := numKinds ++ [.string], style := .viaVar, pre := fun
  | .vv => eqPre ++ ["if xc == yc"]
  | .vc => eqPre ++ [nxy, "if yc", "not(k == xr.Bool && !yv.Bool())"]
  | .cv => eqPre ++ [nxy, "not(yc)", "not(k == xr.Bool && !xv.Bool())"] }

def binFns : List BinFn :=
  [addFn, subFn, mulFn, quoFn, remFn, andFn, orFn, xorFn, andnotFn, lssFn, gtrFn, leqFn, geqFn, eqlFn, neqFn]

/-! ### shifts -/

def shiftPre : List String := ["init ze := c.prepareShift(node, xe, ye)", "not(ze != nil)"]
def yAsUint64 : String × E := ("y", .meth0 (.var "ye") "AsUint64")

def shiftArm (op : BinOp) (sh : Shape) (k : Kind) : Arm :=
  match sh with
  | .vv => { binds := [xFun, yAsUint64, xAssert k], ret := .kind k, named := false, body := [.ret (.bin op xApp yApp)] }
  | .vc => { binds := [xFun, ("y", .tuple 0 (.call1 "constAsUint64" (.sel (.var "ye") "Value"))), xAssert k],
             ret := .kind k, named := false, body := [.ret (.bin op xApp (.var "y"))] }
  | .cv => { binds := [("xv", .call1 "xr.ValueOf" (.sel (.var "xe") "Value")), yAsUint64, ("x", constOf k (.var "xv"))],
             ret := .kind k, named := false, body := [.ret (.bin op (.var "x") yApp)] }

def shiftPath (sh : Shape) : List String :=
  match sh with
  | .vv => shiftPre ++ ["if xc == yc"]
  | .vc => shiftPre ++ [nxy, "if yc", "not(!ok)", "not(y == 0)"]
  | .cv => shiftPre ++ [nxy, "not(yc)"]

def shiftEntry (fn : String) (op : BinOp) (sh : Shape) (k : Kind) : Entry :=
  { fn := fn, path := shiftPath sh ++ ["switch xk", caseK k], arm := shiftArm op sh k }

def shiftTable (fn : String) (op : BinOp) : List Entry :=
  intKinds.map (shiftEntry fn op .vv) ++ intKinds.map (shiftEntry fn op .vc) ++ intKinds.map (shiftEntry fn op .cv)

/-! ### `Expr.AsUint64` (util.go): the shift count as `func(*Env) uint64` -/

def asUint64Pre : List String := ["not(e == nil)", "not(e.Const())", "not(cat != r.Int && cat != r.Uint)", "typeswitch fun := e.Fun.(type)"]

def panicNeg : S := .ifThen (.bin .lss (.var "i") (.int 0)) (.expr (.call1 "panic" (.var "negativeShiftAmount")))

def asUint64Signed (k : Kind) : Entry :=
  { fn := "AsUint64", path := asUint64Pre ++ [caseF' k],
    arm := { binds := [("fun", .assertFun (.sel (.var "e") "Fun") k)], ret := .kind .uint64, named := false,
             body := [.define "i" (.app (.var "fun")), panicNeg, .ret (.conv .uint64 (.var "i"))] } }

def asUint64Unsigned (k : Kind) : Entry :=
  { fn := "AsUint64", path := asUint64Pre ++ [caseF' k],
    arm := { binds := [("fun", .assertFun (.sel (.var "e") "Fun") k)], ret := .kind .uint64, named := false,
             body := [.ret (.conv .uint64 (.app (.var "fun")))] } }

def asUint64Table : List Entry :=
  [{ fn := "AsUint64", path := ["not(e == nil)", "if e.Const()", "not(!ok)", "return"],
     arm := { binds := [("n", .tuple 0 (.call1 "constAsUint64" (.sel (.var "e") "Value")))], ret := .kind .uint64, named := false,
              body := [.ret (.var "n")] } },
   { fn := "AsUint64", path := asUint64Pre ++ ["case func(*Env) xr.Value", "if cat == r.Int"],
     arm := { binds := [("fun", .assertFunX (.sel (.var "e") "Fun"))], ret := .kind .uint64, named := false,
              body := [.define "i" (.meth0 (.app (.var "fun")) "Int"), panicNeg, .ret (.conv .uint64 (.var "i"))] } },
   { fn := "AsUint64", path := asUint64Pre ++ ["case func(*Env) xr.Value", "not(cat == r.Int)"],
     arm := { binds := [("fun", .assertFunX (.sel (.var "e") "Fun"))], ret := .kind .uint64, named := false,
              body := [.ret (.meth0 (.app (.var "fun")) "Uint")] } },
   { fn := "AsUint64", path := asUint64Pre ++ ["case func(*Env) (xr.Value, []xr.Value)", "if cat == r.Int"],
     arm := { binds := [("fun", .assertFunXV (.sel (.var "e") "Fun"))], ret := .kind .uint64, named := false,
              body := [.define2 "v" "_" (.app (.var "fun")), .define "i" (.meth0 (.var "v") "Int"), panicNeg,
                       .ret (.conv .uint64 (.var "i"))] } },
   { fn := "AsUint64", path := asUint64Pre ++ ["case func(*Env) (xr.Value, []xr.Value)", "not(cat == r.Int)"],
     arm := { binds := [("fun", .assertFunXV (.sel (.var "e") "Fun"))], ret := .kind .uint64, named := false,
              body := [.define2 "v" "_" (.app (.var "fun")), .ret (.meth0 (.var "v") "Uint")] } }]
  ++ sintKinds.map asUint64Signed
  ++ [.uint, .uint8, .uint16, .uint32].map asUint64Unsigned
  ++ [.uintptr].map asUint64Unsigned

/-! ### unary operators -/

def unEntry (fn : String) (op : UnOp) (k : Kind) : Entry :=
  { fn := fn, path := ["typeswitch x := x.(type)", caseF k],
    arm := { binds := [xFun, xAssert k], ret := .kind k, named := false, body := [.ret (.un op xApp)] } }

def unaryMinusTable : List Entry := numKinds.map (unEntry "UnaryMinus" .neg)
def unaryXorTable : List Entry := intKinds.map (unEntry "UnaryXor" .xor)
def unaryNotTable : List Entry := [unEntry "UnaryNot" .not .bool]

/-! ### `exprZero`: evaluate the operand (side effects, panics), return the zero value -/

def exprZeroEntry (k : Kind) : Entry :=
  { fn := "exprZero", path := ["not(xe.Const())", "switch k", caseK k],
    arm := { binds := [xFun, xAssert k], ret := .kind k, named := true, body := [.expr xApp, .retNamed] } }

/-- the `default:` arm for operands of non-basic kind (outside C01; kept so that the regenerated
    table is compared in full) -/
def exprZeroDefault : Entry :=
  { fn := "exprZero", path := ["not(xe.Const())", "switch k", "default"],
    arm := { binds := [("t", .sel (.var "xe") "Type"), xFun, ("zero", .call1 "xr.Zero" (.var "t")),
                       ("x", .call2 "funAsX1" (.var "x") (.var "nil"))],
             ret := .other "xr.Value", named := false, body := [.expr xApp, .ret (.var "zero")] } }

def exprZeroTable : List Entry := allKinds.map exprZeroEntry ++ [exprZeroDefault]

/-! ### power-of-two shortcuts -/

def pow2Pre (fn : String) : List String :=
  match fn with
  | "mulPow2" => ["not(xe.Const() == ye.Const())", "not(!reflect.IsCategory(xe.Type.Kind(), xr.Int, xr.Uint))",
      "not(isLiteralNumber(ye.Value, 0))", "not(isLiteralNumber(ye.Value, 1))", "not(isLiteralNumber(ye.Value, -1))",
      "not(!isPowerOfTwo(y))", "switch xe.Type.Kind()"]
  | "quoPow2" => ["not(xe.Const() || !ye.Const())", "not(xcat != xr.Int && xcat != xr.Uint)",
      "not(isLiteralNumber(ye.Value, 0))", "not(isLiteralNumber(ye.Value, 1))",
      "not(xcat == xr.Int && isLiteralNumber(ye.Value, -1))", "not(!isPowerOfTwo(y))", "switch xe.Type.Kind()"]
  | _ => ["not(xe.Const() || !ye.Const())", "not(isLiteralNumber(ye.Value, 0))", "not(isLiteralNumber(ye.Value, 1))",
      "not(!isPowerOfTwo(y))", "switch xe.Type.Kind()"]

def yDecl : String × E := ("y", .decl "uint64")
def shiftBind : String × E := ("shift", .bin .sub (.call1 "integerLen" (.var "y")) (.int 1))
def y1Bind (k : Kind) : String × E := ("y_1", .conv k (.bin .sub (.var "y") (.int 1)))

def mulPow2Lit (k : Kind) (sub : List String) (n : Int) : Entry :=
  { fn := "mulPow2", path := pow2Pre "mulPow2" ++ [caseK k] ++ sub ++ ["switch shift", "case " ++ toString n],
    arm := { binds := [xFun, xAssert k], ret := .kind k, named := false, body := [.ret (.bin .shl xApp (.int n))] } }

def mulPow2Default (k : Kind) (sub : List String) : Entry :=
  { fn := "mulPow2", path := pow2Pre "mulPow2" ++ [caseK k] ++ sub ++ ["switch shift", "default"],
    arm := { binds := [yDecl, shiftBind, xFun, xAssert k], ret := .kind k, named := false,
             body := [.ret (.bin .shl xApp (.var "shift"))] } }

def mulPow2Neg (k : Kind) : Entry :=
  { fn := "mulPow2", path := pow2Pre "mulPow2" ++ [caseK k, "not(ypositive)"],
    arm := { binds := [yDecl, shiftBind, xFun, xAssert k], ret := .kind k, named := false,
             body := [.ret (.un .neg (.bin .shl xApp (.var "shift")))] } }

def mulPow2Signed (k : Kind) : List Entry :=
  [mulPow2Lit k ["if ypositive"] 1, mulPow2Lit k ["if ypositive"] 2, mulPow2Lit k ["if ypositive"] 8,
   mulPow2Default k ["if ypositive"], mulPow2Neg k]
def mulPow2Unsigned (k : Kind) : List Entry :=
  [mulPow2Lit k [] 1, mulPow2Lit k [] 2, mulPow2Lit k [] 8, mulPow2Default k []]

def mulPow2Table : List Entry := (sintKinds.map mulPow2Signed).flatten ++ (uintKinds.map mulPow2Unsigned).flatten

def quoBody (neg : Bool) : List S :=
  [.define "n" xApp,
   .ifThen (.bin .lss (.var "n") (.int 0)) (.opAssign (.var "n") .add (.var "y_1")),
   .ret (if neg then .un .neg (.bin .shr (.var "n") (.var "shift")) else .bin .shr (.var "n") (.var "shift"))]

def quoPow2Signed (k : Kind) : List Entry :=
  [{ fn := "quoPow2", path := pow2Pre "quoPow2" ++ [caseK k, "if ypositive"],
     arm := { binds := [yDecl, shiftBind, xFun, xAssert k, y1Bind k], ret := .kind k, named := false, body := quoBody false } },
   { fn := "quoPow2", path := pow2Pre "quoPow2" ++ [caseK k, "not(ypositive)"],
     arm := { binds := [yDecl, shiftBind, xFun, xAssert k, y1Bind k], ret := .kind k, named := false, body := quoBody true } }]

def quoPow2Unsigned (k : Kind) : Entry :=
  { fn := "quoPow2", path := pow2Pre "quoPow2" ++ [caseK k],
    arm := { binds := [yDecl, shiftBind, xFun, xAssert k], ret := .kind k, named := false,
             body := [.ret (.bin .shr xApp (.var "shift"))] } }

def quoPow2Table : List Entry := (sintKinds.map quoPow2Signed).flatten ++ uintKinds.map quoPow2Unsigned

def remPow2Signed (k : Kind) : Entry :=
  { fn := "remPow2", path := pow2Pre "remPow2" ++ [caseK k],
    arm := { binds := [yDecl, xFun, xAssert k, y1Bind k], ret := .kind k, named := false,
             body := [.define "n" xApp,
                      .ifThen (.bin .geq (.var "n") (.int 0)) (.ret (.bin .and (.var "n") (.var "y_1"))),
                      .ret (.un .neg (.bin .and (.un .neg (.var "n")) (.var "y_1")))] } }

def remPow2Unsigned (k : Kind) : Entry :=
  { fn := "remPow2", path := pow2Pre "remPow2" ++ [caseK k],
    arm := { binds := [yDecl, xFun, xAssert k, y1Bind k], ret := .kind k, named := false,
             body := [.ret (.bin .and xApp (.var "y_1"))] } }

def remPow2Table : List Entry := sintKinds.map remPow2Signed ++ uintKinds.map remPow2Unsigned

/-! ### `Land`, `Lor` -/

def xfunBind : String × E := ("xfun", .tuple 1 (.meth0 (.var "x") "TryAsPred"))
def yfunBind : String × E := ("yfun", .tuple 1 (.meth0 (.var "y") "TryAsPred"))

def landTable : List Entry :=
  [{ fn := "Land", path := ["not(xerr || yerr)", "not(xfun == nil)", "if yfun == nil", "not(yval)", "return c.exprBool"],
     arm := { binds := [xfunBind], ret := .kind .bool, named := false,
              body := [.ret (.bin .land (.app (.var "xfun")) (.var "false"))] } },
   { fn := "Land", path := ["not(xerr || yerr)", "not(xfun == nil)", "not(yfun == nil)", "return c.exprBool"],
     arm := { binds := [xfunBind, yfunBind], ret := .kind .bool, named := false,
              body := [.ret (.bin .land (.app (.var "xfun")) (.app (.var "yfun")))] } }]

def lorTable : List Entry :=
  [{ fn := "Lor", path := ["not(xerr || yerr)", "not(xfun == nil)", "if yfun == nil", "if yval", "return c.exprBool"],
     arm := { binds := [xfunBind], ret := .kind .bool, named := false,
              body := [.ret (.bin .lor (.app (.var "xfun")) (.var "true"))] } },
   { fn := "Lor", path := ["not(xerr || yerr)", "not(xfun == nil)", "not(yfun == nil)", "return c.exprBool"],
     arm := { binds := [xfunBind, yfunBind], ret := .kind .bool, named := false,
              body := [.ret (.bin .lor (.app (.var "xfun")) (.app (.var "yfun")))] } }]

/-! ### identifier reads (identifier.go) -/

/-- hops from the closure's `env` to the frame of the variable -/
inductive Hops where
  | h0 | h1 | h2 | file | top | up
  deriving DecidableEq, Repr

def hopsEnv : Hops → E
  | .h0 | .up => .var "env"
  | .h1 => .sel (.var "env") "Outer"
  | .h2 => .sel (.sel (.var "env") "Outer") "Outer"
  | .file => .sel (.var "env") "FileEnv"
  | .top => .sel (.sel (.var "env") "FileEnv") "Outer"

def hopsCase (depthCase : Bool) : Hops → List String
  | .h0 => []
  | .h1 => ["switch upn", "case 1"]
  | .h2 => ["switch upn", "case 2"]
  | .file => ["switch upn", "case depth - 1"]
  | .top => ["switch upn", if depthCase then "case depth" else "default"]
  | .up => ["switch upn", "default"]

/-- boxed read `T(env...Vals[idx].Int())` -/
def valsRead (obj : String) (h : Hops) (k : Kind) : Arm :=
  let idx : String × E := ("idx", .meth0 (.sel (.var obj) "Desc") "Index")
  let rd : E := constOf k (.index (.sel (hopsEnv h) "Vals") (.var "idx"))
  match h with
  | .up => { binds := [idx, ("upn", .sel (.var obj) "Upn")], ret := .kind k, named := false,
             body := [.assign (.var "env") (.meth1 (.var "env") "Up" (.var "upn")), .ret rd] }
  | _ => { binds := [idx], ret := .kind k, named := false, body := [.ret rd] }

/-- unboxed read `*(*T)(unsafe.Pointer(&env...Ints[idx]))`; uint64 reads the slot directly -/
def intsRead (obj : String) (h : Hops) (k : Kind) : Arm :=
  let idx : String × E := ("idx", .meth0 (.sel (.var obj) "Desc") "Index")
  let slot : E := .index (.sel (hopsEnv h) "Ints") (.var "idx")
  let rd : E := if k = .uint64 then slot else .deref (.ptrCast k (.call1 "unsafe.Pointer" (.addr slot)))
  match h with
  | .up => { binds := [("upn", .sel (.var obj) "Upn"), idx], ret := .kind k, named := false,
             body := [.assign (.var "env") (.meth1 (.var "env") "Up" (.var "upn")), .ret rd] }
  | _ => { binds := [idx], ret := .kind k, named := false, body := [.ret rd] }

def intsKinds : List Kind := [.bool] ++ numKinds

/-- `default:` arm: variables of non-basic kind are returned as `reflect.Value` (outside C01) -/
def valsReadX (obj : String) (h : Hops) : Arm :=
  let idx : String × E := ("idx", .meth0 (.sel (.var obj) "Desc") "Index")
  let rd : E := .index (.sel (hopsEnv h) "Vals") (.var "idx")
  match h with
  | .up => { binds := [idx, ("upn", .sel (.var obj) "Upn")], ret := .other "xr.Value", named := false,
             body := [.assign (.var "env") (.meth1 (.var "env") "Up" (.var "upn")), .ret rd] }
  | _ => { binds := [idx], ret := .other "xr.Value", named := false, body := [.ret rd] }

def bindExprTable : List Entry :=
  (allKinds.map fun k => { fn := "Bind.expr", path := ["switch bind.Type.Kind()", caseK k], arm := valsRead "bind" .h0 k })
  ++ [{ fn := "Bind.expr", path := ["switch bind.Type.Kind()", "default"], arm := valsReadX "bind" .h0 }]
def bindIntExprTable : List Entry :=
  intsKinds.map fun k => { fn := "Bind.intExpr", path := ["switch bind.Type.Kind()", caseK k], arm := intsRead "bind" .h0 k }
def symbolExprTable : List Entry :=
  ([Hops.h1, .h2, .file, .top, .up].map fun h =>
    (allKinds.map fun k => { fn := "Symbol.expr", path := hopsCase true h ++ ["switch kind", caseK k], arm := valsRead "sym" h k })
    ++ [{ fn := "Symbol.expr", path := hopsCase true h ++ ["switch kind", "default"], arm := valsReadX "sym" h }]).flatten
def symbolIntExprTable : List Entry :=
  ([Hops.h1, .h2, .file, .up].map fun h =>
    intsKinds.map fun k => { fn := "Symbol.intExpr", path := hopsCase false h ++ ["switch k", caseK k], arm := intsRead "sym" h k }).flatten

end C01Arms
