/-!
# C24 / C25 — the expression core of the forked parser over a token-list model

Transcribed from /repo/go/parser/parser.go (the same code, modulo renames, as GOROOT go/parser):

* `parseBinaryExpr(lhs, prec1)` (1725-1744): `x := parseUnaryExpr`; loop `op, oprec := tokPrec();
  if oprec < prec1 { return x }; expect(op); y := parseBinaryExpr(false, oprec+1); x = BinaryExpr{x, op, y}`
  — here `parseBinary` + `binLoop` (the `for` loop is a function of the accumulated `x`).
* `parseUnaryExpr` (1647-1714): `+ - ! ^ &` -> `UnaryExpr{op, parseUnaryExpr}`; `<-` -> `UnaryExpr` (the
  channel-type re-association is outside the model: operands are never channel types); `*` -> `StarExpr`
  (here: one more prefix operator; the driver prints it as such); otherwise `parsePrimaryExpr`.
* `parsePrimaryExpr` (1592-1644): `parseOperand`, then the postfix loop `.ident`, `[expr]`, `(arg)`
  — here `parsePrimary` + `postLoop`.  Not modelled: type assertions, slices, composite literals, several
  call arguments, `...`.
* `parseOperand` (1223-1281): identifier / basic literal -> `atom`; `( expr )` -> `ParenExpr`.
* `tokPrec` (1716-1722): `tok.Precedence()` of go/token — the table is a PARAMETER `binPrec` of the model
  (instantiated with the table extracted from go/token by the extractor, `Gen/ParseDispatch.lean`); a token that
  is no binary operator has precedence 0 = `token.LowestPrec`, so `oprec < prec1` ends the loop (`prec1 ≥ 1`).
  (`=` read as `==` inside `inRhs` is a property of the statement level, not of this model.)

Abstractions: `lhs`/`resolve`/`checkExpr` bookkeeping (no effect on the tree shape), positions, error recovery
(an error is `none`).  Loops and recursion run on a fuel argument; `parseExpr` supplies enough fuel.
-/
namespace ParseExpr

inductive Tok where
  | atom (n : Nat)      -- identifier or basic literal number n
  | op (o : Nat)        -- operator token (value of go/token's constant)
  | lparen | rparen | lbrack | rbrack | period
  deriving DecidableEq, Repr

inductive Expr where
  | atom (n : Nat)
  | bin (l : Expr) (o : Nat) (r : Expr)      -- ast.BinaryExpr
  | un (o : Nat) (x : Expr)                  -- ast.UnaryExpr / ast.StarExpr
  | paren (x : Expr)                         -- ast.ParenExpr
  | sel (x : Expr) (n : Nat)                 -- ast.SelectorExpr
  | index (x : Expr) (i : Expr)              -- ast.IndexExpr
  | call (f : Expr) (a : Expr)               -- ast.CallExpr with one argument
  deriving DecidableEq, Repr

/-- The operator tables: binary precedence (`token.Token.Precedence`, 0 = not a binary operator) and the
    prefix operators of `parseUnaryExpr`. -/
structure Tables where
  binPrec : Nat → Nat
  isUnary : Nat → Bool

variable (T : Tables)

mutual
  /-- parser.go parseBinaryExpr -/
  def parseBinary : Nat → Nat → List Tok → Option (Expr × List Tok)
    | 0, _, _ => none
    | f+1, p1, ts =>
      match parseUnary f ts with
      | none => none
      | some (x, ts') => binLoop f p1 x ts'
  /-- the `for` loop of parseBinaryExpr -/
  def binLoop : Nat → Nat → Expr → List Tok → Option (Expr × List Tok)
    | 0, _, _, _ => none
    | f+1, p1, x, ts =>
      match ts with
      | Tok.op o :: rest =>
        if T.binPrec o < p1 then some (x, ts)
        else
          match parseBinary f (T.binPrec o + 1) rest with
          | none => none
          | some (y, ts') => binLoop f p1 (Expr.bin x o y) ts'
      | _ => some (x, ts)
  /-- parser.go parseUnaryExpr -/
  def parseUnary : Nat → List Tok → Option (Expr × List Tok)
    | 0, _ => none
    | f+1, ts =>
      match ts with
      | Tok.op o :: rest =>
        if T.isUnary o then
          match parseUnary f rest with
          | none => none
          | some (x, ts') => some (Expr.un o x, ts')
        else none            -- parseOperand: "expected operand"
      | _ => parsePrimary f ts
  /-- parser.go parsePrimaryExpr: operand, then the postfix loop -/
  def parsePrimary : Nat → List Tok → Option (Expr × List Tok)
    | 0, _ => none
    | f+1, ts =>
      match ts with
      | Tok.atom n :: rest => postLoop f (Expr.atom n) rest
      | Tok.lparen :: rest =>
        match parseBinary f 1 rest with
        | some (x, Tok.rparen :: ts') => postLoop f (Expr.paren x) ts'
        | _ => none
      | _ => none
  /-- the `for` loop of parsePrimaryExpr -/
  def postLoop : Nat → Expr → List Tok → Option (Expr × List Tok)
    | 0, _, _ => none
    | f+1, x, ts =>
      match ts with
      | Tok.period :: Tok.atom n :: rest => postLoop f (Expr.sel x n) rest
      | Tok.period :: _ => none
      | Tok.lbrack :: rest =>
        match parseBinary f 1 rest with
        | some (i, Tok.rbrack :: ts') => postLoop f (Expr.index x i) ts'
        | _ => none
      | Tok.lparen :: rest =>
        match parseBinary f 1 rest with
        | some (a, Tok.rparen :: ts') => postLoop f (Expr.call x a) ts'
        | _ => none
      | _ => some (x, ts)
end

/-- `parseExpr` = `parseBinaryExpr(lhs, token.LowestPrec+1)`; the whole input must be consumed.
    Fuel: `6 * size t` suffices for a tree `t` (Proofs/ParseExpr.lean `roundtrip_aux`) and `size t ≤` number of tokens. -/
def parseExpr (ts : List Tok) : Option Expr :=
  match parseBinary T (6 * ts.length + 6) 1 ts with
  | some (x, []) => some x
  | _ => none

/-- in-order token sequence of a tree (explicit `paren` nodes only) -/
def flatten : Expr → List Tok
  | .atom n => [Tok.atom n]
  | .bin l o r => flatten l ++ Tok.op o :: flatten r
  | .un o x => Tok.op o :: flatten x
  | .paren x => Tok.lparen :: flatten x ++ [Tok.rparen]
  | .sel x n => flatten x ++ [Tok.period, Tok.atom n]
  | .index x i => flatten x ++ Tok.lbrack :: flatten i ++ [Tok.rbrack]
  | .call f a => flatten f ++ Tok.lparen :: flatten a ++ [Tok.rparen]

/-- precedence level of the root: binary operators 1..5, unary 6 (`token.UnaryPrec`), primary 7
    (`token.HighestPrec`) -/
def level : Expr → Nat
  | .bin _ o _ => T.binPrec o
  | .un _ _ => 6
  | _ => 7

/-- The tree respects precedence and left associativity, i.e. it needs no further parentheses:
    the left operand of a binary operator binds at least as tightly, the right operand strictly tighter,
    a prefix operator applies to a unary/primary expression, a postfix form to a primary expression. -/
def WF : Expr → Prop
  | .atom _ => True
  | .bin l o r => 1 ≤ T.binPrec o ∧ T.binPrec o ≤ level T l ∧ T.binPrec o + 1 ≤ level T r ∧ WF l ∧ WF r
  | .un o x => T.isUnary o = true ∧ 6 ≤ level T x ∧ WF x
  | .paren x => WF x
  | .sel x _ => level T x = 7 ∧ WF x
  | .index x i => level T x = 7 ∧ WF x ∧ WF i
  | .call f a => level T f = 7 ∧ WF f ∧ WF a

/-- executable form of `WF` (used by the drivers; `wfb_iff` in Proofs/ParseExpr.lean) -/
def wfb : Expr → Bool
  | .atom _ => true
  | .bin l o r => decide (1 ≤ T.binPrec o) && decide (T.binPrec o ≤ level T l) && decide (T.binPrec o + 1 ≤ level T r) && wfb l && wfb r
  | .un o x => T.isUnary o && decide (6 ≤ level T x) && wfb x
  | .paren x => wfb x
  | .sel x _ => decide (level T x = 7) && wfb x
  | .index x i => decide (level T x = 7) && wfb x && wfb i
  | .call f a => decide (level T f = 7) && wfb f && wfb a

/-- precedence of the token that follows (0 if it is no operator) -/
def headPrec : List Tok → Nat
  | Tok.op o :: _ => T.binPrec o
  | _ => 0

/-- the next token does not continue a primary expression -/
def stopPost : List Tok → Bool
  | Tok.period :: _ => false
  | Tok.lbrack :: _ => false
  | Tok.lparen :: _ => false
  | _ => true

/-- S-expression rendering used by the drivers -/
def render : Expr → String
  | .atom n => s!"a{n}"
  | .bin l o r => s!"(b{o} {render l} {render r})"
  | .un o x => s!"(u{o} {render x})"
  | .paren x => s!"(p {render x})"
  | .sel x n => s!"(s {render x} a{n})"
  | .index x i => s!"(i {render x} {render i})"
  | .call f a => s!"(c {render f} {render a})"

end ParseExpr
