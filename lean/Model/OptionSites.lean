import Gen.OptionUses
/-!
# Model/OptionSites.lean — hand classification of every use of an option flag (C18)

One entry per line of the regenerated table `Gen/OptionUses.lean` (extractor harness/c18extract.go:
file, enclosing function, flag, syntactic position + fingerprint of the guarded code, number of
occurrences), in the same order, with the class the use was given BY READING THE CODE:

* `print`      the guarded code only prints (Debugf / Fprintf on Stdout), or the flag is stored in a
               local `debug`/`trace` variable that only guards such prints
* `debugInfo`  the guarded code stores debugger information nothing else reads: `debugC`/`DebugComp`
               (function.go, funcXretY.go, statement.go, repl.go prepareEnv, import.go), the parser
               mode bits CopySources / Trace (base/global.go ParseBytes)
* `collect`    appends to Globals.Declarations / Statements / Imports (base/global.go CollectAst,
               CollectNode; repl.go Parse)
* `control`    REPL reporting and signal handling outside program evaluation: trap/stack trace/eval
               time in beforeEval/afterEval and the debugger's own Eval, prompt selection, Ctrl+C
               routing (Run.interrupt), the artificial sleep of OptDebugSleepOnSwitch, the debug
               depth of xreflect (cmdOptions)
* `forceEval`  fast/repl.go cmdOptForceEval: the collect flags are cleared for one ":" command and
               switched on again afterwards (transcribed as forceBegin/forceEnd; the code as found
               switched on OptMacroExpandOnly as well: forceEndBuggy)
* `config`     the flag is only written: command line (cmd/cmd.go), defaults (NewGlobals), the
               temporary clearing in EvalReader, `:options`
* `table`      declaration of the constants and their names (base/type.go)
* `semantic`   the guarded code decides what is computed: OptMacroExpandOnly (no evaluation),
               OptKeepUntyped (no final ConstTo), OptModuleImport (how a package is imported)

Theorems in Props/C18.lean check by `decide` that the table is complete and in step with the
sources (`all_sites_classified`), and that no use of a neutral flag is classified `semantic`.
-/
namespace Options
open OptionUses

inductive SiteClass | print | debugInfo | collect | control | forceEval | config | table | semantic
  deriving DecidableEq, Repr

structure Entry where
  site : Site
  cls : SiteClass
  deriving DecidableEq, Repr

def classified : List Entry := [
  ⟨⟨"base/global.go", "Globals.CollectAst", "OptCollectDeclarations", "test:return", 1⟩, .collect⟩,
  ⟨⟨"base/global.go", "Globals.CollectAst", "OptCollectStatements", "test:return", 1⟩, .collect⟩,
  ⟨⟨"base/global.go", "Globals.CollectNode", "OptCollectDeclarations", "flag:collectDecl", 1⟩, .collect⟩,
  ⟨⟨"base/global.go", "Globals.CollectNode", "OptCollectStatements", "flag:collectStmt", 1⟩, .collect⟩,
  ⟨⟨"base/global.go", "Globals.ParseBytes", "OptDebugParse", "test:mode=", 1⟩, .debugInfo⟩,
  ⟨⟨"base/global.go", "Globals.ParseBytes", "OptDebugger", "test:mode=", 1⟩, .debugInfo⟩,
  ⟨⟨"base/global.go", "Globals.Print", "OptShowEval", "test:Fprintf(),ReflectValue(),ValueType(),len(),ti=", 1⟩, .print⟩,
  ⟨⟨"base/global.go", "Globals.Print", "OptShowEvalType", "test:Fprintf(),ReflectValue(),ValueType(),len(),ti=", 1⟩, .print⟩,
  ⟨⟨"base/global.go", "Globals.PrintR", "OptShowEval", "test:Fprintf(),ValueTypeR(),len(),ti=", 1⟩, .print⟩,
  ⟨⟨"base/global.go", "Globals.PrintR", "OptShowEvalType", "test:Fprintf(),ValueTypeR(),len(),ti=", 1⟩, .print⟩,
  ⟨⟨"base/global.go", "NewGlobals", "OptModuleImport", "flag:options", 1⟩, .config⟩,
  ⟨⟨"base/global.go", "NewGlobals", "OptTrapPanic", "flag:options", 1⟩, .config⟩,
  ⟨⟨"base/type.go", "<toplevel>", "OptCollectDeclarations", "table", 2⟩, .table⟩,
  ⟨⟨"base/type.go", "<toplevel>", "OptCollectStatements", "table", 2⟩, .table⟩,
  ⟨⟨"base/type.go", "<toplevel>", "OptCtrlCEnterDebugger", "table", 2⟩, .table⟩,
  ⟨⟨"base/type.go", "<toplevel>", "OptDebugCallStack", "table", 2⟩, .table⟩,
  ⟨⟨"base/type.go", "<toplevel>", "OptDebugDebugger", "table", 2⟩, .table⟩,
  ⟨⟨"base/type.go", "<toplevel>", "OptDebugField", "table", 2⟩, .table⟩,
  ⟨⟨"base/type.go", "<toplevel>", "OptDebugFromReflect", "table", 2⟩, .table⟩,
  ⟨⟨"base/type.go", "<toplevel>", "OptDebugGenerics", "table", 2⟩, .table⟩,
  ⟨⟨"base/type.go", "<toplevel>", "OptDebugMacroExpand", "table", 2⟩, .table⟩,
  ⟨⟨"base/type.go", "<toplevel>", "OptDebugMethod", "table", 2⟩, .table⟩,
  ⟨⟨"base/type.go", "<toplevel>", "OptDebugParse", "table", 2⟩, .table⟩,
  ⟨⟨"base/type.go", "<toplevel>", "OptDebugQuasiquote", "table", 2⟩, .table⟩,
  ⟨⟨"base/type.go", "<toplevel>", "OptDebugRecover", "table", 2⟩, .table⟩,
  ⟨⟨"base/type.go", "<toplevel>", "OptDebugSleepOnSwitch", "table", 2⟩, .table⟩,
  ⟨⟨"base/type.go", "<toplevel>", "OptDebugger", "table", 2⟩, .table⟩,
  ⟨⟨"base/type.go", "<toplevel>", "OptKeepUntyped", "table", 2⟩, .table⟩,
  ⟨⟨"base/type.go", "<toplevel>", "OptMacroExpandOnly", "table", 2⟩, .table⟩,
  ⟨⟨"base/type.go", "<toplevel>", "OptModuleImport", "table", 2⟩, .table⟩,
  ⟨⟨"base/type.go", "<toplevel>", "OptPanicStackTrace", "table", 2⟩, .table⟩,
  ⟨⟨"base/type.go", "<toplevel>", "OptShowCompile", "table", 2⟩, .table⟩,
  ⟨⟨"base/type.go", "<toplevel>", "OptShowEval", "table", 2⟩, .table⟩,
  ⟨⟨"base/type.go", "<toplevel>", "OptShowEvalType", "table", 2⟩, .table⟩,
  ⟨⟨"base/type.go", "<toplevel>", "OptShowMacroExpand", "table", 2⟩, .table⟩,
  ⟨⟨"base/type.go", "<toplevel>", "OptShowParse", "table", 2⟩, .table⟩,
  ⟨⟨"base/type.go", "<toplevel>", "OptShowPrompt", "table", 2⟩, .table⟩,
  ⟨⟨"base/type.go", "<toplevel>", "OptShowTime", "table", 2⟩, .table⟩,
  ⟨⟨"base/type.go", "<toplevel>", "OptTrapPanic", "table", 2⟩, .table⟩,
  ⟨⟨"cmd/cmd.go", "Cmd.EvalFile", "OptShowEval", "test:Fprintf()", 1⟩, .print⟩,
  ⟨⟨"cmd/cmd.go", "Cmd.Init", "OptCtrlCEnterDebugger", "write:|=", 1⟩, .config⟩,
  ⟨⟨"cmd/cmd.go", "Cmd.Init", "OptDebugger", "write:|=", 1⟩, .config⟩,
  ⟨⟨"cmd/cmd.go", "Cmd.Init", "OptKeepUntyped", "write:|=", 1⟩, .config⟩,
  ⟨⟨"cmd/cmd.go", "Cmd.Init", "OptShowEval", "write:|=", 1⟩, .config⟩,
  ⟨⟨"cmd/cmd.go", "Cmd.Init", "OptShowEvalType", "write:|=", 1⟩, .config⟩,
  ⟨⟨"cmd/cmd.go", "Cmd.Init", "OptShowPrompt", "write:|=", 1⟩, .config⟩,
  ⟨⟨"cmd/cmd.go", "Cmd.Init", "OptTrapPanic", "write:|=", 1⟩, .config⟩,
  ⟨⟨"cmd/cmd.go", "Cmd.Main", "OptCollectDeclarations", "write:|=", 2⟩, .config⟩,
  ⟨⟨"cmd/cmd.go", "Cmd.Main", "OptCollectStatements", "write:|=", 2⟩, .config⟩,
  ⟨⟨"cmd/cmd.go", "Cmd.Main", "OptMacroExpandOnly", "flag:clear", 2⟩, .config⟩,
  ⟨⟨"cmd/cmd.go", "Cmd.Main", "OptMacroExpandOnly", "flag:set", 2⟩, .config⟩,
  ⟨⟨"cmd/cmd.go", "Cmd.Main", "OptPanicStackTrace", "flag:clear", 2⟩, .config⟩,
  ⟨⟨"cmd/cmd.go", "Cmd.Main", "OptPanicStackTrace", "flag:set", 2⟩, .config⟩,
  ⟨⟨"cmd/cmd.go", "Cmd.Main", "OptShowEval", "flag:clear", 3⟩, .config⟩,
  ⟨⟨"cmd/cmd.go", "Cmd.Main", "OptShowEval", "flag:set", 3⟩, .config⟩,
  ⟨⟨"cmd/cmd.go", "Cmd.Main", "OptShowEval", "write:&^=", 1⟩, .config⟩,
  ⟨⟨"cmd/cmd.go", "Cmd.Main", "OptShowEval", "write:|=", 2⟩, .config⟩,
  ⟨⟨"cmd/cmd.go", "Cmd.Main", "OptShowEvalType", "flag:clear", 3⟩, .config⟩,
  ⟨⟨"cmd/cmd.go", "Cmd.Main", "OptShowEvalType", "flag:set", 3⟩, .config⟩,
  ⟨⟨"cmd/cmd.go", "Cmd.Main", "OptShowEvalType", "write:&^=", 1⟩, .config⟩,
  ⟨⟨"cmd/cmd.go", "Cmd.Main", "OptShowEvalType", "write:|=", 1⟩, .config⟩,
  ⟨⟨"cmd/cmd.go", "Cmd.Main", "OptShowPrompt", "flag:clear", 1⟩, .config⟩,
  ⟨⟨"cmd/cmd.go", "Cmd.Main", "OptShowPrompt", "flag:set", 1⟩, .config⟩,
  ⟨⟨"cmd/cmd.go", "Cmd.Main", "OptShowPrompt", "write:&^=", 1⟩, .config⟩,
  ⟨⟨"cmd/cmd.go", "Cmd.Main", "OptShowPrompt", "write:|=", 1⟩, .config⟩,
  ⟨⟨"cmd/cmd.go", "Cmd.Main", "OptTrapPanic", "flag:clear", 2⟩, .config⟩,
  ⟨⟨"cmd/cmd.go", "Cmd.Main", "OptTrapPanic", "flag:set", 2⟩, .config⟩,
  ⟨⟨"fast/builtin.go", "callRecover", "OptDebugRecover", "flag:debug", 1⟩, .print⟩,
  ⟨⟨"fast/cmd.go", "Interp.Cmd", "OptMacroExpandOnly", "test:Split2(),_=,arg=,cmdPackage(),opt=,src=", 1⟩, .semantic⟩,
  ⟨⟨"fast/cmd.go", "Interp.cmdOptions", "OptDebugFromReflect", "test:debugdepth=", 1⟩, .control⟩,
  ⟨⟨"fast/cmd.go", "Interp.cmdOptions", "OptModuleImport", "test:Options=,Warnf()", 1⟩, .semantic⟩,
  ⟨⟨"fast/cmd.go", "Interp.cmdOptions", "OptModuleImport", "write:&^=", 1⟩, .config⟩,
  ⟨⟨"fast/cmd.go", "Interp.cmdPackage", "OptShowPrompt", "test:Debugf()", 1⟩, .print⟩,
  ⟨⟨"fast/code.go", "Run.interrupt", "OptCtrlCEnterDebugger", "const:CtrlCDebug", 1⟩, .control⟩,
  ⟨⟨"fast/code.go", "Run.interrupt", "OptDebugger", "const:CtrlCDebug", 1⟩, .control⟩,
  ⟨⟨"fast/code.go", "reExecWithFlags", "OptDebugDebugger", "flag:trace", 1⟩, .print⟩,
  ⟨⟨"fast/compile.go", "Comp.Parse", "OptShowMacroExpand", "test:Debugf(),Interface()", 1⟩, .print⟩,
  ⟨⟨"fast/debug.go", "Comp.breakpoint", "OptDebugDebugger", "test:Debugf()", 1⟩, .print⟩,
  ⟨⟨"fast/debug.go", "Interp.debug", "OptDebugDebugger", "test:Debugf()", 1⟩, .print⟩,
  ⟨⟨"fast/debug.go", "Run.applyDebugOp", "OptDebugDebugger", "test:Debugf()", 2⟩, .print⟩,
  ⟨⟨"fast/debug.go", "singleStep", "OptDebugDebugger", "test:Debugf()", 1⟩, .print⟩,
  ⟨⟨"fast/debug/debugger.go", "Debugger.Eval", "OptPanicStackTrace", "test:Fprintf(),Stack()", 1⟩, .control⟩,
  ⟨⟨"fast/debug/debugger.go", "Debugger.Eval", "OptTrapPanic", "flag:trap", 1⟩, .control⟩,
  ⟨⟨"fast/debug/debugger.go", "Debugger.Repl", "OptDebugDebugger", "test:Debugf()", 1⟩, .print⟩,
  ⟨⟨"fast/debug/debugger.go", "Debugger.Repl", "OptShowPrompt", "test:opts=", 1⟩, .control⟩,
  ⟨⟨"fast/func0ret0.go", "Comp.func0ret0", "OptDebugger", "test:debugC=", 1⟩, .debugInfo⟩,
  ⟨⟨"fast/func0ret1.go", "Comp.func0ret1", "OptDebugger", "test:debugC=", 1⟩, .debugInfo⟩,
  ⟨⟨"fast/func1ret0.go", "Comp.func1ret0", "OptDebugger", "test:debugC=", 1⟩, .debugInfo⟩,
  ⟨⟨"fast/func1ret1.go", "Comp.func1ret1", "OptDebugger", "test:debugC=", 1⟩, .debugInfo⟩,
  ⟨⟨"fast/func2ret0.go", "Comp.func2ret0", "OptDebugger", "test:debugC=", 1⟩, .debugInfo⟩,
  ⟨⟨"fast/function.go", "Comp.funcGeneric", "OptDebugger", "test:debugC=", 1⟩, .debugInfo⟩,
  ⟨⟨"fast/function.go", "Comp.macroCreate", "OptDebugger", "test:debugC=", 1⟩, .debugInfo⟩,
  ⟨⟨"fast/function.go", "Comp.methodDecl", "OptDebugMethod", "test:?[]=,Debugf(),Elem(),IP=,In(),Kind(),Name(),ReflectValue(),f(),len(),methodname=,return,stmt=,tname=,trecv=", 1⟩, .print⟩,
  ⟨⟨"fast/generic_func.go", "Comp.genericFunc", "OptDebugGenerics", "flag:debug", 1⟩, .print⟩,
  ⟨⟨"fast/generic_func.go", "genericMaker.instantiateFunc", "OptDebugGenerics", "test:Debugf()", 1⟩, .print⟩,
  ⟨⟨"fast/generic_maker.go", "genericMaker.chooseFunc", "OptDebugGenerics", "flag:debug", 1⟩, .print⟩,
  ⟨⟨"fast/generic_maker.go", "genericMaker.chooseType", "OptDebugGenerics", "flag:debug", 1⟩, .print⟩,
  ⟨⟨"fast/generic_type.go", "Comp.GenericType", "OptDebugGenerics", "flag:debug", 1⟩, .print⟩,
  ⟨⟨"fast/generic_type.go", "genericMaker.instantiateType", "OptDebugGenerics", "test:Debugf()", 1⟩, .print⟩,
  ⟨⟨"fast/global.go", "CompGlobals.CompileOptions", "OptKeepUntyped", "test:opts=", 1⟩, .semantic⟩,
  ⟨⟨"fast/import.go", "Comp.ImportPackagesOrError", "OptModuleImport", "arg:ImportPackagesOrError", 1⟩, .semantic⟩,
  ⟨⟨"fast/import.go", "Interp.ChangePackage", "OptDebugger", "test:DebugComp=", 1⟩, .debugInfo⟩,
  ⟨⟨"fast/import.go", "Interp.ChangePackage", "OptShowPrompt", "flag:trace", 1⟩, .print⟩,
  ⟨⟨"fast/interface.go", "Comp.converterToEmulatedInterface", "OptDebugMethod", "flag:debug", 1⟩, .print⟩,
  ⟨⟨"fast/interpreter.go", "Interp.EvalReader", "OptShowEval", "write:&^=", 1⟩, .config⟩,
  ⟨⟨"fast/interpreter.go", "Interp.EvalReader", "OptShowEvalType", "write:&^=", 1⟩, .config⟩,
  ⟨⟨"fast/interpreter.go", "Interp.EvalReader", "OptShowPrompt", "write:&^=", 1⟩, .config⟩,
  ⟨⟨"fast/macroexpand.go", "Comp.MacroExpand1", "OptDebugMacroExpand", "flag:debug", 1⟩, .print⟩,
  ⟨⟨"fast/macroexpand.go", "Comp.extractMacroCall", "OptDebugMacroExpand", "test:Debugf()", 1⟩, .print⟩,
  ⟨⟨"fast/macroexpand.go", "Comp.macroExpandCodewalk", "OptDebugMacroExpand", "flag:debug", 1⟩, .print⟩,
  ⟨⟨"fast/quasiquote.go", "Comp.quasiquote", "OptDebugQuasiquote", "flag:debug", 1⟩, .print⟩,
  ⟨⟨"fast/repl.go", "Interp.CompileAst", "OptKeepUntyped", "test:ConstTo(),DefaultType()", 1⟩, .semantic⟩,
  ⟨⟨"fast/repl.go", "Interp.CompileAst", "OptMacroExpandOnly", "test:Interface(),TypeOf(),exprValue(),return,x=", 1⟩, .semantic⟩,
  ⟨⟨"fast/repl.go", "Interp.CompileAst", "OptShowCompile", "test:Fprintf()", 1⟩, .print⟩,
  ⟨⟨"fast/repl.go", "Interp.DebugExpr", "OptKeepUntyped", "test:ConstTo(),DefaultType()", 1⟩, .semantic⟩,
  ⟨⟨"fast/repl.go", "Interp.Parse", "OptCollectDeclarations", "test:CollectAst()", 1⟩, .collect⟩,
  ⟨⟨"fast/repl.go", "Interp.Parse", "OptCollectStatements", "test:CollectAst()", 1⟩, .collect⟩,
  ⟨⟨"fast/repl.go", "Interp.Read", "OptShowPrompt", "test:opts=", 1⟩, .control⟩,
  ⟨⟨"fast/repl.go", "Interp.ReplStdin", "OptShowPrompt", "test:Fprintf()", 1⟩, .print⟩,
  ⟨⟨"fast/repl.go", "Interp.RunExpr", "OptKeepUntyped", "test:ConstTo(),DefaultType()", 1⟩, .semantic⟩,
  ⟨⟨"fast/repl.go", "Interp.afterEval", "OptPanicStackTrace", "test:Fprintf(),Stack()", 1⟩, .control⟩,
  ⟨⟨"fast/repl.go", "Interp.beforeEval", "OptShowTime", "flag:duration", 1⟩, .control⟩,
  ⟨⟨"fast/repl.go", "Interp.beforeEval", "OptTrapPanic", "flag:trap", 1⟩, .control⟩,
  ⟨⟨"fast/repl.go", "Interp.prepareEnv", "OptDebugger", "test:DebugComp=", 1⟩, .debugInfo⟩,
  ⟨⟨"fast/repl.go", "cmdOptForceEval", "OptCollectDeclarations", "const:todisable", 1⟩, .forceEval⟩,
  ⟨⟨"fast/repl.go", "cmdOptForceEval", "OptCollectStatements", "const:todisable", 1⟩, .forceEval⟩,
  ⟨⟨"fast/repl.go", "cmdOptForceEval", "OptMacroExpandOnly", "const:todisable", 1⟩, .semantic⟩,
  ⟨⟨"fast/selector.go", "Comp.TryLookupFieldOrMethod", "OptDebugField", "test:Debugf(),ReflectType(),rtype=", 1⟩, .print⟩,
  ⟨⟨"fast/selector.go", "Comp.TryLookupFieldOrMethod", "OptDebugMethod", "test:Debugf(),ReflectType(),rtype=", 1⟩, .print⟩,
  ⟨⟨"fast/selector.go", "Comp.compileObjGetMethod", "OptDebugMethod", "test:Debugf()", 2⟩, .print⟩,
  ⟨⟨"fast/selector.go", "Comp.computeMethodFieldIndex", "OptDebugMethod", "flag:debug", 1⟩, .print⟩,
  ⟨⟨"fast/statement.go", "Comp.Go", "OptDebugger", "test:debugC=", 1⟩, .debugInfo⟩,
  ⟨⟨"fast/statement.go", "Comp.pushEnvIfFlag", "OptDebugger", "test:debugC=", 1⟩, .debugInfo⟩,
  ⟨⟨"fast/switch.go", "Comp.Switch", "OptDebugSleepOnSwitch", "test:Debugf(),IP=,Sleep(),append(),return", 1⟩, .control⟩
]

/-- flags whose effect must be observation-only -/
def neutralFlags : List String := [
  "OptDebugger", "OptCollectDeclarations", "OptCollectStatements", "OptTrapPanic", "OptPanicStackTrace",
  "OptCtrlCEnterDebugger", "OptShowCompile", "OptShowEval", "OptShowEvalType", "OptShowMacroExpand",
  "OptShowParse", "OptShowPrompt", "OptShowTime", "OptDebugCallStack", "OptDebugDebugger", "OptDebugField",
  "OptDebugFromReflect", "OptDebugGenerics", "OptDebugMacroExpand", "OptDebugMethod", "OptDebugParse",
  "OptDebugQuasiquote", "OptDebugRecover", "OptDebugSleepOnSwitch"]

def semanticFlags : List String := ["OptMacroExpandOnly", "OptKeepUntyped", "OptModuleImport"]

/-- the uses transcribed by Model/Options.lean: (file, function, flag) -/
def modelled : List (String × String × String) := [
  ("fast/repl.go", "Interp.beforeEval", "OptTrapPanic"),
  ("fast/repl.go", "Interp.beforeEval", "OptShowTime"),
  ("fast/repl.go", "Interp.afterEval", "OptPanicStackTrace"),
  ("fast/repl.go", "cmdOptForceEval", "OptMacroExpandOnly"),
  ("fast/repl.go", "cmdOptForceEval", "OptCollectDeclarations"),
  ("fast/repl.go", "cmdOptForceEval", "OptCollectStatements"),
  ("fast/repl.go", "Interp.Parse", "OptCollectDeclarations"),
  ("fast/repl.go", "Interp.Parse", "OptCollectStatements"),
  ("base/global.go", "Globals.CollectNode", "OptCollectDeclarations"),
  ("base/global.go", "Globals.CollectNode", "OptCollectStatements"),
  ("fast/repl.go", "Interp.CompileAst", "OptMacroExpandOnly"),
  ("fast/repl.go", "Interp.CompileAst", "OptKeepUntyped"),
  ("fast/repl.go", "Interp.RunExpr", "OptKeepUntyped"),
  ("fast/global.go", "CompGlobals.CompileOptions", "OptKeepUntyped"),
  ("fast/repl.go", "Interp.prepareEnv", "OptDebugger"),
  ("fast/func1ret1.go", "Comp.func1ret1", "OptDebugger"),
  ("fast/function.go", "Comp.funcGeneric", "OptDebugger"),
  ("fast/statement.go", "Comp.pushEnvIfFlag", "OptDebugger"),
  ("base/global.go", "Globals.Print", "OptShowEval"),
  ("base/global.go", "Globals.Print", "OptShowEvalType")]

end Options
