import GoSpec.Val
/-! # Places — statement-level model of assignments: places with an evaluation log, single
(compound) assignments, and multi-assignment as compiled by `Comp.Assign`

State: three variables `X Y Z` of one kind, an int variable `I`, an array `A` (the slice `S = A[:]`
aliases it), a map `M` with string keys, and the evaluation log (ids of the logging calls in the
order they ran).  A *place* is a variable, `_`, `A[c]`, `A[I]`, `A[f()]`, `M["k"]`, `M[f()]`,
`*p()` with `p()` returning `&A[c]`; evaluating a place's operands (`resolve`) logs the calls and
yields a *location* — exactly once per statement execution.

`goAssign`  = the Go specification: "The assignment proceeds in two phases.  First, the operands
of index expressions and pointer indirections on the left and the expressions on the right are all
evaluated in the usual order.  Second, the assignments are carried out in left-to-right order."

`assign2` / `assignMulti` = transcription of the closures built by fast/assignment.go
(`Comp.assign2`: the four variable/place combinations; `Comp.assignMulti`: three loops over the
`assign` array with the run-time buffers `objs`, `keys`, `vals`), tied to the source text by
`Gen.C02Assignment.assign2Src / assignMultiSrc`.

One deliberate difference is modelled: gomacro's place closure `objv.Index(i)` performs the bounds
check when the PLACE is evaluated (phase 1), compiled Go when the element is assigned (phase 2).
`resolve` therefore fails on an out-of-range index; the theorems are stated for statements whose
place operands are in range (KNOWN_FINDINGS `index-panic-before-operands`). -/

namespace Places
open GoSpec

inductive Cell where
  | var (n : Nat)                    -- 0 1 2 = X Y Z, 3 = I
  | blank
  | arrC (c : Nat)                   -- A[c]
  | arrI                             -- A[I]
  | arrCall (d c : Nat)              -- A[IX(d, c)]
  | mapC (k : List UInt8)            -- M["k"]
  | mapCall (d : Nat) (k : List UInt8)   -- M[K(d, "k")]
  | ptr (d c : Nat)                  -- *PP(d, c)
  deriving DecidableEq, Repr

inductive Rhs where
  | cell (c : Cell)
  | const (v : Val)
  | call (d : Nat) (c : Cell)        -- R(d, cell): logs d, yields the cell's current value

inductive Loc where
  | var (n : Nat)
  | blank
  | arr (i : Nat)
  | map (k : List UInt8)
  deriving DecidableEq, Repr

structure PS where
  vars : List Val                    -- X Y Z I
  arr : List Val
  map : List (List UInt8 × Val)
  zero : Val                         -- zero value of the element kind (a missing key reads as it)
  log : List Nat

def mapGet (mp : List (List UInt8 × Val)) (k : List UInt8) : Option Val :=
  match mp with
  | [] => none
  | (k', v) :: rest => if k' = k then some v else mapGet rest k

def mapSet (mp : List (List UInt8 × Val)) (k : List UInt8) (v : Val) : List (List UInt8 × Val) :=
  match mp with
  | [] => [(k, v)]
  | (k', v') :: rest => if k' = k then (k, v) :: rest else (k', v') :: mapSet rest k v

/-- failure of a statement: the index-out-of-range panic (with the state at that moment: nothing
    was stored, the log shows what had been evaluated), or an ill-formed statement -/
inductive Err where
  | index (s : PS)
  | stuck

abbrev R (α : Type) := Except Err α

def intOf : Val → Option Nat
  | .int _ v => if v.msb then none else some v.toNat
  | _ => none

/-- evaluate the operands of a place: the location, with the calls logged -/
def resolve (s : PS) : Cell → R (Loc × PS)
  | .var n => .ok (.var n, s)
  | .blank => .ok (.blank, s)
  | .arrC c => if c < s.arr.length then .ok (.arr c, s) else .error (.index s)
  | .arrI => match (s.vars[3]?).bind intOf with
    | some i => if i < s.arr.length then .ok (.arr i, s) else .error (.index s)
    | none => .error (.index s)
  | .arrCall d c => let s' := { s with log := s.log ++ [d] }
    if c < s.arr.length then .ok (.arr c, s') else .error (.index s')
  | .mapC k => .ok (.map k, s)
  | .mapCall d k => .ok (.map k, { s with log := s.log ++ [d] })
  | .ptr d c => let s' := { s with log := s.log ++ [d] }
    if c < s.arr.length then .ok (.arr c, s') else .error (.index s')

def load (s : PS) : Loc → Option Val
  | .var n => s.vars[n]?
  | .blank => none
  | .arr i => s.arr[i]?
  | .map k => some ((mapGet s.map k).getD s.zero)

def store (s : PS) (l : Loc) (v : Val) : PS :=
  match l with
  | .var n => { s with vars := s.vars.set n v }
  | .blank => s
  | .arr i => { s with arr := s.arr.set i v }
  | .map k => { s with map := mapSet s.map k v }

def loadR (s : PS) (l : Loc) : R Val :=
  match load s l with
  | some v => .ok v
  | none => .error .stuck

/-- value of a right-hand side (reads resolve their own operands) -/
def evalRhs (s : PS) : Rhs → R (Val × PS)
  | .const v => .ok (v, s)
  | .cell c => do
    let (l, s') ← resolve s c
    let v ← loadR s' l
    pure (v, s')
  | .call d c => do
    let (l, s') ← resolve { s with log := s.log ++ [d] } c
    let v ← loadR s' l
    pure (v, s')

/-! ## the Go specification: two phases -/

def resolveAll (s : PS) : List Cell → R (List Loc × PS)
  | [] => .ok ([], s)
  | c :: rest => do
    let (l, s') ← resolve s c
    let (ls, s'') ← resolveAll s' rest
    pure (l :: ls, s'')

def evalAll (s : PS) : List Rhs → R (List Val × PS)
  | [] => .ok ([], s)
  | r :: rest => do
    let (v, s') ← evalRhs s r
    let (vs, s'') ← evalAll s' rest
    pure (v :: vs, s'')

def storeAll (s : PS) : List Loc → List Val → PS
  | l :: ls, v :: vs => storeAll (store s l v) ls vs
  | _, _ => s

/-- phase 1: operands of the places left to right, then the right-hand sides left to right;
    phase 2: the assignments left to right -/
def goAssign (s : PS) (lhs : List Cell) (rhs : List Rhs) : R PS := do
  let (ls, s1) ← resolveAll s lhs
  let (vs, s2) ← evalAll s1 rhs
  pure (storeAll s2 ls vs)

/-! ## transcription of `Comp.assign2` and `Comp.assignMulti`

An `Assign` record (`placefun`, `placekey`, `setvar`, `setplace`): a variable has only `setvar`,
the blank identifier nothing, a map element `placefun` + `placekey`, another place `placefun`. -/

def isVarCell : Cell → Bool
  | .var _ => true
  | _ => false

/-- `a.placefun(env)` (+ `a.placekey(env)`): for a non-variable, non-blank place -/
def placefun (s : PS) (c : Cell) : R (Loc × PS) := resolve s c

/-- `assign2`: both places without key and not blank; the four cases of the source -/
def assign2 (s : PS) (c0 c1 : Cell) (r0 r1 : Rhs) : R PS :=
  match isVarCell c0, isVarCell c1 with
  | true, true => do
    let (l0, _) ← resolve s c0      -- a variable: no operands, no effect
    let (l1, _) ← resolve s c1
    let (v0, s1) ← evalRhs s r0
    let (v1, s2) ← evalRhs s1 r1
    pure (store (store s2 l0 v0) l1 v1)
  | true, false => do
    let (l0, _) ← resolve s c0
    let (obj1, s1) ← placefun s c1
    let (v0, s2) ← evalRhs s1 r0
    let (v1, s3) ← evalRhs s2 r1
    pure (store (store s3 l0 v0) obj1 v1)
  | false, true => do
    let (l1, _) ← resolve s c1
    let (obj0, s1) ← placefun s c0
    let (v0, s2) ← evalRhs s1 r0
    let (v1, s3) ← evalRhs s2 r1
    pure (store (store s3 obj0 v0) l1 v1)
  | false, false => do
    let (obj0, s1) ← placefun s c0
    let (obj1, s2) ← placefun s1 c1
    let (v0, s3) ← evalRhs s2 r0
    let (v1, s4) ← evalRhs s3 r1
    pure (store (store s4 obj0 v0) obj1 v1)

/-- first loop of `assignMulti`: `objs[i]`, `keys[i]` for the places that have a `placefun`
    (variables and `_` are skipped: `continue`) -/
def multiLhs (s : PS) : List Cell → R (List Loc × PS)
  | [] => .ok ([], s)
  | c :: rest =>
    if isVarCell c || c == .blank then do
      -- `a.placefun == nil`: nothing is evaluated; the location is fixed at compile time
      let (l, _) ← resolve s c
      let (ls, s') ← multiLhs s rest
      pure (l :: ls, s')
    else do
      let (l, s') ← placefun s c
      let (ls, s'') ← multiLhs s' rest
      pure (l :: ls, s'')

/-- second loop: `vals[i] = dup(exprfun(env))` -/
def multiRhs (s : PS) : List Rhs → R (List Val × PS)
  | [] => .ok ([], s)
  | r :: rest => do
    let (v, s') ← evalRhs s r
    let (vs, s'') ← multiRhs s' rest
    pure (v :: vs, s'')

/-- third loop: `a.setvar(env, vals[i])` / `a.setplace(objs[i], keys[i], vals[i])` / nothing for `_` -/
def multiStore (s : PS) : List Loc → List Val → PS
  | l :: ls, v :: vs =>
    (match l with
     | .blank => multiStore s ls vs
     | l => multiStore (store s l v) ls vs)
  | _, _ => s

def assignMulti (s : PS) (lhs : List Cell) (rhs : List Rhs) : R PS := do
  let (ls, s1) ← multiLhs s lhs
  let (vs, s2) ← multiRhs s1 rhs
  pure (multiStore s2 ls vs)

/-! ## single (compound) assignment `place op= rhs` -/

/-- place operands once, then the right-hand side, then load / operate / store; a run-time panic of
    the operator stores nothing -/
def opAssign (F : FloatOps) (s : PS) (c : Cell) (op : Option BinOp) (r : Rhs) : R (PS × Option Panic) := do
  let (l, s1) ← resolve s c
  let (y, s2) ← evalRhs s1 r
  match op with
  | none => pure (store s2 l y, none)
  | some op =>
    let x ← loadR s2 l
    match binop F op x y with
    | some (.ok v) => pure (store s2 l v, none)
    | some (.panic p) => pure (s2, some p)
    | none => .error .stuck

end Places
