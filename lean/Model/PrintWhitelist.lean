/-!
# C25 — pinned token-text hashes of the printer code that Model/PrintPrec.lean transcribes

(texts: .work/C25-extract/PrintDispatch.txt).  The hashes are those of the REPAIRED tree
(fixes/C25-star-operand-parens.diff changes the `*ast.StarExpr` arm, fixes/C25-recv-chan-conversion-parens.diff the
`*ast.CallExpr` arm, fixes/C25-expr-block.diff the `*ast.UnaryExpr` arm).  Relation to GOROOT go1.23.5 go/printer: `binaryExpr`... the `*ast.BinaryExpr`,
`*ast.SelectorExpr`, `*ast.Ident` arms are token-identical; the others differ by `p.setPos` (go1.20 refactoring),
by the fork's quote / `#[` additions, and by the two repairs.
-/
namespace PrintWhitelist

def pinnedArms : List (String × Nat) :=
  [("*ast.Ident", 16388351960065415656),
   ("*ast.BasicLit", 16388351960065415656),
   ("*ast.BinaryExpr", 2216163781527229068),
   ("*ast.StarExpr", 12985774262480534471),
   ("*ast.UnaryExpr", 2763154623737685734),
   ("*ast.ParenExpr", 10651697583309398903),
   ("*ast.SelectorExpr", 2640665776885508289),
   ("*ast.IndexExpr", 9992461380574924414),
   ("*ast.CallExpr", 2989072340731449447)]

def pinnedFuncs : List (String × Nat) :=
  [("binaryExpr", 1044503436609950362), ("expr0", 818264949836597507), ("expr", 3162148304915867716),
   ("selectorExpr", 17178750396950804172), ("possibleSelectorExpr", 17082502293424863665)]

/-- golden table: token-text hash of EVERY function of the fork's nodes.go and printer.go
    (`Gen.PrintDispatch.printerAllFuncs`).  Any change of the printer's code breaks obligation
    `all_printer_functions_pinned` even when no failing input is found; the round-trip run is the search for one.
    Update it (from Gen/PrintDispatch.lean) together with a reviewed change of go/printer. -/
def allFuncs : List (String × Nat) :=
  [("nodes.go:*printer.binaryExpr", 1044503436609950362),
   ("nodes.go:*printer.block", 12300761650723147281),
   ("nodes.go:*printer.bodySize", 16146801598149886292),
   ("nodes.go:*printer.controlClause", 9420319066875068507),
   ("nodes.go:*printer.decl", 7999930798683407051),
   ("nodes.go:*printer.declList", 13237911398122310922),
   ("nodes.go:*printer.distanceFrom", 6047710333105148478),
   ("nodes.go:*printer.expr", 3162148304915867716),
   ("nodes.go:*printer.expr0", 818264949836597507),
   ("nodes.go:*printer.expr1", 15705354227899442090),
   ("nodes.go:*printer.exprList", 13795870357714165449),
   ("nodes.go:*printer.fieldList", 8359602730873976099),
   ("nodes.go:*printer.file", 5985695746251231344),
   ("nodes.go:*printer.funcBody", 13629329230348457071),
   ("nodes.go:*printer.funcDecl", 9142274960228974284),
   ("nodes.go:*printer.genDecl", 8561523180902546589),
   ("nodes.go:*printer.genericInfix", 15603766705343069060),
   ("nodes.go:*printer.identList", 8689395520924892766),
   ("nodes.go:*printer.indentList", 16778506787187960714),
   ("nodes.go:*printer.isOneLineFieldList", 7690619857603401881),
   ("nodes.go:*printer.linebreak", 8179649917357364762),
   ("nodes.go:*printer.nodeSize", 18330005901783833880),
   ("nodes.go:*printer.numLines", 10784207204897148654),
   ("nodes.go:*printer.parameters", 15482345824649907811),
   ("nodes.go:*printer.parameters0", 10462408038422704026),
   ("nodes.go:*printer.possibleSelectorExpr", 17082502293424863665),
   ("nodes.go:*printer.receiver", 4760812130854249263),
   ("nodes.go:*printer.selectorExpr", 17178750396950804172),
   ("nodes.go:*printer.setComment", 6654539396596485320),
   ("nodes.go:*printer.setLineComment", 4615579412531813318),
   ("nodes.go:*printer.signature", 7520964329716722437),
   ("nodes.go:*printer.spec", 18323136988451419551),
   ("nodes.go:*printer.stmt", 5451983175264870322),
   ("nodes.go:*printer.stmtList", 16303702746736090673),
   ("nodes.go:*printer.templatePrefix", 7641876937879448114),
   ("nodes.go:*printer.valueSpec", 18205899405519733448),
   ("nodes.go:cutoff", 11141334674021870670),
   ("nodes.go:declToken", 6182454666941775620),
   ("nodes.go:diffPrec", 11341879896816631254),
   ("nodes.go:funcGenericArgs", 15313740108293349622),
   ("nodes.go:identListSize", 16320668711183760130),
   ("nodes.go:isBinary", 15821609749856279892),
   ("nodes.go:isTypeName", 6580762329113387655),
   ("nodes.go:keepTypeColumn", 12435302319201058053),
   ("nodes.go:reduceDepth", 7264169403514109781),
   ("nodes.go:sanitizeImportPath", 12596978052658558499),
   ("nodes.go:splitGenericArgs", 13785537516911851955),
   ("nodes.go:stripParens", 10644261627031550219),
   ("nodes.go:stripParensAlways", 1920690067975060191),
   ("nodes.go:walkBinary", 10251021173766717725),
   ("printer.go:*Config.Fprint", 7522162116884330231),
   ("printer.go:*Config.fprint", 444821865560057882),
   ("printer.go:*printer.commentBefore", 7591109969936411103),
   ("printer.go:*printer.commentSizeBefore", 8872841161664383608),
   ("printer.go:*printer.commentsHaveNewline", 8937932296712026688),
   ("printer.go:*printer.containsLinebreak", 4043301652491588948),
   ("printer.go:*printer.flush", 8547678849920615577),
   ("printer.go:*printer.init", 11238599059576019774),
   ("printer.go:*printer.internalError", 7583914212327063350),
   ("printer.go:*printer.intersperseComments", 13213616890962026224),
   ("printer.go:*printer.lineFor", 7722366708015131616),
   ("printer.go:*printer.linesFrom", 13253754321397960818),
   ("printer.go:*printer.nextComment", 456307511183386415),
   ("printer.go:*printer.posFor", 4729298621296929944),
   ("printer.go:*printer.print", 15828622607284517230),
   ("printer.go:*printer.printNode", 6526102043352213065),
   ("printer.go:*printer.recordLine", 16601726835073818222),
   ("printer.go:*printer.writeByte", 17865152147772902351),
   ("printer.go:*printer.writeComment", 5235367961805312110),
   ("printer.go:*printer.writeCommentPrefix", 16148305215798545018),
   ("printer.go:*printer.writeCommentSuffix", 8764481119615745821),
   ("printer.go:*printer.writeIndent", 110535595940451738),
   ("printer.go:*printer.writeLineDirective", 483475755632544232),
   ("printer.go:*printer.writeString", 3600010064179204428),
   ("printer.go:*printer.writeWhitespace", 13102789993754997962),
   ("printer.go:*trimmer.Write", 1077493800953556367),
   ("printer.go:*trimmer.resetSpace", 13924992135940666649),
   ("printer.go:Fprint", 16181808436951285575),
   ("printer.go:commonPrefix", 4784362706264033304),
   ("printer.go:getDoc", 2423136875381280485),
   ("printer.go:getLastComment", 17092620861580905186),
   ("printer.go:isBlank", 13219354097270315348),
   ("printer.go:mayCombine", 8403569763293082530),
   ("printer.go:nlimit", 5855447591599494008),
   ("printer.go:stripCommonPrefix", 13042960329470817098),
   ("printer.go:trimRight", 4853393195801245590)]

end PrintWhitelist
