/-!
# C25 — pinned token-text hashes of the printer code that Model/PrintPrec.lean transcribes

(texts: .work/C25-extract/PrintDispatch.txt).  The hashes are those of the REPAIRED tree
(fixes/C25-star-operand-parens.diff changes the `*ast.StarExpr` arm, fixes/C25-recv-chan-conversion-parens.diff the
`*ast.CallExpr` arm, fixes/C25-expr-block.diff the `*ast.UnaryExpr` arm).  Relation to GOROOT go1.23.5 go/printer: `binaryExpr`... the `*ast.BinaryExpr`,
`*ast.SelectorExpr`, `*ast.Ident` arms are token-identical; the others differ by `p.setPos` (go1.20 refactoring),
by the fork's quote / `#[` additions, and by the two repairs.
-/
namespace PrintWhitelist

def pinnedArms : List (String × Nat) :=
  [("*ast.Ident", 16388351960065415656),
   ("*ast.BasicLit", 16388351960065415656),
   ("*ast.BinaryExpr", 2216163781527229068),
   ("*ast.StarExpr", 12985774262480534471),
   ("*ast.UnaryExpr", 2763154623737685734),
   ("*ast.ParenExpr", 10651697583309398903),
   ("*ast.SelectorExpr", 2640665776885508289),
   ("*ast.IndexExpr", 9992461380574924414),
   ("*ast.CallExpr", 2989072340731449447)]

def pinnedFuncs : List (String × Nat) :=
  [("binaryExpr", 1044503436609950362), ("expr0", 818264949836597507), ("expr", 3162148304915867716),
   ("selectorExpr", 17178750396950804172), ("possibleSelectorExpr", 17082502293424863665)]

end PrintWhitelist
