/-!
# Model of go/etoken (File, FileSet) over go/token, and of the interpreter's chunk loop

Transcribed code
* `/repo/go/etoken/fileset.go`: `File.PositionFor`, `File.Source`, `File.SetSourceForContent`,
  `FileSet.AddFile`, `FileSet.File`, `FileSet.PositionFor`.
* Go 1.23 `go/token/position.go` (the library the fork wraps): `FileSet.AddFile`, `File.AddLine`,
  `fixOffset`, `searchInts` (binary search, as coded), `File.unpack` (without `//line` infos),
  `File.position`, `searchFiles` (`slices.BinarySearchFunc`, as coded), `FileSet.file` with its
  `last` cache.
* `/repo/go/scanner/scanner.go` `next()`: `AddLine(offset)` after every `'\n'`.
* `/repo/base/output/output.go` `IncLine`; `/repo/base/global.go` `ParseBytes`
  (`parser.Init(g.Fileset, g.Filepath, g.Line, src)` = `AddFile(name, -1, len(src), g.Line)`);
  `/repo/fast/repl.go` `Interp.Read`, `ReadParseEvalPrint`, `ParseEvalPrint`, `afterEval`;
  `/repo/fast/interpreter.go` `EvalReader` (first iteration done by hand), `Eval`.

Transcription rules / abstractions
* bytes are `Nat`s (`10` = newline); Go `int`s are unbounded (`Int`/`Nat`): the 2G overflow check
  of `AddFile` is not modelled.
* files are owned by the set and addressed by their index (Go: pointers); the `last` cache is an
  index; the fork's `filemap` (inner file pointer -> fork file) is total on added files, so the
  fork's `line` (and `source`) are carried in the same record.
* the line table of a parsed text is complete (the scanner has passed every position that is
  reported); `//line` directives are not modelled (`adjusted` has no effect then).
* the reader (`ReadMultiline`, property C26) is *input* here: the loop consumes the list of
  `(src, firstToken)` pairs it returned.  `Interp.Cmd` is modelled only as far as it decides
  whether the chunk reaches the parser (`package ...` clause is consumed).
* the three places where the code under test may have been repaired are parameters (`Cfg`),
  regenerated from the source by the extractor (Gen/C27Cfg.lean).
-/
namespace FileSet

abbrev Bytes := List Nat

/-! ## binary search (shape shared by `searchInts` and `slices.BinarySearchFunc`) -/

/-- `for i < j { h := (i+j)>>1; if go h { i = h+1 } else { j = h } }; return i` -/
def bsearch (go : Nat → Bool) : Nat → Nat → Nat → Nat
  | 0, i, _ => i
  | fuel + 1, i, j =>
    if i < j then
      let h := (i + j) / 2
      if go h then bsearch go fuel (h + 1) j else bsearch go fuel i h
    else i

/-- token.searchInts: `a[h] <= x` goes right; returns `i - 1` -/
def searchInts (a : List Nat) (x : Nat) : Int :=
  (bsearch (fun h => decide (a.getD h 0 ≤ x)) a.length 0 a.length : Nat) - 1

/-! ## token.File / etoken.File -/

structure File where
  name : String
  base : Nat
  size : Nat
  lines : List Nat
  line : Int            -- etoken.File.line: starting line of this file
  source : List Bytes   -- etoken.File.source
  deriving Repr, DecidableEq

structure Position where
  filename : String
  offset : Nat
  line : Int
  column : Int
  deriving Repr, DecidableEq

def Position.zero : Position := ⟨"", 0, 0, 0⟩
def Position.isValid (p : Position) : Bool := decide (p.line > 0)

/-- token.File.AddLine -/
def File.addLine (f : File) (offset : Int) : File :=
  let i := f.lines.length
  if (i = 0 ∨ (f.lines.getD (i - 1) 0 : Int) < offset) ∧ offset < f.size then
    { f with lines := f.lines ++ [offset.toNat] }
  else f

/-- token.File.fixOffset (debug = false) -/
def File.fixOffset (f : File) (offset : Int) : Nat :=
  if offset < 0 then 0 else if offset > f.size then f.size else offset.toNat

/-- token.File.unpack without alternative line infos: (line, column) -/
def File.unpack (f : File) (offset : Nat) : Int × Int :=
  let i := searchInts f.lines offset
  if i ≥ 0 then (i + 1, (offset : Int) - (f.lines.getD i.toNat 0 : Nat) + 1) else (0, 0)

/-- token.File.position -/
def File.stdPosition (f : File) (p : Int) : Position :=
  let offset := f.fixOffset (p - f.base)
  let lc := f.unpack offset
  ⟨f.name, offset, lc.1, lc.2⟩

/-- token.File.PositionFor -/
def File.stdPositionFor (f : File) (p : Int) : Position :=
  if p ≠ 0 then f.stdPosition p else Position.zero

/-- etoken.File.PositionFor -/
def File.positionFor (f : File) (p : Int) : Position :=
  let pos := f.stdPositionFor p
  if pos.isValid then { pos with line := pos.line + f.line } else pos

/-- etoken.File.Source -/
def File.sourceAt (f : File) (p : Int) : Bytes × Position :=
  if p ≠ 0 then
    let pos := f.positionFor p
    if pos.isValid then
      let line := pos.line - f.line
      if line > 0 ∧ line ≤ f.source.length then (f.source.getD (line - 1).toNat [], pos) else ([], pos)
    else ([], pos)
  else ([], Position.zero)

/-- etoken.File.SetSourceForContent: split at '\n', a non-empty unterminated tail is a line -/
def splitLines : Bytes → Bytes → List Bytes
  | [], cur => if cur.isEmpty then [] else [cur]
  | b :: bs, cur => if b = 10 then cur :: splitLines bs [] else splitLines bs (cur ++ [b])

/-- scanner.next(): `AddLine(offset)` when the previous character was '\n' -/
def scanFrom (f : File) : Bytes → Nat → File
  | [], _ => f
  | b :: bs, i => scanFrom (if b = 10 then f.addLine ((i : Int) + 1) else f) bs (i + 1)

def File.scan (f : File) (text : Bytes) : File := scanFrom f text 0

/-! ## token.FileSet / etoken.FileSet -/

structure FSet where
  base : Nat
  files : List File
  last : Option Nat
  deriving Repr

def FSet.empty : FSet := ⟨1, [], none⟩

/-- token.FileSet.AddFile + etoken.FileSet.AddFile; `none` = panic -/
def FSet.addFile (s : FSet) (name : String) (base size : Int) (line : Int) : Option (File × FSet) :=
  let base := if base < 0 then (s.base : Int) else base
  if base < s.base then none
  else if size < 0 then none
  else
    let f : File := ⟨name, base.toNat, size.toNat, [0], line, []⟩
    some (f, ⟨base.toNat + size.toNat + 1, s.files ++ [f], some s.files.length⟩)

/-- `AddFile(name, -1, size, line)`: never panics -/
def FSet.addFileAuto (s : FSet) (name : String) (size : Nat) (line : Int) : File × FSet :=
  let f : File := ⟨name, s.base, size, [0], line, []⟩
  (f, ⟨s.base + size + 1, s.files ++ [f], some s.files.length⟩)

def FSet.setFile (s : FSet) (idx : Nat) (f : File) : FSet := { s with files := s.files.set idx f }

def baseAt (a : List File) (h : Nat) : Nat := match a[h]? with | some f => f.base | none => 0

/-- token.searchFiles: slices.BinarySearchFunc by base, then `i--` when not found -/
def searchFiles (a : List File) (x : Int) : Int :=
  let i := bsearch (fun h => decide ((baseAt a h : Int) < x)) a.length 0 a.length
  if i < a.length ∧ (baseAt a i : Int) = x then i else (i : Int) - 1

def inFile (f : File) (p : Int) : Bool := decide ((f.base : Int) ≤ p ∧ p ≤ (f.base : Int) + f.size)

/-- token.FileSet.file after a miss of the `last` cache: index of the file, new cache -/
def FSet.fileSlow (s : FSet) (p : Int) : Option Nat × FSet :=
  let i := searchFiles s.files p
  if i ≥ 0 then
    match s.files[i.toNat]? with
    | some f => if p ≤ (f.base : Int) + f.size then (some i.toNat, { s with last := some i.toNat }) else (none, s)
    | none => (none, s)
  else (none, s)

/-- token.FileSet.file -/
def FSet.file (s : FSet) (p : Int) : Option Nat × FSet :=
  match s.last with
  | some li =>
    match s.files[li]? with
    | some f => if inFile f p then (some li, s) else s.fileSlow p
    | none => s.fileSlow p
  | none => s.fileSlow p

/-- etoken.FileSet.File (index of the file) -/
def FSet.fileOf (s : FSet) (p : Int) : Option Nat × FSet :=
  if p ≠ 0 then s.file p else (none, s)

/-- etoken.FileSet.PositionFor -/
def FSet.positionFor (s : FSet) (p : Int) : Position × FSet :=
  match s.fileOf p with
  | (some i, s') => (match s'.files[i]? with | some f => f.positionFor p | none => Position.zero, s')
  | (none, s') => (Position.zero, s')

/-- the standard library's FileSet.PositionFor on the same set (specification side) -/
def FSet.stdPositionFor (s : FSet) (p : Int) : Position × FSet :=
  if p ≠ 0 then
    match s.file p with
    | (some i, s') => (match s'.files[i]? with | some f => f.stdPosition p | none => Position.zero, s')
    | (none, s') => (Position.zero, s')
  else (Position.zero, s)

/-- etoken.FileSet.Source -/
def FSet.sourceAt (s : FSet) (p : Int) : (Bytes × Position) × FSet :=
  match s.fileOf p with
  | (some i, s') => (match s'.files[i]? with | some f => f.sourceAt p | none => ([], Position.zero), s')
  | (none, s') => (([], Position.zero), s')

/-! ## the chunk loop -/

/-- number of '\n' (strings.Count(src, "\n")) -/
def nl : Bytes → Nat
  | [] => 0
  | b :: bs => (if b = 10 then 1 else 0) + nl bs

/-- which of the three repairable places of the loop are repaired -/
structure Cfg where
  readIncPrefix : Bool  -- Interp.Read has `else if firstToken > 0 { g.IncLine(src[0:firstToken]) }`
  firstBlank : Bool     -- EvalReader keeps the columns of the first token's line (blanks) instead of cutting
  blankIncLine : Bool   -- ParseEvalPrint counts the lines of a blank source before returning
  deriving Repr, DecidableEq

def Cfg.orig : Cfg := ⟨true, false, false⟩
def Cfg.fixed : Cfg := ⟨false, true, true⟩

structure Chunk where
  src : Bytes
  ft : Int     -- firstToken, -1 = none
  deriving Repr

/-- what the parser saw of one chunk: file index, and how the chunk's offsets map to the file's:
    bytes `[0, cut)` of the chunk were removed from the front -/
structure Parsed where
  idx : Nat
  cut : Nat
  deriving Repr, DecidableEq

structure LoopSt where
  line : Nat                   -- Globals.Line
  fs : FSet
  parsed : List (Option Parsed) -- one entry per chunk consumed
  deriving Repr

/-- strings.TrimSpace(src) == "": only white space in the sense of unicode.IsSpace (UTF-8 decoded) -/
def isBlank : Bytes → Bool
  | [] => true
  | 0xC2 :: 0x85 :: r => isBlank r
  | 0xC2 :: 0xA0 :: r => isBlank r
  | 0xE1 :: 0x9A :: 0x80 :: r => isBlank r
  | 0xE2 :: 0x80 :: c :: r =>
    if (0x80 ≤ c ∧ c ≤ 0x8A) ∨ c = 0xA8 ∨ c = 0xA9 ∨ c = 0xAF then isBlank r else false
  | 0xE2 :: 0x81 :: 0x9F :: r => isBlank r
  | 0xE3 :: 0x80 :: 0x80 :: r => isBlank r
  | b :: r => if b = 9 ∨ b = 10 ∨ b = 11 ∨ b = 12 ∨ b = 13 ∨ b = 32 then isBlank r else false

def dropBlank : Bytes → Bytes
  | [] => []
  | b :: r => if b = 9 ∨ b = 10 ∨ b = 11 ∨ b = 12 ∨ b = 13 ∨ b = 32 then dropBlank r else b :: r

def pkgWord : Bytes := [112, 97, 99, 107, 97, 103, 101]  -- "package"

/-- Interp.Cmd: `trim == "package" || strings.HasPrefix(trim, "package ")` (ASCII white space;
    the ':' commands are outside the modelled inputs) -/
def isPackageClause (src : Bytes) : Bool :=
  let t := dropBlank src
  t.take 7 = pkgWord ∧ (isBlank (t.drop 7) ∨ (t.drop 7).head? = some 32)

/-- Globals.ParseBytes: add a file for `text` at the current line, scan it (copy the source when the
    debugger option is on) -/
def parseBytes (st : LoopSt) (name : String) (copySrc : Bool) (text : Bytes) (cut : Nat) : LoopSt :=
  let (f, fs) := st.fs.addFileAuto name text.length st.line
  let idx := st.fs.files.length
  let f := f.scan text
  let f := if copySrc then { f with source := splitLines text [] } else f
  { st with fs := fs.setFile idx f, parsed := st.parsed ++ [some ⟨idx, cut⟩] }

/-- Interp.ParseEvalPrint + deferred afterEval, as far as lines and files go -/
def parseEvalPrint (cfg : Cfg) (name : String) (copySrc : Bool) (st : LoopSt) (src : Bytes) (cut : Nat) : LoopSt :=
  if isBlank src then
    { st with line := if cfg.blankIncLine then st.line + nl src else st.line, parsed := st.parsed ++ [none] }
  else if isPackageClause src then
    { st with line := st.line + nl src, parsed := st.parsed ++ [none] }
  else
    let st := parseBytes st name copySrc src cut
    { st with line := st.line + nl src }

/-- Interp.Read + ReadParseEvalPrint for one chunk returned by ReadMultiline -/
def readStep (cfg : Cfg) (name : String) (copySrc : Bool) (st : LoopSt) (c : Chunk) : LoopSt :=
  if c.ft < 0 then
    { st with line := st.line + nl c.src, parsed := st.parsed ++ [none] }
  else
    let st := if cfg.readIncPrefix ∧ c.ft > 0 then { st with line := st.line + nl (c.src.take c.ft.toNat) } else st
    parseEvalPrint cfg name copySrc st c.src 0

/-- offset of the beginning of the line that contains offset `o` -/
def bolOf (b : Bytes) (o : Nat) : Nat :=
  go (b.take o) 0 0
where
  go : Bytes → Nat → Nat → Nat
    | [], _, cur => cur
    | x :: xs, i, cur => go xs (i + 1) (if x = 10 then i + 1 else cur)

/-- EvalReader's hand-made first iteration (`g.Line = 0` before) -/
def readerFirst (cfg : Cfg) (name : String) (copySrc : Bool) (st : LoopSt) (c : Chunk) : LoopSt :=
  let st := { st with line := 0 }
  if c.ft > 0 then
    let ft := c.ft.toNat
    let comments := c.src.take ft
    let bol := if cfg.firstBlank then bolOf c.src ft else ft
    let str := List.replicate (ft - bol) 32 ++ c.src.drop ft
    let st := { st with line := st.line + nl comments }
    parseEvalPrint cfg name copySrc st str bol
  else
    parseEvalPrint cfg name copySrc st c.src 0

inductive Mode | repl | reader
  deriving Repr, DecidableEq

def runChunks (cfg : Cfg) (mode : Mode) (name : String) (copySrc : Bool) (st : LoopSt) : List Chunk → LoopSt
  | [] => st
  | c :: cs =>
    match mode with
    | .repl => (c :: cs).foldl (readStep cfg name copySrc) st
    | .reader => cs.foldl (readStep cfg name copySrc) (readerFirst cfg name copySrc st c)

/-- Interp.Eval(src): parse the whole text at the current line; `Line` is not advanced -/
def evalWhole (name : String) (copySrc : Bool) (st : LoopSt) (src : Bytes) : LoopSt :=
  if src.isEmpty then { st with parsed := st.parsed ++ [none] } else parseBytes st name copySrc src 0

/-- start offset of chunk `k` in the concatenated input -/
def startOf (cs : List Chunk) (k : Nat) : Nat := ((cs.take k).map (fun c => c.src.length)).sum

/-- the chunk containing global offset `m`: (index, local offset) -/
def locate : List Chunk → Nat → Nat → Option (Nat × Nat)
  | [], _, _ => none
  | c :: cs, k, m => if m < c.src.length then some (k, m) else locate cs (k + 1) (m - c.src.length)

/-- the `Pos` of byte `o` of chunk `k` after the loop, if that chunk reached the parser and the
    byte was not cut away -/
def posOf (st : LoopSt) (k : Nat) (o : Nat) : Option Int :=
  match st.parsed[k]? with
  | some (some pr) =>
    if o < pr.cut then none else
    match st.fs.files[pr.idx]? with
    | some f => some ((f.base : Int) + ((o - pr.cut : Nat) : Int))
    | none => none
  | _ => none

/-- the specification: line and column of offset `o` in `input`, by a linear scan -/
def lineCol (input : Bytes) (o : Nat) : Nat × Nat :=
  go (input.take o) 1 1
where
  go : Bytes → Nat → Nat → Nat × Nat
    | [], l, c => (l, c)
    | x :: xs, l, c => if x = 10 then go xs (l + 1) 1 else go xs l (c + 1)

end FileSet
