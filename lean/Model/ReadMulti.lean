import GoSpec.Lex
import Gen.ReadKeywords
/-! Model of base/read.go `ReadMultiline` + `lastIsKeywordIgnoresNl` (gomacro), as REPAIRED by
fixes/C26-*.diff (slash-redispatch, literal-control-chars, keyword-line-index, label-colon,
comment-star).  Core Lean only.

Transcription rules
* One Go `switch m { ... }` arm = one arm of `switchCase`; its result says how the arm leaves the
  switch: `cont` = Go `continue` (the bookkeeping after the switch is skipped), `post` = falls out of
  the switch into the bookkeeping (`resetnl` test, `foundtoken(i)` when `ch > ' '`) = `finish`,
  `err` = `return invalidChar(...)`, `rewrite` = the `#!` arm (`line[i-1], line[i] = '/', '/'; continue`).
* `fallthrough` from `case mPlus, mMinus` into `case mNormal`, and the three `goto dispatch`
  (mSlash / mHash / mTilde default arms, with `m = mNormal` set before) = a call of `normalCase`.
  In every path into `case mNormal` the mode is `mNormal`.
* Bytes are looked at only through `GoLex.classify` (the `case` labels and the tests `ch <= ' '`,
  `ch > ' '`, `ch == '\n'`), except in `lastIsKw` which works on the bytes.
* `foundtoken(pos)` gets the absolute position `len(buf)+i`; `firstToken`/`lastToken` are Go ints (-1 = none).
* The prompt (`ReadOptShowPrompt`, `makeDots`) and the `debug` output are not modelled.
* `Readline.Read` = next element of a list of `Read`s (`line`, `eof` = "err == io.EOF came with it");
  an exhausted list reads as `(nil, io.EOF)`.  Other I/O errors are not modelled.
* `line[i-1] = '/'` with `i = 0` (possible only if the previous line did not end in '\n') is a Go
  run-time panic: `Err.panic`.
* `Chunk.orig` is a ghost field: the input bytes consumed by the call (for the theorems). -/
namespace ReadMulti
open GoLex (Cls classify)

inductive Mode
  | normal | plus | minus | rune | string | runeEsc | stringEsc | rawString
  | slash | hash | lineComment | comment | commentStar | tilde
  deriving DecidableEq, Repr

structure St where
  m : Mode
  paren : Int
  ignorenl : Bool
  firstToken : Int
  lastToken : Int
  deriving DecidableEq, Repr

def init : St := ⟨.normal, 0, false, -1, -1⟩

def foundtoken (s : St) (pos : Int) : St :=
  { s with lastToken := pos, firstToken := if s.firstToken < 0 then pos else s.firstToken }

/-- the closure `resetnl` -/
def resetnl (paren : Int) (m : Mode) : Bool :=
  paren != 0 ||
    (m != .normal && m != .slash && m != .hash && m != .lineComment && m != .comment && m != .commentStar)

inductive Out
  | cont (s : St)
  | post (s : St)
  | err (rune : Bool)
  | rewrite (s : St)

def isBlank : Cls → Bool
  | .nl | .blank => true
  | _ => false

/-- `case mNormal:` -/
def normalCase (s : St) (c : Cls) : Out :=
  match c with
  | .opn => .post { s with paren := s.paren + 1 }
  | .cls => .post { s with paren := s.paren - 1 }
  | .quote => .post { s with m := .rune }
  | .dquote => .post { s with m := .string }
  | .bquote => .post { s with m := .rawString }
  | .slash => .cont { s with m := .slash }
  | .hash => .cont { s with m := .hash }
  | .tilde => .post { s with m := .tilde }
  | .bang | .star | .comma | .op => .post { s with ignorenl := s.paren == 0 }
  | .plus => .post { s with ignorenl := false, m := if s.paren == 0 then .plus else s.m }
  | .minus => .post { s with ignorenl := false, m := if s.paren == 0 then .minus else s.m }
  | .nl | .blank => .cont s
  | .bslash | .other => .post { s with ignorenl := false }

/-- `case mPlus, mMinus:` (with its `fallthrough`) -/
def plusMinusCase (s : St) (c : Cls) : Out :=
  if c = .plus then .post { s with m := if s.m = .plus then .normal else .plus }
  else if c = .minus then .post { s with m := if s.m = .minus then .normal else .minus }
  else
    let s := { s with m := .normal, ignorenl := true }
    if isBlank c then .cont s else normalCase s c

def runeCase (s : St) : Cls → Out
  | .bslash => .post { s with m := .runeEsc }
  | .quote => .post { s with m := .normal }
  | .nl => .err true
  | _ => .post s

def runeEscCase (s : St) : Cls → Out
  | .nl => .err true
  | _ => .post { s with m := .rune }

def stringCase (s : St) : Cls → Out
  | .bslash => .post { s with m := .stringEsc }
  | .dquote => .post { s with m := .normal }
  | .nl => .err false
  | _ => .post s

def stringEscCase (s : St) : Cls → Out
  | .nl => .err false
  | _ => .post { s with m := .string }

def rawStringCase (s : St) : Cls → Out
  | .bquote => .post { s with m := .normal }
  | _ => .post s

/-- `case mSlash:`; the default arm ends in `goto dispatch` -/
def slashCase (s : St) (pos : Int) : Cls → Out
  | .slash => .cont { s with m := .lineComment }
  | .star => .cont { s with m := .comment }
  | c => normalCase { (foundtoken { s with m := .normal } (pos - 1)) with ignorenl := s.paren == 0 } c

/-- `case mHash:`; the default arm ends in `goto dispatch` -/
def hashCase (s : St) (pos : Int) : Cls → Out
  | .bang => .rewrite { s with m := .lineComment }
  | c => normalCase (foundtoken { s with m := .normal } (pos - 1)) c

def commentCase (s : St) : Cls → Out
  | .star => .cont { s with m := .commentStar }
  | _ => .cont s

def commentStarCase (s : St) : Cls → Out
  | .slash => .cont { s with m := .normal }
  | .star => .cont s
  | _ => .cont { s with m := .comment }

/-- `case mTilde:`; the default arm ends in `goto dispatch` -/
def tildeCase (s : St) : Cls → Out
  | .quote | .dquote | .bquote | .comma => .post { s with m := .normal }
  | c => normalCase { s with m := .normal } c

/-- the `switch m` inside the byte loop; `pos = len(buf)+i` -/
def switchCase (s : St) (c : Cls) (pos : Int) : Out :=
  match s.m with
  | .plus | .minus => plusMinusCase s c
  | .normal => normalCase s c
  | .rune => runeCase s c
  | .runeEsc => runeEscCase s c
  | .string => stringCase s c
  | .stringEsc => stringEscCase s c
  | .rawString => rawStringCase s c
  | .slash => slashCase s pos c
  | .hash => hashCase s pos c
  | .lineComment => .cont s
  | .comment => commentCase s c
  | .commentStar => commentStarCase s c
  | .tilde => tildeCase s c

/-- the statements after the switch -/
def finish (s : St) (isTok : Bool) (pos : Int) : St :=
  let s := if resetnl s.paren s.m then { s with ignorenl := false } else s
  if isTok then foundtoken s pos else s

inductive StepRes
  | ok (s : St) (rw : Bool)
  | err (rune : Bool)

/-- one iteration of `for i, ch := range line` -/
def step (s : St) (pos : Int) (ch : UInt8) : StepRes :=
  let c := classify ch
  match switchCase s c pos with
  | .cont s' => .ok s' false
  | .post s' => .ok (finish s' (!isBlank c) pos) false
  | .rewrite s' => .ok s' true
  | .err r => .err r

inductive LineRes
  | done (s : St) (out : List UInt8)
  | err (s : St) (out : List UInt8) (rune : Bool)
  | panic

/-- the byte loop over one line; `acc` = the (possibly rewritten) bytes line[:i], reversed -/
def runLine (base : Int) : St → Nat → List UInt8 → List UInt8 → LineRes
  | s, _, [], acc => .done s acc.reverse
  | s, i, ch :: rest, acc =>
    match step s (base + i) ch with
    | .err r => .err s acc.reverse r
    | .ok s' false => runLine base s' (i + 1) rest (ch :: acc)
    | .ok s' true =>
      match acc with
      | [] => .panic
      | _ :: acc' => runLine base s' (i + 1) rest (47 :: 47 :: acc')

def isLower (c : UInt8) : Bool := 97 ≤ c && c ≤ 122

/-- `lastIsKeywordIgnoresNl(buf, first, last)`; the keyword table is regenerated from the source -/
def lastIsKw (line : List UInt8) (first last : Int) : Bool :=
  let line := if last ≥ 0 && last < line.length then line.take (last.toNat + 1) else line
  let line := if first ≥ 0 && first ≤ line.length then line.drop first.toNat else line
  let r := line.reverse.dropWhile (fun c => c ≤ 32)
  match r with
  | [] => false
  | c :: _ =>
    if isLower c then Gen.ReadKeywords.continuing.contains (r.takeWhile isLower).reverse else false

structure Read where
  line : List UInt8
  eof : Bool
  deriving DecidableEq, Repr

inductive Err
  | nil | eof | ueof | lit (rune : Bool) | panic
  deriving DecidableEq, Repr

structure Chunk where
  bytes : List UInt8
  firstToken : Int
  err : Err
  orig : List UInt8
  deriving DecidableEq, Repr

def eolMode (s : St) : St := if s.m = .lineComment then { s with m := .normal } else s
def contMode (s : St) : St := if s.m = .plus ∨ s.m = .minus then { s with m := .normal } else s
def eofErr (s : St) : Err := if s.paren > 0 then .ueof else .eof

/-- may the chunk end at this line end?  (`paren <= 0 && !ignorenl && m == mNormal && ...`) -/
def cutCond (optAll : Bool) (s : St) : Bool :=
  s.paren ≤ 0 && !s.ignorenl && s.m == .normal && (s.firstToken ≥ 0 || !optAll)

/-- the outer `for` of ReadMultiline -/
def readLoop (optAll : Bool) : List Read → St → List UInt8 → List UInt8 → Chunk × List Read
  | [], s, buf, orig => (⟨buf, s.firstToken, eofErr (eolMode s), orig⟩, [])
  | rd :: rest, s, buf, orig =>
    match runLine buf.length s 0 rd.line [] with
    | .panic => (⟨buf, s.firstToken, .panic, orig ++ rd.line⟩, rest)
    | .err s' out r => (⟨buf ++ out, s'.firstToken, .lit r, orig ++ rd.line⟩, rest)
    | .done s' out =>
      let buf' := buf ++ out
      let orig' := orig ++ rd.line
      let s1 := eolMode s'
      if rd.eof then (⟨buf', s1.firstToken, eofErr s1, orig'⟩, rest)
      else if cutCond optAll s1 then
        if s1.firstToken ≥ 0 && lastIsKw buf' s1.firstToken s1.lastToken then
          readLoop optAll rest (contMode { s1 with ignorenl := true }) buf' orig'
        else (⟨buf', s1.firstToken, .nil, orig'⟩, rest)
      else readLoop optAll rest (contMode s1) buf' orig'

def readMultiline (optAll : Bool) (reads : List Read) : Chunk × List Read :=
  readLoop optAll reads init [] []

/-- the caller's loop: call ReadMultiline until it reports EOF -/
def readAll (optAll : Bool) : Nat → List Read → List Chunk
  | 0, _ => []
  | fuel + 1, reads =>
    let (c, rest) := readMultiline optAll reads
    match c.err with
    | .eof | .ueof => [c]
    | _ => c :: readAll optAll fuel rest

end ReadMulti
