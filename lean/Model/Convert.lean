import GoSpec.Val
import GoSpec.Str
import GoSpec.FloatConv
import Model.ClosureIR
import Model.Untyped
/-!
# Model.Convert — gomacro's type conversions `T(x)` for basic, string and byte/rune slice types

Transcribed from
* `fast/convert.go` `Comp.convert` (the compile-time decision procedure: untyped operand ->
  `ConstTo(t)`; identical type -> same expression; same `reflect.Type` (named <-> underlying,
  `[]MyByte` <-> `[]byte`) -> retag; otherwise the gate `Type.ConvertibleTo`, extended for numeric
  constants; constants converted at compile time; otherwise a run-time closure = `convert(fun(env),
  rtype)` followed by the read-back arm of the target kind), `convertNumericConst` (repair
  `fixes/C03-typed-const-representable.diff`), the helper `convert` (`reflect.Value.Convert`);
  the read-back ARMS themselves are not transcribed: they are regenerated from the source
  (`Gen/ConvertArms.lean`, ClosureIR entries), recognised by `armShape` and executed by `runArm`;
* `xreflect/type.go` `xtype.ConvertibleTo` (`rtype.ConvertibleTo || types.ConvertibleTo`);
* the parts of the standard library the code delegates to, following the library source
  (NOT proved about the library; compared on every op of the correspondence run):
  `reflect.convertOp` and the `cvt*` functions of reflect/value.go (`cvtInt`, `cvtUint`,
  `cvtFloatInt`, `cvtFloatUint`, `cvtIntFloat`, `cvtUintFloat`, `cvtFloat`, `cvtComplex`,
  `cvtIntString`, `cvtUintString`, `cvtBytesString`, `cvtStringBytes`, `cvtRunesString`,
  `cvtStringRunes`, `cvtDirect`, `makeInt`, `makeFloat`), `go/types` `convertibleTo`;
* `base/untyped/lit.go` `Lit.Convert`: `Model/Untyped.lean` (C04) for the basic targets, here the
  `r.Slice` arm (untyped string constant -> `[]byte` / `[]rune`).

Abstractions
* a type is its kind (17 basic kinds, `[]byte`, `[]rune`) plus a tag: 0 = unnamed, 1/2 = two
  different named types with that underlying type, 3 = (slices) unnamed slice of a NAMED element
  type.  Interpreted named types share the `reflect.Type` of their underlying type, so "same
  reflect type" is "same kind"; `IdenticalTo` is equality of (tag, kind).
* values: `GoSpec.Val` (integers as `BitVec`, floats as IEEE bit patterns, strings as bytes),
  byte slices, rune slices.  Nil-ness of slices is not modelled.
* float <-> integer and float <-> float conversions use the exact arithmetic of
  `GoSpec.FloatConv` (round to nearest even, truncate); a float -> integer conversion whose
  truncated value does not fit the result type is `undef` (Go: implementation-dependent) — the
  model does not say what the code returns there.
Core Lean only.
-/
namespace Convert
open GoSpec GoSpec.FloatConv

/-! ## types and values -/

inductive K where
  | basic (k : Kind)
  | bytes
  | runes
  deriving DecidableEq, Repr, Inhabited

structure Ty where
  tag : Nat
  k : K
  deriving DecidableEq, Repr, Inhabited

inductive CV where
  | b (v : Val)
  | bytes (l : List Nat)
  | runes (l : List (BitVec 32))

inductive Res where
  | rej                 -- compile-time error
  | undef               -- accepted; Go leaves the value implementation-dependent
  | val (v : CV)

/-- reflect.Kind categories (`base/reflect.Category`) -/
inductive Cat where
  | bool | int | uint | float | complex | string
  deriving DecidableEq, Repr

def cat (k : Kind) : Cat :=
  match k with
  | .bool => .bool
  | .string => .string
  | .float32 | .float64 => .float
  | .complex64 | .complex128 => .complex
  | .int | .int8 | .int16 | .int32 | .int64 => .int
  | _ => .uint

def isNumericKind (k : K) : Bool :=
  match k with
  | .basic k => cat k != .bool && cat k != .string
  | _ => false

/-! ## the gate: `xtype.ConvertibleTo` -/

/-- `reflect.convertOp(dst, src)` on the kinds in scope -/
inductive Op where
  | cvtInt | cvtUint | cvtFloatInt | cvtFloatUint | cvtIntFloat | cvtUintFloat | cvtFloat
  | cvtComplex | cvtIntString | cvtUintString | cvtBytesString | cvtStringBytes
  | cvtRunesString | cvtStringRunes | cvtDirect
  deriving DecidableEq, Repr

def convertOp (src dst : K) : Option Op :=
  let specific : Option Op :=
    match src with
    | .basic s =>
      match cat s with
      | .int =>
        (match dst with
         | .basic d => (match cat d with
            | .int | .uint => some .cvtInt
            | .float => some .cvtIntFloat
            | .string => some .cvtIntString
            | _ => none)
         | _ => none)
      | .uint =>
        (match dst with
         | .basic d => (match cat d with
            | .int | .uint => some .cvtUint
            | .float => some .cvtUintFloat
            | .string => some .cvtUintString
            | _ => none)
         | _ => none)
      | .float =>
        (match dst with
         | .basic d => (match cat d with
            | .int => some .cvtFloatInt
            | .uint => some .cvtFloatUint
            | .float => some .cvtFloat
            | _ => none)
         | _ => none)
      | .complex =>
        (match dst with
         | .basic d => (match cat d with
            | .complex => some .cvtComplex
            | _ => none)
         | _ => none)
      | .string =>
        (match dst with
         | .bytes => some .cvtStringBytes
         | .runes => some .cvtStringRunes
         | _ => none)
      | .bool => none
    | .bytes => (match dst with | .basic .string => some .cvtBytesString | _ => none)
    | .runes => (match dst with | .basic .string => some .cvtRunesString | _ => none)
  match specific with
  | some op => some op
  | none => if src = dst then some .cvtDirect else none     -- haveIdenticalUnderlyingType

/-- go/types `convertibleTo` on the underlying types in scope -/
def typesConvertible (src dst : K) : Bool :=
  let isInteger (k : K) : Bool := match k with | .basic k => cat k == .int || cat k == .uint | _ => false
  let isFloat (k : K) : Bool := match k with | .basic k => cat k == .float | _ => false
  let isComplex (k : K) : Bool := match k with | .basic k => cat k == .complex | _ => false
  let isString (k : K) : Bool := match k with | .basic k => cat k == .string | _ => false
  let isBytesOrRunes (k : K) : Bool := match k with | .bytes | .runes => true | _ => false
  -- "x's type V and T have identical underlying types"
  decide (src = dst)
  -- "x's type and T are both integer or floating point types"
  || ((isInteger src || isFloat src) && (isInteger dst || isFloat dst))
  -- "x's type and T are both complex types"
  || (isComplex src && isComplex dst)
  -- "x is an integer or a slice of bytes or runes and T is a string type"
  || ((isInteger src || isBytesOrRunes src) && isString dst)
  -- "x is a string and T is a slice of bytes or runes"
  || (isString src && isBytesOrRunes dst)

/-- `xtype.ConvertibleTo`: the reflect types are convertible, or go/types says so -/
def convertibleTo (src dst : K) : Bool := (convertOp src dst).isSome || typesConvertible src dst

/-! ## `reflect.Value.Convert` -/

/-- `v.Int()` / `v.Uint()`: the 64-bit extension of an integer of width `w` -/
def ext64 {w : Nat} (signed : Bool) (x : BitVec w) : BitVec 64 :=
  if signed then x.signExtend 64 else x.setWidth 64

/-- `makeInt(f, bits, t)`: store the low `w'` bits -/
def makeInt (bits : BitVec 64) (w' : Nat) : BitVec w' := bits.setWidth w'

/-- `cvtInt` / `cvtUint` -/
def cvtIntBits {w : Nat} (srcSigned : Bool) (x : BitVec w) (w' : Nat) : BitVec w' :=
  makeInt (ext64 srcSigned x) w'

def fmtOf (k : Kind) : Fmt := match k with | .float32 | .complex64 => f32 | _ => f64

def floatVal (k : Kind) (bits : Nat) : Val :=
  match k with
  | .float32 => .f32 (BitVec.ofNat 32 bits)
  | _ => .f64 (BitVec.ofNat 64 bits)

def complexVal (k : Kind) (re im : Nat) : Val :=
  match k with
  | .complex64 => .c64 (BitVec.ofNat 32 re) (BitVec.ofNat 32 im)
  | _ => .c128 (BitVec.ofNat 64 re) (BitVec.ofNat 64 im)

def intVal (ik : IKind) (i : Int) : Val := .int ik (BitVec.ofInt ik.w i)

def IKind.min (ik : IKind) : Int := if ik.signed then -(2 ^ (ik.w - 1)) else 0
def IKind.max (ik : IKind) : Int := if ik.signed then 2 ^ (ik.w - 1) - 1 else 2 ^ ik.w - 1

/-- `makeFloat(f, v, t)` with `v float64`: a float32 target rounds the float64 once more -/
def makeFloat (d : Kind) (bits64 : Nat) : Val :=
  match d with
  | .float32 => floatVal d (cvt f64 f32 bits64)
  | _ => floatVal d bits64

/-- `string(rune(x))` guarded as in `cvtIntString`/`cvtUintString`:
    `if int64(rune(x)) == x` (resp. `uint64(rune(x)) == x`) -/
def cvtIntStringBits (x : BitVec 64) : List Nat :=
  let r : BitVec 32 := x.setWidth 32
  if r.signExtend 64 = x then Str.encodeRune r.toInt else Str.encodeNat Str.runeError

def strBytes (s : List UInt8) : List Nat := s.map (·.toNat)
def ofBytes (l : List Nat) : List UInt8 := l.map (fun n => UInt8.ofNat n)

/-- the value `v` (of kind `src`) converted by `reflect.Value.Convert` to kind `dst` -/
def reflectConvert (op : Op) (v : CV) (dst : K) : Res :=
  match op, v, dst with
  | .cvtDirect, v, _ => .val v
  | .cvtInt, .b (.int ik x), .basic d | .cvtUint, .b (.int ik x), .basic d =>
    (match d.ikind? with
     | some ik' => .val (.b (.int ik' (cvtIntBits ik.signed x ik'.w)))
     | none => .rej)
  | .cvtIntFloat, .b (.int ik x), .basic d | .cvtUintFloat, .b (.int ik x), .basic d =>
    -- float64(v.Int()) / float64(v.Uint()), then makeFloat
    .val (.b (makeFloat d (ofInt f64 (I.toInt ik.signed x))))
  | .cvtFloatInt, .b fv, .basic d | .cvtFloatUint, .b fv, .basic d =>
    let t : Option Int := match fv with
      | .f32 b => truncToInt f32 b.toNat
      | .f64 b => truncToInt f64 b.toNat
      | _ => none
    (match d.ikind?, t with
     | some ik', some i => if IKind.min ik' ≤ i ∧ i ≤ IKind.max ik' then .val (.b (intVal ik' i)) else .undef
     | some _, none => .undef
     | none, _ => .rej)
  | .cvtFloat, .b (.f32 b), .basic d =>
    -- v.Float() widens exactly; makeFloat narrows again for a float32 target
    .val (.b (makeFloat d (cvt f32 f64 b.toNat)))
  | .cvtFloat, .b (.f64 b), .basic d => .val (.b (makeFloat d b.toNat))
  | .cvtComplex, .b (.c64 re im), .basic d =>
    (match d with
     | .complex64 => .val (.b (complexVal d (cvt f64 f32 (cvt f32 f64 re.toNat)) (cvt f64 f32 (cvt f32 f64 im.toNat))))
     | _ => .val (.b (complexVal d (cvt f32 f64 re.toNat) (cvt f32 f64 im.toNat))))
  | .cvtComplex, .b (.c128 re im), .basic d =>
    (match d with
     | .complex64 => .val (.b (complexVal d (cvt f64 f32 re.toNat) (cvt f64 f32 im.toNat)))
     | _ => .val (.b (.c128 re im)))
  | .cvtIntString, .b (.int ik x), _ | .cvtUintString, .b (.int ik x), _ =>
    .val (.b (.str (ofBytes (cvtIntStringBits (ext64 ik.signed x)))))
  | .cvtBytesString, .bytes l, _ => .val (.b (.str (ofBytes l)))
  | .cvtStringBytes, .b (.str s), _ => .val (.bytes (strBytes s))
  | .cvtRunesString, .runes l, _ => .val (.b (.str (ofBytes (Str.encode (l.map (·.toInt))))))
  | .cvtStringRunes, .b (.str s), _ => .val (.runes ((Str.decode (strBytes s)).map (BitVec.ofNat 32)))
  | _, _, _ => .rej

/-! ## the read-back arms (regenerated table, `Gen/ConvertArms.lean`) -/

/-- `reflect.Value` accessors used by the arms -/
inductive Acc where
  | aBool | aInt | aUint | aFloat | aComplex | aString
  deriving DecidableEq, Repr

def Acc.ofName (s : _root_.String) : Option Acc :=
  match s with
  | "Bool" => some .aBool | "Int" => some .aInt | "Uint" => some .aUint | "Float" => some .aFloat
  | "Complex" => some .aComplex | "String" => some .aString | _ => none

/-- the kind an accessor returns (`Int() int64`, `Uint() uint64`, `Float() float64`, ...) -/
def Acc.native : Acc → Kind
  | .aBool => .bool | .aInt => .int64 | .aUint => .uint64 | .aFloat => .float64
  | .aComplex => .complex128 | .aString => .string

/-- the accessor that is legal on a `reflect.Value` of kind `k` (others panic) -/
def accOf (k : Kind) : Acc :=
  match cat k with
  | .bool => .aBool | .int => .aInt | .uint => .aUint | .float => .aFloat
  | .complex => .aComplex | .string => .aString

/-- what an arm does, as recognised from its ClosureIR body -/
structure ArmShape where
  ret : Kind                -- result type of the closure
  viaConvert : Bool         -- `val := convert(fun(env), rtype)` first; else reads `fun(env)` directly
  acc : Acc                 -- accessor called
  cast : Option Kind        -- `T(...)` around the accessor
  deriving DecidableEq, Repr

open ClosureIR in
/-- recognise `{ val := convert(fun(env), rtype); return [T](val.ACC()) }` and
    `{ return T(fun(env).ACC()) }` -/
def armShape (a : ClosureIR.Arm) : Option ArmShape :=
  match a.ret with
  | .kind rk =>
    (match a.body with
     | [S.define "val" (E.call2 "convert" (E.app (E.var "fun")) (E.var "rtype")), S.ret r] =>
       (match r with
        | E.meth0 (E.var "val") m => (Acc.ofName m).map fun acc => ⟨rk, true, acc, none⟩
        | E.conv k (E.meth0 (E.var "val") m) => (Acc.ofName m).map fun acc => ⟨rk, true, acc, some k⟩
        | _ => none)
     | [S.ret (E.conv k (E.meth0 (E.app (E.var "fun")) m))] =>
       (Acc.ofName m).map fun acc => ⟨rk, false, acc, some k⟩
     | _ => none)
  | _ => none

/-- the case label of the target kind in `switch t.Kind()` -/
def kindLabel (k : Kind) : String :=
  match k with
  | .bool => "Bool" | .int => "Int" | .int8 => "Int8" | .int16 => "Int16" | .int32 => "Int32"
  | .int64 => "Int64" | .uint => "Uint" | .uint8 => "Uint8" | .uint16 => "Uint16"
  | .uint32 => "Uint32" | .uint64 => "Uint64" | .uintptr => "Uintptr" | .float32 => "Float32"
  | .float64 => "Float64" | .complex64 => "Complex64" | .complex128 => "Complex128"
  | .string => "String"

def catLabel (c : Cat) : String :=
  match c with
  | .bool => "Bool" | .int => "Int" | .uint => "Uint" | .float => "Float64"
  | .complex => "Complex128" | .string => "String"

/-- does the path of an entry select target kind `d` for a source of category `sc`?
    Paths: `[not(e.Const()), switch t.Kind(), case xr.K]` possibly followed by
    `[switch reflect.Category(e.Type.Kind()), case r.C | default]`.
    `others` = the category labels of the sibling cases (for `default`). -/
def pathMatches (path : List String) (d : Kind) (sc : Cat) (siblings : List String) : Bool :=
  match path with
  | ["not(e.Const())", "switch t.Kind()", c] => c == "case xr." ++ kindLabel d
  | ["not(e.Const())", "switch t.Kind()", c, "switch reflect.Category(e.Type.Kind())", g] =>
    c == "case xr." ++ kindLabel d &&
      (g == "case r." ++ catLabel sc || (g == "default" && !siblings.contains ("case r." ++ catLabel sc)))
  | _ => false

/-- the guards of the nested switch below `case xr.K` -/
def siblingGuards (arms : List ClosureIR.Entry) (d : Kind) : List String :=
  arms.filterMap fun e =>
    match e.path with
    | ["not(e.Const())", "switch t.Kind()", c, "switch reflect.Category(e.Type.Kind())", g] =>
      if c == "case xr." ++ kindLabel d then some g else none
    | _ => none

def lookupArm (arms : List ClosureIR.Entry) (d : Kind) (sc : Cat) : Option ArmShape :=
  match arms.find? (fun e => pathMatches e.path d sc (siblingGuards arms d)) with
  | some e => armShape e.arm
  | none => none

/-- integer read-back: `T(val.Int())` / `T(val.Uint())` on a value of width `w'` -/
def readInt {w' : Nat} (acc : Acc) (y : BitVec w') : BitVec w' :=
  (ext64 (acc == .aInt) y).setWidth w'

/-- run a `viaConvert` arm on the value `reflect.Convert` produced (of kind `d`) -/
def runArmConverted (s : ArmShape) (d : Kind) (v : Val) : Res :=
  if s.acc != accOf d then .rej                 -- reflect would panic: wrong accessor
  else if s.ret != d then .rej
  else if !(s.cast == some d || (s.cast == none && s.acc.native == d)) then .rej
  else
    match v with
    | .int ik y => .val (.b (.int ik (readInt s.acc y)))
    | .f32 b => .val (.b (floatVal .float32 (cvt f64 f32 (cvt f32 f64 b.toNat))))   -- float32(val.Float())
    | .c64 re im => .val (.b (complexVal .complex64 (cvt f64 f32 (cvt f32 f64 re.toNat)) (cvt f64 f32 (cvt f32 f64 im.toNat))))
    | v => .val (.b v)

/-- run a direct arm `T(fun(env).Int())` / `T(fun(env).Uint())` (target float32) on the operand -/
def runArmDirect (s : ArmShape) (d : Kind) (v : Val) : Res :=
  match v, d, s.cast with
  | .int ik x, .float32, some .float32 =>
    if s.acc != accOf (if ik.signed then .int64 else .uint64) then .rej
    else if s.ret != d then .rej
    else .val (.b (floatVal .float32 (ofInt f32 (I.toInt ik.signed x))))
  | _, _, _ => .rej

def srcCat (v : CV) : Option Cat :=
  match v with
  | .b (.bool _) => some .bool
  | .b (.int ik _) => some (if ik.signed then .int else .uint)
  | .b (.f32 _) | .b (.f64 _) => some .float
  | .b (.c64 _ _) | .b (.c128 _ _) => some .complex
  | .b (.str _) => some .string
  | _ => none

/-- run-time conversion to a basic kind `d`: the arm selected by `switch t.Kind()` -/
def runtimeBasic (arms : List ClosureIR.Entry) (op : Op) (v : CV) (d : Kind) : Res :=
  match srcCat v with
  | none =>
    -- slice operand (bytes/runes -> string): no nested switch on the category
    (match lookupArm arms d .string with
     | some s =>
       if s.viaConvert then
         (match reflectConvert op v (.basic d) with
          | .val (.b r) => runArmConverted s d r
          | r => r)
       else .rej
     | none => .rej)
  | some sc =>
    match lookupArm arms d sc with
    | none => .rej
    | some s =>
      if s.viaConvert then
        (match reflectConvert op v (.basic d) with
         | .val (.b r) => runArmConverted s d r
         | r => r)
      else
        (match v with
         | .b bv => runArmDirect s d bv
         | _ => .rej)

/-! ## typed constants: `convertNumericConst` (repair) -/

def intTarget (ik : IKind) : GoSpec.Const.IntT := ⟨ik.signed, ik.w⟩

def targetOf (k : Kind) : Option Untyped.Target :=
  match k with
  | .bool => some .bool
  | .string => some .string
  | .float32 => some (.float 32)
  | .float64 => some (.float 64)
  | .complex64 => some (.complex 64)
  | .complex128 => some (.complex 128)
  | k => k.ikind?.map fun ik => .int (intTarget ik)

/-- the `constant.Value` + `untyped.Kind` built from a typed numeric constant;
    `none`: not numeric, or not finite (`constant.MakeFloat64` gives `Unknown`) -/
def litOfTyped (v : CV) : Option Untyped.Lit :=
  match v with
  | .b (.int ik x) => some ⟨.int, .int (I.toInt ik.signed x)⟩
  | .b (.f32 b) => (toRat f32 b.toNat).map fun q => ⟨.float, .flt q⟩
  | .b (.f64 b) => (toRat f64 b.toNat).map fun q => ⟨.float, .flt q⟩
  | .b (.c64 re im) =>
    (match toRat f32 re.toNat, toRat f32 im.toNat with
     | some a, some b => some ⟨.complex, .cplx a b⟩
     | _, _ => none)
  | .b (.c128 re im) =>
    (match toRat f64 re.toNat, toRat f64 im.toNat with
     | some a, some b => some ⟨.complex, .cplx a b⟩
     | _, _ => none)
  | _ => none

/-- the typed value `Lit.Convert` returns, as a run-time value of kind `d` -/
def materialize (tv : Untyped.TVal) (d : Kind) : Res :=
  match tv, d with
  | .bool b, .bool => .val (.b (.bool b))
  | .str s, .string => .val (.b (.str (ofBytes s)))
  | .int n, d => (match d.ikind? with | some ik => .val (.b (intVal ik n)) | none => .rej)
  | .float q, .float32 => .val (.b (floatVal .float32 (ofRatConst f32 q)))
  | .float q, .float64 => .val (.b (floatVal .float64 (ofRatConst f64 q)))
  | .complex a b, .complex64 => .val (.b (complexVal .complex64 (ofRatConst f32 a) (ofRatConst f32 b)))
  | .complex a b, .complex128 => .val (.b (complexVal .complex128 (ofRatConst f64 a) (ofRatConst f64 b)))
  | _, _ => .rej

/-- `Lit.Convert(t)` for the targets in scope (basic kinds: C04's model; slices: the `r.Slice` arm) -/
def litConvert (l : Untyped.Lit) (dst : K) : Res :=
  match dst with
  | .basic d =>
    (match targetOf d with
     | some tgt => (match Untyped.convert l tgt with
        | some tv => materialize tv d
        | none => .rej)
     | none => .rej)
  | .bytes => (match l.val with | .str s => .val (.bytes (s.toUTF8.toList.map (·.toNat))) | _ => .rej)
  | .runes =>
    (match l.val with
     | .str s => .val (.runes ((Str.decode (s.toUTF8.toList.map (·.toNat))).map (BitVec.ofNat 32)))
     | _ => .rej)

/-! ## `Comp.convert` -/

/-- the operand of a conversion -/
inductive Operand where
  | untyped (l : Untyped.Lit)                 -- untyped constant (not a string)
  | untypedStr (bs : List Nat)                -- untyped string constant (any bytes)
  | const (t : Ty) (v : CV)                   -- typed constant
  | var (t : Ty) (v : CV)                     -- any non-constant expression of type `t` with value `v`

/-- which repairs the tree under test contains (read off the regenerated action list by the driver) -/
structure Tree where
  /-- `convertNumericConst` (fixes/C03-typed-const-representable.diff) -/
  numericConst : Bool
  /-- the go/types test in front of the same-`reflect.Type` shortcut (fixes/C03-same-rtype-gate.diff) -/
  rtypeGate : Bool
  deriving DecidableEq, Repr

def Tree.repaired : Tree := ⟨true, true⟩
def Tree.original : Tree := ⟨false, false⟩

/-- `types.ConvertibleTo(e.Type.GoType(), t.GoType())` for two types with the SAME kind: their
    underlying types are identical unless exactly one of them is a slice of a named element type
    (`[]MyByte` vs `[]byte`, `type B []byte`) -/
def sameKindConvertible (s t : Ty) : Bool := (s.tag == 3) == (t.tag == 3)

/-- `Comp.convert(e, t)` followed by the evaluation of the compiled expression.
    `arms` = the regenerated read-back table. -/
def convert (arms : List ClosureIR.Entry) (tr : Tree) (e : Operand) (t : Ty) : Res :=
  match e with
  | .untyped l =>
    -- e.ConstTo(t): afterwards e.Type is t and the first test (IdenticalTo) returns e
    litConvert l t.k
  | .untypedStr bs =>
    -- Lit.Convert, `constant.String`: arms r.String and r.Slice; every other target kind is an error
    (match t.k with
     | .basic .string => .val (.b (.str (ofBytes bs)))
     | .bytes => .val (.bytes bs)
     | .runes => .val (.runes ((Str.decode bs).map (BitVec.ofNat 32)))
     | _ => .rej)
  | .const s v =>
    if s = t then .val v                                           -- IdenticalTo
    else if s.k = t.k then
      if tr.rtypeGate && !sameKindConvertible s t then .rej        -- same reflect.Type, not convertible in Go
      else .val v                                                  -- same reflect.Type: retag
    else if convertibleTo s.k t.k || (tr.numericConst && isNumericKind s.k && isNumericKind t.k) then
      let viaReflect : Res :=
        match convertOp s.k t.k with
        | some op => reflectConvert op v t.k                       -- convert(ValueOf(e.Value), rtype).Interface()
        | none => .rej                                             -- reflect.Value.Convert panics
      if tr.numericConst && isNumericKind s.k && isNumericKind t.k then
        match litOfTyped v with
        | some l => litConvert l t.k
        | none => viaReflect
      else viaReflect
    else .rej
  | .var s v =>
    if s = t then .val v
    else if s.k = t.k then
      if tr.rtypeGate && !sameKindConvertible s t then .rej
      else .val v
    else if convertibleTo s.k t.k then
      match convertOp s.k t.k with
      | none => .rej
      | some op =>
        match t.k with
        | .basic d => runtimeBasic arms op v d
        | _ => reflectConvert op v t.k                              -- default arm: c.Converter = obj.Convert(rtout)
    else .rej

end Convert
