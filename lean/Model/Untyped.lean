import GoSpec.Const
/-!
# Model.Untyped — gomacro's evaluation of untyped constant expressions, as coded

Transcribed (branch by branch) from
* `fast/binary.go`  `Comp.BinaryExprUntyped`, `checkUntypedOperands`, `Comp.ShiftUntyped`
* `fast/unary.go`   `Comp.UnaryExprUntyped`
* `fast/builtin.go` `compileRealImagUntyped`, `compileComplexUntyped`, `checkComplexUntypedArg`
* `base/untyped/lit.go` `Lit.Convert`, `extractNumber`, `extractFloat`, `ConvertLiteralCheckOverflow`,
  `toMathBig`, `BigInt`, `BigRat`, `BigFloat` (fast-path cascade), `Int64`, `Uint64`, `Float64`, `rawBignum`
* `base/untyped/global.go` `Kind`, `MakeKind`
(with the repairs `fixes/C04-*.diff` applied.)

Transcription rules / abstractions
* a `go/constant.Value` is modelled by its `Kind()` and its exact mathematical value (`CVal`):
  `int64Val`/`intVal` ↦ `int n`, `ratVal`/`floatVal` ↦ `flt q`, `complexVal` ↦ `cplx re im`.
  The library functions gomacro calls (`BinaryOp`, `Compare`, `Shift`, `UnaryOp`, `ToInt`, `ToFloat`,
  `Real`, `Imag`, `Int64Val`, `Uint64Val`) are modelled on these values following the library source:
  operands are first brought to the larger representation (`match`), complex `*` and `/` use the
  library's formulas `(ac-bd, bc+ad)` and `((ac+bd)/s, (bc-ad)/s)` with `s = cc+dd`; a library panic
  (division by zero, operator not defined for the kind) and `Comp.Errorf` are `none`.
  Whether the library really computes these exact values is NOT proved: it is checked by the
  correspondence run (and the library's switch to a 512-bit `big.Float` beyond 4096-bit rationals is
  outside the model, see `Drv/C04.lean`).
* `reflect` conversions between machine integers are modelled as two's complement wrap-around
  (`wrapTo`), the "convert, convert back, compare" check of `ConvertLiteralCheckOverflow` is
  executed on them literally.
* rounding to float32/float64 (`constant.Float32Val/Float64Val`) is modelled only by its overflow
  condition `GoSpec.Const.floatLimit` and by the fact that exactly representable values are kept.
Core Lean only.
-/
namespace Untyped
open GoSpec.Const

/-- go/constant value: kind + exact value -/
inductive CVal where
  | bool (b : Bool)
  | str (s : String)
  | int (n : Int)
  | flt (q : Rat)
  | cplx (re im : Rat)
  deriving DecidableEq, Repr, Inhabited

/-- `untyped.Kind` (`None` is `Option.none`) -/
inductive UKind where
  | bool | int | rune | float | complex | string
  deriving DecidableEq, Repr, Inhabited

/-- `untyped.Lit` -/
structure Lit where
  kind : UKind
  val : CVal
  deriving DecidableEq, Repr, Inhabited

/-- `untyped.MakeKind(constant.Kind)` -/
def makeKind : CVal → UKind
  | .bool _ => .bool
  | .str _ => .string
  | .int _ => .int
  | .flt _ => .float
  | .cplx _ _ => .complex

/-! ## go/constant -/

/-- `constant.match`: bring both numeric operands to the larger representation -/
def cmatch : CVal → CVal → CVal × CVal
  | .int a, .flt b => (.flt a, .flt b)
  | .flt a, .int b => (.flt a, .flt b)
  | .int a, .cplx c d => (.cplx a 0, .cplx c d)
  | .cplx a b, .int c => (.cplx a b, .cplx c 0)
  | .flt a, .cplx c d => (.cplx a 0, .cplx c d)
  | .cplx a b, .flt c => (.cplx a b, .cplx c 0)
  | x, y => (x, y)

/-- token set of `constant.BinaryOp` as gomacro uses it: `BinOp` plus `QUO_ASSIGN` (integer division) -/
inductive Tok where
  | op (o : BinOp)
  | quoAssign
  deriving DecidableEq, Repr

/-- `constant.BinaryOp(x, tok, y)` -/
def cBinaryOp (x : CVal) (tok : Tok) (y : CVal) : Option CVal :=
  match cmatch x y with
  | (.int a, .int b) =>
    match tok with
    | .quoAssign => if b = 0 then none else some (.int (Int.tdiv a b))
    | .op .add => some (.int (a + b))
    | .op .sub => some (.int (a - b))
    | .op .mul => some (.int (a * b))
    | .op .quo => if b = 0 then none else some (.flt ((a : Rat) / (b : Rat)))
    | .op .rem => if b = 0 then none else some (.int (Int.tmod a b))
    | .op .and => some (.int (band a b))
    | .op .or => some (.int (bor a b))
    | .op .xor => some (.int (bxor a b))
    | .op .andNot => some (.int (bandNot a b))
    | _ => none
  | (.flt a, .flt b) =>
    match tok with
    | .op .add => some (.flt (a + b))
    | .op .sub => some (.flt (a - b))
    | .op .mul => some (.flt (a * b))
    | .op .quo => if b = 0 then none else some (.flt (a / b))
    | _ => none
  | (.cplx a b, .cplx c d) =>
    match tok with
    | .op .add => some (.cplx (a + c) (b + d))
    | .op .sub => some (.cplx (a - c) (b - d))
    | .op .mul => some (.cplx (a * c - b * d) (b * c + a * d))
    | .op .quo =>
      let s := c * c + d * d
      if s = 0 then none else some (.cplx ((a * c + b * d) / s) ((b * c - a * d) / s))
    | _ => none
  | (.str a, .str b) =>
    match tok with
    | .op .add => some (.str (a ++ b))
    | _ => none
  | (.bool a, .bool b) =>
    match tok with
    | .op .land => some (.bool (a && b))
    | .op .lor => some (.bool (a || b))
    | _ => none
  | _ => none

/-- `constant.Compare(x, op, y)` (`none` = the library panics) -/
def cCompare (x : CVal) (op : BinOp) (y : CVal) : Option Bool :=
  match cmatch x y with
  | (.bool a, .bool b) => if op.isOrdered then none else some (cmpOrd op false (a == b))
  | (.str a, .str b) => some (cmpOrd op (decide (a < b)) (a == b))
  | (.int a, .int b) => some (cmpOrd op (decide (a < b)) (decide (a = b)))
  | (.flt a, .flt b) => some (cmpOrd op (decide (a < b)) (decide (a = b)))
  | (.cplx a b, .cplx c d) => if op.isOrdered then none else some (cmpOrd op false (decide (a = c ∧ b = d)))
  | _ => none

/-- `constant.UnaryOp(op, x, 0)` -/
def cUnaryOp (op : UnOp) : CVal → Option CVal
  | .bool b => if op = .not then some (.bool !b) else none
  | .str _ => none
  | .int n =>
    match op with
    | .pos => some (.int n) | .neg => some (.int (-n)) | .cpl => some (.int (bnot n)) | .not => none
  | .flt q =>
    match op with
    | .pos => some (.flt q) | .neg => some (.flt (-q)) | _ => none
  | .cplx a b =>
    match op with
    | .pos => some (.cplx a b) | .neg => some (.cplx (-a) (-b)) | _ => none

/-- `constant.ToInt` (`none` = Unknown) -/
def cToInt : CVal → Option Int
  | .int n => some n
  | .flt q => if q.den = 1 then some q.num else none
  | .cplx a b => if b = 0 ∧ a.den = 1 then some a.num else none
  | _ => none

/-- `constant.ToFloat` (`none` = Unknown) -/
def cToFloat : CVal → Option Rat
  | .int n => some n
  | .flt q => some q
  | .cplx a b => if b = 0 then some a else none
  | _ => none

/-- `constant.Real`, `constant.Imag` (`none` = panic "not numeric") -/
def cReal : CVal → Option CVal
  | .int n => some (.int n) | .flt q => some (.flt q) | .cplx a _ => some (.flt a) | _ => none
def cImag : CVal → Option CVal
  | .int _ => some (.int 0) | .flt _ => some (.int 0) | .cplx _ b => some (.flt b) | _ => none

def inInt64 (n : Int) : Bool := decide (-(2 ^ 63) ≤ n) && decide (n < 2 ^ 63)
def inUint64 (n : Int) : Bool := decide (0 ≤ n) && decide (n < 2 ^ 64)

/-- `constant.Shift(x, op, s)` on an Int value -/
def cShift (x : Int) (op : BinOp) (s : Nat) : Option Int :=
  match op with
  | .shl => some (x <<< s)
  | .shr => some (x >>> s)
  | _ => none

/-! ## fast/binary.go -/

/-- `untypedClass` -/
def untypedClass : UKind → UKind
  | .int | .rune | .float | .complex => .complex
  | k => k

def isIntKind (k : UKind) : Bool := k == .int || k == .rune

/-- the shifted operand of `Comp.ShiftUntyped`: Int/Rune constants as they are,
    Float/Complex constants through `constant.ToInt` -/
def shiftOperand (x : Lit) : Option Int :=
  match x.kind with
  | .int | .rune => (match x.val with | .int m => some m | _ => none)   -- "nothing to do"
  | .float | .complex => cToInt x.val
  | _ => none

/-- `Comp.ShiftUntyped` -/
def shiftUntyped (op : BinOp) (x y : Lit) : Option Lit :=
  -- the count: constant.ToInt(y.Val) of kind Int, exact as uint64, and fitting `uint`
  match cToInt y.val with
  | none => none
  | some n =>
    if inUint64 n then
      let xkind := if x.kind = .rune then UKind.rune else UKind.int
      match shiftOperand x with
      | none => none
      | some m => (cShift m op n.toNat).map fun z => ⟨xkind, .int z⟩
    else none   -- c.Errorf("invalid shift")

/-- result kind in `Comp.BinaryExprUntyped`: `MakeKind(zobj.Kind())`, but
    "untyped.Rune has precedence over untyped.Int" -/
def resultKind (xk yk : UKind) (z : CVal) : UKind :=
  match z with
  | .int _ =>
    if isIntKind xk ∧ xk ≠ .int then xk
    else if isIntKind yk ∧ yk ≠ .int then yk
    else makeKind z
  | _ => makeKind z

/-- `Comp.BinaryExprUntyped` -/
def binaryExprUntyped (op : BinOp) (x y : Lit) : Option Lit :=
  match op with
  | .land | .lor =>
    -- x.Convert(bool), y.Convert(bool)
    match x.val, y.val with
    | .bool a, .bool b => some ⟨.bool, .bool (if op = .land then a && b else a || b)⟩
    | _, _ => none
  | .eql | .neq | .lss | .leq | .gtr | .geq =>
    if untypedClass x.kind ≠ untypedClass y.kind then none
    else (cCompare x.val op y.val).map fun b => ⟨.bool, .bool b⟩
  | .shl | .shr => shiftUntyped op x y
  | _ =>
    if untypedClass x.kind ≠ untypedClass y.kind then none
    else
      let xint := isIntKind x.kind
      let yint := isIntKind y.kind
      let tok := if op = .quo ∧ xint ∧ yint then Tok.quoAssign else Tok.op op
      -- zkind == untyped.None (Unknown result) and go/constant panics are `none`
      (cBinaryOp x.val tok y.val).map fun z => ⟨resultKind x.kind y.kind z, z⟩

/-- `Comp.UnaryExprUntyped` -/
def unaryExprUntyped (op : UnOp) (x : Lit) : Option Lit :=
  (cUnaryOp op x.val).map fun z => ⟨x.kind, z⟩

/-- `compileRealImagUntyped` -/
def realImagUntyped (isReal : Bool) (x : Lit) : Option Lit :=
  match (if isReal then cReal x.val else cImag x.val) with
  | none => none
  | some v => (cToFloat v).map fun q => ⟨.float, .flt q⟩

/-- `checkComplexUntypedArg` -/
def complexArgOk (x : Lit) : Bool :=
  match x.kind with
  | .int | .rune | .float => true
  | .complex => (match cImag x.val with | some (.int 0) => true | some (.flt q) => q == 0 | _ => false)
  | _ => false

/-- `compileComplexUntyped`: `re + im * 1i` -/
def complexUntyped (re im : Lit) : Option Lit :=
  if complexArgOk re && complexArgOk im then
    match cBinaryOp im.val (.op .mul) (.cplx 0 1) with
    | none => none
    | some imv => (cBinaryOp re.val (.op .add) imv).map fun z => ⟨.complex, z⟩
  else none

/-! ## expression trees (the interpreter compiles operands first, then the operator) -/

inductive UExpr where
  | lit (l : Lit)
  | un (op : UnOp) (e : UExpr)
  | bin (op : BinOp) (a b : UExpr)
  | real (e : UExpr)
  | imag (e : UExpr)
  | cmplx (a b : UExpr)
  deriving Repr, Inhabited

def eval : UExpr → Option Lit
  | .lit l => some l
  | .un op e => (eval e).bind (unaryExprUntyped op)
  | .bin op a b => (eval a).bind fun x => (eval b).bind fun y => binaryExprUntyped op x y
  | .real e => (eval e).bind (realImagUntyped true)
  | .imag e => (eval e).bind (realImagUntyped false)
  | .cmplx a b => (eval a).bind fun x => (eval b).bind fun y => complexUntyped x y

/-! ## base/untyped/lit.go : typed contexts -/

/-- target types of `Lit.Convert` that the model covers -/
inductive Target where
  | bool
  | string
  | int (t : IntT)
  | float (bits : Nat)      -- 32 | 64
  | complex (bits : Nat)    -- 64 | 128 : bits of each part = bits/2
  deriving DecidableEq, Repr

/-- run-time value produced for a typed context -/
inductive TVal where
  | bool (b : Bool)
  | str (bytes : List Nat)           -- UTF-8 bytes
  | int (n : Int)
  | float (q : Rat)                  -- the constant BEFORE rounding (rounding is not modelled)
  | complex (re im : Rat)
  deriving DecidableEq, Repr

/-- what `extractNumber` hands to `ConvertLiteralCheckOverflow` -/
inductive Num where
  | i64 (n : Int)
  | u64 (n : Int)
  | f (q : Rat)             -- a float32/float64 made by extractFloat (value before rounding)
  | f64 (q : Rat)           -- a float64 that holds q exactly (constant.Float64Val, exact)
  | c (re im : Rat)
  deriving DecidableEq, Repr

/-- two's complement wrap-around of `reflect` integer conversions -/
def wrapTo (t : IntT) (n : Int) : Int :=
  let m : Int := 2 ^ t.bits
  if t.signed then (n + m / 2) % m - m / 2 else n % m

def ratAbs (q : Rat) : Rat := if q < 0 then -q else q

/-- `extractFloat`: `none` iff the rounded value is infinite -/
def extractFloat (bits : Nat) (q : Rat) : Option Rat :=
  if ratAbs q < floatLimit bits then some q else none

/-- strip trailing zero bits: `n = odd * 2^j` -/
def stripZeros : Nat → Nat → Nat → Nat × Nat
  | 0, n, j => (n, j)
  | fuel + 1, n, j => if n % 2 = 0 ∧ n ≠ 0 then stripZeros fuel (n / 2) (j + 1) else (n, j)

/-- exactly representable in a binary format with `p` mantissa bits, least exponent `emin`
    (of the last mantissa bit) and values below `2^emax`: `q = ±m·2^e`, `m < 2^p`, `e ≥ emin`, `m·2^e < 2^emax` -/
def isFloatFmt (p : Nat) (emin emax : Int) (q : Rat) : Bool :=
  if q.num = 0 then true
  else
    let d := q.den
    let k := d.log2
    if 2 ^ k ≠ d then false
    else
      let n := q.num.natAbs
      let (odd, j) := stripZeros (n.log2 + 1) n 0
      let bl := odd.log2 + 1
      let low : Int := (j : Int) - (k : Int)
      decide (bl ≤ p) && decide (emin ≤ low) && decide ((bl : Int) + low ≤ emax)

/-- exactly representable as float64 (so that `constant.Float64Val` reports exact) -/
def isFloat64 (q : Rat) : Bool := isFloatFmt 53 (-1074) 1024 q
def isFloat32 (q : Rat) : Bool := isFloatFmt 24 (-149) 128 q

/-- `Lit.extractNumber(src, t)` for a real source (`none` = Errorf) -/
def extractReal (src : CVal) (tgt : Target) : Option Num :=
  match tgt with
  | .int t =>
    -- constant.ToInt on a Float source
    let src := match src with
      | .flt q => (if q.den = 1 then CVal.int q.num else src)
      | s => s
    match src with
    | .int n =>
      if t.signed then (if inInt64 n then some (.i64 n) else none)
      else (if inUint64 n then some (.u64 n) else none)
    | .flt q => if isFloat64 q then some (.f64 q) else none     -- not an integer: rejected later as "truncated"
    | _ => none
  | .float bits =>
    match src with
    | .int n => (extractFloat bits n).map .f
    | .flt q => (extractFloat bits q).map .f
    | _ => none
  | .complex bits =>
    match src with
    | .int n => (extractFloat (bits / 2) n).map .f
    | .flt q => (extractFloat (bits / 2) q).map .f
    | _ => none
  | _ => none

/-- `extractNumber` including the Complex case -/
def extractNumber (src : CVal) (tgt : Target) : Option Num :=
  match src with
  | .cplx a b =>
    match extractReal (.flt a) tgt, extractReal (.flt b) tgt with
    | some _, some _ => some (.c a b)
    | _, _ => none
  | s => extractReal s tgt

/-- `ConvertLiteralCheckOverflow(n, t)` -/
def convertCheck (n : Num) (tgt : Target) : Option TVal :=
  match tgt, n with
  | .int t, .i64 v =>
    let vto := wrapTo t v                       -- reflect: int64 -> T
    let vback := wrapTo ⟨true, 64⟩ vto          -- reflect: T -> int64
    if vback = v then some (.int vto) else none
  | .int t, .u64 v =>
    let vto := wrapTo t v
    let vback := wrapTo ⟨false, 64⟩ vto
    if vback = v then some (.int vto) else none
  | .int _, .f64 _ => none                      -- non-integral float: "constant truncated"
  | .int _, _ => none                           -- complex -> integer: reflect cannot convert
  | .float _, .f q => some (.float q)
  | .float _, _ => none
  | .complex _, .f q => some (.complex q 0)
  | .complex _, .c a b => some (.complex a b)
  | .complex _, _ => none
  | _, _ => none

/-- UTF-8 encoding of a code point -/
def utf8 (c : Nat) : List Nat :=
  if c < 0x80 then [c]
  else if c < 0x800 then [0xC0 + c / 64, 0x80 + c % 64]
  else if c < 0x10000 then [0xE0 + c / 4096, 0x80 + c / 64 % 64, 0x80 + c % 64]
  else [0xF0 + c / 262144, 0x80 + c / 4096 % 64, 0x80 + c / 64 % 64, 0x80 + c % 64]

/-- Go's `string(i)` for an integer: invalid code points give U+FFFD -/
def runeString (n : Int) : List Nat :=
  if 0 ≤ n ∧ n ≤ 0x10FFFF ∧ ¬ (0xD800 ≤ n ∧ n ≤ 0xDFFF) then utf8 n.toNat else [0xEF, 0xBF, 0xBD]

/-- `Lit.Convert(t)` for the basic kinds -/
def convert (l : Lit) (tgt : Target) : Option TVal :=
  match tgt with
  | .bool => (match l.val with | .bool b => some (.bool b) | _ => none)
  | .string =>
    match l.val with
    | .str s => some (.str (s.toUTF8.toList.map (·.toNat)))
    | .int n => some (.str (runeString n))
    | _ => none
  | .int _ | .float _ =>
    -- untyped complex with zero imaginary part is allowed
    let val := match l.kind, l.val with
      | .complex, .cplx a b => if b = 0 then CVal.flt a else l.val
      | _, v => v
    match val with
    | .bool _ | .str _ => none
    | v => (extractNumber v tgt).bind fun n => convertCheck n tgt
  | .complex _ =>
    match l.val with
    | .bool _ | .str _ => none
    | v => (extractNumber v tgt).bind fun n => convertCheck n tgt

/-! ## math/big targets (gomacro extension): fast-path cascade -/

inductive BigRes where
  | int (n : Int)
  | rat (q : Rat)
  | floatExact (q : Rat)      -- the *big.Float holds q exactly
  | floatRounded              -- q was rounded to the precision SetRat chose
  deriving DecidableEq, Repr

def isPow2 (d : Nat) : Bool := 2 ^ d.log2 == d

/-- `Lit.BigInt()` -/
def bigInt (l : Lit) : Option Int :=
  match l.val with
  | .int n =>
    if inInt64 n then some n              -- Int64() exact: SetInt64
    else if inUint64 n then some n        -- Uint64() exact: SetUint64
    else some n                           -- rawBignum: *big.Int, Set
  | .flt q =>
    -- Int64(), Uint64() refuse kind Float; rawBignum gives *big.Rat
    if q.den = 1 then some q.num else none
  | _ => none

/-- `Lit.BigRat()` -/
def bigRat (l : Lit) : Option Rat :=
  match l.val with
  | .int n => if inInt64 n then some (n : Rat) else some (n : Rat)   -- SetInt64 | SetInt
  | .flt q => some q                                                   -- Set(*big.Rat)
  | _ => none

/-- `Lit.BigFloat()` -/
def bigFloat (l : Lit) : Option BigRes :=
  match l.val with
  | .int n => some (.floatExact n)          -- SetInt64 (prec 64) | SetInt (prec = bit length): exact
  | .flt q =>
    if isFloat64 q then some (.floatExact q)     -- Float64() exact: SetFloat64
    else if isPow2 q.den then some (.floatExact q) -- SetRat with prec = max(bit lengths, 64): quotient exact
    else some .floatRounded
  | _ => none

/-- `Lit.toMathBig`: only Int and Float constants -/
inductive BigTarget where | int | rat | float deriving DecidableEq, Repr

def toMathBig (l : Lit) (t : BigTarget) : Option BigRes :=
  match l.val with
  | .int _ | .flt _ =>
    match t with
    | .int => (bigInt l).map .int
    | .rat => (bigRat l).map .rat
    | .float => bigFloat l
  | _ => none


/-! ## fast/binary.go `Comp.prepareShift`: untyped constant shifted by a TYPED constant count

`x << T(c)` / `const k T = c; x << k` reach `Comp.Shl`/`Shr` -> `prepareShift` (the count is not untyped):
* `xet := xe.DefaultType()` must be an integer type: only Int and Rune constants pass;
* the count being constant (`ye.Const()`), it is re-wrapped as an untyped Int
  `constant.MakeUint64(xr.ValueOf(ye.Value).Uint())` and handed to `ShiftUntyped`.
  `reflect.Value.Uint()` panics on a signed value, so a count of a signed type is an error (finding).
The typed constant `T(c)` itself is `Lit.Convert` (`convert`). -/
def shiftTypedCount (op : BinOp) (x count : Lit) (t : IntT) : Option Lit :=
  match convert count (.int t) with
  | some (.int n) =>
    if isIntKind x.kind then
      if t.signed then none
      else shiftUntyped op x ⟨.int, .int n⟩
    else none
  | _ => none

/-! ## fast/literal.go `makeMathBigFun`: every execution of a compiled conversion to *big.Int/Rat/Float
returns a fresh duplicate of the constant (`var b big.Int; b.Set(a); return &b` inside the closure).
The heap is a list of cells, a pointer is an index. -/

structure BigHeap where
  cells : List BigRes
  deriving Repr

/-- one execution of the closure returned by `makeMathBigFun(val)`: allocate, copy the constant -/
def execBigFun (c : BigRes) (h : BigHeap) : BigHeap × Nat :=
  (⟨h.cells ++ [c]⟩, h.cells.length)

/-- the program modifies the object in place (`x.Add(x, x)`, any function of the old value) -/
def BigHeap.modify (h : BigHeap) (p : Nat) (f : BigRes → BigRes) : BigHeap :=
  ⟨h.cells.modify p f⟩

def BigHeap.get (h : BigHeap) (p : Nat) : Option BigRes := h.cells[p]?

/-- run the compiled conversion `n` times, modifying each result in place after it was produced;
    returns the final heap and, per execution, the pointer and the value read right after the execution -/
def runBigFun (c : BigRes) (f : BigRes → BigRes) : Nat → BigHeap → BigHeap × List (Nat × Option BigRes)
  | 0, h => (h, [])
  | n + 1, h =>
    let (h1, p) := execBigFun c h
    let v := h1.get p
    let h2 := h1.modify p f
    let (h3, rest) := runBigFun c f n h2
    (h3, (p, v) :: rest)

end Untyped
