/-!
# Model/Flow.lean — statement control flow of gomacro's `fast` interpreter (property C05)

Transcribed code (cosmos72/gomacro, package fast):

* `statement.go`: `Comp.Block`/`List` (pushEnvIfLocalBinds / popEnvIfLocalBinds, `containLocalBinds`),
  `Comp.If`, `Comp.For`, `Comp.Break`, `Comp.Continue`, `Comp.Goto`, labels (`Comp.Stmt`, case
  `*ast.LabeledStmt`), `Comp.jumpOut`, `popEnv`, `stmtNop`, `stmtReturn`, `pushEnvIfFlag`
  (`UpCost = 0` for binding-free blocks).
* `switch.go`/`switch2.go`: `Comp.Switch`, `switchCase`, `switchDefault`, `switchCaseBody`,
  `stmtFallthrough`, `switchGotoMap`/`switchGotoSlice` (jump table or map on the constants that precede
  the first non-constant case expression, only when there are >= 2 of them).
* `range.go`: `Comp.Range`, `rangeSlice`, `rangeString` (with the repairs of fixes/C05-range-*.diff).
* `code.go`: `Code.Append`, `Code.Truncate`, `exec` (the closure-threading loop, `spinInterrupt` sentinel).

Transcription rules / abstractions

* A compiled function body is a flat `List Instr`; an `Instr` stands for one Go closure of type `Stmt`.
  `Env.IP` is a single program counter: the real code keeps one `IP` per `Env`, copies it on `NewEnv`,
  writes `outer.IP = env.IP+1` on `popEnv` and writes the target env's `IP` in `jumpOut`, so the stale
  copies are never read.
* The `Env` chain is a `Stack` of frames (innermost first).  `pushEnv` = push an empty frame,
  `popEnv` = drop one, `jumpOut(upn, ip)` = drop `upn` frames and set `IP`.
* Name resolution (`Comp.Resolve` -> (upn, index)) is abstracted to *by-name lookup along the frame
  chain, innermost first*: this is what static resolution computes as long as no backward `goto` jumps
  over a declaration of the same block (the generator never does that).  Slots/indexes, `IntBinds` vs
  `Vals` and frame recycling are the business of C02/C06.
* The jump struct (`jump.Cond/Post/Break`, `jump.Then/Else/End`, `ibreak`, `iend`) whose fields are
  patched after the body has been compiled becomes an address computed from `base` and `size` of the
  parts (`compile_length` proves `size` is the length actually emitted, truncation included).
* `Comp` chain = `Ctx` (list of `CFrame`: `UpCost`, `Loop`, `Labels`, `Func != nil`).
* Expressions are side-effect free integer terms, conditions are comparisons or the literal constants
  `true`/`false` (the only ones `TryAsPred` folds in generated programs).
* `emit(tag, e)` is the trace atom (an `ExprStmt` calling a host function in the real interpreter).
* Hidden binds (`switchTag`'s unnamed bind, the range counter) are the reserved variables `tagVar`, `hidVar`.
  The number of closures emitted for hidden declarations is not observable and not modelled 1:1.
* `return` is the naked return of a function with named results: `stmtReturn` only.
-/

namespace Flow

abbrev Var := Nat
abbrev Label := Nat

def hidVar : Var := 1000
def tagVar : Var := 1001

inductive Expr where
  | lit (n : Int)
  | var (x : Var)
  | add (a b : Expr)
  | sub (a b : Expr)
  | tbl (t : List Int) (i : Expr)
  deriving Repr, DecidableEq, Inhabited

inductive Cond where
  | const (b : Bool)
  | lt (a b : Expr)
  | le (a b : Expr)
  | eq (a b : Expr)
  | ne (a b : Expr)
  | or (a b : Cond)
  deriving Repr, DecidableEq, Inhabited

abbrev Frame := List (Var × Int)
abbrev Stack := List Frame

def Frame.has (f : Frame) (x : Var) : Bool := f.any (fun p => p.1 == x)
def Frame.get (f : Frame) (x : Var) : Int :=
  match f with
  | [] => 0
  | p :: r => if p.1 == x then p.2 else Frame.get r x
def Frame.set (f : Frame) (x : Var) (v : Int) : Frame :=
  f.map (fun p => if p.1 == x then (x, v) else p)

def lookup (x : Var) : Stack → Int
  | [] => 0
  | f :: r => if f.has x then f.get x else lookup x r

def assignS (x : Var) (v : Int) : Stack → Stack
  | [] => []
  | f :: r => if f.has x then f.set x v :: r else f :: assignS x v r

def defineS (x : Var) (v : Int) : Stack → Stack
  | [] => [[(x, v)]]
  | f :: r => (if f.has x then f.set x v else (x, v) :: f) :: r

def Expr.eval (s : Stack) : Expr → Int
  | .lit n => n
  | .var x => lookup x s
  | .add a b => a.eval s + b.eval s
  | .sub a b => a.eval s - b.eval s
  | .tbl t i => let k := i.eval s; if k < 0 then 0 else t.getD k.toNat 0

def Cond.eval (s : Stack) : Cond → Bool
  | .const b => b
  | .lt a b => decide (a.eval s < b.eval s)
  | .le a b => decide (a.eval s ≤ b.eval s)
  | .eq a b => decide (a.eval s = b.eval s)
  | .ne a b => decide (a.eval s ≠ b.eval s)
  | .or a b => a.eval s || b.eval s

def Cond.isConst : Cond → Bool
  | .const _ => true
  | _ => false

abbrev Event := Nat × Int

/-- run-time state shared by the flat machine and the reference semantics -/
structure St where
  stack : Stack
  trace : List Event
  deriving Repr, DecidableEq, Inhabited

def St.emit (st : St) (t : Nat) (e : Expr) : St := { st with trace := st.trace ++ [(t, e.eval st.stack)] }
def St.assign (st : St) (x : Var) (e : Expr) : St := { st with stack := assignS x (e.eval st.stack) st.stack }
def St.define (st : St) (x : Var) (e : Expr) : St := { st with stack := defineS x (e.eval st.stack) st.stack }
def St.push (st : St) : St := { st with stack := [] :: st.stack }
def St.dropn (st : St) (n : Nat) : St := { st with stack := st.stack.drop n }
def St.pushIf (st : St) (b : Bool) : St := if b then st.push else st
def St.popIf (st : St) (b : Bool) : St := if b then st.dropn 1 else st

/-- case guard: `val e` in `switch tag {case e:}`, `cond c` in a tag-less `switch {case c:}` -/
inductive Guard where
  | val (e : Expr)
  | cond (c : Cond)
  /-- `case g(tag, e)`: a non-constant case expression with an observable side effect: evaluating it emits
      the event `(tag, value)`; its value is compared with the switch tag -/
  | eff (tag : Nat) (e : Expr)
  deriving Repr, DecidableEq, Inhabited

/-- Structured statements.  Statement lists are right-nested `seq` chains ending in `skip`.
`clause` chains (`rest` = next clause or `skip`) are only meaningful as the body of `switch`. -/
inductive Stmt where
  | skip
  | seq (a b : Stmt)
  | emit (tag : Nat) (e : Expr)
  | assign (x : Var) (e : Expr)
  | define (x : Var) (e : Expr)
  | block (body : Stmt)
  /-- `if init; c { thn } else els` ; `init = skip`: none; `els = skip`: no else, otherwise `block`/`ite` -/
  | ite (init : Stmt) (c : Cond) (thn : Stmt) (els : Stmt)
  /-- `ls: for init; c; post { body }` ; `c = none`: no condition; `post = skip`: none -/
  | for (ls : List Label) (init : Stmt) (c : Option Cond) (post : Stmt) (body : Stmt)
  | brk (l : Option Label)
  | cont (l : Option Label)
  | ret
  /-- `l: s` as a goto target (loop labels used by break/continue live in `for`/`switch`/`range`) -/
  | labeled (l : Label) (s : Stmt)
  | goto (l : Label)
  /-- `ls: for key, val :=|= range <literal> { body }`; the operand is given by its (key, value) pairs;
      `str`: operand is a string (keys = byte offsets) else a slice (keys = 0..n-1) -/
  | range (ls : List Label) (str : Bool) (dfn : Bool) (key val : Option Var) (keys vals : List Int) (body : Stmt)
  /-- `ls: switch init; tag { cls }` -/
  | switch (ls : List Label) (init : Stmt) (tag : Option Expr) (cls : Stmt)
  /-- `case guards: body [fallthrough]` (`guards = none`: `default`) followed by `rest` -/
  | clause (guards : Option (List Guard)) (ft : Bool) (body : Stmt) (rest : Stmt)
  deriving Repr, Inhabited, DecidableEq

/-- `containLocalBinds(list...)`: does the statement list *directly* contain a declaration? -/
def hasDefs : Stmt → Bool
  | .seq a b => hasDefs a || hasDefs b
  | .define _ _ => true
  | _ => false

def b2n (b : Bool) : Nat := if b then 1 else 0

/-! ## Flat code -/

inductive Instr where
  | emit (tag : Nat) (e : Expr)
  | assign (x : Var) (e : Expr)
  | define (x : Var) (e : Expr)
  /-- `pushEnvIfFlag` closure: `NewEnv`, `IP++` -/
  | push
  /-- `popEnv` -/
  | pop
  /-- `jumpOut(upn, &ip)` and the plain `env.IP = jump.X` closures (`upn = 0`) -/
  | jmp (upn : Nat) (tgt : Nat)
  /-- conditional closures of `If` (Then/Else), `For` and `switchCase` (IP+1 / Break resp. iend) -/
  | cjmp (c : Cond) (tThen tElse : Nat)
  /-- the comparison closure of `switchCase` when some case expression has a side effect:
      expressions are evaluated in order until one equals the tag (IP+1), else `iend` -/
  | casehdr (gs : List Guard) (tThen tElse : Nat)
  /-- `stmtReturn` -/
  | ret
  /-- `stmtNop` (reserved slot of the switch optimizer) -/
  | nop
  /-- `stmtFallthrough`: `IP += 2` -/
  | fallthru
  /-- `switchGotoSlice` (`slice = true`) / `switchGotoMap` closure: hit -> body address, miss -> `IP+1` -/
  | swgoto (slice : Bool) (tag : Expr) (table : List (Int × Nat))
  /-- `c.Errorf(...)` at compile time -/
  | invalid
  deriving Repr, DecidableEq, Inhabited

abbrev Code := List Instr

structure LoopInfo where
  labels : List Label
  brk : Nat
  cont : Option Nat
  deriving Repr, DecidableEq

/-- one `*Comp` of the compile-time chain -/
structure CFrame where
  upCost : Nat
  loop : Option LoopInfo := none
  labels : List (Label × Nat) := []
  isFunc : Bool := false
  deriving Repr, DecidableEq

abbrev Ctx := List CFrame

def labelMatch (l : Option Label) (li : LoopInfo) : Bool :=
  match l with
  | none => true
  | some x => li.labels.contains x

/-- `Comp.Break`: walk the Comp chain summing `UpCost` -/
def resolveBreak : Ctx → Option Label → Nat → Option (Nat × Nat)
  | [], _, _ => none
  | f :: rest, l, upn =>
    if f.isFunc then none else
    match f.loop with
    | some li => if labelMatch l li then some (upn, li.brk) else resolveBreak rest l (upn + f.upCost)
    | none => resolveBreak rest l (upn + f.upCost)

/-- `Comp.Continue` -/
def resolveCont : Ctx → Option Label → Nat → Option (Nat × Nat)
  | [], _, _ => none
  | f :: rest, l, upn =>
    if f.isFunc then none else
    match f.loop with
    | some li =>
      match li.cont with
      | some ct => if labelMatch l li then some (upn, ct) else resolveCont rest l (upn + f.upCost)
      | none => resolveCont rest l (upn + f.upCost)
    | none => resolveCont rest l (upn + f.upCost)

def findLabelAddr (l : Label) : List (Label × Nat) → Option Nat
  | [] => none
  | (k, a) :: r => match findLabelAddr l r with   -- later registrations win (`*addr = ip`)
    | some a' => some a'
    | none => if k == l then some a else none

/-- `Comp.Goto` (with fixes/C05-goto-func-label.diff: the function's own Comp is examined too) -/
def resolveGoto : Ctx → Label → Nat → Option (Nat × Nat)
  | [], _, _ => none
  | f :: rest, l, upn =>
    match findLabelAddr l f.labels with
    | some a => some (upn, a)
    | none => if f.isFunc then none else resolveGoto rest l (upn + f.upCost)

def addLabels (ctx : Ctx) (ls : List (Label × Nat)) : Ctx :=
  match ctx with
  | [] => []
  | f :: r => { f with labels := f.labels ++ ls } :: r

/-- labels a statement registers in the Comp that compiles it (`case *ast.LabeledStmt`) -/
def labelsOf : Stmt → Nat → List (Label × Nat)
  | .seq a b, base => labelsOf a base ++ labelsOf b base   -- only used on single statements
  | .labeled l s, base => (l, base) :: labelsOf s base
  | .for ls _ _ _ _, base => ls.map (fun l => (l, base))
  | .range ls _ _ _ _ _ _ _, base => ls.map (fun l => (l, base))
  | .switch ls _ _ _, base => ls.map (fun l => (l, base))
  | _, _ => []

def Guard.isConst : Guard → Bool
  | .val (.lit _) => true
  | .cond (.const _) => true
  | _ => false

def guardCond (g : Guard) : Cond :=
  match g with
  | .val e => .eq (.var tagVar) e
  | .cond c => c
  | .eff _ e => .eq (.var tagVar) e   -- (clauses with `eff` guards are compiled to `casehdr`, see below)

def Guard.isEff : Guard → Bool
  | .eff _ _ => true
  | _ => false

/-- Go: the expressions of a case clause are evaluated left to right until one equals the tag
    (`cmpfuns[0](env) || cmpfuns[1](env) || ...` in `switchCase`); returns (matched, state after the
    side effects of the expressions that were evaluated) -/
def evalGuards (tagv : Int) (st : St) : List Guard → Bool × St
  | [] => (false, st)
  | .val e :: r => if e.eval st.stack = tagv then (true, st) else evalGuards tagv st r
  | .cond c :: r => if c.eval st.stack then (true, st) else evalGuards tagv st r
  | .eff t e :: r =>
    if e.eval st.stack = tagv then (true, st.emit t e) else evalGuards tagv (st.emit t e) r

/-- tag-less switch: constant-folded guards (`tag.Const()`): first `true` wins (`sometrue`), `false` skipped;
    returns (sometrue, remaining non-constant comparisons *before* the first constant true) -/
def foldGuards : List Guard → Bool × List Cond
  | [] => (false, [])
  | .cond (.const true) :: _ => (true, [])
  | .cond (.const false) :: r => foldGuards r
  | g :: r => let (t, cs) := foldGuards r; (t, guardCond g :: cs)

def Stmt.isSkip : Stmt → Bool
  | .skip => true
  | _ => false

def Cond.isFalse : Cond → Bool
  | .const false => true
  | _ => false

def Cond.isTrue : Cond → Bool
  | .const true => true
  | _ => false

/-- `for` without condition means `for true`; `flag`/`fun` of `TryAsPred` -/
def loopCondConstFalse : Option Cond → Bool
  | some c => c.isFalse
  | none => false

def loopCondInstr : Option Cond → Bool
  | some c => !c.isConst
  | none => false

def hasDefaultC : Stmt → Bool
  | .clause none _ _ _ => true
  | .clause (some _) _ _ rest => hasDefaultC rest
  | _ => false

/-- size of the code emitted for a statement (what `compile` appends) -/
def size : Stmt → Nat
  | .skip => 0
  | .seq a b => size a + size b
  | .emit _ _ => 1
  | .assign _ _ => 1
  | .define _ _ => 1
  | .block b => 2 * b2n (hasDefs b) + size b
  | .ite init c thn els =>
    2 * b2n (hasDefs init) + size init + b2n (!c.isConst)
      + (if c.isFalse then 0 else 2 * b2n (hasDefs thn) + size thn)
      + b2n (!c.isConst && !els.isSkip)
      + (if c.isTrue then 0 else size els)
  | .for _ init c post body =>
    2 * b2n (hasDefs init) + size init +
      (if loopCondConstFalse c then 0
       else b2n (loopCondInstr c) + (2 * b2n (hasDefs body) + size body) + size post + 1)
  | .brk _ => 1
  | .cont _ => 1
  | .ret => 1
  | .labeled _ s => size s
  | .goto _ => 1
  | .range _ _ dfn key val _ _ body =>
    -- push, define hid, [define key], [define val], test, incr, [key=], [val=], body, jmp, pop
    3 + b2n (dfn && key.isSome) + b2n (dfn && val.isSome)
      + 2 + b2n key.isSome + b2n val.isSome + (2 * b2n (hasDefs body) + size body) + 1
  | .switch _ init tag cls =>
    -- [push] init [tag store] slot clauses [jmp default] [pop]
    2 * b2n (hasDefs init) + size init + b2n tag.isSome + 1 + size cls + b2n (hasDefaultC cls)
  | .clause _ _ body rest =>
    -- header, body block, break/fallthrough
    1 + (2 * b2n (hasDefs body) + size body) + 1 + size rest

def sizeBlock (b : Stmt) : Nat := 2 * b2n (hasDefs b) + size b

def pushIf (b : Bool) : Code := if b then [.push] else []
def popIf (b : Bool) : Code := if b then [.pop] else []

/-- address of the default clause header inside a clause chain starting at `base` (`defaulti`) -/
def defaultAddr : Stmt → Nat → Option Nat
  | .clause none _ _ _, base => some base
  | .clause (some _) _ body rest, base => defaultAddr rest (base + 1 + sizeBlock body + 1)
  | _, _ => none

/-- `caseHelper.GotoMap`: constants that precede the first non-constant case expression, with the body
    address (`ibody = header + 1`); `allConst` is threaded like `seen.AllConst` -/
def gotoTableGuards : List Guard → Nat → Bool → List (Int × Nat) × Bool
  | [], _, ac => ([], ac)
  | .val (.lit n) :: r, ibody, ac =>
    let (t, ac') := gotoTableGuards r ibody ac
    (if ac then (n, ibody) :: t else t, ac')
  | .cond (.const _) :: r, ibody, ac => gotoTableGuards r ibody ac   -- bool constants: folded, see notes
  | _ :: r, ibody, _ => gotoTableGuards r ibody false

def gotoTable : Stmt → Nat → Bool → List (Int × Nat)
  | .clause (some gs) _ body rest, base, ac =>
    let (t, ac') := gotoTableGuards gs (base + 1) ac
    t ++ gotoTable rest (base + 1 + sizeBlock body + 1) ac'
  | .clause none _ body rest, base, ac => gotoTable rest (base + 1 + sizeBlock body + 1) ac
  | _, _, _ => []

def tableMin (t : List (Int × Nat)) : Int := t.foldl (fun m p => if p.1 < m then p.1 else m) (t.headD (0, 0)).1
def tableMax (t : List (Int × Nat)) : Int := t.foldl (fun m p => if p.1 > m then p.1 else m) (t.headD (0, 0)).1

/-- `switchGotoSlice` is used unless `max/2 - min/2 > len(GotoMap)` (Go `/` truncates toward zero) -/
def useSlice (t : List (Int × Nat)) : Bool :=
  decide (Int.tdiv (tableMax t) 2 - Int.tdiv (tableMin t) 2 ≤ (t.length : Int))

/-- `cmpfuns[0](env) || cmpfuns[1](env) || ...` -/
def orConds : List Cond → Cond
  | [] => .const false
  | [c] => c
  | c :: r => .or c (orConds r)

/-- The compiler.  `base` = `c.Code.Len()` when the statement is reached, `ctx` = the `Comp` chain. -/
def compile : Stmt → Nat → Ctx → Code
  | .skip, _, _ => []
  | .seq a b, base, ctx =>
    compile a base (addLabels ctx (labelsOf a base)) ++
      compile b (base + size a) (addLabels ctx (labelsOf a base))
  | .emit t e, _, _ => [.emit t e]
  | .assign x e, _, _ => [.assign x e]
  | .define x e, _, _ => [.define x e]
  | .block b, base, ctx =>
    let loc := hasDefs b
    pushIf loc ++ compile b (base + b2n loc) ({ upCost := b2n loc } :: ctx) ++ popIf loc
  | .ite init c thn els, base, ctx =>
    let loc := hasDefs init
    let ctx' : Ctx := { upCost := b2n loc } :: ctx
    let b0 := base + b2n loc
    let condAddr := b0 + size init
    let thenAddr := condAddr + b2n (!c.isConst)
    let thenSz := if c.isFalse then 0 else sizeBlock thn
    let hasGoto := !c.isConst && !els.isSkip
    let elseAddr := thenAddr + thenSz + b2n hasGoto
    let elseSz := if c.isTrue then 0 else size els
    let endAddr := elseAddr + elseSz
    let tloc := hasDefs thn
    pushIf loc ++ compile init b0 ctx' ++
      (if c.isConst then [] else [.cjmp c thenAddr elseAddr]) ++
      (if c.isFalse then [] else
        pushIf tloc ++ compile thn (thenAddr + b2n tloc) ({ upCost := b2n tloc } :: ctx') ++ popIf tloc) ++
      (if hasGoto then [.jmp 0 endAddr] else []) ++
      (if c.isTrue then [] else compile els elseAddr ctx') ++
      popIf loc
  | .for ls init c post body, base, ctx =>
    let loc := hasDefs init
    let b0 := base + b2n loc
    let condAddr := b0 + size init
    let bodyAddr := condAddr + b2n (loopCondInstr c)
    let bloc := hasDefs body
    let postAddr0 := bodyAddr + sizeBlock body
    let postAddr := if post.isSkip then condAddr else postAddr0
    let jmpAddr := postAddr0 + size post
    let brkAddr := if loopCondConstFalse c then condAddr else jmpAddr + 1
    let ctx' : Ctx := { upCost := b2n loc, loop := some { labels := ls, brk := brkAddr, cont := some postAddr } } :: ctx
    pushIf loc ++ compile init b0 ({ upCost := b2n loc } :: ctx) ++
      (if loopCondConstFalse c then [] else
        (match c with
          | some cc => if cc.isConst then [] else [.cjmp cc (condAddr + 1) brkAddr]
          | none => []) ++
        (pushIf bloc ++ compile body (bodyAddr + b2n bloc) ({ upCost := b2n bloc } :: ctx') ++ popIf bloc) ++
        compile post postAddr0 ctx' ++
        [.jmp 0 condAddr]) ++
      popIf loc
  | .brk l, _, ctx =>
    match resolveBreak ctx l 0 with
    | some (upn, t) => [.jmp upn t]
    | none => [.invalid]
  | .cont l, _, ctx =>
    match resolveCont ctx l 0 with
    | some (upn, t) => [.jmp upn t]
    | none => [.invalid]
  | .ret, _, _ => [.ret]
  | .labeled l s, base, ctx => compile s base (addLabels ctx [(l, base)])
  | .goto l, _, ctx =>
    match resolveGoto ctx l 0 with
    | some (upn, t) => [.jmp upn t]
    | none => [.invalid]
  | .range ls str dfn key val keys vals body, base, ctx =>
    let n : Int := keys.length
    let ndef := b2n (dfn && key.isSome) + b2n (dfn && val.isSome)
    let startAddr := base + 2 + ndef
    let nset := b2n key.isSome + b2n val.isSome
    let bodyAddr := startAddr + 2 + nset - b2n (!str)      -- slice: the increment comes after the body
    let bloc := hasDefs body
    let afterBody := bodyAddr + sizeBlock body
    let jmpAddr := afterBody + b2n (!str)
    let brkAddr := jmpAddr + 1
    let contAddr := if str then startAddr else afterBody
    let ctx' : Ctx := { upCost := 1, loop := some { labels := ls, brk := brkAddr, cont := some contAddr } } :: ctx
    let incr : Instr := .assign hidVar (.add (.var hidVar) (.lit 1))
    let setk : Code := match key with
      | some k => [.assign k (.tbl keys (.var hidVar))]
      | none => []
    let setv : Code := match val with
      | some v => [.assign v (.tbl vals (.var hidVar))]
      | none => []
    let defk : Code := match key with
      | some k => if dfn then [.define k (.lit 0)] else []
      | none => []
    let defv : Code := match val with
      | some v => if dfn then [.define v (.lit 0)] else []
      | none => []
    [.push, .define hidVar (.lit (if str then -1 else 0))] ++ defk ++ defv ++
      (if str then [incr] else []) ++
      [.cjmp (.lt (.var hidVar) (.lit n)) (startAddr + 1 + b2n str) brkAddr] ++
      setk ++ setv ++
      (pushIf bloc ++ compile body (bodyAddr + b2n bloc) ({ upCost := b2n bloc } :: ctx') ++ popIf bloc) ++
      (if str then [] else [incr]) ++
      [.jmp 0 startAddr, .pop]
  | .switch ls init tag cls, base, ctx =>
    let loc := hasDefs init
    let b0 := base + b2n loc
    let tagAddr := b0 + size init
    let slotAddr := tagAddr + b2n tag.isSome
    let clsAddr := slotAddr + 1
    let dflt := defaultAddr cls clsAddr
    let brkAddr := clsAddr + size cls + b2n dflt.isSome
    let ctx' : Ctx := { upCost := b2n loc, loop := some { labels := ls, brk := brkAddr, cont := none } } :: ctx
    let table := gotoTable cls clsAddr true
    let slot : Instr := match tag with
      | some _ => if table.length ≤ 1 then .nop else .swgoto (useSlice table) (.var tagVar) table
      | none => .nop
    pushIf loc ++ compile init b0 ({ upCost := b2n loc } :: ctx) ++
      (match tag with
        | some e => [.define tagVar e]
        | none => []) ++
      [slot] ++ compile cls clsAddr ctx' ++
      (match dflt with
        | some d => [.jmp 0 (d + 1)]
        | none => []) ++
      popIf loc
  | .clause guards ft body rest, base, ctx =>
    let bloc := hasDefs body
    let iend := base + 1 + sizeBlock body + 1
    let brkAddr := match ctx with
      | f :: _ => (match f.loop with | some li => li.brk | none => 0)
      | [] => 0
    let canft := match rest with
      | .clause _ _ _ _ => true
      | _ => false
    let hdr : Instr := match guards with
      | none => .jmp 0 iend
      | some gs =>
        let (sometrue, cs) := foldGuards gs
        if gs.any Guard.isEff then .casehdr gs (base + 1) iend
        else if sometrue then .nop   -- side-effect free comparisons: "keep side effects" has nothing to keep
        else match cs with
          | [] => .jmp 0 iend
          | _ => .cjmp (orConds cs) (base + 1) iend
    [hdr] ++
      (pushIf bloc ++ compile body (base + 1 + b2n bloc) ({ upCost := b2n bloc } :: ctx) ++ popIf bloc) ++
      [if ft then (if canft then .fallthru else .invalid) else .jmp 0 brkAddr] ++
      compile rest iend ctx

/-- the function's own `Comp` (`cf.Func != nil`): body statements are compiled directly in it -/
def funcCtx : Ctx := [{ upCost := 0, isFunc := true }]

def compileTop (s : Stmt) : Code := compile s 0 funcCtx

/-! ## The flat machine (`exec` in code.go) -/

structure Cfg where
  ip : Nat
  st : St
  deriving Repr, DecidableEq, Inhabited

inductive StepRes where
  | next (c : Cfg)
  /-- `stmtReturn` or the `spinInterrupt` sentinel after the last statement -/
  | halt (st : St)
  | stuck
  deriving Repr, DecidableEq

def tableLookup (v : Int) : List (Int × Nat) → Option Nat
  | [] => none
  | (k, a) :: r => if k == v then some a else tableLookup v r

/-- `switchGotoSlice`: `slice[key-min] = ip+1`, 0 = hole -/
def sliceLookup (v : Int) (t : List (Int × Nat)) : Option Nat :=
  let mn := tableMin t
  let mx := tableMax t
  if v < mn || v > mx then none
  else
    let slice : List Nat := (List.range ((mx - mn).toNat + 1)).map (fun (i : Nat) =>
      match tableLookup (mn + Int.ofNat i) t with
      | some a => a + 1
      | none => 0)
    match slice.getD (v - mn).toNat 0 with
    | 0 => none
    | a + 1 => some a

def step (code : Code) (c : Cfg) : StepRes :=
  match code[c.ip]? with
  | none => if c.ip = code.length then .halt c.st else .stuck
  | some i =>
    match i with
    | .emit t e => .next ⟨c.ip + 1, c.st.emit t e⟩
    | .assign x e => .next ⟨c.ip + 1, c.st.assign x e⟩
    | .define x e => .next ⟨c.ip + 1, c.st.define x e⟩
    | .push => .next ⟨c.ip + 1, c.st.push⟩
    | .pop => .next ⟨c.ip + 1, c.st.dropn 1⟩
    | .jmp upn t => .next ⟨t, c.st.dropn upn⟩
    | .cjmp cnd a b => .next ⟨if cnd.eval c.st.stack then a else b, c.st⟩
    | .casehdr gs a b =>
      let r := evalGuards (lookup tagVar c.st.stack) c.st gs
      .next ⟨if r.1 then a else b, r.2⟩
    | .ret => .halt c.st
    | .nop => .next ⟨c.ip + 1, c.st⟩
    | .fallthru => .next ⟨c.ip + 2, c.st⟩
    | .swgoto slice tag table =>
      let v := tag.eval c.st.stack
      match (if slice then sliceLookup v table else tableLookup v table) with
      | some a => .next ⟨a, c.st⟩
      | none => .next ⟨c.ip + 1, c.st⟩
    | .invalid => .stuck

/-- outcome of a whole run: what the caller of the compiled function observes -/
inductive Res where
  /-- event trace and the function's own frame (named results) -/
  | done (trace : List Event) (frame : Frame)
  | timeout
  | stuck
  deriving Repr, DecidableEq, Inhabited

def finalOf (st : St) : Res := .done st.trace (st.stack.getLast?.getD [])

namespace Flat

def runCfg (code : Code) : Nat → Cfg → Res
  | 0, _ => .timeout
  | n + 1, c =>
    match step code c with
    | .next c' => runCfg code n c'
    | .halt st => finalOf st
    | .stuck => .stuck

/-- run compiled code from IP 0 in a fresh function frame -/
def run (code : Code) (fuel : Nat) (frame : Frame) : Res :=
  runCfg code fuel ⟨0, ⟨[frame], []⟩⟩

end Flat

/-! ## Reference semantics: structured big-step interpreter = Go's meaning of the statements -/

inductive Outcome where
  | normal
  | brk (l : Option Label)
  | cont (l : Option Label)
  | ret
  | goto (l : Label)
  deriving Repr, DecidableEq, Inhabited

inductive XRes where
  | ok (o : Outcome) (st : St)
  | timeout
  deriving Repr, DecidableEq, Inhabited

def labelIn (l : Option Label) (ls : List Label) : Bool :=
  match l with
  | none => true
  | some x => ls.contains x

def hasLabel (l : Label) : Stmt → Bool
  | .labeled l' s => l' == l || hasLabel l s
  | _ => false

/-- the suffix of a statement list that starts at the statement labelled `l` -/
def findLabel (l : Label) : Stmt → Option Stmt
  | .seq a b => if hasLabel l a then some (.seq a b) else findLabel l b
  | s => if hasLabel l s then some s else none

/-- first clause (in source order) one of whose expressions equals the tag, with the side effects of every
    case expression evaluated on the way (left to right, top to bottom, until the first match) -/
def selectCaseSt (tagv : Int) (st : St) : Stmt → Option Stmt × St
  | .clause (some gs) ft body rest =>
    let r := evalGuards tagv st gs
    if r.1 then (some (.clause (some gs) ft body rest), r.2) else selectCaseSt tagv r.2 rest
  | .clause none _ _ rest => selectCaseSt tagv st rest
  | _ => (none, st)

def selectDefault : Stmt → Option Stmt
  | .clause none ft body rest => some (.clause none ft body rest)
  | .clause (some _) _ _ rest => selectDefault rest
  | _ => none

/-- does the loop condition hold (`for {}` means `for true {}`) -/
def loopGo (c : Option Cond) (s : Stack) : Bool :=
  match c with
  | some cc => cc.eval s
  | none => true

/-- after the body: go on with post + next iteration? (normal end, or `continue` addressed to this loop) -/
def loopNext (ls : List Label) (o : Outcome) : Bool :=
  match o with
  | .normal => true
  | .cont l => labelIn l ls
  | _ => false

/-- outcome of the loop when the body ended with `o` and the loop does not go on:
    a `break` addressed to this loop ends it normally, everything else propagates -/
def loopExit (ls : List Label) (o : Outcome) : Outcome :=
  match o with
  | .brk l => if labelIn l ls then .normal else o
  | _ => o

namespace Ref

mutual
/-- `exec fuel s st`: fuel bounds the recursion depth (each construct and each loop iteration costs one) -/
def exec : Nat → Stmt → St → XRes
  | 0, _, _ => .timeout
  | n + 1, s, st =>
    match s with
    | .skip => .ok .normal st
    | .seq a b =>
      match exec n a st with
      | .ok .normal st1 => exec n b st1
      | r => r
    | .emit t e => .ok .normal (st.emit t e)
    | .assign x e => .ok .normal (st.assign x e)
    | .define x e => .ok .normal (st.define x e)
    | .block b => execBlock n b st
    | .ite init c thn els =>
      let loc := hasDefs init
      match exec n init (st.pushIf loc) with
      | .ok .normal st2 =>
        match (if c.eval st2.stack then execBlock n thn st2 else exec n els st2) with
        | .ok o st3 => .ok o (st3.popIf loc)
        | .timeout => .timeout
      | .ok o st2 => .ok o (st2.popIf loc)
      | .timeout => .timeout
    | .for ls init c post body =>
      let loc := hasDefs init
      match exec n init (st.pushIf loc) with
      | .ok .normal st2 =>
        match execLoop n ls c post body st2 with
        | .ok o st3 => .ok o (st3.popIf loc)
        | .timeout => .timeout
      | .ok o st2 => .ok o (st2.popIf loc)
      | .timeout => .timeout
    | .brk l => .ok (.brk l) st
    | .cont l => .ok (.cont l) st
    | .ret => .ok .ret st
    | .labeled _ s => exec n s st
    | .goto l => .ok (.goto l) st
    | .range ls _ dfn key val keys vals body =>
      -- Go: the operand is evaluated once; `:=` variables are per loop (Go < 1.22), scoped to the statement
      let sc := dfn && (key.isSome || val.isSome)
      let st1 := st.pushIf sc
      let st2 := match key with
        | some k => if dfn then st1.define k (.lit 0) else st1
        | none => st1
      let st3 := match val with
        | some v => if dfn then st2.define v (.lit 0) else st2
        | none => st2
      match execRange n ls key val keys vals body 0 st3 with
      | .ok o st4 => .ok o (st4.popIf sc)
      | .timeout => .timeout
    | .switch ls init tag cls =>
      let loc := hasDefs init
      match exec n init (st.pushIf loc) with
      | .ok .normal st2 =>
        let tagv : Int := match tag with
          | some e => e.eval st2.stack
          | none => 0
        let r := selectCaseSt tagv st2 cls
        let sel := match r.1 with
          | some c => some c
          | none => selectDefault cls
        match sel with
        | none => .ok .normal (r.2.popIf loc)
        | some c =>
          match execClauses n c r.2 with
          | .ok o st3 =>
            let o' := match o with
              | .brk l => if labelIn l ls then Outcome.normal else o
              | _ => o
            .ok o' (st3.popIf loc)
          | .timeout => .timeout
      | .ok o st2 => .ok o (st2.popIf loc)
      | .timeout => .timeout
    | .clause _ _ _ _ => .ok .normal st   -- misplaced case: rejected by the compiler

/-- a statement list in its own scope; a `goto` to a label of this list restarts from the label -/
def execBlock : Nat → Stmt → St → XRes
  | 0, _, _ => .timeout
  | n + 1, b, st =>
    let loc := hasDefs b
    match execFrom n b b (st.pushIf loc) with
    | .ok o st' => .ok o (st'.popIf loc)
    | .timeout => .timeout

def execFrom : Nat → Stmt → Stmt → St → XRes
  | 0, _, _, _ => .timeout
  | n + 1, whole, cur, st =>
    match exec n cur st with
    | .ok (.goto l) st1 =>
      match findLabel l whole with
      | some suffix => execFrom n whole suffix st1
      | none => .ok (.goto l) st1
    | r => r

/-- iterations of `for c; post { body }` (`init` already executed) -/
def execLoop : Nat → List Label → Option Cond → Stmt → Stmt → St → XRes
  | 0, _, _, _, _, _ => .timeout
  | n + 1, ls, c, post, body, st =>
    if loopGo c st.stack then
      match execBlock n body st with
      | .ok o st1 =>
        if loopNext ls o then
          match exec n post st1 with
          | .ok .normal st2 => execLoop n ls c post body st2
          | r => r
        else .ok (loopExit ls o) st1
      | .timeout => .timeout
    else .ok .normal st

/-- iterations `i, i+1, ...` of a range loop over the (key, value) pairs -/
def execRange : Nat → List Label → Option Var → Option Var → List Int → List Int → Stmt → Nat → St → XRes
  | 0, _, _, _, _, _, _, _, _ => .timeout
  | n + 1, ls, key, val, keys, vals, body, i, st =>
    if i < keys.length then
      let st1 := match key with
        | some k => st.assign k (.lit (keys.getD i 0))
        | none => st
      let st2 := match val with
        | some v => st1.assign v (.lit (vals.getD i 0))
        | none => st1
      match execBlock n body st2 with
      | .ok o st3 =>
        if loopNext ls o then execRange n ls key val keys vals body (i + 1) st3
        else .ok (loopExit ls o) st3
      | .timeout => .timeout
    else .ok .normal st

/-- bodies of a clause chain from the selected clause on; `fallthrough` enters the next body -/
def execClauses : Nat → Stmt → St → XRes
  | 0, _, _ => .timeout
  | n + 1, c, st =>
    match c with
    | .clause _ ft body rest =>
      match execBlock n body st with
      | .ok .normal st1 => if ft then execClauses n rest st1 else .ok .normal st1
      | r => r
    | _ => .ok .normal st
end

/-- run a function body in a fresh function frame; a `goto` to a label of the body restarts there -/
def run (s : Stmt) (fuel : Nat) (frame : Frame) : Res :=
  match execFrom fuel s s ⟨[frame], []⟩ with
  | .ok .normal st => finalOf st
  | .ok .ret st => finalOf st
  | .ok _ _ => .stuck
  | .timeout => .timeout

end Ref

end Flow
