import Gen.DebugCmds
/-!
# Model of gomacro's single-step debugger (property C19)

Transcribes, branch by branch:

* `fast/debug.go` `singleStep` (the stop rule `env.CallDepth < run.DebugDepth`, the synthetic
  statements the debugger refuses to show, the end-of-code sentinel), `Comp.breakpoint`
  (a breakpoint statement always calls `Debugger.Breakpoint`), `Run.applyDebugOp`
  (`DebugDepth := op.Depth`, single-stepping on iff `op.Depth > 0`, `op.Panic` terminates);
* `fast/debug/api.go` `Debugger.main` (statements without position answer `DebugOp{Depth: run.DebugDepth}`
  without prompting), `fast/debug/debugger.go` `Repl` (EOF = continue, empty line = last command),
  `fast/debug/cmd.go` `Cmd`, `Cmds.Lookup`, `Cmd.Match`; the command table itself and what each
  command function returns are REGENERATED from the source (`Gen/DebugCmds.lean`);
* `fast/repl.go` `RunExpr` (`applyDebugOp(DebugOpContinue)`) / `DebugExpr` (`applyDebugOp(DebugOpStep)`).

Abstractions
* An execution is the list of statement executions (`Event`: call depth, is-breakpoint, is-synthetic,
  is-end-sentinel) the interpreter performs; the debugger only observes it.  (`Machine` below states
  this transparency for an arbitrary deterministic step function.)
* `Run.DebugDepth`/`Signals.Debug`/`ExecFlags.EFDebug` are one number `dd` (`applyDebugOp` keeps
  `Signals.Debug = SigDebug ↔ dd > 0`); depths are `Nat`, `MaxInt = 2^63-1`.
* `floor`: when a breakpoint statement executed at full speed switches single-stepping on, only the
  frame of the breakpoint (and the frames it creates) run under `singleStep`; the callers stay in the
  unrolled loops of `exec`/`reExecWithFlags`, which poll `run.Signals` every 14-15 statements only.
  The model covers executions up to the first statement of such a caller (`Out.blind`), see notes/C19.md.
* The prompt is a parameter (`ask : π → Ret × π`); `Script` below is the concrete one (lines read by
  `Globals.ReadMultiline`, one per prompt iteration).
-/
namespace Debug
open Gen.DebugCmds

structure Event where
  depth : Nat
  bp : Bool := false    -- `"break"` / `_ = "break"` statement
  syn : Bool := false   -- DebugPos = token.NoPos
  fin : Bool := false   -- IP = len(Code)-1: the spinInterrupt appended by Code.Exec
  deriving Repr, DecidableEq, Inhabited

def maxInt : Nat := 2 ^ 63 - 1

/-- `DebugOp.Depth` computed by a command function at call depth `cd`; `none` = `op.Panic != nil` -/
def depthOf (r : Ret) (cd : Nat) : Option Nat :=
  match r with
  | .depthConst n => some n
  | .depthMaxInt => some maxInt
  | .depthCallPlus k => some (cd + k)
  | .kill => none
  | .repl => some 0      -- never returned by a prompt
  | .unknown => some 0

/-- `singleStep`: `if env.CallDepth < run.DebugDepth` (only reached while `Signals.Debug != SigNone`, i.e. `dd > 0`) -/
def stopsAt (dd : Nat) (e : Event) : Bool := decide (0 < dd) && decide (e.depth < dd)

inductive Out where
  | at (i : Nat)      -- Debugger.At prompted before statement i
  | bp (i : Nat)      -- Debugger.Breakpoint prompted while executing statement i
  | blind (i : Nat)   -- statement i belongs to a frame that is not single-stepped (outside the model)
  | killed
  deriving Repr, DecidableEq, Inhabited

structure St (π : Type) where
  dd : Nat
  floor : Nat
  p : π

/-- `singleStep` before the statement: `if env.CallDepth < run.DebugDepth { ir.debug(false) }`.
    `Debugger.main` answers `DebugOp{Depth: run.DebugDepth}` for a statement without position (no prompt). -/
def atPhase {π : Type} (ask : π → Ret × π) (i : Nat) (e : Event) (st : St π) : List Out × St π × Bool :=
  if stopsAt st.dd e && !e.syn then
    match ask st.p with
    | (r, p') =>
      match depthOf r e.depth with
      | none => ([.at i, .killed], { st with p := p' }, false)       -- applyDebugOp: panic(*op.Panic)
      | some d => ([.at i], { st with dd := d, p := p' }, true)      -- applyDebugOp: DebugDepth = op.Depth
  else ([], st, true)

/-- executing the statement: `Comp.breakpoint` calls `ir.debug(true)`; every other statement is invisible here -/
def bpPhase {π : Type} (ask : π → Ret × π) (i : Nat) (e : Event) (st : St π) : List Out × St π × Bool :=
  if e.bp then
    match ask st.p with
    | (r, p') =>
      match depthOf r e.depth with
      | none => ([.bp i, .killed], { st with p := p' }, false)
      | some d =>
        ([.bp i], { dd := d, floor := if st.dd == 0 && decide (0 < d) then e.depth else st.floor, p := p' }, true)
  else ([], st, true)

/-- one statement execution.  Returns the outputs, the next state, and whether execution goes on. -/
def stepEvent {π : Type} (ask : π → Ret × π) (i : Nat) (e : Event) (st : St π) : List Out × St π × Bool :=
  if decide (0 < st.dd) && decide (e.depth < st.floor) then ([.blind i], st, false) else
  match atPhase ask i e st with
  | (o1, st1, false) => (o1, st1, false)
  | (o1, st1, true) =>
    match bpPhase ask i e st1 with
    | (o2, st2, a) => (o1 ++ o2, st2, a)

def run {π : Type} (ask : π → Ret × π) : List Event → Nat → St π → List Out × St π × Bool
  | [], _, st => ([], st, true)
  | e :: es, i, st =>
    match stepEvent ask i e st with
    | (o, st', false) => (o, st', false)
    | (o, st', true) => let (o', s', a) := run ask es (i + 1) st'; (o ++ o', s', a)

/-! ## the prompt: `Debugger.Repl` / `Debugger.Cmd` / `Cmds.Lookup` -/

abbrev Bytes := List Nat

def isPrefix : Bytes → Bytes → Bool
  | [], _ => true
  | _ :: _, [] => false
  | a :: as, b :: bs => a == b && isPrefix as bs

/-- `cmds[prefix[0]]` then `cmd.Match(prefix)` -/
def lookupIn (tbl : List (Nat × Bytes × Ret)) (pre : Bytes) : Option (Bytes × Ret) :=
  match pre with
  | [] => none
  | c :: _ =>
    match tbl.find? (fun en => en.1 == c) with
    | none => none
    | some (_, name, r) => if isPrefix pre name then some (name, r) else none

def lookup (pre : Bytes) : Option (Bytes × Ret) := lookupIn table pre

/-- unicode.IsSpace on the bytes that can occur in a prompt line -/
def isSpace (c : Nat) : Bool := c == 32 || c == 9 || c == 10 || c == 13 || c == 11 || c == 12

def trim (s : Bytes) : Bytes := ((s.dropWhile isSpace).reverse.dropWhile isSpace).reverse

/-- `bstrings.Split2(src, ' ')`: the prefix up to the first blank at index > 0 -/
def firstWord (s : Bytes) : Bytes :=
  match s with
  | [] => []
  | c :: rest => c :: rest.takeWhile (fun x => x != 32)

/-- `Debugger.Cmd(src)`: result and the new `lastcmd` -/
def cmd (src last : Bytes) : Ret × Bytes :=
  let s := trim src
  if s.isEmpty then (.repl, last) else
  match lookup (firstWord s) with
  | some (_, r) => (r, s)
  | none => (.repl, last)

structure Script where
  lines : List Bytes
  last : Bytes := []
  used : Nat := 0

/-- `Debugger.Repl`: read lines until a command leaves the prompt; EOF = continue -/
def replLines : List Bytes → Bytes → Nat → Ret × Script
  | [], last, used => (.depthConst 0, { lines := [], last := last, used := used })
  | l :: rest, last, used =>
    let src := if l.isEmpty then last else l
    match cmd src last with
    | (.repl, last') => replLines rest last' (used + 1)
    | (r, last') => (r, { lines := rest, last := last', used := used + 1 })

def askScript (s : Script) : Ret × Script := replLines s.lines s.last s.used

/-- initial state: `Interp.DebugExpr` = `applyDebugOp(DebugOpStep)`, `Interp.RunExpr` = `applyDebugOp(DebugOpContinue)` -/
def initDD (debug : Bool) : Nat := if debug then maxInt else 0

def runScript (debug : Bool) (tr : List Event) (lines : List Bytes) : List Out × St Script × Bool :=
  run askScript tr 0 { dd := initDD debug, floor := 0, p := { lines := lines } }

/-! ## transparency: the single-step loop executes exactly the statements the plain loop executes -/

/-- a deterministic interpreter: `next s = none` when the code is finished; `obs` is what the debugger is shown -/
structure Machine (σ : Type) where
  next : σ → Option σ
  obs : σ → Event

/-- plain execution (`exec`): at most `fuel` statements -/
def Machine.runPlain {σ : Type} (m : Machine σ) : Nat → σ → σ
  | 0, s => s
  | n + 1, s => match m.next s with
    | none => s
    | some s' => m.runPlain n s'

/-- execution under `singleStep` with debugger state `st`: the debugger is consulted, then the very same
    statement is executed; `kill` (panic from applyDebugOp) aborts -/
def Machine.runDebug {σ π : Type} (m : Machine σ) (ask : π → Ret × π) : Nat → Nat → σ → St π → σ × Bool
  | 0, _, s, _ => (s, false)
  | n + 1, i, s, st =>
    match m.next s with
    | none => (s, false)
    | some s' =>
      match stepEvent ask i (m.obs s) { st with floor := 0 } with
      | (_, _, false) => (s, true)
      | (_, st', true) => m.runDebug ask n (i + 1) s' st'

end Debug
