import Model.ClosureIR
/-!
# Model.ConvertGolden — golden copy of the compile-time part of `fast/convert.go`

The statements of `Comp.convert` outside the per-kind closures (the decision procedure that
`Model/Convert.lean` `convert` transcribes: path of enclosing conditions + source text), and the
source of the helpers `convert`, `convertNumericConst`, `isNumericKind`, exactly as the extractor
emits them for the REPAIRED tree (fixes/C03-*.diff).  `Props.C03.decision_procedure_accepted`
compares them with the regenerated `Gen/ConvertArms.lean` on every run: any edit of these parts of
convert.go breaks the obligation until the transcription in `Model/Convert.lean` has been
reviewed and this copy regenerated (copy the definitions from lean/Gen/ConvertArms.lean).
-/
namespace Convert.Golden
open ClosureIR
set_option maxRecDepth 100000

def convertActions : List Action :=
  [{ fn := "Comp.convert", path := ["if e.Untyped()"], text := "e.ConstTo(t)" },
   { fn := "Comp.convert", path := ["if e.Type != nil && e.Type.IdenticalTo(t)"], text := "return e" },
   { fn := "Comp.convert", path := ["not(e.Type != nil && e.Type.IdenticalTo(t))", "if e.Type != nil && e.Type.ReflectType() == t.ReflectType() && t.Kind() != r.Interface && !types.ConvertibleTo(e.Type.GoType(), t.GoType())"], text := "c.Errorf(\"cannot convert %v to %v: %v\", e.Type, t, nodeOpt)" },
   { fn := "Comp.convert", path := ["not(e.Type != nil && e.Type.IdenticalTo(t))", "if e.Type != nil && e.Type.ReflectType() == t.ReflectType() && t.Kind() != r.Interface && !types.ConvertibleTo(e.Type.GoType(), t.GoType())"], text := "return nil" },
   { fn := "Comp.convert", path := ["not(e.Type != nil && e.Type.IdenticalTo(t))", "not(e.Type != nil && e.Type.ReflectType() == t.ReflectType() && t.Kind() != r.Interface && !types.ConvertibleTo(e.Type.GoType(), t.GoType()))", "if e.Type != nil && e.Type.ReflectType() == t.ReflectType()", "if e.Const()"], text := "return c.exprValue(t, e.Value)" },
   { fn := "Comp.convert", path := ["not(e.Type != nil && e.Type.IdenticalTo(t))", "not(e.Type != nil && e.Type.ReflectType() == t.ReflectType() && t.Kind() != r.Interface && !types.ConvertibleTo(e.Type.GoType(), t.GoType()))", "if e.Type != nil && e.Type.ReflectType() == t.ReflectType()", "not(e.Const())"], text := "return exprFun(t, e.Fun)" },
   { fn := "Comp.convert", path := ["not(e.Type != nil && e.Type.IdenticalTo(t))", "not(e.Type != nil && e.Type.ReflectType() == t.ReflectType() && t.Kind() != r.Interface && !types.ConvertibleTo(e.Type.GoType(), t.GoType()))", "not(e.Type != nil && e.Type.ReflectType() == t.ReflectType())", "if e.Type == nil && reflect.IsNillableKind(t.Kind())"], text := "e.Type = t" },
   { fn := "Comp.convert", path := ["not(e.Type != nil && e.Type.IdenticalTo(t))", "not(e.Type != nil && e.Type.ReflectType() == t.ReflectType() && t.Kind() != r.Interface && !types.ConvertibleTo(e.Type.GoType(), t.GoType()))", "not(e.Type != nil && e.Type.ReflectType() == t.ReflectType())", "if e.Type == nil && reflect.IsNillableKind(t.Kind())"], text := "e.Value = xr.Zero(t).Interface()" },
   { fn := "Comp.convert", path := ["not(e.Type != nil && e.Type.IdenticalTo(t))", "not(e.Type != nil && e.Type.ReflectType() == t.ReflectType() && t.Kind() != r.Interface && !types.ConvertibleTo(e.Type.GoType(), t.GoType()))", "not(e.Type != nil && e.Type.ReflectType() == t.ReflectType())", "not(e.Type == nil && reflect.IsNillableKind(t.Kind()))", "not(e.Type != nil && e.Type.ConvertibleTo(t))", "not(e.Const() && isNumericKind(e.Type.Kind()) && isNumericKind(t.Kind()))"], text := "c.Errorf(\"cannot convert %v to %v: %v\", e.Type, t, nodeOpt)" },
   { fn := "Comp.convert", path := ["not(e.Type != nil && e.Type.IdenticalTo(t))", "not(e.Type != nil && e.Type.ReflectType() == t.ReflectType() && t.Kind() != r.Interface && !types.ConvertibleTo(e.Type.GoType(), t.GoType()))", "not(e.Type != nil && e.Type.ReflectType() == t.ReflectType())", "not(e.Type == nil && reflect.IsNillableKind(t.Kind()))", "not(e.Type != nil && e.Type.ConvertibleTo(t))", "not(e.Const() && isNumericKind(e.Type.Kind()) && isNumericKind(t.Kind()))"], text := "return nil" },
   { fn := "Comp.convert", path := ["if e.Const()", "init val, ok := c.convertNumericConst(e, t)", "if ok"], text := "return c.exprValue(t, val)" },
   { fn := "Comp.convert", path := ["if e.Const()", "init val, ok := c.convertNumericConst(e, t)", "not(ok)"], text := "return c.exprValue(t, val)" },
   { fn := "Comp.convert", path := ["not(e.Const())", "if e.Const()"], text := "eret.EvalConst(COptKeepUntyped)" },
   { fn := "Comp.convert", path := ["not(e.Const())"], text := "return eret" }]

def convertHelperSrc : List String :=
  ["func(v xr.Value, rtout r.Type) xr.Value",
   "if v.Kind() == r.Interface { v = v.Elem() }",
   "return v.Convert(rtout)"]

def convertNumericConstSrc : List String :=
  ["func(e *Expr, t xr.Type) (I, bool)",
   "if e.Type == nil || !isNumericKind(e.Type.Kind()) || !isNumericKind(t.Kind()) { return nil, false }",
   "v := r.ValueOf(e.Value)",
   "var val constant.Value",
   "kind := untyped.Int",
   "switch reflect.Category(v.Kind()) { case r.Int: val = constant.MakeInt64(v.Int()) case r.Uint: val = constant.MakeUint64(v.Uint()) case r.Float64: kind = untyped.Float val = constant.MakeFloat64(v.Float()) case r.Complex128: kind = untyped.Complex z := v.Complex() if re, im := real(z), imag(z); !math.IsInf(im, 0) && !math.IsNaN(im) && !math.IsInf(re, 0) && !math.IsNaN(re) { val = constant.BinaryOp(constant.MakeFloat64(re), token.ADD, constant.MakeImag(constant.MakeFloat64(im))) } }",
   "if val == nil || val.Kind() == constant.Unknown { return nil, false }",
   "lit := untyped.MakeLit(kind, val, &c.Universe.BasicTypes)",
   "return lit.Convert(t), true"]

def isNumericKindSrc : List String :=
  ["func(k r.Kind) bool",
   "return reflect.IsCategory(k, r.Int, r.Uint, r.Float64, r.Complex128)"]

end Convert.Golden
