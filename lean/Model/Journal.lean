/-
Model of what one `Interp.Eval` of a multi-declaration input does to the top-level bind table of
gomacro's fast interpreter, with the compile JOURNAL (C15).

Code transcribed
* fast/repl.go `Interp.CompileAst` = compile the declarations of the input one after the other
  (`Comp.Compile`: the dependency sorter splits `var a, b = 1, 2` and `var (...)` into one item per
  name), THEN `Interp.RunExpr`; with fixes/C15-compile-journal.diff: `beginUndo` / `endUndo(failed)`
  restore `Comp.Binds`, `Comp.Types`, `BindNum`, `IntBindNum` when the compile fails.
* fast/declaration.go `Comp.NewBind` / `CompBinds.NewBind`: class choice (int -> IntBind, everything
  else VarBind; constants have no slot), a redeclared name reuses its index when old and new are both
  IntBind or both not, `NoIndex` otherwise -> fresh slot; the bind object is replaced in the map.
* fast/function.go `Comp.DeclFunc`: NewBind first, body afterwards, the deferred restore puts the old
  bind back when the body fails to compile (the slot counter is not restored).
* fast/type.go `Comp.DeclNamedType`: a redefined named type REUSES the named type object and only
  changes its underlying type (`Cfg.freshType = false`, the code before fixes/C15-named-type-redefinition.diff)
  or creates a new object (`freshType = true`).

Abstractions: names, types and values are numbers (type 0 = int, 1 = string, 2 = float64, 3 = bool
[string is the only VarBind basic type, the other three are IntBind], 4+i = the named type
object i; the definition of a named type is a number = the name of its single field); a function
is its result type and the value it returns; statements of the input that are not declarations are
`bad` (fail to compile without touching anything: undefined identifier, type error) or `boom`
(compile, panic when run).  `Cfg.rollback` = the journal repair is applied.
-/
namespace Journal

inductive Cls where
  | ivar    -- IntBind variable (type int): env.Ints[idx]
  | bvar    -- VarBind variable (string, struct): env.Vals[idx]
  | const   -- ConstBind: no slot
  | func    -- FuncBind: env.Vals[idx]
  deriving DecidableEq, Repr, Inhabited

structure Entry where
  cls : Cls
  ty : Nat            -- 0 int, 1 string, 2 float64, 3 bool, 4+i named type object i (func: result type, const: type)
  d0 : Nat            -- variables of a named type: the definition the type had when the variable was declared
  idx : Option Nat    -- slot index, none = NoIndex
  cval : Nat          -- constants: the value
  deriving DecidableEq, Repr, Inhabited

structure Cfg where
  rollback : Bool     -- fixes/C15-compile-journal.diff
  freshType : Bool    -- fixes/C15-named-type-redefinition.diff
  deriving DecidableEq, Repr

def Cfg.fixed : Cfg := ⟨true, true⟩
def Cfg.orig : Cfg := ⟨false, false⟩

structure St where
  binds : List (Nat × Entry)   -- Comp.Binds (first entry for a name is the live one)
  types : List (Nat × Nat)     -- Comp.Types: type name -> named type object
  objs : List (Nat × Nat)      -- named type object -> current definition (first entry wins)
  ints : List (Nat × Nat)      -- env.Ints: index -> value
  vals : List (Nat × Nat)      -- env.Vals: index -> value
  nI : Nat                     -- IntBindNum
  nV : Nat                     -- BindNum
  nObj : Nat
  deriving Repr, Inhabited

def St.init : St := ⟨[], [], [], [], [], 0, 0, 0⟩

inductive Item where
  | var (name ty val : Nat)                    -- var n<name> int|string = val
  | varT (name tname val : Nat)                -- var n<name> = T<tname>{val}
  | const (name ty val : Nat)                  -- const n<name> = val
  | func (name ty body : Nat) (ok : Bool)      -- func n<name>() T { return body }   (ok = the body compiles)
  | typ (tname d : Nat)                        -- type T<tname> struct{ F<d> int }
  | alias (tname target : Nat)                 -- type T<tname> = T<target>
  | bad                                        -- a statement that does not compile
  | boom                                       -- a statement that panics when run
  deriving DecidableEq, Repr, Inhabited

inductive Input where
  | syntaxError
  | items (l : List Item)
  deriving Repr, Inhabited

inductive Act where
  | setI (idx val : Nat)
  | setV (idx val : Nat)
  | boom
  deriving DecidableEq, Repr, Inhabited

/-- Comp.NewBind + CompBinds.NewBind for class `cls`: returns the state with the new bind installed
    and the index it received -/
def newBind (st : St) (name : Nat) (cls : Cls) (ty d0 cval : Nat) : St × Option Nat :=
  let reuse : Option Nat :=
    match st.binds.lookup name with
    | some old => if (old.cls = .ivar) = (cls = .ivar) then old.idx else none
    | none => none
  match cls with
  | .const => ({ st with binds := (name, ⟨cls, ty, d0, none, cval⟩) :: st.binds }, none)
  | .ivar =>
    match reuse with
    | some i => ({ st with binds := (name, ⟨cls, ty, d0, some i, cval⟩) :: st.binds }, some i)
    | none => ({ st with binds := (name, ⟨cls, ty, d0, some st.nI, cval⟩) :: st.binds, nI := st.nI + 1 }, some st.nI)
  | _ =>
    match reuse with
    | some i => ({ st with binds := (name, ⟨cls, ty, d0, some i, cval⟩) :: st.binds }, some i)
    | none => ({ st with binds := (name, ⟨cls, ty, d0, some st.nV, cval⟩) :: st.binds, nV := st.nV + 1 }, some st.nV)

def setAct (cls : Cls) (idx : Option Nat) (val : Nat) : List Act :=
  match idx with
  | none => []
  | some i => if cls = .ivar then [.setI i val] else [.setV i val]

/-- basic variable types: 0 int, 2 float64, 3 bool live in env.Ints; 1 string (and anything else) in env.Vals -/
def basicTy (ty : Nat) : Nat := if ty < 4 then ty else 1
def basicCls (ty : Nat) : Cls := if basicTy ty = 1 then .bvar else .ivar

/-- compile one item: `none` = compile error; the state returned with it is what the failed item
    leaves behind -/
def compileItem (cfg : Cfg) (st : St) : Item → St × Option (List Act)
  | .var name ty val =>
    ((newBind st name (basicCls ty) (basicTy ty) 0 0).1,
      some (setAct (basicCls ty) (newBind st name (basicCls ty) (basicTy ty) 0 0).2 val))
  | .varT name tname val =>
    match st.types.lookup tname with
    | none => (st, none)     -- undefined type: fails before NewBind
    | some o =>
      ((newBind st name .bvar (4 + o) ((st.objs.lookup o).getD 0) 0).1,
        some (setAct .bvar (newBind st name .bvar (4 + o) ((st.objs.lookup o).getD 0) 0).2 val))
  | .const name ty val => ((newBind st name .const (if ty = 0 then 0 else 1) 0 val).1, some [])
  | .func name ty body ok =>
    if ok then ((newBind st name .func (if ty = 0 then 0 else 1) 0 0).1,
                some (setAct .func (newBind st name .func (if ty = 0 then 0 else 1) 0 0).2 body))
    else ({ (newBind st name .func (if ty = 0 then 0 else 1) 0 0).1 with binds := st.binds }, none)   -- deferred restore of DeclFunc; BindNum stays
  | .typ tname d =>
    match st.types.lookup tname with
    | some o =>
      if cfg.freshType then
        ({ st with types := (tname, st.nObj) :: st.types, objs := (st.nObj, d) :: st.objs, nObj := st.nObj + 1 }, some [])
      else ({ st with objs := (o, d) :: st.objs }, some [])   -- the shared named type object is modified
    | none =>
      ({ st with types := (tname, st.nObj) :: st.types, objs := (st.nObj, d) :: st.objs, nObj := st.nObj + 1 }, some [])
  | .alias tname target =>
    match st.types.lookup target with
    | none => (st, none)     -- undefined type
    | some o => ({ st with types := (tname, o) :: st.types }, some [])   -- DeclTypeAlias: the name denotes the same object
  | .bad => (st, none)
  | .boom => (st, some [.boom])

def compileAll (cfg : Cfg) : St → List Item → List Act → St × Option (List Act)
  | st, [], acc => (st, some acc)
  | st, it :: rest, acc =>
    match compileItem cfg st it with
    | (st1, none) => (st1, none)
    | (st1, some code) => compileAll cfg st1 rest (acc ++ code)

/-- run the compiled code; a panic stops it (the statements already executed keep their effect) -/
def runCode : St → List Act → St × Bool
  | st, [] => (st, true)
  | st, .setI i v :: rest => runCode { st with ints := (i, v) :: st.ints } rest
  | st, .setV i v :: rest => runCode { st with vals := (i, v) :: st.vals } rest
  | st, .boom :: _ => (st, false)

inductive Res where
  | ok | cfail | panic
  deriving DecidableEq, Repr, Inhabited

/-- Interp.Eval = CompileAst (with the journal when `cfg.rollback`), then RunExpr -/
def eval (cfg : Cfg) (st : St) : Input → St × Res
  | .syntaxError => (st, .cfail)
  | .items l =>
    match compileAll cfg st l [] with
    | (st1, none) =>
      (if cfg.rollback then { st1 with binds := st.binds, types := st.types, nI := st.nI, nV := st.nV } else st1, .cfail)
    | (st1, some code) =>
      match runCode st1 code with
      | (st2, true) => (st2, .ok)
      | (st2, false) => (st2, .panic)

/-- what a name resolves to: class, type, slot, value; `typeOk = false` when the variable's named type
    no longer has the definition it was declared with (selecting its field fails to compile) -/
structure Obs where
  cls : Cls
  ty : Nat
  idx : Option Nat
  val : Option Nat
  typeOk : Bool
  deriving DecidableEq, Repr, Inhabited

def resolve (st : St) (name : Nat) : Option Obs :=
  match st.binds.lookup name with
  | none => none
  | some e =>
    let val : Option Nat := match e.cls, e.idx with
      | .const, _ => some e.cval
      | .ivar, some i => st.ints.lookup i
      | _, some i => st.vals.lookup i
      | _, none => none
    let tok : Bool := if e.ty < 4 then true else ((st.objs.lookup (e.ty - 4)) == some e.d0)
    some ⟨e.cls, e.ty, e.idx, val, tok⟩

def resolveType (st : St) (tname : Nat) : Option (Nat × Option Nat) :=
  match st.types.lookup tname with
  | none => none
  | some o => some (o, st.objs.lookup o)

def run (cfg : Cfg) : St → List Input → St × List Res
  | st, [] => (st, [])
  | st, i :: is =>
    let r := eval cfg st i
    let r2 := run cfg r.1 is
    (r2.1, r.2 :: r2.2)

end Journal
