/-!
# Model of gomacro's generic instantiation (fast/generic_maker.go, generic_type.go, generic_func.go)

Transcription rules / abstractions

* `Ty` = resolved (closed) types as the interpreter sees them: equality of `Ty` terms plays the role
  of `xr.MakeKey(t)` equality (canonical `go/types` pointer, C28/C29 canonicity).  A declared named
  type is `named id` (identity = its declaration), an instance of a generic *type* is
  `inst gid args` (the forward-declared `Universe.NamedOf(...)` object cached under its key).
  Argument lists are encoded inside `Ty` (`anil`/`acons`), a constant argument is `cval v t`
  (value AND type: the key of the repaired `GenericKey`, see fixes/C35-const-key-type).
* `TExpr` = the template language: type expressions with identifiers (type parameters, names
  of the declaring scope), `G#[args]` in type position (`gen false`) and in expression position
  (`gen true`: generic function), integer constant expressions `CExpr` (array lengths, constant
  generic arguments).  `lit`/`clit` = an already resolved type/constant: the image of textual
  substitution.  `bad` = text that is not a type (what substitution produces from `3#[int]`).
* `Env` = chain of `Comp`s, innermost first.  As in gomacro there are TWO name spaces per scope:
  `Comp.Types` (named types and aliases) and `Comp.Binds` (constants, variables, functions,
  generic types and generic functions).  `lookupBind` = `Comp.tryResolve` (returns the bind and
  the `Comp` that holds it = the suffix of the chain), `lookupType` = `Comp.TryResolveType`,
  `classify` = the identifier walk of `Comp.Expr1OrType`.
* `resolve` = `Comp.Type` / `Comp.GenericType` / `Comp.GenericFunc` + `genericMaker` +
  `instantiateType` / `instantiateFunc`, as ONE state-passing function: the state is the
  `Instances` maps of all generics (`cache`, keyed by generic id and argument key) and a counter
  of created instance objects.  Order of effects as in the code: number of arguments checked
  first, arguments evaluated left to right in the CALLER's scope, cache lookup, on a miss a new
  scope `injectBinds` on top of the scope holding the generic (`NewComp(maker.comp)`), the
  instance is cached BEFORE its body is compiled (forward declaration, recursion), on failure
  the entry is deleted.  A generic function caches after compiling its signature and then
  compiles the generic references of its body (`refs`).  Recursion through bodies takes fuel.
* Not modelled: generic aliases (`type A#[T] = ...`), partial specialisation (v1 `for[...]`),
  type inference, values (function bodies are reduced to the list of generic references
  they instantiate), interface/chan types, struct tags, multi-parameter functions.
-/
namespace Generic

inductive Ty where
  | basic (k : Nat)
  | named (id : Nat)
  | slice (e : Ty)
  | ptr (e : Ty)
  | array (n : Int) (e : Ty)
  | map (k v : Ty)
  | func1 (a r : Ty)
  | strct (fs : Ty)
  | fnil
  | fcons (name : String) (t rest : Ty)
  | inst (g : Nat) (args : Ty)
  | anil
  | acons (a rest : Ty)
  | cval (v : Int) (t : Ty)
  deriving DecidableEq, Repr, Inhabited

/-- `int` -/
def tInt : Ty := .basic 2

inductive CExpr where
  | num (v : Int)                 -- untyped integer literal
  | clit (v : Int) (t : Ty)       -- typed constant value (image of a substituted constant parameter)
  | cname (s : String)
  | add (a b : CExpr)
  deriving DecidableEq, Repr, Inhabited

inductive TExpr where
  | name (s : String)
  | lit (t : Ty)
  | slice (e : TExpr)
  | ptr (e : TExpr)
  | array (n : CExpr) (e : TExpr)
  | map (k v : TExpr)
  | func1 (a r : TExpr)
  | strct (fs : TExpr)
  | fnil
  | fcons (name : String) (t rest : TExpr)
  | gen (fn : Bool) (g : String) (args : TExpr)
  | anil
  | acons (a rest : TExpr)
  | cst (c : CExpr)
  | bad
  deriving DecidableEq, Repr, Inhabited

inductive Bind where
  | cst (v : Int) (t : Option Ty)   -- constant; `none` = untyped
  | gen (gid : Nat)                 -- generic type or function (index in the table)
  | other                           -- variable / function
  deriving DecidableEq, Repr, Inhabited

structure Scope where
  types : List (String × Ty)
  binds : List (String × Bind)
  deriving Repr, Inhabited

abbrev Env := List Scope

inductive Kind where
  | named | func
  deriving DecidableEq, Repr, Inhabited

structure GenDecl where
  kind : Kind
  params : List String
  body : TExpr      -- type body / function signature
  refs : TExpr      -- `acons`-list of the generic references compiled with a function body
  deriving Repr, Inhabited

structure Entry where
  gid : Nat
  key : Ty
  obj : Nat
  res : Ty
  under : Option Ty   -- `none` while the instance is being compiled
  deriving DecidableEq, Repr, Inhabited

structure St where
  next : Nat
  cache : List Entry
  deriving Repr, Inhabited

def St.empty : St := ⟨0, []⟩

/-! ## name lookup -/

def lookupType : Env → String → Option Ty
  | [], _ => none
  | s :: rest, n =>
    match s.types.lookup n with
    | some t => some t
    | none => lookupType rest n

/-- `Comp.tryResolve`: the bind and the chain suffix starting at the scope that holds it -/
def lookupBind : Env → String → Option (Bind × Env)
  | [], _ => none
  | s :: rest, n =>
    match s.binds.lookup n with
    | some b => some (b, s :: rest)
    | none => lookupBind rest n

/-! ## constants -/

structure CVal where
  v : Int
  t : Option Ty
  deriving DecidableEq, Repr

def evalC (E : Env) : CExpr → Option CVal
  | .num v => some ⟨v, none⟩
  | .clit v t => some ⟨v, some t⟩
  | .cname s =>
    match lookupBind E s with
    | some (.cst v t, _) => some ⟨v, t⟩
    | _ => none
  | .add a b =>
    match evalC E a, evalC E b with
    | some x, some y =>
      match x.t, y.t with
      | none, none => some ⟨x.v + y.v, none⟩
      | some t, none => some ⟨x.v + y.v, some t⟩
      | none, some t => some ⟨x.v + y.v, some t⟩
      | some t, some u => if t = u then some ⟨x.v + y.v, some t⟩ else none
    | _, _ => none

/-- array length: a non-negative constant -/
def evalLen (E : Env) (c : CExpr) : Option Int :=
  match evalC E c with
  | some x => if x.v < 0 then none else some x.v
  | none => none

/-- constant generic argument: `EvalConst(COptDefaults)` gives an untyped constant type `int` -/
def toCval (x : CVal) : Ty := .cval x.v (x.t.getD tInt)

/-! ## classification of a generic argument (`Comp.Expr1OrType`) -/

inductive Class where
  | expr | type
  deriving DecidableEq, Repr

/-- the identifier `Expr1OrType` looks at: `*`, `( )` and `#[...]` are stripped -/
def argHead : TExpr → Option String
  | .name s => some s
  | .ptr e => argHead e
  | .gen false g _ => some g
  | _ => none

def isGenType (G : List GenDecl) (b : Bind) : Bool :=
  match b with
  | .gen gid => match G[gid]? with
    | some d => d.kind == .named
    | none => false
  | _ => false

/-- walk the scopes: a bind that is not a generic type means "expression", a type or a generic
    type means "type"; nothing found: the code tries an expression, that fails, and falls back to a type -/
def classify (G : List GenDecl) : Env → String → Class
  | [], _ => .type
  | s :: rest, n =>
    match s.binds.lookup n with
    | some b =>
      if isGenType G b then .type else .expr
    | none =>
      match s.types.lookup n with
      | some _ => .type
      | none => classify G rest n

/-- `Expr1OrType` on one generic argument: `some r` = the argument is compiled as an expression
    (`r = none`: it is not a constant, an error), `none` = it is compiled as a type -/
def isName : TExpr → Bool
  | .name _ => true
  | _ => false

def argExpr (G : List GenDecl) (E : Env) (a : TExpr) : Option (Option Ty) :=
  match argHead a with
  | some s =>
    match classify G E s with
    | .expr =>
      if isName a then
        match lookupBind E s with
        | some (.cst v t, _) => some (some (toCval ⟨v, t⟩))
        | _ => some none            -- "argument ... is not a constant"
      else some none                -- `*c`, `f#[...]`: not a constant expression
    | .type => none
  | none => none

/-- the argument was compiled as an expression (`some r`: no effect on the caches) or as a type (`k`) -/
def argPick (r : Option (Option Ty)) (st : St) (k : St × Option Ty) : St × Option Ty :=
  match r with
  | some r => (st, r)
  | none => k

/-! ## cache (the `Instances` maps) -/

def findEntry : List Entry → Nat → Ty → Option Entry
  | [], _, _ => none
  | e :: rest, g, k => if e.gid = g ∧ e.key = k then some e else findEntry rest g k

def removeEntry (c : List Entry) (g : Nat) (k : Ty) : List Entry :=
  c.filter (fun e => ¬ (e.gid = g ∧ e.key = k))

def setUnder (c : List Entry) (g : Nat) (k : Ty) (u : Ty) : List Entry :=
  c.map (fun e => if e.gid = g ∧ e.key = k then { e with under := some u } else e)

/-- `Instances[key] = instance`: map assignment of a freshly created object -/
def St.insert (st : St) (g : Nat) (k : Ty) (res : Ty) : St :=
  ⟨st.next + 1, ⟨g, k, st.next, res, none⟩ :: removeEntry st.cache g k⟩

/-! ## parameters -/

def arity : TExpr → Nat
  | .acons _ rest => arity rest + 1
  | _ => 0

/-- `injectBinds`: parameters become type aliases (`Types`) or constants (`Binds`) of a new scope;
    a later parameter of the same name overwrites an earlier one -/
def bindParams : List String → Ty → Scope → Scope
  | p :: ps, .acons a rest, sc =>
    match a with
    | .cval v t => bindParams ps rest ⟨sc.types, (p, .cst v (some t)) :: sc.binds⟩
    | _ => bindParams ps rest ⟨(p, a) :: sc.types, sc.binds⟩
  | _, _, sc => sc

def classOK (fn : Bool) (k : Kind) : Bool :=
  match fn, k with
  | false, .named => true
  | true, .func => true
  | _, _ => false

/-! ## resolution = compilation of a type / generic reference -/

/-- compilation of the body of an instance (`instantiateType` / `instantiateFunc` after the choice
    of the declaration): `rec` compiles the body and the references of the generic (it is the
    resolver itself with less fuel); `none` = out of fuel -/
def instantiate (rec : Option (St → Env → TExpr → St × Option Ty))
    (st : St) (U : Env) (gid : Nat) (d : GenDecl) (key : Ty) : St × Option Ty :=
  match rec with
  | none => (st, none)
  | some rec =>
    let E' := bindParams d.params key ⟨[], []⟩ :: U
    match d.kind with
    | .named =>
      let st1 := st.insert gid key (.inst gid key)
      let rb := rec st1 E' d.body
      match rb.2 with
      | none => (⟨rb.1.next, removeEntry rb.1.cache gid key⟩, none)
      | some u => (⟨rb.1.next, setUnder rb.1.cache gid key u⟩, some (.inst gid key))
    | .func =>
      let rs := rec st E' d.body
      match rs.2 with
      | none => (rs.1, none)
      | some t =>
        let st1 := rs.1.insert gid key t
        let rb := rec st1 E' d.refs
        match rb.2 with
        | none => (⟨rb.1.next, removeEntry rb.1.cache gid key⟩, none)
        | some _ => (⟨rb.1.next, setUnder rb.1.cache gid key t⟩, some t)

/-- `Comp.Type` / `Comp.GenericType` / `Comp.GenericFunc` on expression `x` in scope chain `E`;
    structural recursion on the expression, `rec` for the bodies of instantiated generics -/
def resolveX (G : List GenDecl) (rec : Option (St → Env → TExpr → St × Option Ty))
    (st : St) (E : Env) (x : TExpr) : St × Option Ty :=
  match x with
  | .name s => (st, lookupType E s)
  | .lit t => (st, some t)
  | .bad => (st, none)
  | .slice e =>
    let r := resolveX G rec st E e
    (r.1, r.2.map Ty.slice)
  | .ptr e =>
    let r := resolveX G rec st E e
    (r.1, r.2.map Ty.ptr)
  | .array n e =>
    let r := resolveX G rec st E e
    match r.2, evalLen E n with
    | some t, some k => (r.1, some (Ty.array k t))
    | _, _ => (r.1, none)
  | .map k v =>
    let r1 := resolveX G rec st E k
    match r1.2 with
    | none => (r1.1, none)
    | some kt =>
      let r2 := resolveX G rec r1.1 E v
      (r2.1, r2.2.map (Ty.map kt))
  | .func1 a r =>
    let r1 := resolveX G rec st E a
    match r1.2 with
    | none => (r1.1, none)
    | some at' =>
      let r2 := resolveX G rec r1.1 E r
      (r2.1, r2.2.map (Ty.func1 at'))
  | .strct fs =>
    let r := resolveX G rec st E fs
    (r.1, r.2.map Ty.strct)
  | .fnil => (st, some .fnil)
  | .fcons n t rest =>
    let r1 := resolveX G rec st E t
    match r1.2 with
    | none => (r1.1, none)
    | some t' =>
      let r2 := resolveX G rec r1.1 E rest
      (r2.1, r2.2.map (Ty.fcons n t'))
  | .anil => (st, some .anil)
  | .cst c => (st, (evalC E c).map toCval)
  | .acons a rest =>
    -- one generic argument: `Expr1OrType`
    let r1 : St × Option Ty := argPick (argExpr G E a) st (resolveX G rec st E a)
    match r1.2 with
    | none => (r1.1, none)
    | some a' =>
      let r2 := resolveX G rec r1.1 E rest
      (r2.1, r2.2.map (Ty.acons a'))
  | .gen fn g args =>
    match lookupBind E g with
    | some (.gen gid, U) =>
      match G[gid]? with
      | none => (st, none)
      | some d =>
        if classOK fn d.kind = false then (st, none)
        else if arity args ≠ d.params.length then (st, none)
        else
          let ra := resolveX G rec st E args      -- arguments: caller's scope
          match ra.2 with
          | none => (ra.1, none)
          | some key =>
            match findEntry ra.1.cache gid key with
            | some e => (ra.1, some e.res)        -- cache hit
            | none => instantiate rec ra.1 U gid d key
    | _ => (st, none)

/-- the resolver with `fuel` levels of nested instantiation -/
def resolve (G : List GenDecl) : Nat → St → Env → TExpr → St × Option Ty
  | 0 => resolveX G none
  | fuel + 1 => resolveX G (some (resolve G fuel))

/-! ## textual substitution of the parameters -/

/-- substitution in constant expressions: only constant parameters (name space `Binds`) -/
def substC (P : Scope) : CExpr → CExpr
  | .num v => .num v
  | .clit v t => .clit v t
  | .cname s =>
    match P.binds.lookup s with
    | some (.cst v (some t)) => .clit v t
    | some _ => .cname s
    | none => .cname s
  | .add a b => .add (substC P a) (substC P b)

/-- substitution in argument position: an identifier bound to a constant parameter is an
    expression (`sa` is the substitution in type position) -/
def substArg (P : Scope) (a sa : TExpr) : TExpr :=
  match argHead a with
  | some s =>
    match P.binds.lookup s with
    | some (.cst v (some t)) => if isName a then .cst (.clit v t) else .bad
    | some _ => .bad
    | none => sa
  | none => sa

/-- substitution in type position: type parameters (name space `Types`) become resolved types;
    `c#[...]` with a constant parameter `c` is no type -/
def subst (P : Scope) : TExpr → TExpr
  | .name s =>
    match P.types.lookup s with
    | some t => .lit t
    | none => .name s
  | .lit t => .lit t
  | .bad => .bad
  | .slice e => .slice (subst P e)
  | .ptr e => .ptr (subst P e)
  | .array n e => .array (substC P n) (subst P e)
  | .map k v => .map (subst P k) (subst P v)
  | .func1 a r => .func1 (subst P a) (subst P r)
  | .strct fs => .strct (subst P fs)
  | .fnil => .fnil
  | .fcons n t rest => .fcons n (subst P t) (subst P rest)
  | .anil => .anil
  | .cst c => .cst (substC P c)
  | .gen fn g args =>
    match P.binds.lookup g with
    | some _ => .bad
    | none => .gen fn g (subst P args)
  | .acons a rest => .acons (substArg P a (subst P a)) (subst P rest)

/-! ## top-level operations (one instantiation site) -/

/-- instantiate `G#[args]` (or any type expression) from scope chain `E` -/
def site (G : List GenDecl) (fuel : Nat) (st : St) (E : Env) (x : TExpr) : St × Option Ty :=
  resolve G fuel st E x

end Generic
