import Model.ClosureIR
import Model.C01Arms
import Model.CtiSig
/-! # Cti — the pre-declared "contracts are interfaces" methods of the basic types
(`xreflect/cti_basic_method.go`, `Universe.addBasicTypeMethodsCTI`)

The Go function is `switch xt.kind { case r.K: for i .. { switch xt.Method(i).Name { case "M":
(*mvec)[i] = r.ValueOf(func(<params>) <ret> { <body> }) } } }` — one Go func literal per
(kind, method).  `harness/c34_extract.go` turns every func literal into a `ClosureIR.Entry`:
`path` = the six enclosing skeleton lines, `binds` = the PARAMETERS in order as `(name, .decl "<type>")`,
`ret`, `body` (with two elaborations: `return c` of an untyped integer constant in a function with
result type `T` is `return T(c)`; `a[b:c]` is `call2 "slice" (index a b) c`).

This file is
* the expected table `expected k`: the arm template of each (kind, method), a function of the kind;
* the evaluator `run`: binds the parameters to argument values (checking each argument against
  the declared parameter type, as `reflect.Value.Call` does) and evaluates the body with
  `ClosureIR.evalArm` (C01's evaluator: Go operators = `GoSpec.binop/unop`); the five builtin
  forms that ClosureIR does not have (`a[b]`, `len(a)`, `a[b:c]` on strings, `real(a)`, `imag(a)`)
  are evaluated here;
* the specification `spec`: the Go operator / builtin that the method NAME denotes, applied to
  the operands (receiver ignored where the method takes the operands as arguments).

Abstractions: `int` is 64 bit; float arithmetic is the parameter `F : FloatOps`; the result of a
method is the value (its Go type is checked separately: `retKind`, `cti_sigs_agree`). -/
namespace Cti
open GoSpec GoSpec.Outcome ClosureIR

inductive Meth where
  | equal | cmp | less | add | sub | mul | quo | neg | rem | and | andNot | or | xor | not | lsh | rsh
  | real | imag | index | len | slice
  deriving DecidableEq, Repr, Inhabited

namespace Meth
def name : Meth → String
  | equal => "Equal" | cmp => "Cmp" | less => "Less" | add => "Add" | sub => "Sub" | mul => "Mul"
  | quo => "Quo" | neg => "Neg" | rem => "Rem" | and => "And" | andNot => "AndNot" | or => "Or"
  | xor => "Xor" | not => "Not" | lsh => "Lsh" | rsh => "Rsh" | real => "Real" | imag => "Imag"
  | index => "Index" | len => "Len" | slice => "Slice"
def all : List Meth :=
  [equal, cmp, less, add, sub, mul, quo, neg, rem, and, andNot, or, xor, not, lsh, rsh, real, imag, index, len, slice]
def ofName (s : String) : Option Meth := all.find? (fun m => m.name == s)
end Meth

/-- the methods of each kind, in the order of the source -/
def methodsOf : Kind → List Meth
  | .bool => [.equal, .not]
  | .int | .int8 | .int16 | .int32 | .int64 | .uint | .uint8 | .uint16 | .uint32 | .uint64 | .uintptr =>
    [.equal, .cmp, .less, .add, .sub, .mul, .quo, .neg, .rem, .and, .andNot, .or, .xor, .not, .lsh, .rsh]
  | .float32 | .float64 => [.equal, .cmp, .less, .add, .sub, .mul, .quo, .neg]
  | .complex64 | .complex128 => [.equal, .add, .sub, .mul, .quo, .neg, .real, .imag]
  | .string => [.equal, .cmp, .less, .add, .index, .len, .slice]

def floatOf : Kind → Kind
  | .complex64 => .float32
  | _ => .float64

/-- parameter names and kinds (the receiver is the first parameter of the func literal) -/
def params (k : Kind) : Meth → List (String × Kind)
  | .equal | .cmp | .less => [("a", k), ("b", k)]
  | .add | .sub | .mul | .quo | .rem | .and | .andNot | .or | .xor => [("z", k), ("a", k), ("b", k)]
  | .neg | .not => [("z", k), ("a", k)]
  | .lsh | .rsh => [("z", k), ("a", k), ("b", .uint8)]
  | .real | .imag | .len => [("a", k)]
  | .index => [("a", k), ("b", .int)]
  | .slice => [("a", k), ("b", .int), ("c", .int)]

def paramKinds (k : Kind) (m : Meth) : List Kind := (params k m).map (·.2)

def retKind (k : Kind) : Meth → Kind
  | .equal | .less => .bool
  | .cmp | .len => .int
  | .real | .imag => floatOf k
  | .index => .uint8
  | _ => k

def va : E := .var "a"
def vb : E := .var "b"
def vc : E := .var "c"

def body (k : Kind) : Meth → List S
  | .equal => [.ret (.bin .eql va vb)]
  | .cmp => [.ifThen (.bin .lss va vb) (.ret (.conv .int (.int (-1)))),
             .ifThen (.bin .gtr va vb) (.ret (.conv .int (.int 1))),
             .ret (.conv .int (.int 0))]
  | .less => [.ret (.bin .lss va vb)]
  | .add => [.ret (.bin .add va vb)]
  | .sub => [.ret (.bin .sub va vb)]
  | .mul => [.ret (.bin .mul va vb)]
  | .quo => [.ret (.bin .quo va vb)]
  | .neg => [.ret (.un .neg va)]
  | .rem => [.ret (.bin .rem va vb)]
  | .and => [.ret (.bin .and va vb)]
  | .andNot => [.ret (.bin .andNot va vb)]
  | .or => [.ret (.bin .or va vb)]
  | .xor => [.ret (.bin .xor va vb)]
  | .not => [.ret (.un (if k = .bool then .not else .xor) va)]
  | .lsh => [.ret (.bin .shl va vb)]
  | .rsh => [.ret (.bin .shr va vb)]
  | .real => [.ret (.call1 "real" va)]
  | .imag => [.ret (.call1 "imag" va)]
  | .index => [.ret (.index va vb)]
  | .len => [.ret (.call1 "len" va)]
  | .slice => [.ret (.call2 "slice" (.index va vb) vc)]

def declOf (p : String × Kind) : String × E := (p.1, .decl p.2.name)

def arm (k : Kind) (m : Meth) : Arm :=
  { binds := (params k m).map declOf, ret := .kind (retKind k m), named := false, body := body k m }

def fnName : String := "addBasicTypeMethodsCTI"
def caseOf (k : Kind) : String := "case r." ++ C01Arms.goName k

def pathOf (k : Kind) (m : Meth) : List String :=
  ["switch xt.kind", caseOf k, "for i, n := 0, xt.NumMethod(); i < n; i++", "switch xt.Method(i).Name",
   "case \"" ++ m.name ++ "\"", "(*mvec)[i] = r.ValueOf"]

def entry (k : Kind) (m : Meth) : Entry := { fn := fnName, path := pathOf k m, arm := arm k m }

/-- the expected table of one kind -/
def expected (k : Kind) : List Entry := (methodsOf k).map (entry k)

/-- the statements of `addBasicTypeMethodsCTI` around the arms -/
def expectedFrame : List String :=
  ["if !etoken.GENERICS.V2_CTI() { return }", "mvec := xt.GetMethods()", "switch xt.kind"]

def expectedCases : List String := Kind.all.map caseOf

/-! ## outcomes: GoSpec's panics + the two run-time panics of string indexing/slicing -/

inductive XPanic where
  | divide | negShift | index | slice
  deriving DecidableEq, Repr

inductive XOut where
  | ok (v : Val)
  | panic (p : XPanic)

def liftX : Option (Outcome Val) → Option XOut
  | none => none
  | some (.ok v) => some (.ok v)
  | some (.panic .divide) => some (.panic .divide)
  | some (.panic .negShift) => some (.panic .negShift)

/-! ## the string builtins (Go specification: "Index expressions", "Slice expressions", `len`) -/

/-- `s[i]`, `i` of type int: run-time panic unless `0 ≤ i < len(s)` -/
def strIndex (s : List UInt8) (i : BitVec 64) : XOut :=
  if i.msb then .panic .index
  else match s[i.toNat]? with
    | some b => .ok (.int ⟨8, false⟩ (BitVec.ofNat 8 b.toNat))
    | none => .panic .index

def strLen (s : List UInt8) : Val := .int ⟨64, true⟩ (BitVec.ofNat 64 s.length)

/-- `s[lo:hi]`: run-time panic unless `0 ≤ lo ≤ hi ≤ len(s)` -/
def strSlice (s : List UInt8) (lo hi : BitVec 64) : XOut :=
  if lo.msb || hi.msb then .panic .slice
  else if s.length < hi.toNat then .panic .slice
  else if hi.toNat < lo.toNat then .panic .slice
  else .ok (.str ((s.drop lo.toNat).take (hi.toNat - lo.toNat)))

/-! ## evaluation of an arm on argument values -/

def mkStore : List (String × E) → List Val → Option Store
  | [], [] => some []
  | (n, _) :: bs, v :: vs => (mkStore bs vs).map (fun ρ => (n, V.val v) :: ρ)
  | _, _ => none

/-- the kinds of the declared parameters (`none`: a parameter of non-basic type) -/
def declKinds : List (String × E) → Option (List Kind)
  | [] => some []
  | (_, .decl t) :: bs => match Kind.ofName t, declKinds bs with
    | some k, some ks => some (k :: ks)
    | _, _ => none
  | _ :: _ => none

def argsHaveKinds : List Kind → List Val → Bool
  | [], [] => true
  | k :: ks, v :: vs => v.hasKind k && argsHaveKinds ks vs
  | _, _ => false

def asStr : R → Option (List UInt8)
  | some (ok (.val (.str s))) => some s
  | _ => none

def asInt64 : R → Option (BitVec 64)
  | some (ok (.val (.int ⟨64, true⟩ n))) => some n
  | _ => none

/-- the builtin forms ClosureIR has no evaluation rule for; `none` = not such a form -/
def evalBuiltin (F : FloatOps) (ρ : Store) : E → Option (Option XOut)
  | .index a i => some (match asStr (evalE F ρ a), asInt64 (evalE F ρ i) with
      | some s, some n => some (strIndex s n)
      | _, _ => none)
  | .call1 f a =>
    if f = "len" then some (match asStr (evalE F ρ a) with
      | some s => some (.ok (strLen s))
      | none => none)
    else if f = "real" then some (match evalE F ρ a with
      | some (ok (.val (.c64 r _))) => some (.ok (.f32 r))
      | some (ok (.val (.c128 r _))) => some (.ok (.f64 r))
      | _ => none)
    else if f = "imag" then some (match evalE F ρ a with
      | some (ok (.val (.c64 _ i))) => some (.ok (.f32 i))
      | some (ok (.val (.c128 _ i))) => some (.ok (.f64 i))
      | _ => none)
    else none
  | .call2 f (.index a lo) hi =>
    if f = "slice" then some (match asStr (evalE F ρ a), asInt64 (evalE F ρ lo), asInt64 (evalE F ρ hi) with
      | some s, some l, some h => some (strSlice s l h)
      | _, _, _ => none)
    else none
  | _ => none

def runRaw (F : FloatOps) (a : Arm) (args : List Val) : Option XOut :=
  match mkStore a.binds args with
  | none => none
  | some ρ =>
    match a.body with
    | [.ret e] => (match evalBuiltin F ρ e with
      | some r => r
      | none => liftX (evalArm F ρ a))
    | _ => liftX (evalArm F ρ a)

/-- call the func literal: the arguments must have the declared parameter types -/
def run (F : FloatOps) (a : Arm) (args : List Val) : Option XOut :=
  match declKinds a.binds with
  | some ks => if argsHaveKinds ks args then runRaw F a args else none
  | none => none

/-! ## specification: the Go operator the method name denotes -/

/-- three-way comparison in terms of Go's `<` and `>`: `-1` if `a < b`, `1` if `a > b`, else `0`
    (so `0` when the operands are unordered: a NaN operand) -/
def cmp3 (F : FloatOps) (a b : Val) : Option (Outcome Val) :=
  match binop F .lss a b with
  | some (ok (.bool true)) => some (ok (.int ⟨64, true⟩ (BitVec.ofInt 64 (-1))))
  | some (ok (.bool false)) =>
    (match binop F .gtr a b with
     | some (ok (.bool true)) => some (ok (.int ⟨64, true⟩ (BitVec.ofInt 64 1)))
     | some (ok (.bool false)) => some (ok (.int ⟨64, true⟩ (BitVec.ofInt 64 0)))
     | some (.panic p) => some (.panic p)
     | _ => none)
  | some (.panic p) => some (.panic p)
  | _ => none

def spec (F : FloatOps) (k : Kind) (m : Meth) (args : List Val) : Option XOut :=
  match m, args with
  | .equal, [a, b] => liftX (binop F .eql a b)
  | .cmp, [a, b] => liftX (cmp3 F a b)
  | .less, [a, b] => liftX (binop F .lss a b)
  | .add, [_, a, b] => liftX (binop F .add a b)
  | .sub, [_, a, b] => liftX (binop F .sub a b)
  | .mul, [_, a, b] => liftX (binop F .mul a b)
  | .quo, [_, a, b] => liftX (binop F .quo a b)
  | .rem, [_, a, b] => liftX (binop F .rem a b)
  | .and, [_, a, b] => liftX (binop F .and a b)
  | .andNot, [_, a, b] => liftX (binop F .andNot a b)
  | .or, [_, a, b] => liftX (binop F .or a b)
  | .xor, [_, a, b] => liftX (binop F .xor a b)
  | .neg, [_, a] => liftX (unop F .neg a)
  | .not, [_, a] => liftX (unop F (if k = .bool then .not else .xor) a)   -- `!a` on bool, `^a` on integers
  | .lsh, [_, a, c] => liftX (binop F .shl a c)
  | .rsh, [_, a, c] => liftX (binop F .shr a c)
  | .real, [.c64 r _] => some (.ok (.f32 r))
  | .real, [.c128 r _] => some (.ok (.f64 r))
  | .imag, [.c64 _ i] => some (.ok (.f32 i))
  | .imag, [.c128 _ i] => some (.ok (.f64 i))
  | .len, [.str s] => some (.ok (strLen s))
  | .index, [.str s, .int ⟨64, true⟩ i] => some (strIndex s i)
  | .slice, [.str s, .int ⟨64, true⟩ lo, .int ⟨64, true⟩ hi] => some (strSlice s lo hi)
  | _, _ => none

/-! ## the signature table (go/types/cti_method.go) instantiated at a basic kind -/

/-- `Typ[...]` index constants -/
def kindOfConst (s : String) : Option Kind :=
  if s = "Byte" then some .uint8        -- go/types: `Byte = Uint8`
  else Kind.all.find? (fun k => C01Arms.goName k == s)

/-- truth of the textual conditions of `makeBasicMethods` for a typed basic kind with generics
    v2 (CTI) enabled -/
def basicTextConds (defs : List (String × List String)) (info : List String) (k : Kind) : CtiSig.TextConds := fun t =>
  if t = "!etoken.GENERICS.V2_CTI() || info&IsUntyped != 0" then CtiSig.hasFlag defs info "IsUntyped"
  else if t = "underlying.kind == Complex64" then some (k == .complex64)
  else none

def tyKind (k : Kind) : CtiSig.Ty → Option Kind
  | .self => some k
  | .basic n => kindOfConst n
  | _ => none

def tyKinds (k : Kind) : List CtiSig.Ty → Option (List Kind)
  | [] => some []
  | t :: ts => match tyKind k t, tyKinds k ts with
    | some a, some b => some (a :: b)
    | _, _ => none

/-- the `BasicInfo` flags of the kind in the regenerated `Typ` table -/
def infoOf (typ : List (String × String × List String)) (k : Kind) : Option (List String) :=
  (typ.find? (fun e => e.1 == C01Arms.goName k && e.2.1 == k.name)).map (·.2.2)

/-- the methods `makeBasicMethods` declares for kind `k`: (name, receiver :: parameter kinds, result kinds) -/
def declaredBasic (typ : List (String × String × List String)) (defs : List (String × List String))
    (rules : List CtiSig.Rule) (k : Kind) : Option (List (String × List Kind × List Kind)) :=
  match infoOf typ k with
  | none => none
  | some info =>
    match CtiSig.declared defs info (basicTextConds defs info k) rules with
    | none => none
    | some l => l.mapM (fun (n, s) =>
        match tyKind k s.recv, tyKinds k s.params, tyKinds k s.results with
        | some r, some p, some q => if s.variadic then none else some (n, r :: p, q)
        | _, _, _ => none)

/-- coverage and signature agreement at one kind: the declared names are exactly the names with
    an arm (no duplicates), and each arm's parameter list / result is the declared signature -/
def coverageOk (typ : List (String × String × List String)) (defs : List (String × List String))
    (rules : List CtiSig.Rule) (k : Kind) : Bool :=
  match declaredBasic typ defs rules k with
  | none => false
  | some decl =>
    let names := decl.map (·.1)
    let arms := (methodsOf k).map Meth.name
    names.all (fun n => arms.contains n) && arms.all (fun n => names.contains n) &&
    names.length == arms.length &&
    (methodsOf k).all (fun m =>
      match decl.find? (fun d => d.1 == m.name) with
      | some (_, ps, rs) => ps == paramKinds k m && rs == [retKind k m]
      | none => false)

end Cti
