/-!
# Model of the interrupt polling of gomacro's statement executor  (property C13)

Transcribed from `/repo/fast/code.go` (`exec`, `reExecWithFlags`, `spinInterrupt`, `applyAsyncSignal`,
`restore`, `pushDefer`, `popDefer`, `Run.interrupt`), `fast/interpreter.go` (`Interp.Interrupt`),
`fast/repl.go` (`prepareEnv`) and `fast/statement.go` (`Defer`, `stmtReturn`).

Transcription rules / abstractions
* The interpreter state relevant to interrupts is `Signals.Sync`, `Signals.Async`, the `ExecFlags`
  bits `EFStartDefer`/`EFDefer`, `Run.InstallDefer` and the Go call stack of executor activations.
  `Signals.Debug` is `SigNone` throughout (assumption: debugger off, `OptCtrlCEnterDebugger` off), so
  `Run.interrupt()` stores `SigInterrupt`; `Async` is therefore a `Bool`.
* An activation (`Act`) is one running call of the closure returned by `exec` / `execWithFlags`.
  It executes the statements `P.body fn 0, P.body fn 1, ...` : the *dynamic* sequence of `Stmt`
  closures it runs (jumps already resolved), an arbitrary function `Nat → Stmt`.  A statement is
  `simple` (touches no signal and returns the next statement), `hook` (simple; calls the compiled
  hook, which may call `Interp.Interrupt`), `call f` (simple; evaluates a call of interpreted function
  `f`, i.e. opens a nested activation), `ret` (a return statement or the `spinInterrupt` appended at
  the end of every code block: `Sync := SigReturn`, next statement `run.Interrupt`) or `dfr f h`
  (defer statement: `InstallDefer := f`, `Sync := SigDefer`, next statement `run.Interrupt`).
  `run.Interrupt` is `nil` in the first phase and `spinInterrupt` in the second one; this is modelled
  by the position (`spinning`), not by the field (the field itself is part of C12's model).
* The unroll structure (5 rounds of 14 chained statements, then turns of 15) and every place where the
  signal word is examined are NOT written here: they are the fields of `Loop`/`Sites`, regenerated
  from the source into `Gen/ExecLoop.lean`.  One `step` = one slot of the unrolled code or one
  examination of the signals.
* Go-level `defer`/`panic`/`recover` of `reExecWithFlags` (`defer restore`, `defer rundefer(fun)`) are
  the position `exiting`: deferred functions are run last-in-first-out as new activations, `held` is the
  local variable `panicking` (the Go panic recovered by `rundefer` and re-raised by `maybeRepanic`).
  The interpreted builtin `recover()` is NOT modelled (assumption: deferred functions do not recover
  the interrupt; see C12's model for `PanicFun`/`DeferOfFun`).
* Ghost fields (no counterpart in the code): `n`, `birth`, `stmts`, `hooks`, `after`, `raised`, `clock`,
  `intrAt`, `fired`.
-/
namespace Interrupt

/-- Unroll structure and poll sites of one executor loop; regenerated from the source. -/
structure Loop where
  entryPoll : Bool   -- pending async signal applied before the first statement
  rounds : Nat       -- `for j := 0; j < rounds; j++`
  chain : Nat        -- statements chained by `if stmt, env = stmt(env); stmt != nil` in one round
  chainPoll : Bool   -- `run.Signals.IsEmpty()` examined after the chain
  chainDefer : Bool  -- `for run.Signals.Sync == base.SigDefer` follows the chain
  spin : Nat         -- statements per turn of the endless loop
  spinPoll : Bool    -- `!run.Signals.IsEmpty()` examined after them
  spinDefer : Bool   -- `for run.Signals.Sync == base.SigDefer` (single-stepping one statement) before it
  exitPoll : Bool    -- pending async signal applied at label finish / signal
  deriving Repr, DecidableEq

structure Sites where
  fast : Loop          -- closure returned by `exec`
  flags : Loop         -- `reExecWithFlags`
  restorePoll : Bool   -- `restore` re-raises a pending SigInterrupt
  spinStmtPoll : Bool  -- `spinInterrupt` applies a pending async signal
  deriving Repr, DecidableEq

inductive Stmt
  | simple
  | hook (cleanup : Bool)    -- `hook()` / `hookd()` (the latter only counts; used in deferred clean-up code)
  | call (f : Nat)
  | ret
  | dfr (f : Nat) (h : Bool) -- `defer f(...)`; `h`: the argument list calls the hook
  deriving Repr, DecidableEq

structure Prog where
  body : Nat → Nat → Stmt
  withDefers : Nat → Bool   -- `Code.WithDefers`: the function is compiled by `execWithFlags`

inductive Sync | none | dfr | ret
  deriving Repr, DecidableEq

inductive Pos
  | entry
  | chain (j i : Nat)   -- first phase, round `j`: `i` statements executed, each returned a non-nil statement
  | chainOut (j : Nat)  -- fell out of the chain of round `j`
  | spin (i : Nat)      -- second phase: `i` of the `spin` slots of this turn executed
  | spinOut             -- after the slots of one turn
  | sstep               -- in the second-phase defer loop, about to single-step one statement
  | fin                 -- label `finish` (exec) / `signal` (reExecWithFlags)
  | exiting             -- Go-deferred calls of reExecWithFlags: `rundefer(fun)`..., then `restore`
  deriving Repr, DecidableEq

structure Act where
  fn : Nat
  flags : Bool := false        -- runs in reExecWithFlags (decided at `entry`)
  n : Nat := 0                 -- ghost: own statements executed
  pos : Pos := .entry
  spinning : Bool := false     -- current statement is `spinInterrupt`
  defers : List Nat := []      -- Go-deferred `rundefer(fun)`, most recent first
  held : Bool := false         -- local `panicking` of reExecWithFlags while its deferred calls run
  savedDefer : Bool := false   -- `run.ExecFlags.IsDefer()` captured by `defer restore(...)`
  pd : Option Bool := none     -- `isDefer` captured by an outstanding `defer popDefer(pushDefer(...))`
  birth : Nat := 0             -- ghost: value of `clock` when the activation was opened
  deriving Repr, DecidableEq

structure Cfg where
  stack : List Act
  sync : Sync := .none
  async : Bool := false
  efStart : Bool := false
  efDefer : Bool := false
  installDefer : Option Nat := none
  panic : Bool := false        -- a Go panic (the interrupt) is propagating
  stmts : Nat := 0             -- ghost: statements executed (all activations)
  hooks : Nat := 0             -- ghost: calls of the hook
  after : Nat := 0             -- ghost: calls of the hook after the one that interrupted
  dafter : Nat := 0            -- ghost: calls of the clean-up hook after the interrupt
  fired : Bool := false
  intrAt : Nat := 0            -- the hook calls Interp.Interrupt at its `intrAt`-th call (0 = never)
  raised : Nat := 0            -- ghost: number of `panic(SigInterrupt)`
  clock : Nat := 0             -- ghost: number of activations opened
  deriving Repr, DecidableEq

def Cfg.isEmpty (c : Cfg) : Bool := c.sync == .none && !c.async

/-- `Run.interrupt()` with the debugger options off: `run.Signals.Async = SigInterrupt` -/
def Cfg.interrupt (c : Cfg) : Cfg := { c with async := true }

/-- `applyAsyncSignal(SigInterrupt)`: `Async = SigNone; panic(SigInterrupt)` -/
def raise (c : Cfg) : Cfg := { c with async := false, panic := true, raised := c.raised + 1 }

/-- `Interp.prepareEnv`, signal part: `Sync = SigNone; Async = SigNone` -/
def prepareEnv (c : Cfg) : Cfg := { c with sync := .none, async := false }

def loopOf (S : Sites) (a : Act) : Loop := if a.flags then S.flags else S.fast

/-- the compiled hook: counts, and calls `Interp.Interrupt` at its `intrAt`-th call -/
def hookCall (c : Cfg) : Cfg :=
  let h := c.hooks + 1
  let c := { c with hooks := h, after := if c.fired then c.after + 1 else c.after }
  if h == c.intrAt then { c.interrupt with fired := true } else c

/-- the compiled clean-up hook: only counts -/
def hookdCall (c : Cfg) : Cfg := { c with dafter := if c.fired then c.dafter + 1 else c.dafter }

def nextRound (L : Loop) (j : Nat) : Pos := if j + 1 < L.rounds then .chain (j + 1) 0 else .spin 0

def firstPos (L : Loop) : Pos := if 0 < L.rounds then .chain 0 0 else .spin 0

/-- Execute the `a.n`-th statement of activation `a` (top of stack, rest `rest`).
    `nxt` is the position when the statement returns an ordinary next statement,
    `out` the position when it returns `run.Interrupt` in the first phase (`nil`);
    `spins` tells that `run.Interrupt` is `spinInterrupt` (second phase). -/
def execStmt (P : Prog) (c : Cfg) (a : Act) (rest : List Act) (nxt out : Pos) (spins : Bool) : Cfg :=
  let s := P.body a.fn a.n
  let a := { a with n := a.n + 1 }
  let c := { c with stmts := c.stmts + 1 }
  match s with
  | .simple => { c with stack := { a with pos := nxt } :: rest }
  | .hook false => { hookCall c with stack := { a with pos := nxt } :: rest }
  | .hook true => { hookdCall c with stack := { a with pos := nxt } :: rest }
  | .call f => { c with stack := { fn := f, birth := c.clock } :: { a with pos := nxt } :: rest, clock := c.clock + 1 }
  | .ret =>
    { c with sync := .ret, stack := (if spins then { a with pos := nxt, spinning := true } else { a with pos := out }) :: rest }
  | .dfr f h =>
    let c := if h then hookCall c else c
    { c with sync := .dfr, installDefer := some f,
             stack := (if spins then { a with pos := nxt, spinning := true } else { a with pos := out }) :: rest }

/-- body of `for run.Signals.Sync == base.SigDefer`: `Sync = SigNone; fun := InstallDefer; InstallDefer = nil; defer rundefer(fun)` -/
def installDeferred (c : Cfg) (a : Act) : Cfg × Act :=
  match c.installDefer with
  | some f => ({ c with sync := .none, installDefer := none }, { a with defers := f :: a.defers })
  | none => ({ c with sync := .none }, a)

def step (S : Sites) (P : Prog) (c : Cfg) : Cfg :=
  match c.stack with
  | [] => c
  | a :: rest =>
    if c.panic then
      -- the Go panic unwinds into the frame of `a`
      match a.pos with
      | .exiting =>
        -- a deferred call panicked: `defer popDefer(...)` runs, the next `rundefer` recovers the panic
        let c := match a.pd with
          | some b => { c with efStart := false, efDefer := b }
          | none => c
        { c with panic := false, stack := { a with held := true, pd := none } :: rest }
      | _ =>
        if a.flags then { c with panic := false, stack := { a with pos := .exiting, held := true } :: rest }
        else { c with stack := rest }
    else
    let L := loopOf S a
    match a.pos with
    | .entry =>
      -- exec: `Sync = SigNone; if run.ExecFlags != 0 { reExecWithFlags }`; execWithFlags: always
      let flags := P.withDefers a.fn || c.efStart || c.efDefer
      let a := { a with flags := flags }
      let L := loopOf S a
      let c := { c with sync := .none }
      if L.entryPoll && c.async then raise { c with stack := a :: rest }
      else if flags then
        -- `defer restore(run, IsDefer(), ...)`; `SetDefer(StartDefer()); SetStartDefer(false)`
        { c with efDefer := c.efStart, efStart := false,
                 stack := { a with savedDefer := c.efDefer, pos := firstPos L } :: rest }
      else { c with stack := { a with pos := firstPos L } :: rest }
    | .chain j i =>
      if i < L.chain then execStmt P c a rest (.chain j (i + 1)) (.chainOut j) false
      else if L.chainPoll && !c.isEmpty then { c with stack := { a with pos := .chainOut j } :: rest }
      else { c with stack := { a with pos := nextRound L j } :: rest }
    | .chainOut j =>
      if L.chainDefer then
        let (c1, a1) := if c.sync == .dfr then installDeferred c a else (c, a)
        if !c1.isEmpty then { c1 with stack := { a1 with pos := .fin } :: rest }
        else { c1 with stack := { a1 with pos := nextRound L j } :: rest }
      else { c with stack := { a with pos := .fin } :: rest }
    | .spin i =>
      if i < L.spin then
        if a.spinning then
          -- spinInterrupt
          if c.isEmpty then { c with sync := .ret, stack := { a with pos := .spin (i + 1) } :: rest }
          else if S.spinStmtPoll && c.async then raise c
          else { c with stack := { a with pos := .spin (i + 1) } :: rest }
        else execStmt P c a rest (.spin (i + 1)) (.spin (i + 1)) true
      else { c with stack := { a with pos := .spinOut } :: rest }
    | .spinOut =>
      if L.spinDefer && c.sync == .dfr then
        let (c1, a1) := installDeferred c a
        { c1 with stack := { a1 with pos := .sstep, spinning := false } :: rest }
      else if L.spinPoll && !c.isEmpty then { c with stack := { a with pos := .fin } :: rest }
      else { c with stack := { a with pos := .spin 0 } :: rest }
    | .sstep => execStmt P c a rest .spinOut .spinOut true
    | .fin =>
      if L.exitPoll && c.async then raise c
      else if a.flags then { c with stack := { a with pos := .exiting, held := false } :: rest }
      else { c with sync := .none, stack := rest }
    | .exiting =>
      let c := match a.pd with
        | some b => { c with efStart := false, efDefer := b }
        | none => c
      let a := { a with pd := none }
      match a.defers with
      | f :: ds =>
        -- rundefer(fun): `defer popDefer(pushDefer(run, funenv, panicking))`; `fun()`
        { c with efStart := true, clock := c.clock + 1,
                 stack := { fn := f, birth := c.clock } :: { a with defers := ds, pd := some c.efDefer } :: rest }
      | [] =>
        -- restore
        let c := { c with efDefer := a.savedDefer, sync := .none, stack := rest }
        if S.restorePoll && c.async then raise c else { c with panic := a.held }

def stepN (S : Sites) (P : Prog) : Nat → Cfg → Cfg
  | 0, c => c
  | k + 1, c => stepN S P k (step S P c)

/-- initial configuration of an evaluation that calls function `f`, after `prepareEnv` -/
def start (f : Nat) (intrAt : Nat) : Cfg :=
  { stack := [{ fn := f, birth := 0 }], clock := 1, intrAt := intrAt }

/-- statements executed between two examinations of the signal word, maximum over the unrolled loops -/
def maxUnroll (S : Sites) : Nat := max (max S.fast.chain S.fast.spin) (max S.flags.chain S.flags.spin)

end Interrupt
