/-!
# Model of the per-goroutine bookkeeping (`fast.Run`) across panics  (property C12)

Transcribed from `/repo/fast/code.go` (`exec`, `execWithFlags`, `reExecWithFlags` with its local
`rundefer`, `restore`, `pushDefer`, `popDefer`, `maybeRepanic`), `fast/builtin.go` (`callRecover`),
`fast/compile.go` (`newEnv4Func`, `freeEnv4Func`), `fast/function.go` (the `MakeFunc` wrapper:
`newEnv4Func; funcbody(env); freeEnv4Func`), `fast/repl.go` (`RunExpr`, `prepareEnv`, `setCurrEnv`)
and `fast/statement.go` (`Defer`, return).

Transcription rules / abstractions
* `Run` below has exactly the fields of `fast.Run` that those functions save, restore or test:
  `Interrupt` (nil / `spinInterrupt`), `Signals.Sync`, `ExecFlags` bits `EFStartDefer`, `EFDefer`,
  `CurrEnv`, `DeferOfFun`, `PanicFun`, `Panic`, and the debugger mode `EFDebug`, `DebugDepth`, `Signals.Debug`
  (rewritten by `applyDebugOp` at the start of every evaluation; in single-step mode -- entered with
  `Interp.Debug`, the scripted debugger always answers "step" -- every function runs in `reExecWithFlags`,
  `run.Interrupt` is `spinInterrupt` while statements are single-stepped, and `Debugger.At` is called before
  every statement).  (`Signals.Async` is C13; the Env pool is C06; breakpoints are not modelled.)
* `*Env` identities are natural numbers: `0` is the interpreter's file-level Env, which is the `funenv`
  of top-level code in EVERY evaluation; each function call gets a fresh identity (an Env through which
  a panic escaped is never returned to the pool, and `PanicFun` only ever points to such an Env or to
  the Env of a function whose deferred calls are running).
* A program is a table of functions, each a list of `Op` (one `Op` = one compiled statement, `pad k` =
  `k` simple statements).  Evaluation is big-step with fuel (recursion is allowed); every statement may
  abort: `hook` raises a Go panic at its `K`-th call, `panic v` always, `call`/`try_` propagate.
  `try_ f` is a compiled function that calls `f` and recovers its panic (fmt-like / callback-recovering
  library code).
* The position of an activation in the unrolled executor loop (`j`, `i`, `ph2`) is kept because
  `run.Interrupt` is `spinInterrupt` only in the second phase and a return statement jumps to
  `run.Interrupt`: when it is `nil` in the second phase the next slot calls a nil function (Go runtime
  panic, value `crash`) unless the return sits in the last slot of a turn.  Domain restriction: defer
  statements in the second phase are handled only approximately (slot alignment after the single-step
  loop is not modelled); the generator places defers in the first phase.
* Panic values are naturals >= 1; `0` stands for `nil` in the log of `recover()`/`try` results.
-/
namespace Restore

inductive Intr | nil | spin
  deriving Repr, DecidableEq

inductive Sig | none | dfr | ret
  deriving Repr, DecidableEq

structure Run where
  interrupt : Intr := .nil
  sync : Sig := .none
  efStart : Bool := false
  efDefer : Bool := false
  currEnv : Option Nat := none
  deferOfFun : Option Nat := none
  panicFun : Option Nat := none
  panicVal : Option Nat := none
  efDebug : Bool := false      -- ExecFlags bit EFDebug
  debugDepth : Bool := false   -- DebugDepth: false = 0, true = MaxInt (single-step everything)
  sigDebug : Bool := false     -- Signals.Debug == SigDebug
  deriving Repr, DecidableEq

/-- `Run.applyDebugOp(DebugOpStep)` (`step = true`) / `(DebugOpContinue)`: the three debugger fields are rewritten -/
def applyDebugOp (step : Bool) (r : Run) : Run := { r with debugDepth := step, efDebug := step, sigDebug := step }

inductive Op
  | pad (k : Nat)
  | hook
  | call (f : Nat)
  | dfr (f : Nat)
  | recover
  | panic (v : Nat)
  | try_ (f : Nat)
  deriving Repr, DecidableEq

def Op.isDfr : Op → Bool
  | .dfr _ => true
  | _ => false

/-- unroll constants of the executor (from Gen/ExecLoop.lean) -/
structure Unroll where
  rounds : Nat
  chain : Nat
  spin : Nat
  deriving Repr, DecidableEq

structure Prog where
  body : Nat → List Op
  K : Nat                 -- the hook panics at its K-th call (0 = never)
  U : Unroll
  savesPanic : Bool       -- `reExecWithFlags` remembers `Panic`/`PanicFun` the first time one of its `rundefer`
                          -- starts panicking and reinstates them when the function is left (gomacro commit
                          -- a642365; extracted from the source, false for older trees)

def Prog.withDefers (P : Prog) (f : Nat) : Bool := (P.body f).any Op.isDfr

inductive Out
  | ok
  | panic (v : Nat)
  deriving Repr, DecidableEq

def hookPanic : Nat := 900   -- value thrown by the hook
def crash : Nat := 901       -- Go runtime error: call of a nil statement
def noFuel : Nat := 999      -- artefact of the fuel (never produced for adequate fuel)

/-- activation-local state -/
structure Act where
  env : Nat
  flags : Bool
  j : Nat := 0
  i : Nat := 0
  ph2 : Bool := false
  defers : List Nat := []
  deriving Repr, DecidableEq

structure St where
  run : Run := {}
  hooks : Nat := 0
  nextEnv : Nat := 1
  log : List Nat := []
  atc : Bool := false     -- ghost: `Debugger.At` was called (a statement was single-stepped)
  deriving Repr, DecidableEq

/-- one more round of the first phase is over; after `rounds` rounds: `run.Interrupt = spinInterrupt` -/
def nextRound (U : Unroll) (a : Act) (s : St) : Act × St :=
  if a.j + 1 < U.rounds then ({ a with j := a.j + 1, i := 0 }, s)
  else ({ a with j := a.j + 1, i := 0, ph2 := true }, { s with run := { s.run with interrupt := .spin } })

/-- `k` statements executed, each returning an ordinary next statement -/
def advance (U : Unroll) : Nat → Act → St → Act × St
  | 0, a, s => (a, s)
  | k + 1, a, s =>
    if a.ph2 then advance U k { a with i := if a.i + 1 < U.spin then a.i + 1 else 0 } s
    else if a.i + 1 < U.chain then advance U k { a with i := a.i + 1 } s
    else
      let (a, s) := nextRound U a s
      advance U k a s

/-- `callRecover` -/
def recoverOp (s : St) : St :=
  let r := s.run
  if !r.efDefer then { s with log := 0 :: s.log }
  else match r.panicFun with
    | none => { s with log := 0 :: s.log }
    | some pf =>
      if r.deferOfFun != some pf then { s with log := 0 :: s.log }
      else { s with log := r.panicVal.getD 0 :: s.log, run := { r with panicVal := none, panicFun := none } }

/-- a statement returns `run.Interrupt` as next statement in the second phase: a nil statement is
    called by the next slot unless this was the last slot of the turn -/
def nilStmtCrash (U : Unroll) (a : Act) (s : St) : Bool :=
  a.ph2 && s.run.interrupt == .nil && a.i + 1 < U.spin && !s.run.sigDebug

mutual
/-- the statements of one activation; returns the outcome, the activation (its installed defers) and the state -/
def runOps (P : Prog) : Nat → List Op → Act → St → Out × Act × St
  | 0, _, a, s => (.panic noFuel, a, s)
  | _ + 1, [], a, s =>
    -- falling off the end = the appended `spinInterrupt` / a return statement
    if nilStmtCrash P.U a s then (.panic crash, a, { s with run := { s.run with sync := .ret } })
    else (.ok, a, { s with run := { s.run with sync := .ret } })
  | fuel + 1, op :: rest, a, s =>
    match op with
    | .pad k =>
      let (a, s) := advance P.U k a s
      runOps P fuel rest a s
    | .hook =>
      let s := { s with hooks := s.hooks + 1 }
      if s.hooks == P.K then (.panic hookPanic, a, s)
      else
        let (a, s) := advance P.U 1 a s
        runOps P fuel rest a s
    | .panic v => (.panic v, a, s)
    | .recover =>
      let s := recoverOp s
      let (a, s) := advance P.U 1 a s
      runOps P fuel rest a s
    | .call f =>
      match callFn P fuel f s with
      | (.ok, s) =>
        let (a, s) := advance P.U 1 a s
        runOps P fuel rest a s
      | (.panic v, s) => (.panic v, a, s)
    | .try_ f =>
      match callFn P fuel f s with
      | (.ok, s) =>
        let (a, s) := advance P.U 1 a { s with log := 0 :: s.log }
        runOps P fuel rest a s
      | (.panic v, s) =>
        let (a, s) := advance P.U 1 a { s with log := v :: s.log }
        runOps P fuel rest a s
    | .dfr f =>
      -- `Defer`: InstallDefer = ..., Sync = SigDefer, next statement run.Interrupt
      if nilStmtCrash P.U a s then (.panic crash, a, s)
      else
        let a := { a with defers := f :: a.defers }
        if a.ph2 then runOps P fuel rest { a with i := 0 } s
        else
          let (a, s) := nextRound P.U a s
          runOps P fuel rest a s

/-- the `MakeFunc` wrapper of an interpreted function: `newEnv4Func; funcbody(env); freeEnv4Func` -/
def callFn (P : Prog) : Nat → Nat → St → Out × St
  | 0, _, s => (.panic noFuel, s)
  | fuel + 1, f, s =>
    let env := s.nextEnv
    let caller := s.run.currEnv
    let s := { s with nextEnv := env + 1, run := { s.run with currEnv := some env } }
    match execFn P fuel f env s with
    | (.ok, s) => (.ok, { s with run := { s.run with currEnv := caller } })
    | (.panic v, s) => (.panic v, s)

/-- the closure returned by `exec` / `execWithFlags`, run with `funenv = env` -/
def execFn (P : Prog) : Nat → Nat → Nat → St → Out × St
  | 0, _, _, s => (.panic noFuel, s)
  | fuel + 1, f, env, s =>
    -- in single-step mode (`Signals.Debug` set) every statement is preceded by `Debugger.At`
    let s := { s with run := { s.run with sync := .none }, atc := s.atc || s.run.sigDebug }
    if P.withDefers f || s.run.efStart || s.run.efDefer || s.run.efDebug then
      -- reExecWithFlags
      let savedDefer := s.run.efDefer
      let savedIntr := s.run.interrupt
      let savedCaller := s.run.currEnv
      -- `SetDefer(StartDefer()); SetStartDefer(false); SetDebug(Signals.Debug != SigNone)`
      let s := { s with run := { s.run with efDefer := s.run.efStart, efStart := false, interrupt := .nil, efDebug := s.run.sigDebug } }
      match runOps P fuel (P.body f) { env := env, flags := true } s with
      | (o, a, s) =>
        match runDefers P fuel env a.defers o none s with
        | (o, sv, s) =>
          -- Go-deferred closure `if saved { run.Panic, run.PanicFun = savedPanic, savedPanicFun }`
          let s := match sv with
            | some (pf, pv) => { s with run := { s.run with panicFun := pf, panicVal := pv } }
            | none => s
          -- restore
          (o, { s with run := { s.run with efDefer := savedDefer, interrupt := savedIntr, currEnv := savedCaller, sync := .none } })
    else
      let saved := s.run.interrupt
      let s := { s with run := { s.run with interrupt := .nil } }
      match runOps P fuel (P.body f) { env := env, flags := false } s with
      | (.ok, _, s) => (.ok, { s with run := { s.run with interrupt := saved, sync := .none } })
      | (.panic v, _, s) => (.panic v, s)

/-- the Go-deferred `rundefer(fun)` calls of one `reExecWithFlags` frame, last installed first;
    `o` is the panic state of the frame (`panicking`), `sv` its `saved`/`savedPanic`/`savedPanicFun` -/
def runDefers (P : Prog) : Nat → Nat → List Nat → Out → Option (Option Nat × Option Nat) → St →
    Out × Option (Option Nat × Option Nat) × St
  | 0, _, _, _, sv, s => (.panic noFuel, sv, s)
  | _ + 1, _, [], o, sv, s => (o, sv, s)
  | fuel + 1, funenv, f :: ds, o, sv, s =>
    let panicking := match o with | .panic _ => true | .ok => false
    -- `if !saved { saved = true; savedPanic, savedPanicFun = run.Panic, run.PanicFun }`
    let sv := if panicking && P.savesPanic && sv.isNone then some (s.run.panicFun, s.run.panicVal) else sv
    -- `run.Panic = recover()` when panicking
    let s := match o with
      | .panic v => { s with run := { s.run with panicVal := some v } }
      | .ok => s
    -- pushDefer
    let savedDOF := s.run.deferOfFun
    let savedIsDefer := s.run.efDefer
    let pf := if panicking then some funenv else s.run.panicFun
    let s := { s with run := { s.run with panicFun := pf, deferOfFun := some funenv, efStart := true } }
    match callFn P fuel f s with
    | (o2, s) =>
      -- maybeRepanic (only after a normal return of fun), then the deferred popDefer
      let o' := match o2 with
        | .panic v2 => Out.panic v2
        | .ok => if panicking && s.run.panicFun.isSome then Out.panic (s.run.panicVal.getD 0) else Out.ok
      let s := { s with run := { s.run with deferOfFun := savedDOF, efStart := false, efDefer := savedIsDefer } }
      runDefers P fuel funenv ds o' sv s
end

/-- what an evaluation runs: the expression `f()` or the statements of `f` as top-level code (funenv = Env 0) -/
inductive Kind | callF | topCode
  deriving Repr, DecidableEq

/-- `Interp.RunExpr` (`dbg = false`) / `Interp.DebugExpr` (`dbg = true`): `prepareEnv` (Sync := none),
    `applyDebugOp(DebugOpContinue / DebugOpStep)` BEFORE the code runs, `defer setCurrEnv(setCurrEnv(env))`, run -/
def evalTop (P : Prog) (fuel : Nat) (dbg : Bool) (kind : Kind) (f : Nat) (s : St) : Out × St :=
  let saved := s.run.currEnv
  let s := { s with run := applyDebugOp dbg { s.run with sync := .none, currEnv := some 0 } }
  let (o, s) := match kind with
    | .callF => callFn P fuel f s
    | .topCode => execFn P fuel f 0 s
  (o, { s with run := { s.run with currEnv := saved } })

end Restore
