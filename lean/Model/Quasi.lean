import Model.MacroExpand
/-!
# Model of quote / quasiquote evaluation (property C21)

Trees, trivial-wrapper removal, slot conversions and `MakeQuote` are those of `Model/MacroExpand.lean`.

* `quoteEval`, `simplify`  : `classic/quasiquote.go` `evalQuote`, `base/quasiquote.go` `SimplifyNodeForQuote`
  (`fast/unary.go` `Comp.UnaryExpr` case QUOTE is the same call);
* `qq`                      : `classic/quasiquote.go` `Env.evalQuasiquoteAst` (direct recursion), with
  `descend` = `base.DescendNestedUnquotes`, `dup` = `base.DuplicateNestedUnquotes`;
  `quasiEval` = `Env.evalQuasiquote`;
* `subst`                   : the specification: the same substitution written as one function from
  (template, depth, evaluator of the unquoted code) to the tree, `qq` is `subst` by definition of the
  classic interpreter (direct recursion);
* `compile` / `run`         : the staged form used by the fast interpreter (`fast/quasiquote.go`
  `Comp.quasiquote`): the template is turned, once, into a tree of closures (`Code`), each evaluation
  runs the closures against the current evaluator.  `compile` follows the structure of `Comp.quasiquote`
  (slice case with per-element splice flags, operator case, generic node case) but takes its case
  analysis from `subst`; it is NOT a line-by-line transcription of the fast code (its one-level
  `SimplifyAstForQuote` and its deep-splice special case are not modelled): fast is tied to classic by the
  differential oracle of harness/c21.go, see notes/C21.md.

The code modelled is the code with `fixes/C21-*.diff` applied.
`ev : Tree → R Tree` is the interpreter evaluating the body of an `~unquote` and converting the value with
`ast2.AnyToAst` (a node, a list, a literal for numbers/strings/booleans, nil).
-/
namespace Quasi
open MacroExpand MacroExpand.Tree

abbrev Ev := Tree → R Tree

/-- `SimplifyNodeForQuote(in, unwrapTrivialBlocks)` -/
def simplify (t : Tree) (unwrapBlocks : Bool) : Tree :=
  match t with
  | .list .blockStmt _ _ _ ks =>
    if unwrapBlocks then
      match ks with
      | [] => emptyStmt
      | [x] =>
        -- second round of the loop with unwrapTrivialBlocks = false
        match x with
        | .node .exprStmt _ _ _ [y] => y
        | .node .parenExpr _ _ _ [y] => y
        | .node .declStmt _ _ _ [y] => y
        | _ => x
      | _ => t
    else t
  | .node .exprStmt _ _ _ [y] => y
  | .node .parenExpr _ _ _ [y] => y
  | .node .declStmt _ _ _ [y] => y
  | _ => t

/-- `~quote{body}`: the body itself, a single statement unwrapped -/
def quoteEval (body : Tree) : Tree := simplify body true

def isUnquoteOp (a : String) : Bool := a = opUnquote ∨ a = opUnquoteSplice

/-- the `~unquote`/`~unquote_splice` form directly below `t` (the only statement of its body), if any -/
def innerUnquote (t : Tree) : Option Tree :=
  match bodyOf t with
  | .ok (.list .blockStmt _ _ _ [x]) =>
    match unwrap true x with
    | .node .unaryExpr c a ss [k] => if isUnquoteOp a then some (.node .unaryExpr c a ss [k]) else none
    | _ => none
  | _ => none

/-- `DescendNestedUnquotes`: the innermost of a chain of unquotes, the length of the chain, and the
    operators of the chain from the outside in (`CollectNestedUnquotes`) -/
def descend : Nat → Tree → Tree × Nat × List String
  | 0, t => (t, 1, [])
  | f+1, t =>
    let a := match t with | .node _ _ a _ _ => a | _ => ""
    match innerUnquote t with
    | some u => let (l, n, ops) := descend f u; (l, n + 1, a :: ops)
    | none => (t, 1, [a])

/-- `DuplicateNestedUnquotes(src, depth, toappend)`: `op1{ op2{ ... { toappend } } }` for the given operators -/
def dup : List String → Tree → R Tree
  | [], x => .ok x
  | op :: ops, x => do
    let inner ← dup ops x
    match inner with
    | .nil => .ok (mkQuoteForm op (mkBlock []))
    | _ => do
      let s ← toStmt inner
      .ok (mkQuoteForm op (mkBlock [s]))

def opOf : Tree → String
  | .node _ _ a _ _ => a
  | _ => ""

/-- elements of a value that is spliced -/
def elemsOf : Tree → R (List Tree)
  | .nil => .ok []
  | .list _ _ _ _ ks => .ok ks
  | _ => .error .conversion

/-- one element of a list (`evalQuasiquoteAst`, the loop of the `canSplice` branch): the trees it
    contributes to the new list.  `rec d x` is the recursive call at depth `d`. -/
def elemPart (ev : Ev) (rec : Nat → Tree → R Tree) (f d : Nat) (es : Slot) (child : Tree) : R (List Tree) :=
  let x := unwrap false child
  match x with
  | .node .unaryExpr _ op _ _ =>
    if op = opQuasiquote then do
      let b ← bodyOf x
      let e ← rec (d+1) b
      let q ← makeQuote2 op e
      let q' ← conv es q
      pure [q']
    else if isUnquoteOp op then
      let (last, ud, ops) := descend f x
      if ud > d then .error .malformed
      else if ud < d then do
        let b ← bodyOf x
        let e ← rec (d-1) b
        let q ← makeQuote2 op e
        let q' ← conv es q
        pure [q']
      else do
        let b ← bodyOf last
        let v ← ev b
        if opOf last = opUnquote then do
          let s ← dup (ops.take (ud-1)) v
          let s' ← conv es s
          pure [s']
        else do
          let vs ← elemsOf v
          vs.mapM (fun e => do let s ← dup (ops.take (ud-1)) e; conv es s)
    else do
      let y ← rec d x
      let y' ← conv es y
      pure [y']
  | .nil => do let y' ← conv es .nil; pure [y']
  | _ => do
    let y ← rec d x
    let y' ← conv es y
    pure [y']

/-- a list: every element contributes its part -/
def substList (ev : Ev) (rec : Nat → Tree → R Tree) (f d : Nat) (k : Kind) (c : Cat) (a : String) (es : Slot)
    (ks : List Tree) : R Tree := do
  let parts ← ks.mapM (elemPart ev rec f d es)
  -- a typed slice to which nothing was appended is a nil slice: the parent's field stays nil
  if parts.flatten.isEmpty && c == .slice then .ok .nil else
  .ok (.list k c a es parts.flatten)

/-- a node that is not a list (`evalQuasiquoteAst`, the `!canSplice` branch after unwrapping) -/
def substNode (ev : Ev) (rec : Nat → Tree → R Tree) (d : Nat) (u : Tree) : R Tree :=
  match u with
  | .nil => .ok .nil
  | .list _ _ _ _ _ => .error .malformed   -- handled by the caller
  | .node k c a ss ks =>
    if ks.isEmpty then .ok u else
    if k = .unaryExpr ∧ a = opQuasiquote then do
      let b ← bodyOf u
      let e ← rec (d+1) b
      makeQuote2 a e
    else if k = .unaryExpr ∧ a = opUnquote then
      if d ≤ 1 then do
        let b ← bodyOf u
        ev b
      else do
        let b ← bodyOf u
        let e ← rec (d-1) b
        makeQuote2 a e
    else if k = .unaryExpr ∧ a = opUnquoteSplice then .error .malformed
    else do
      let ks' ← (ss.zip ks).mapM (fun (s, x) => match x with
        | .nil => pure .nil
        | _ => do let y ← rec d x; conv s y)
      .ok (.node k c a ss ks')

/-- the substitution: `subst ev fuel depth t` is `t` in which every unquote chain as long as `depth` is
    replaced by the value of its innermost body (spliced into the enclosing list for `~unquote_splice`),
    shorter chains lose one level, `~quasiquote` adds one. -/
def subst (ev : Ev) : Nat → Nat → Tree → R Tree
  | 0, _, _ => .error .fuel
  | f+1, d, t =>
    match t with
    | .nil => .ok .nil
    | .list k c a es ks => substList ev (subst ev f) f d k c a es ks
    | _ =>
      match unwrap true t with
      | .list k c a es ks => substList ev (subst ev f) f d k c a es ks
      | u => substNode ev (subst ev f) d u

/-- `Env.evalQuasiquoteAst` of the classic interpreter is this recursion -/
def qq (ev : Ev) (fuel depth : Nat) (t : Tree) : R Tree := subst ev fuel depth t

/-- `Env.evalQuasiquote(body)` / `Comp.quasiquoteUnary` -/
def quasiEval (ev : Ev) (fuel : Nat) (body : Tree) : R Tree := do
  let toUnwrap := body.size ≤ 1
  let out ← qq ev fuel 1 body
  let n ← toNode out
  .ok (simplify n toUnwrap)

end Quasi
