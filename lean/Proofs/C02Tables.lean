import Model.C02Arms
import Model.C02Once
import Gen.C02VarOpsA
import Gen.C02VarOpsB
import Gen.C02VarOpsC
import Gen.C02VarOpsD
import Gen.C02VarShifts
import Gen.C02VarSet
import Gen.C02PlaceOps
import Gen.C02PlaceShifts
import Gen.C02PlaceSet
import Gen.C02Assignment
import Gen.C02Statement
/-! # C02Tables — kernel-checked obligations over the REGENERATED tables (one per Go function)

* `accept_<fn>`: every entry of the function's table is accepted (`C02Arms.accept`: the path
  classifies and the body is the template body of its class);
* `once_<fn>`: in every entry the place closure, the key closure and the right-hand-side closure
  are applied exactly once, on every path (never under a condition or in a loop);
* `incDec_src`: the source text of `Comp.IncDec` is the text `C02Dispatch.compile` transcribes. -/
namespace C02Tables
open C02Arms
set_option maxRecDepth 100000

theorem accept_varAddConst : acceptAll Gen.C02VarOpsA.varAddConst = true := by decide +kernel
theorem once_varAddConst : C02Once.onceAll Gen.C02VarOpsA.varAddConst = true := by decide +kernel
theorem accept_varAddExpr : acceptAll Gen.C02VarOpsA.varAddExpr = true := by decide +kernel
theorem once_varAddExpr : C02Once.onceAll Gen.C02VarOpsA.varAddExpr = true := by decide +kernel
theorem accept_varSubConst : acceptAll Gen.C02VarOpsA.varSubConst = true := by decide +kernel
theorem once_varSubConst : C02Once.onceAll Gen.C02VarOpsA.varSubConst = true := by decide +kernel
theorem accept_varSubExpr : acceptAll Gen.C02VarOpsA.varSubExpr = true := by decide +kernel
theorem once_varSubExpr : C02Once.onceAll Gen.C02VarOpsA.varSubExpr = true := by decide +kernel
theorem accept_varMulConst : acceptAll Gen.C02VarOpsA.varMulConst = true := by decide +kernel
theorem once_varMulConst : C02Once.onceAll Gen.C02VarOpsA.varMulConst = true := by decide +kernel
theorem accept_varMulExpr : acceptAll Gen.C02VarOpsA.varMulExpr = true := by decide +kernel
theorem once_varMulExpr : C02Once.onceAll Gen.C02VarOpsA.varMulExpr = true := by decide +kernel
theorem accept_varQuoPow2 : acceptAll Gen.C02VarOpsB.varQuoPow2 = true := by decide +kernel
theorem once_varQuoPow2 : C02Once.onceAll Gen.C02VarOpsB.varQuoPow2 = true := by decide +kernel
theorem accept_varQuoConst : acceptAll Gen.C02VarOpsB.varQuoConst = true := by decide +kernel
theorem once_varQuoConst : C02Once.onceAll Gen.C02VarOpsB.varQuoConst = true := by decide +kernel
theorem accept_varQuoExpr : acceptAll Gen.C02VarOpsB.varQuoExpr = true := by decide +kernel
theorem once_varQuoExpr : C02Once.onceAll Gen.C02VarOpsB.varQuoExpr = true := by decide +kernel
theorem accept_varRemConst : acceptAll Gen.C02VarOpsB.varRemConst = true := by decide +kernel
theorem once_varRemConst : C02Once.onceAll Gen.C02VarOpsB.varRemConst = true := by decide +kernel
theorem accept_varRemExpr : acceptAll Gen.C02VarOpsB.varRemExpr = true := by decide +kernel
theorem once_varRemExpr : C02Once.onceAll Gen.C02VarOpsB.varRemExpr = true := by decide +kernel
theorem accept_varAndConst : acceptAll Gen.C02VarOpsC.varAndConst = true := by decide +kernel
theorem once_varAndConst : C02Once.onceAll Gen.C02VarOpsC.varAndConst = true := by decide +kernel
theorem accept_varAndExpr : acceptAll Gen.C02VarOpsC.varAndExpr = true := by decide +kernel
theorem once_varAndExpr : C02Once.onceAll Gen.C02VarOpsC.varAndExpr = true := by decide +kernel
theorem accept_varOrConst : acceptAll Gen.C02VarOpsC.varOrConst = true := by decide +kernel
theorem once_varOrConst : C02Once.onceAll Gen.C02VarOpsC.varOrConst = true := by decide +kernel
theorem accept_varOrExpr : acceptAll Gen.C02VarOpsC.varOrExpr = true := by decide +kernel
theorem once_varOrExpr : C02Once.onceAll Gen.C02VarOpsC.varOrExpr = true := by decide +kernel
theorem accept_varXorConst : acceptAll Gen.C02VarOpsD.varXorConst = true := by decide +kernel
theorem once_varXorConst : C02Once.onceAll Gen.C02VarOpsD.varXorConst = true := by decide +kernel
theorem accept_varXorExpr : acceptAll Gen.C02VarOpsD.varXorExpr = true := by decide +kernel
theorem once_varXorExpr : C02Once.onceAll Gen.C02VarOpsD.varXorExpr = true := by decide +kernel
theorem accept_varAndnotConst : acceptAll Gen.C02VarOpsD.varAndnotConst = true := by decide +kernel
theorem once_varAndnotConst : C02Once.onceAll Gen.C02VarOpsD.varAndnotConst = true := by decide +kernel
theorem accept_varAndnotExpr : acceptAll Gen.C02VarOpsD.varAndnotExpr = true := by decide +kernel
theorem once_varAndnotExpr : C02Once.onceAll Gen.C02VarOpsD.varAndnotExpr = true := by decide +kernel
theorem accept_varShlConst : acceptAll Gen.C02VarShifts.varShlConst = true := by decide +kernel
theorem once_varShlConst : C02Once.onceAll Gen.C02VarShifts.varShlConst = true := by decide +kernel
theorem accept_varShlExpr : acceptAll Gen.C02VarShifts.varShlExpr = true := by decide +kernel
theorem once_varShlExpr : C02Once.onceAll Gen.C02VarShifts.varShlExpr = true := by decide +kernel
theorem accept_varShrConst : acceptAll Gen.C02VarShifts.varShrConst = true := by decide +kernel
theorem once_varShrConst : C02Once.onceAll Gen.C02VarShifts.varShrConst = true := by decide +kernel
theorem accept_varShrExpr : acceptAll Gen.C02VarShifts.varShrExpr = true := by decide +kernel
theorem once_varShrExpr : C02Once.onceAll Gen.C02VarShifts.varShrExpr = true := by decide +kernel
theorem accept_varSetConst : acceptAll Gen.C02VarSet.varSetConst = true := by decide +kernel
theorem once_varSetConst : C02Once.onceAll Gen.C02VarSet.varSetConst = true := by decide +kernel
theorem accept_varSetExpr : acceptAll Gen.C02VarSet.varSetExpr = true := by decide +kernel
theorem once_varSetExpr : C02Once.onceAll Gen.C02VarSet.varSetExpr = true := by decide +kernel
theorem accept_placeAddConst : acceptAll Gen.C02PlaceOps.placeAddConst = true := by decide +kernel
theorem once_placeAddConst : C02Once.onceAll Gen.C02PlaceOps.placeAddConst = true := by decide +kernel
theorem accept_placeAddExpr : acceptAll Gen.C02PlaceOps.placeAddExpr = true := by decide +kernel
theorem once_placeAddExpr : C02Once.onceAll Gen.C02PlaceOps.placeAddExpr = true := by decide +kernel
theorem accept_placeSubConst : acceptAll Gen.C02PlaceOps.placeSubConst = true := by decide +kernel
theorem once_placeSubConst : C02Once.onceAll Gen.C02PlaceOps.placeSubConst = true := by decide +kernel
theorem accept_placeSubExpr : acceptAll Gen.C02PlaceOps.placeSubExpr = true := by decide +kernel
theorem once_placeSubExpr : C02Once.onceAll Gen.C02PlaceOps.placeSubExpr = true := by decide +kernel
theorem accept_placeMulConst : acceptAll Gen.C02PlaceOps.placeMulConst = true := by decide +kernel
theorem once_placeMulConst : C02Once.onceAll Gen.C02PlaceOps.placeMulConst = true := by decide +kernel
theorem accept_placeMulExpr : acceptAll Gen.C02PlaceOps.placeMulExpr = true := by decide +kernel
theorem once_placeMulExpr : C02Once.onceAll Gen.C02PlaceOps.placeMulExpr = true := by decide +kernel
theorem accept_placeQuoConst : acceptAll Gen.C02PlaceOps.placeQuoConst = true := by decide +kernel
theorem once_placeQuoConst : C02Once.onceAll Gen.C02PlaceOps.placeQuoConst = true := by decide +kernel
theorem accept_placeQuoExpr : acceptAll Gen.C02PlaceOps.placeQuoExpr = true := by decide +kernel
theorem once_placeQuoExpr : C02Once.onceAll Gen.C02PlaceOps.placeQuoExpr = true := by decide +kernel
theorem accept_placeRemConst : acceptAll Gen.C02PlaceOps.placeRemConst = true := by decide +kernel
theorem once_placeRemConst : C02Once.onceAll Gen.C02PlaceOps.placeRemConst = true := by decide +kernel
theorem accept_placeRemExpr : acceptAll Gen.C02PlaceOps.placeRemExpr = true := by decide +kernel
theorem once_placeRemExpr : C02Once.onceAll Gen.C02PlaceOps.placeRemExpr = true := by decide +kernel
theorem accept_placeAndConst : acceptAll Gen.C02PlaceOps.placeAndConst = true := by decide +kernel
theorem once_placeAndConst : C02Once.onceAll Gen.C02PlaceOps.placeAndConst = true := by decide +kernel
theorem accept_placeAndExpr : acceptAll Gen.C02PlaceOps.placeAndExpr = true := by decide +kernel
theorem once_placeAndExpr : C02Once.onceAll Gen.C02PlaceOps.placeAndExpr = true := by decide +kernel
theorem accept_placeOrConst : acceptAll Gen.C02PlaceOps.placeOrConst = true := by decide +kernel
theorem once_placeOrConst : C02Once.onceAll Gen.C02PlaceOps.placeOrConst = true := by decide +kernel
theorem accept_placeOrExpr : acceptAll Gen.C02PlaceOps.placeOrExpr = true := by decide +kernel
theorem once_placeOrExpr : C02Once.onceAll Gen.C02PlaceOps.placeOrExpr = true := by decide +kernel
theorem accept_placeXorConst : acceptAll Gen.C02PlaceOps.placeXorConst = true := by decide +kernel
theorem once_placeXorConst : C02Once.onceAll Gen.C02PlaceOps.placeXorConst = true := by decide +kernel
theorem accept_placeXorExpr : acceptAll Gen.C02PlaceOps.placeXorExpr = true := by decide +kernel
theorem once_placeXorExpr : C02Once.onceAll Gen.C02PlaceOps.placeXorExpr = true := by decide +kernel
theorem accept_placeAndnotConst : acceptAll Gen.C02PlaceOps.placeAndnotConst = true := by decide +kernel
theorem once_placeAndnotConst : C02Once.onceAll Gen.C02PlaceOps.placeAndnotConst = true := by decide +kernel
theorem accept_placeAndnotExpr : acceptAll Gen.C02PlaceOps.placeAndnotExpr = true := by decide +kernel
theorem once_placeAndnotExpr : C02Once.onceAll Gen.C02PlaceOps.placeAndnotExpr = true := by decide +kernel
theorem accept_placeShlConst : acceptAll Gen.C02PlaceShifts.placeShlConst = true := by decide +kernel
theorem once_placeShlConst : C02Once.onceAll Gen.C02PlaceShifts.placeShlConst = true := by decide +kernel
theorem accept_placeShlExpr : acceptAll Gen.C02PlaceShifts.placeShlExpr = true := by decide +kernel
theorem once_placeShlExpr : C02Once.onceAll Gen.C02PlaceShifts.placeShlExpr = true := by decide +kernel
theorem accept_placeShrConst : acceptAll Gen.C02PlaceShifts.placeShrConst = true := by decide +kernel
theorem once_placeShrConst : C02Once.onceAll Gen.C02PlaceShifts.placeShrConst = true := by decide +kernel
theorem accept_placeShrExpr : acceptAll Gen.C02PlaceShifts.placeShrExpr = true := by decide +kernel
theorem once_placeShrExpr : C02Once.onceAll Gen.C02PlaceShifts.placeShrExpr = true := by decide +kernel
theorem accept_placeQuoPow2 : acceptAll Gen.C02PlaceShifts.placeQuoPow2 = true := by decide +kernel
theorem once_placeQuoPow2 : C02Once.onceAll Gen.C02PlaceShifts.placeQuoPow2 = true := by decide +kernel
theorem once_placeSetConst : C02Once.onceAll Gen.C02PlaceSet.placeSetConst = true := by decide +kernel
theorem once_placeSetExpr : C02Once.onceAll Gen.C02PlaceSet.placeSetExpr = true := by decide +kernel
theorem once_placeForSideEffects : C02Once.onceAll Gen.C02Assignment.placeForSideEffects = true := by decide +kernel

/-- all accepted, as one statement -/
theorem all_accepted :
    acceptAll Gen.C02VarOpsA.varAddConst = true ∧
    acceptAll Gen.C02VarOpsA.varAddExpr = true ∧
    acceptAll Gen.C02VarOpsA.varSubConst = true ∧
    acceptAll Gen.C02VarOpsA.varSubExpr = true ∧
    acceptAll Gen.C02VarOpsA.varMulConst = true ∧
    acceptAll Gen.C02VarOpsA.varMulExpr = true ∧
    acceptAll Gen.C02VarOpsB.varQuoPow2 = true ∧
    acceptAll Gen.C02VarOpsB.varQuoConst = true ∧
    acceptAll Gen.C02VarOpsB.varQuoExpr = true ∧
    acceptAll Gen.C02VarOpsB.varRemConst = true ∧
    acceptAll Gen.C02VarOpsB.varRemExpr = true ∧
    acceptAll Gen.C02VarOpsC.varAndConst = true ∧
    acceptAll Gen.C02VarOpsC.varAndExpr = true ∧
    acceptAll Gen.C02VarOpsC.varOrConst = true ∧
    acceptAll Gen.C02VarOpsC.varOrExpr = true ∧
    acceptAll Gen.C02VarOpsD.varXorConst = true ∧
    acceptAll Gen.C02VarOpsD.varXorExpr = true ∧
    acceptAll Gen.C02VarOpsD.varAndnotConst = true ∧
    acceptAll Gen.C02VarOpsD.varAndnotExpr = true ∧
    acceptAll Gen.C02VarShifts.varShlConst = true ∧
    acceptAll Gen.C02VarShifts.varShlExpr = true ∧
    acceptAll Gen.C02VarShifts.varShrConst = true ∧
    acceptAll Gen.C02VarShifts.varShrExpr = true ∧
    acceptAll Gen.C02VarSet.varSetConst = true ∧
    acceptAll Gen.C02VarSet.varSetExpr = true ∧
    acceptAll Gen.C02PlaceOps.placeAddConst = true ∧
    acceptAll Gen.C02PlaceOps.placeAddExpr = true ∧
    acceptAll Gen.C02PlaceOps.placeSubConst = true ∧
    acceptAll Gen.C02PlaceOps.placeSubExpr = true ∧
    acceptAll Gen.C02PlaceOps.placeMulConst = true ∧
    acceptAll Gen.C02PlaceOps.placeMulExpr = true ∧
    acceptAll Gen.C02PlaceOps.placeQuoConst = true ∧
    acceptAll Gen.C02PlaceOps.placeQuoExpr = true ∧
    acceptAll Gen.C02PlaceOps.placeRemConst = true ∧
    acceptAll Gen.C02PlaceOps.placeRemExpr = true ∧
    acceptAll Gen.C02PlaceOps.placeAndConst = true ∧
    acceptAll Gen.C02PlaceOps.placeAndExpr = true ∧
    acceptAll Gen.C02PlaceOps.placeOrConst = true ∧
    acceptAll Gen.C02PlaceOps.placeOrExpr = true ∧
    acceptAll Gen.C02PlaceOps.placeXorConst = true ∧
    acceptAll Gen.C02PlaceOps.placeXorExpr = true ∧
    acceptAll Gen.C02PlaceOps.placeAndnotConst = true ∧
    acceptAll Gen.C02PlaceOps.placeAndnotExpr = true ∧
    acceptAll Gen.C02PlaceShifts.placeShlConst = true ∧
    acceptAll Gen.C02PlaceShifts.placeShlExpr = true ∧
    acceptAll Gen.C02PlaceShifts.placeShrConst = true ∧
    acceptAll Gen.C02PlaceShifts.placeShrExpr = true ∧
    acceptAll Gen.C02PlaceShifts.placeQuoPow2 = true :=
  ⟨accept_varAddConst, accept_varAddExpr, accept_varSubConst, accept_varSubExpr, accept_varMulConst, accept_varMulExpr, accept_varQuoPow2, accept_varQuoConst, accept_varQuoExpr, accept_varRemConst, accept_varRemExpr, accept_varAndConst, accept_varAndExpr, accept_varOrConst, accept_varOrExpr, accept_varXorConst, accept_varXorExpr, accept_varAndnotConst, accept_varAndnotExpr, accept_varShlConst, accept_varShlExpr, accept_varShrConst, accept_varShrExpr, accept_varSetConst, accept_varSetExpr, accept_placeAddConst, accept_placeAddExpr, accept_placeSubConst, accept_placeSubExpr, accept_placeMulConst, accept_placeMulExpr, accept_placeQuoConst, accept_placeQuoExpr, accept_placeRemConst, accept_placeRemExpr, accept_placeAndConst, accept_placeAndExpr, accept_placeOrConst, accept_placeOrExpr, accept_placeXorConst, accept_placeXorExpr, accept_placeAndnotConst, accept_placeAndnotExpr, accept_placeShlConst, accept_placeShlExpr, accept_placeShrConst, accept_placeShrExpr, accept_placeQuoPow2⟩

theorem all_once :
    C02Once.onceAll Gen.C02VarOpsA.varAddConst = true ∧
    C02Once.onceAll Gen.C02VarOpsA.varAddExpr = true ∧
    C02Once.onceAll Gen.C02VarOpsA.varSubConst = true ∧
    C02Once.onceAll Gen.C02VarOpsA.varSubExpr = true ∧
    C02Once.onceAll Gen.C02VarOpsA.varMulConst = true ∧
    C02Once.onceAll Gen.C02VarOpsA.varMulExpr = true ∧
    C02Once.onceAll Gen.C02VarOpsB.varQuoPow2 = true ∧
    C02Once.onceAll Gen.C02VarOpsB.varQuoConst = true ∧
    C02Once.onceAll Gen.C02VarOpsB.varQuoExpr = true ∧
    C02Once.onceAll Gen.C02VarOpsB.varRemConst = true ∧
    C02Once.onceAll Gen.C02VarOpsB.varRemExpr = true ∧
    C02Once.onceAll Gen.C02VarOpsC.varAndConst = true ∧
    C02Once.onceAll Gen.C02VarOpsC.varAndExpr = true ∧
    C02Once.onceAll Gen.C02VarOpsC.varOrConst = true ∧
    C02Once.onceAll Gen.C02VarOpsC.varOrExpr = true ∧
    C02Once.onceAll Gen.C02VarOpsD.varXorConst = true ∧
    C02Once.onceAll Gen.C02VarOpsD.varXorExpr = true ∧
    C02Once.onceAll Gen.C02VarOpsD.varAndnotConst = true ∧
    C02Once.onceAll Gen.C02VarOpsD.varAndnotExpr = true ∧
    C02Once.onceAll Gen.C02VarShifts.varShlConst = true ∧
    C02Once.onceAll Gen.C02VarShifts.varShlExpr = true ∧
    C02Once.onceAll Gen.C02VarShifts.varShrConst = true ∧
    C02Once.onceAll Gen.C02VarShifts.varShrExpr = true ∧
    C02Once.onceAll Gen.C02VarSet.varSetConst = true ∧
    C02Once.onceAll Gen.C02VarSet.varSetExpr = true ∧
    C02Once.onceAll Gen.C02PlaceOps.placeAddConst = true ∧
    C02Once.onceAll Gen.C02PlaceOps.placeAddExpr = true ∧
    C02Once.onceAll Gen.C02PlaceOps.placeSubConst = true ∧
    C02Once.onceAll Gen.C02PlaceOps.placeSubExpr = true ∧
    C02Once.onceAll Gen.C02PlaceOps.placeMulConst = true ∧
    C02Once.onceAll Gen.C02PlaceOps.placeMulExpr = true ∧
    C02Once.onceAll Gen.C02PlaceOps.placeQuoConst = true ∧
    C02Once.onceAll Gen.C02PlaceOps.placeQuoExpr = true ∧
    C02Once.onceAll Gen.C02PlaceOps.placeRemConst = true ∧
    C02Once.onceAll Gen.C02PlaceOps.placeRemExpr = true ∧
    C02Once.onceAll Gen.C02PlaceOps.placeAndConst = true ∧
    C02Once.onceAll Gen.C02PlaceOps.placeAndExpr = true ∧
    C02Once.onceAll Gen.C02PlaceOps.placeOrConst = true ∧
    C02Once.onceAll Gen.C02PlaceOps.placeOrExpr = true ∧
    C02Once.onceAll Gen.C02PlaceOps.placeXorConst = true ∧
    C02Once.onceAll Gen.C02PlaceOps.placeXorExpr = true ∧
    C02Once.onceAll Gen.C02PlaceOps.placeAndnotConst = true ∧
    C02Once.onceAll Gen.C02PlaceOps.placeAndnotExpr = true ∧
    C02Once.onceAll Gen.C02PlaceShifts.placeShlConst = true ∧
    C02Once.onceAll Gen.C02PlaceShifts.placeShlExpr = true ∧
    C02Once.onceAll Gen.C02PlaceShifts.placeShrConst = true ∧
    C02Once.onceAll Gen.C02PlaceShifts.placeShrExpr = true ∧
    C02Once.onceAll Gen.C02PlaceShifts.placeQuoPow2 = true ∧
    C02Once.onceAll Gen.C02PlaceSet.placeSetConst = true ∧
    C02Once.onceAll Gen.C02PlaceSet.placeSetExpr = true ∧
    C02Once.onceAll Gen.C02Assignment.placeForSideEffects = true :=
  ⟨once_varAddConst, once_varAddExpr, once_varSubConst, once_varSubExpr, once_varMulConst, once_varMulExpr, once_varQuoPow2, once_varQuoConst, once_varQuoExpr, once_varRemConst, once_varRemExpr, once_varAndConst, once_varAndExpr, once_varOrConst, once_varOrExpr, once_varXorConst, once_varXorExpr, once_varAndnotConst, once_varAndnotExpr, once_varShlConst, once_varShlExpr, once_varShrConst, once_varShrExpr, once_varSetConst, once_varSetExpr, once_placeAddConst, once_placeAddExpr, once_placeSubConst, once_placeSubExpr, once_placeMulConst, once_placeMulExpr, once_placeQuoConst, once_placeQuoExpr, once_placeRemConst, once_placeRemExpr, once_placeAndConst, once_placeAndExpr, once_placeOrConst, once_placeOrExpr, once_placeXorConst, once_placeXorExpr, once_placeAndnotConst, once_placeAndnotExpr, once_placeShlConst, once_placeShlExpr, once_placeShrConst, once_placeShrExpr, once_placeQuoPow2, once_placeSetConst, once_placeSetExpr, once_placeForSideEffects⟩

/-- `Comp.IncDec`: `place++` is compiled as `SetPlace(place, ADD, untyped 1)`, `place--` as SUB -/
theorem incDec_src : Gen.C02Statement.incDecSrc = C02Once.incDecGolden := by decide +kernel

end C02Tables
