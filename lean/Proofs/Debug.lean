import Model.Debug
/-! Helper definitions and lemmas for property C19: the documented stop rule, the simulation between
    the depth rule of the code and the documented rule, the command lookup specification. -/
namespace Debug
open Gen.DebugCmds

/-! ## the documented behaviour of the four resume commands -/

/-- what the user asked for at the last stop (`d` = call depth of that stop) -/
inductive Mode where
  | step              -- "execute a single statement, entering functions"
  | next (d : Nat)    -- "execute a single statement, skipping functions"
  | finish (d : Nat)  -- "run until the end of current function"
  | cont              -- "resume normal execution"
  deriving Repr, DecidableEq

/-- does the documentation promise a stop before statement `e`? -/
def Mode.wants : Mode → Event → Bool
  | .step, _ => true                          -- the next executed statement at any call depth
  | .next d, e => decide (e.depth ≤ d)        -- ... at the same or a shallower call depth
  | .finish d, e => decide (e.depth < d)      -- ... at a shallower call depth
  | .cont, _ => false                         -- only explicit breakpoints

/-- the documented meaning of what a command function returns; `none` = kill -/
def modeOf : Ret → Nat → Option Mode
  | .depthMaxInt, _ => some .step
  | .depthCallPlus 1, d => some (.next d)
  | .depthCallPlus 0, d => some (.finish d)
  | .depthConst 0, _ => some .cont
  | _, _ => none

/-- the results of the five commands that leave the prompt -/
def Documented (r : Ret) : Prop :=
  r = .depthMaxInt ∨ r = .depthCallPlus 1 ∨ r = .depthCallPlus 0 ∨ r = .depthConst 0 ∨ r = .kill

def docAt {π : Type} (ask : π → Ret × π) (i : Nat) (e : Event) (m : Mode) (p : π) : List Out × Mode × π × Bool :=
  if m.wants e && !e.syn then
    match ask p with
    | (r, p') =>
      match modeOf r e.depth with
      | none => ([.at i, .killed], m, p', false)
      | some m' => ([.at i], m', p', true)
  else ([], m, p, true)

def docBp {π : Type} (ask : π → Ret × π) (i : Nat) (e : Event) (m : Mode) (p : π) : List Out × Mode × π × Bool :=
  if e.bp then
    match ask p with
    | (r, p') =>
      match modeOf r e.depth with
      | none => ([.bp i, .killed], m, p', false)
      | some m' => ([.bp i], m', p', true)
  else ([], m, p, true)

def docStep {π : Type} (ask : π → Ret × π) (i : Nat) (e : Event) (m : Mode) (p : π) : List Out × Mode × π × Bool :=
  match docAt ask i e m p with
  | (o1, m1, p1, false) => (o1, m1, p1, false)
  | (o1, m1, p1, true) =>
    match docBp ask i e m1 p1 with
    | (o2, m2, p2, a) => (o1 ++ o2, m2, p2, a)

/-- the documented stops of an execution `tr` (statements numbered from `i`) -/
def docRun {π : Type} (ask : π → Ret × π) : List Event → Nat → Mode → π → List Out × Mode × π × Bool
  | [], _, m, p => ([], m, p, true)
  | e :: es, i, m, p =>
    match docStep ask i e m p with
    | (o, m', p', false) => (o, m', p', false)
    | (o, m', p', true) =>
      match docRun ask es (i + 1) m' p' with
      | (o', m'', p'', a) => (o ++ o', m'', p'', a)

/-- `Run.DebugDepth` that encodes a mode -/
def ddOf : Mode → Nat
  | .step => maxInt
  | .next d => d + 1
  | .finish d => d
  | .cont => 0

theorem maxInt_pos : 0 < maxInt := by decide

theorem stopsAt_ddOf (m : Mode) (e : Event) (h : e.depth < maxInt) : stopsAt (ddOf m) e = m.wants e := by
  cases m with
  | step => simp [stopsAt, ddOf, Mode.wants, h, maxInt_pos]
  | next d =>
    simp only [stopsAt, ddOf, Mode.wants]
    by_cases h1 : e.depth ≤ d
    · have : e.depth < d + 1 := by omega
      simp [h1, this]
    · have : ¬ e.depth < d + 1 := by omega
      simp [h1, this]
  | finish d =>
    simp only [stopsAt, ddOf, Mode.wants]
    by_cases h1 : e.depth < d
    · have : 0 < d := by omega
      simp [h1, this]
    · simp [h1]
  | cont => simp [stopsAt, ddOf, Mode.wants]

theorem depthOf_modeOf (r : Ret) (cd : Nat) (h : Documented r) :
    match modeOf r cd with
    | none => depthOf r cd = none
    | some m => depthOf r cd = some (ddOf m) := by
  rcases h with h | h | h | h | h <;> subst h <;> simp [modeOf, depthOf, ddOf]

def isBlind : Out → Bool
  | .blind _ => true
  | _ => false

def NoBlind (o : List Out) : Prop := ∀ x ∈ o, isBlind x = false

theorem NoBlind_append {a b : List Out} : NoBlind (a ++ b) ↔ NoBlind a ∧ NoBlind b := by
  simp [NoBlind, List.mem_append, or_imp, forall_and]

/-- the `At` phase of the code computes the documented `At` phase -/
theorem atPhase_doc {π : Type} (ask : π → Ret × π) (hask : ∀ p, Documented (ask p).1)
    (i : Nat) (e : Event) (he : e.depth < maxInt) (m : Mode) (st : St π) (hdd : st.dd = ddOf m) :
    (atPhase ask i e st).1 = (docAt ask i e m st.p).1 ∧
    (atPhase ask i e st).2.2 = (docAt ask i e m st.p).2.2.2 ∧
    (atPhase ask i e st).2.1.dd = ddOf (docAt ask i e m st.p).2.1 ∧
    (atPhase ask i e st).2.1.p = (docAt ask i e m st.p).2.2.1 ∧
    (atPhase ask i e st).2.1.floor = st.floor ∧ NoBlind (atPhase ask i e st).1 := by
  unfold atPhase docAt
  rw [hdd, stopsAt_ddOf m e he]
  by_cases hw : (m.wants e && !e.syn) = true
  · simp only [hw, if_true]
    have hd := hask st.p
    have hm := depthOf_modeOf (ask st.p).1 e.depth hd
    cases hmo : modeOf (ask st.p).1 e.depth with
    | none =>
      rw [hmo] at hm
      simp [hm, hdd, NoBlind, isBlind]
    | some m' =>
      rw [hmo] at hm
      simp [hm, NoBlind, isBlind]
  · simp only [hw]
    simp [hdd, NoBlind]

theorem bpPhase_doc {π : Type} (ask : π → Ret × π) (hask : ∀ p, Documented (ask p).1)
    (i : Nat) (e : Event) (m : Mode) (st : St π) (hdd : st.dd = ddOf m) :
    (bpPhase ask i e st).1 = (docBp ask i e m st.p).1 ∧
    (bpPhase ask i e st).2.2 = (docBp ask i e m st.p).2.2.2 ∧
    (bpPhase ask i e st).2.1.dd = ddOf (docBp ask i e m st.p).2.1 ∧
    (bpPhase ask i e st).2.1.p = (docBp ask i e m st.p).2.2.1 ∧ NoBlind (bpPhase ask i e st).1 := by
  unfold bpPhase docBp
  by_cases hb : e.bp = true
  · simp only [hb, if_true]
    have hd := hask st.p
    have hm := depthOf_modeOf (ask st.p).1 e.depth hd
    cases hmo : modeOf (ask st.p).1 e.depth with
    | none =>
      rw [hmo] at hm
      simp [hm, hdd, NoBlind, isBlind]
    | some m' =>
      rw [hmo] at hm
      simp [hm, NoBlind, isBlind]
  · simp only [hb]
    simp [hdd, NoBlind]

/-- one statement: either the model reports a frame outside its scope, or it computes the documented stops -/
theorem stepEvent_doc {π : Type} (ask : π → Ret × π) (hask : ∀ p, Documented (ask p).1)
    (i : Nat) (e : Event) (he : e.depth < maxInt) (m : Mode) (st : St π) (hdd : st.dd = ddOf m) :
    stepEvent ask i e st = ([.blind i], st, false) ∨
    ((stepEvent ask i e st).1 = (docStep ask i e m st.p).1 ∧
     (stepEvent ask i e st).2.2 = (docStep ask i e m st.p).2.2.2 ∧
     (stepEvent ask i e st).2.1.dd = ddOf (docStep ask i e m st.p).2.1 ∧
     (stepEvent ask i e st).2.1.p = (docStep ask i e m st.p).2.2.1 ∧
     NoBlind (stepEvent ask i e st).1) := by
  unfold stepEvent
  by_cases hbl : (decide (0 < st.dd) && decide (e.depth < st.floor)) = true
  · left; simp [hbl]
  · right
    simp only [hbl]
    obtain ⟨a1, a2, a3, a4, _, a6⟩ := atPhase_doc ask hask i e he m st hdd
    unfold docStep
    rcases hA : atPhase ask i e st with ⟨o1, st1, al1⟩
    rcases hD : docAt ask i e m st.p with ⟨d1, m1, p1, dl1⟩
    rw [hA] at a1 a2 a3 a4 a6
    rw [hD] at a1 a2 a3 a4
    simp only at a1 a2 a3 a4 a6
    subst a1 a2
    cases al1 with
    | false => simp [a3, a4, a6]
    | true =>
      simp only
      have hb := bpPhase_doc ask hask i e m1 st1 a3
      rw [a4] at hb
      obtain ⟨b1, b2, b3, b4, b5⟩ := hb
      rcases hB : bpPhase ask i e st1 with ⟨o2, st2, al2⟩
      rcases hE : docBp ask i e m1 p1 with ⟨d2, m2, p2, dl2⟩
      rw [hB] at b1 b2 b3 b4 b5
      rw [hE] at b1 b2 b3 b4
      simp only at b1 b2 b3 b4 b5
      subst b1 b2
      simp [b3, b4, NoBlind_append, a6, b5]

/-- whole executions: the stops of the code are the documented stops, up to the first statement of a
    frame that is not single-stepped (if there is one) -/
theorem run_doc {π : Type} (ask : π → Ret × π) (hask : ∀ p, Documented (ask p).1) :
    ∀ (tr : List Event) (i : Nat) (m : Mode) (st : St π), st.dd = ddOf m → (∀ e ∈ tr, e.depth < maxInt) →
      (NoBlind (run ask tr i st).1 →
        (run ask tr i st).1 = (docRun ask tr i m st.p).1 ∧
        (run ask tr i st).2.2 = (docRun ask tr i m st.p).2.2.2 ∧
        (run ask tr i st).2.1.p = (docRun ask tr i m st.p).2.2.1) ∧
      (∃ pre j rest, ¬ NoBlind (run ask tr i st).1 →
        (run ask tr i st).1 = pre ++ [.blind j] ∧ NoBlind pre ∧ (docRun ask tr i m st.p).1 = pre ++ rest)
  | [], i, m, st, _, _ => by
    simp [run, docRun, NoBlind]
  | e :: es, i, m, st, hdd, hdep => by
    have he : e.depth < maxInt := hdep e (List.mem_cons_self)
    have hes : ∀ x ∈ es, x.depth < maxInt := fun x hx => hdep x (List.mem_cons_of_mem _ hx)
    rcases stepEvent_doc ask hask i e he m st hdd with hbl | ⟨s1, s2, s3, s4, s5⟩
    · -- blind at once
      constructor
      · intro hnb
        exfalso
        have : isBlind (Out.blind i) = false := hnb _ (by simp [run, hbl])
        simp [isBlind] at this
      · refine ⟨[], i, (docRun ask (e :: es) i m st.p).1, fun _ => ?_⟩
        simp [run, hbl, NoBlind]
    · rcases hS : stepEvent ask i e st with ⟨o, st', al⟩
      rcases hD : docStep ask i e m st.p with ⟨od, m', p', ald⟩
      rw [hS] at s1 s2 s3 s4 s5
      rw [hD] at s1 s2 s3 s4
      simp only at s1 s2 s3 s4 s5
      subst s1 s2
      cases al with
      | false =>
        constructor
        · intro _
          simp [run, docRun, hS, hD, s4]
        · refine ⟨[], 0, [], fun h => ?_⟩
          exfalso; apply h
          simpa [run, hS] using s5
      | true =>
        have ih := run_doc ask hask es (i + 1) m' st' s3 hes
        rw [s4] at ih
        obtain ⟨ih1, pre, j, rest, ih2⟩ := ih
        rcases hR : run ask es (i + 1) st' with ⟨o', st'', al'⟩
        rcases hQ : docRun ask es (i + 1) m' p' with ⟨od', m'', p'', ald'⟩
        rw [hR] at ih1 ih2
        rw [hQ] at ih1 ih2
        simp only at ih1 ih2
        constructor
        · intro hnb
          have hnb' : NoBlind o' := by
            have : NoBlind (o ++ o') := by simpa [run, hS, hR] using hnb
            exact (NoBlind_append.mp this).2
          obtain ⟨e1, e2, e3⟩ := ih1 hnb'
          simp [run, docRun, hS, hD, hR, hQ, e1, e2, e3]
        · refine ⟨o ++ pre, j, rest, fun h => ?_⟩
          have hnb' : ¬ NoBlind o' := by
            intro hc
            apply h
            simpa [run, hS, hR] using NoBlind_append.mpr ⟨s5, hc⟩
          obtain ⟨f1, f2, f3⟩ := ih2 hnb'
          refine ⟨?_, ?_, ?_⟩
          · simp [run, hS, hR, f1]
          · exact NoBlind_append.mpr ⟨s5, f2⟩
          · simp [docRun, hD, hQ, f3]

/-! ## the next documented stop is the first statement that matches -/

/-- stop opportunity of statement `e` in mode `m`: the debugger is asked before it, or it is a breakpoint -/
def Mode.hits (m : Mode) (e : Event) : Bool := (m.wants e && !e.syn) || e.bp

theorem docStep_quiet {π : Type} (ask : π → Ret × π) (i : Nat) (e : Event) (m : Mode) (p : π)
    (h : m.hits e = false) : docStep ask i e m p = ([], m, p, true) := by
  simp only [Mode.hits, Bool.or_eq_false_iff] at h
  simp [docStep, docAt, docBp, h.1, h.2]

theorem docStep_hit {π : Type} (ask : π → Ret × π) (i : Nat) (e : Event) (m : Mode) (p : π)
    (h : m.hits e = true) :
    ∃ rest, (docStep ask i e m p).1 = (if m.wants e && !e.syn then Out.at i else Out.bp i) :: rest := by
  by_cases hw : (m.wants e && !e.syn) = true
  · simp only [hw, if_true]
    unfold docStep docAt
    simp only [hw, if_true]
    cases modeOf (ask p).1 e.depth with
    | none => exact ⟨_, rfl⟩
    | some m' =>
      simp only
      rcases docBp ask i e m' (ask p).2 with ⟨o2, m2, p2, a⟩
      exact ⟨o2, rfl⟩
  · have hw' : (m.wants e && !e.syn) = false := by simpa using hw
    have hb : e.bp = true := by
      simp only [Mode.hits, Bool.or_eq_true] at h
      rcases h with h | h
      · exact absurd h hw
      · exact h
    cases hm : modeOf (ask p).1 e.depth <;> simp [docStep, docAt, docBp, hw', hb, hm]

/-- position of the first statement that matches -/
def firstHit (m : Mode) : List Event → Option Nat
  | [] => none
  | e :: es => if m.hits e then some 0 else (firstHit m es).map (· + 1)

theorem docRun_no_hit {π : Type} (ask : π → Ret × π) (m : Mode) (p : π) :
    ∀ (tr : List Event) (i : Nat), firstHit m tr = none → docRun ask tr i m p = ([], m, p, true)
  | [], _, _ => by simp [docRun]
  | e :: es, i, h => by
    by_cases hh : m.hits e = true
    · simp [firstHit, hh] at h
    · have hh' : m.hits e = false := by simpa using hh
      have h' : firstHit m es = none := by
        simp only [firstHit, hh'] at h
        cases hf : firstHit m es with
        | none => rfl
        | some k => simp [hf] at h
      simp [docRun, docStep_quiet ask i e m p hh', docRun_no_hit ask m p es (i + 1) h']

theorem docRun_first_hit {π : Type} (ask : π → Ret × π) (m : Mode) (p : π) :
    ∀ (tr : List Event) (i k : Nat), firstHit m tr = some k →
      ∃ e rest, tr[k]? = some e ∧ m.hits e = true ∧ (∀ j, j < k → ∀ x, tr[j]? = some x → m.hits x = false) ∧
        (docRun ask tr i m p).1 = (if m.wants e && !e.syn then Out.at (i + k) else Out.bp (i + k)) :: rest
  | [], _, _, h => by simp [firstHit] at h
  | e :: es, i, k, h => by
    by_cases hh : m.hits e = true
    · have hk : k = 0 := by simp [firstHit, hh] at h; omega
      subst hk
      obtain ⟨r, hr⟩ := docStep_hit ask i e m p hh
      rcases hS : docStep ask i e m p with ⟨o, m', p', a⟩
      rw [hS] at hr
      simp only at hr
      refine ⟨e, ?_, rfl, hh, fun j hj => absurd hj (by omega), ?_⟩
      · exact if a then r ++ (docRun ask es (i + 1) m' p').1 else r
      · cases a with
        | false => simp [docRun, hS, hr]
        | true =>
          rcases hQ : docRun ask es (i + 1) m' p' with ⟨o', m'', p'', a'⟩
          simp [docRun, hS, hQ, hr]
    · have hh' : m.hits e = false := by simpa using hh
      cases hf : firstHit m es with
      | none => simp [firstHit, hh', hf] at h
      | some k' =>
        have hk : k = k' + 1 := by simp [firstHit, hh', hf] at h; omega
        subst hk
        obtain ⟨x, rest, h1, h2, h3, h4⟩ := docRun_first_hit ask m p es (i + 1) k' hf
        refine ⟨x, rest, by simpa using h1, h2, ?_, ?_⟩
        · intro j hj y hy
          cases j with
          | zero => simp at hy; subst hy; exact hh'
          | succ j' => exact h3 j' (by omega) y (by simpa using hy)
        · have hidx : i + 1 + k' = i + (k' + 1) := by omega
          rw [hidx] at h4
          rcases hQ : docRun ask es (i + 1) m p with ⟨o', m'', p'', a'⟩
          rw [hQ] at h4
          simp only at h4
          simp [docRun, docStep_quiet ask i e m p hh', hQ, h4]

/-! ## command lookup -/

/-- the table invariant `Cmds.Lookup` relies on: every command is filed under the first byte of its name,
    and no two commands share that byte -/
def WellKeyed (tbl : List (Nat × Bytes × Ret)) : Prop :=
  (∀ en ∈ tbl, en.2.1.head? = some en.1) ∧ tbl.Pairwise (fun a b => a.1 ≠ b.1)

theorem isPrefix_head {p n : Bytes} {c : Nat} {rest : Bytes} (hp : p = c :: rest) (h : isPrefix p n = true) :
    n.head? = some c := by
  subst hp
  cases n with
  | nil => simp [isPrefix] at h
  | cons b bs =>
    simp only [isPrefix, Bool.and_eq_true, beq_iff_eq] at h
    simp [h.1]

theorem find_key_unique {tbl : List (Nat × Bytes × Ret)} (hp : tbl.Pairwise (fun a b => a.1 ≠ b.1))
    {en : Nat × Bytes × Ret} (hmem : en ∈ tbl) : tbl.find? (fun x => x.1 == en.1) = some en := by
  induction tbl with
  | nil => cases hmem
  | cons a as ih =>
    rw [List.pairwise_cons] at hp
    rcases List.mem_cons.mp hmem with h | h
    · subst h; simp [List.find?]
    · have hne : a.1 ≠ en.1 := hp.1 en h
      have : (a.1 == en.1) = false := by simpa using hne
      simp only [List.find?, this]
      exact ih hp.2 h

/-- `Cmds.Lookup`: a prefix finds exactly the commands whose name starts with it -- and there is at most one -/
theorem lookupIn_spec (tbl : List (Nat × Bytes × Ret)) (hk : WellKeyed tbl) (pre name : Bytes) (r : Ret) :
    lookupIn tbl pre = some (name, r) ↔
      pre ≠ [] ∧ ∃ k, (k, name, r) ∈ tbl ∧ isPrefix pre name = true := by
  cases pre with
  | nil => simp [lookupIn]
  | cons c rest =>
    simp only [lookupIn]
    constructor
    · intro h
      cases hf : tbl.find? (fun en => en.1 == c) with
      | none => simp [hf] at h
      | some en =>
        rcases en with ⟨k, n, r'⟩
        simp only [hf] at h
        by_cases hpre : isPrefix (c :: rest) n = true
        · simp only [hpre, if_true, Option.some.injEq, Prod.mk.injEq] at h
          obtain ⟨h1, h2⟩ := h
          subst h1 h2
          exact ⟨by simp, k, List.mem_of_find?_eq_some hf, hpre⟩
        · simp [hpre] at h
    · rintro ⟨_, k, hmem, hpre⟩
      have hhead := isPrefix_head rfl hpre
      have hkey := hk.1 _ hmem
      simp only at hkey
      have hkc : k = c := by
        rw [hhead] at hkey
        exact (Option.some.inj hkey).symm
      subst hkc
      have := find_key_unique hk.2 hmem
      simp only at this
      simp [this, hpre]

theorem lookupIn_unique (tbl : List (Nat × Bytes × Ret)) (hk : WellKeyed tbl) (pre : Bytes)
    (a b : Nat × Bytes × Ret) (ha : a ∈ tbl) (hb : b ∈ tbl)
    (hpa : isPrefix pre a.2.1 = true) (hpb : isPrefix pre b.2.1 = true) (hne : pre ≠ []) : a = b := by
  cases pre with
  | nil => exact absurd rfl hne
  | cons c rest =>
    have h1 := hk.1 a ha
    have h2 := hk.1 b hb
    rw [isPrefix_head rfl hpa] at h1
    rw [isPrefix_head rfl hpb] at h2
    have hka : a.1 = c := (Option.some.inj h1).symm
    have hkb : b.1 = c := (Option.some.inj h2).symm
    have fa := find_key_unique hk.2 ha
    have fb := find_key_unique hk.2 hb
    rw [hka] at fa
    rw [hkb] at fb
    rw [fa] at fb
    exact Option.some.inj fb

theorem lookupIn_none (tbl : List (Nat × Bytes × Ret)) (hk : WellKeyed tbl) (pre : Bytes) :
    lookupIn tbl pre = none ↔ pre = [] ∨ ∀ en ∈ tbl, isPrefix pre en.2.1 = false := by
  constructor
  · intro h
    by_cases hp : pre = []
    · exact Or.inl hp
    · right
      intro en hen
      rcases en with ⟨k, n, r⟩
      cases hpre : isPrefix pre n with
      | false => rfl
      | true =>
        have := (lookupIn_spec tbl hk pre n r).mpr ⟨hp, k, hen, hpre⟩
        rw [h] at this
        cases this
  · intro h
    cases hl : lookupIn tbl pre with
    | none => rfl
    | some nr =>
      rcases nr with ⟨n, r⟩
      obtain ⟨hne, k, hmem, hpre⟩ := (lookupIn_spec tbl hk pre n r).mp hl
      rcases h with h | h
      · exact absurd h hne
      · have := h _ hmem
        simp only at this
        rw [hpre] at this
        cases this

/-! ## the concrete prompt only returns documented results -/

theorem cmd_result (tbl_ok : ∀ en ∈ table, en.2.2 = .repl ∨ Documented en.2.2) (src last : Bytes) :
    (cmd src last).1 = .repl ∨ Documented (cmd src last).1 := by
  unfold cmd
  by_cases h : (trim src).isEmpty = true
  · simp [h]
  · simp only [h]
    cases hl : lookup (firstWord (trim src)) with
    | none => simp
    | some nr =>
      rcases nr with ⟨n, r⟩
      simp only
      unfold lookup lookupIn at hl
      cases hw : firstWord (trim src) with
      | nil => simp [hw] at hl
      | cons c rest =>
        simp only [hw] at hl
        cases hf : table.find? (fun en => en.1 == c) with
        | none => simp [hf] at hl
        | some en =>
          rcases en with ⟨k, n', r'⟩
          simp only [hf] at hl
          by_cases hpre : isPrefix (c :: rest) n' = true
          · simp only [hpre, if_true, Option.some.injEq, Prod.mk.injEq] at hl
            have := tbl_ok _ (List.mem_of_find?_eq_some hf)
            simp only at this
            rw [hl.2] at this
            exact this
          · simp [hpre] at hl

theorem replLines_documented (tbl_ok : ∀ en ∈ table, en.2.2 = .repl ∨ Documented en.2.2) :
    ∀ (ls : List Bytes) (last : Bytes) (used : Nat), Documented (replLines ls last used).1
  | [], _, _ => by simp [replLines, Documented]
  | l :: rest, last, used => by
    unfold replLines
    simp only
    have hc := cmd_result tbl_ok (if l.isEmpty then last else l) last
    rcases hcm : cmd (if l.isEmpty = true then last else l) last with ⟨r, last'⟩
    rw [hcm] at hc
    simp only at hc
    cases r with
    | repl => exact replLines_documented tbl_ok rest last' (used + 1)
    | depthConst n => rcases hc with hc | hc; · cases hc
                      · simpa using hc
    | depthMaxInt => simp [Documented]
    | depthCallPlus k => rcases hc with hc | hc; · cases hc
                         · simpa using hc
    | kill => simp [Documented]
    | unknown => rcases hc with hc | hc; · cases hc
                 · rcases hc with h | h | h | h | h <;> cases h

/-! ## transparency -/

theorem runDebug_transparent {σ π : Type} (m : Machine σ) (ask : π → Ret × π) :
    ∀ (n i : Nat) (s : σ) (st : St π), (m.runDebug ask n i s st).2 = false →
      (m.runDebug ask n i s st).1 = m.runPlain n s
  | 0, _, _, _, _ => by simp [Machine.runDebug, Machine.runPlain]
  | n + 1, i, s, st, h => by
    cases hn : m.next s with
    | none => simp [Machine.runDebug, Machine.runPlain, hn]
    | some s' =>
      rcases hs : stepEvent ask i (m.obs s) { st with floor := 0 } with ⟨o, st', a⟩
      cases a with
      | false => simp [Machine.runDebug, hn, hs] at h
      | true =>
        have h' : (m.runDebug ask n (i + 1) s' st').2 = false := by
          simpa [Machine.runDebug, hn, hs] using h
        simpa [Machine.runDebug, Machine.runPlain, hn, hs] using runDebug_transparent m ask n (i + 1) s' st' h'

end Debug
